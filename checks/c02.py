"""C02 - Multithreaded stepping is bit-identical to single-threaded.

Domain : scenes with many constraint islands and many collision pairs (free bodies of mixed geom types scattered over a
         plane, small chains, stacks) x solver x cone x island flag x pool size 1..8 x CPU affinity mask (1, 2, all cores:
         a 1-CPU mask forces preemptive interleaving of the workers; pool 8 on 2 CPUs = oversubscription) x 5-25 steps with
         random controls / applied forces, plus mj_forward and mj_inverse.
Oracle : (a) twin mjData (mj_copyData), one with an engine thread pool attached: after every call all mjData arrays,
         counters, contacts and constraint arrays are bit-identical (unwritten arena elements excused through arena
         poisoning).  (b) the same scenes run in a native runner built with ThreadSanitizer: no data-race report whose stack
         contains a frame of the repo sources.
"""
import os
import subprocess
import tempfile

import numpy as np
from hypothesis import strategies as st

from vf import build as vb
from vf import datacmp as dc
from vf import modelgen as mg
from vf.runner import Violation, WORK

FA, FB = 0xA5, 0x3C


@st.composite
def scenes(draw):
  n = draw(st.integers(6, 28))
  cols = draw(st.integers(2, 6))
  spacing = draw(mg.num(0.12, 0.5))
  opt, optinfo = draw(mg.options(integrators=('Euler', 'implicitfast', 'implicit', 'RK4'), flags=False, islands=True, stress=True,
                                 timestep=(0.001, 0.005), jacobians=('dense', 'sparse', 'auto')))
  bodies = ''
  for i in range(n):
    x = (i % cols) * spacing + draw(mg.num(-0.03, 0.03))
    y = (i // cols % cols) * spacing + draw(mg.num(-0.03, 0.03))
    z = 0.08 + (i // (cols * cols)) * 0.2 + draw(mg.num(0, 0.05))
    g, gt = draw(mg.geom('g%d' % i, small=True, margin=True, density=False))
    kind = draw(st.integers(0, 5))
    if kind == 0:   # small chain instead of a single free body
      g2, _ = draw(mg.geom('h%d' % i, small=True, density=False))
      bodies += ('<body pos="%s"><freejoint/>%s<body pos="0.12 0 0"><joint type="hinge" axis="0 1 0" range="-40 40" limited="true"/>%s</body></body>'
                 % (mg.fmt([x, y, z]), g, g2))
    else:
      bodies += '<body pos="%s"><freejoint/>%s</body>' % (mg.fmt([x, y, z]), g)
  act = ''
  xml = '<mujoco>%s<worldbody><geom name="floor" type="plane" size="5 5 .1"/>%s</worldbody>%s</mujoco>' % (opt, bodies, act)
  return mg.GenModel(xml, dict(option=optinfo, labels=['n=%d' % n]))


def run_pair(ck, lib, gm, sseed, nthread, ncpu, nsteps):
  try:
    m = lib.model_from_xml(gm.xml)
  except Exception:
    ck.discard('compile')
    return None
  a = lib.make_data(m)
  rng = np.random.RandomState(sseed)
  a.qvel[:] = rng.uniform(-0.5, 0.5, m.nv)
  for _ in range(int(rng.randint(0, 30))):
    lib.mj_step(m, a)
  if not np.all(np.isfinite(a.qpos)):
    ck.discard('unstable')
    return None
  b = lib.copy_data(m, a)
  allcpus = sorted(os.sched_getaffinity(0))
  mask = set(allcpus[:ncpu]) if ncpu else set(allcpus)
  os.sched_setaffinity(0, mask)
  try:
    lib.mju_threadpool(b, nthread)
    maxisl, maxcon, multi = 0, 0, False
    calls = ['step'] * nsteps + ['forward', 'inverse', 'step']
    for i, call in enumerate(calls):
      pa, pb = dc.snapshot(lib, m, a), dc.snapshot(lib, m, b)
      for d in (a, b):
        d.xfrc_applied[1:] = np.random.RandomState(sseed + i).uniform(-0.5, 0.5, (m.nbody - 1, 6))
      dc.poison_arena(lib, a, FA)
      dc.poison_arena(lib, b, FB)
      getattr(lib, 'mj_' + call)(m, a)
      getattr(lib, 'mj_' + call)(m, b)
      sa, sb = dc.snapshot(lib, m, a), dc.snapshot(lib, m, b)
      for k in dc.diff(sa, sb):
        base = k.lstrip('@#')
        if k.startswith('@'):
          if dc.unwritten_excused(sa[k], sb[k], FA, FB):
            continue
        elif not (k.startswith('#') or base in dc.TIER_A) and dc.stale_excused(k, pa.get(k), sa[k], pb.get(k), sb[k]):
          continue
        raise Violation('pool of %d threads (cpus=%s): %s differs from the single-threaded run after call %d (%s): %s' % (
            nthread, ncpu or 'all', k, i, call, dc.first_diff(lib, k, sa[k], sb[k])), bucket='threaded:' + base)
      maxisl = max(maxisl, int(a.nisland))
      maxcon = max(maxcon, int(a.ncon))
      if not np.all(np.isfinite(a.qpos)):
        break
  finally:
    lib.mju_threadpool(b, 0)
    os.sched_setaffinity(0, set(allcpus))
  return m, maxisl, maxcon


PGS_RACE_XML = ('<mujoco><option solver="PGS" jacobian="dense" iterations="50" cone="elliptic"/><worldbody><geom type="plane" size="5 5 .1"/>'
                + ''.join('<body pos="%g %g .05"><freejoint/><geom type="box" size=".1 .1 .05"/></body>' % (0.5 * (i % 4), 0.5 * (i // 4))
                          for i in range(12))
                + '</worldbody></mujoco>')
PGS_RACE_FP = 'C02:pgs-island-dense-residual-race'


def pgs_dense_islands(lib, m):
  """input class of the known finding PGS_RACE_FP: PGS solver + island solve + dense constraint Jacobian"""
  sparse = int(m.opt.jacobian) == lib.enums.mjJAC_SPARSE or (int(m.opt.jacobian) == lib.enums.mjJAC_AUTO and m.nv >= 60)
  return (int(m.opt.solver) == lib.enums.mjSOL_PGS and not (int(m.opt.disableflags) & lib.enums.mjDSBL_ISLAND) and not sparse)


def is_pgs_race(report):
  return 'solPGS' in report and 'residual' in report and 'solveIslandTask' in report


def tsan_run(ck, xmls, nthread, nsteps):
  """(b) native TSan runner over a list of scene XMLs; returns list of (xml, report) with repo frames."""
  exe = vb.build_exe('c02_tsan', [os.path.join(vb.NATIVE, 'C02', 'c02_runner.cc')], variant='tsan')
  wd = os.path.join(WORK, 'C02')
  os.makedirs(wd, exist_ok=True)
  bad = []
  for i, xml in enumerate(xmls):
    path = os.path.join(wd, 'scene_%d.xml' % i)
    with open(path, 'w') as f:
      f.write(xml)
    env = dict(os.environ, TSAN_OPTIONS='halt_on_error=0:report_signal_unsafe=0:exitcode=66:history_size=4')
    p = subprocess.run([exe, path, str(nthread), str(nsteps)], capture_output=True, text=True, env=env, timeout=600)
    reports = p.stderr.split('WARNING: ThreadSanitizer')
    for r in reports[1:]:
      if '/src/engine/' in r or '/src/user/' in r or '/plugin/' in r:
        bad.append((xml, 'WARNING: ThreadSanitizer' + r[:3000]))
        break
    if p.returncode not in (0, 66):
      bad.append((xml, 'runner exit code %d: %s' % (p.returncode, p.stderr[-1500:])))
    if 'HASHDIFF' in p.stdout:
      bad.append((xml, 'native runner: threaded trajectory hash differs: ' + p.stdout[-300:]))
  return bad


def main(ck):
  lib = ck.lib('rel')
  ck.rule = ('case = (generated scene with 6-28 free bodies/chains on a plane, options, state seed, pool size 1..8, cpu mask, '
             'steps); non-trivial = nisland>=2 or ncon>16 during the compared calls (mju_dispatch takes the threaded branch with '
             '>=2 tasks); distinct by the whole case. TSan part: scenes run natively under ThreadSanitizer.')
  ck.assumptions = ['OS schedules are sampled (diversified by affinity masks and oversubscription), not enumerated; C03 covers the '
                    'dispatch protocol under a controlled scheduler', 'tactile sensors (sensor plugin) not built: tactileTask not exercised']
  tsan_xmls = []
  excluded = [0]

  def test(case):
    gm, sseed, nthread, ncpu, nsteps = case
    r = run_pair(ck, lib, gm, sseed, nthread, ncpu, nsteps)
    if r is None:
      return
    m, maxisl, maxcon = r
    nt = maxisl >= 2 or maxcon > 16
    if nt and len(tsan_xmls) < (2 if ck.quick else 24):
      if pgs_dense_islands(lib, m):
        excluded[0] += 1      # known finding PGS_RACE_FP: reported by its own probe below, kept out of the sampled TSan scenes
      else:
        tsan_xmls.append(gm.xml)
    ck.case(nontrivial=nt, key=(gm.xml, sseed, nthread, ncpu, nsteps),
            sample=dict(xml=gm.xml[:400], nthread=nthread, cpus=ncpu or 'all', steps=nsteps, max_islands=maxisl, max_contacts=maxcon) if nt else None,
            labels=['threads=%d' % nthread, 'cpus=%s' % (ncpu or 'all'), 'sol:' + gm.info['option'].get('solver', '?'),
                    'islands>=2' if maxisl >= 2 else 'islands<2', 'ncon>16' if maxcon > 16 else 'ncon<=16'])

  strat = st.tuples(scenes(), mg.state_seed(), st.sampled_from([1, 2, 3, 4, 8]), st.sampled_from([1, 2, 0, 0]), st.integers(5, 25))
  ck.run_hypothesis(test, strat, ck.budget(30, 1200), name='threaded-vs-single')
  # TSan
  bad = tsan_run(ck, tsan_xmls, 4, 12 if ck.quick else 40)
  ck.extra['tsan_scenes'] = len(tsan_xmls)
  ck.extra['tsan_scenes_excluded_known_pgs_race'] = excluded[0]
  for xml, rep in bad[:3]:
    ck.violation('ThreadSanitizer / native runner: %s' % rep[:1500], dict(xml=xml, report=rep), bucket='tsan')
  # dedicated probe of the known finding: twelve boxes resting on a plane (twelve islands), PGS, dense Jacobian, pool of 4
  for xml, rep in tsan_run(ck, [PGS_RACE_XML], 4, 12)[:1]:
    if is_pgs_race(rep):
      ck.violation('ThreadSanitizer: island PGS tasks running in parallel read the whole dense efc_force vector in residual() '
                   '(engine_solver.c) while the tasks of the other islands write their own entries: %s' % rep[:600],
                   dict(xml=xml, report=rep), bucket='known:pgs-island-dense-residual-race', fingerprint=PGS_RACE_FP)
    else:
      ck.violation('ThreadSanitizer / native runner (PGS probe scene): %s' % rep[:1500], dict(xml=xml, report=rep), bucket='tsan')


LEVEL = 'exploration'
TECHNIQUE = 'property-based differential testing (threaded vs single-threaded twin mjData, bit-exact) over generated multi-island scenes, pool sizes and CPU masks; ThreadSanitizer runs of the same scenes'
LEVEL_TEXT = '''Generated contact-rich multi-island scenes are stepped twice from the same state, with and without an engine thread pool (sizes 1-8,
affinity masks forcing preemption and oversubscription); every mjData array is compared bit-exactly after every call. A sample of the scenes
is run natively under ThreadSanitizer and any race report with a repo frame is a violation.'''
LEVEL_NOTE = '''OS interleavings are sampled, not enumerated. tactileTask (sensor plugin) is not exercised. TSan covers a small sample in the quick tier.'''
