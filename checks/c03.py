"""C03 - Thread-pool dispatch runs each task exactly once.

Domain : histories over {pool create/resize(n in 0..4), dispatch(ntask in 0..6), destroy} x schedules. The UNMODIFIED
         src/engine/engine_thread.cc is compiled with a pre-included header that redirects std::atomic / std::thread to
         a controlled scheduler (native/sched): every atomic operation is a scheduling point, exactly one thread runs
         at a time, the next thread is taken from a generated choice sequence (Hypothesis) or from a depth-first
         enumeration of all schedules with a bounded number of preemptions.
Oracle : the task function (harness code, with scheduling points inside) logs (dispatch, task, thread, start/end).
         After each mju_dispatch returns: every task id 0..n-1 started exactly once and ended; thread ids in
         [0, pool size]; no invocation outside its dispatch (late/after return); threadlock cleared, stack mark/free
         balanced; scheduler verdicts deadlock / livelock / leaked worker at destroy are violations.
"""
import json
import os
import subprocess

from hypothesis import strategies as st

from vf import build as vb
from vf import schedbuild as sb
from vf.runner import Violation


class Driver:
  def __init__(self, exe):
    self.exe = exe
    self.p = None

  def start(self):
    self.p = subprocess.Popen([self.exe], stdin=subprocess.PIPE, stdout=subprocess.PIPE, text=True, bufsize=1)

  def run(self, line):
    if self.p is None or self.p.poll() is not None:
      self.start()
    self.p.stdin.write(line + '\n')
    self.p.stdin.flush()
    out = self.p.stdout.readline()
    if not out:
      rc = self.p.wait()
      self.p = None
      return dict(violation='driver died rc=%d without verdict' % rc)
    r = json.loads(out)
    if 'ok' not in r:
      try:
        self.p.kill()
      except Exception:
        pass
      self.p.wait()
      self.p = None
    return r

  def close(self):
    if self.p and self.p.poll() is None:
      self.p.stdin.close()
      self.p.wait()


def op_strategy():
  op = st.one_of(st.integers(0, 4).map(lambda n: 'c%d' % n), st.integers(0, 6).map(lambda n: 'd%d' % n),
                 st.integers(2, 6).map(lambda n: 'd%d' % n))
  # most histories start by creating a pool so that dispatches are parallel; some start without one
  first = st.one_of(st.integers(1, 4).map(lambda n: 'c%d' % n), st.integers(1, 3).map(lambda n: 'c%d' % n), op)
  return st.tuples(first, st.lists(op, min_size=1, max_size=5)).map(lambda t: [t[0]] + t[1])


def main(ck):
  exe = sb.build('c03', ['src/engine/engine_thread.cc'], [os.path.join(vb.NATIVE, 'C03', 'c03_main.cc')])
  drv = Driver(exe)
  ck.rule = ('case = (history of cN/dN ops, explicit schedule choice bytes, PRNG tail seed, switch probability); non-trivial = a dispatch with ntask>=2 on a pool >=1 '
             'and >=1 preemption in the run; distinct by (history, schedule). Plus exhaustive DFS over all schedules with '
             'a bounded number of preemptions for small configurations (counted in extra.exhaustive_runs).')
  ck.assumptions = ['sequentially consistent interleavings only (memory_order_relaxed treated as SC)',
                    'scheduling points = atomic operations + 2 points inside each task invocation',
                    'spin loops are recognised by 4 consecutive loads of an unchanged atomic (fair scheduling assumed)']

  def test(case):
    ops, sched, tail, psw = case
    line = 'R %s %s %d %d' % (','.join(ops + ['x']), bytes(sched).hex() or '-', tail, psw)
    r = drv.run(line)
    if 'ok' not in r:
      raise Violation('%s (history %s)' % (r.get('violation') or r.get('verdict'), ','.join(ops)),
                      bucket=(r.get('violation') or r.get('verdict') or 'unknown')[:40])
    nt = r['par_dispatches'] >= 1 and r['preempt'] >= 1
    ck.case(nontrivial=nt, key=(tuple(ops), bytes(sched), tail, psw),
            sample=dict(history=ops, schedule=bytes(sched).hex()[:60], tail_seed=tail, pswitch=psw, preemptions=r['preempt'], sched_points=r['points'],
                        workers_used=r['workers_used']) if nt else None,
            labels=['workers_used=%d' % r['workers_used'], 'par_dispatch' if r['par_dispatches'] else 'seq_only'])

  strat = st.tuples(op_strategy(), st.lists(st.integers(0, 255), min_size=0, max_size=60), st.integers(0, 1 << 30),
                    st.sampled_from([0, 8, 32, 64, 128, 200]))
  ck.run_hypothesis(test, strat, ck.budget(3000, 150000), name='random-schedules')

  # exhaustive enumeration, bounded preemptions (two consecutive dispatches expose lost wake-ups of the alternating signal)
  configs = [('c1,d2,d2,x', 2), ('c1,d3,x', 2), ('c2,d2,d2,x', 1), ('c1,d2,c2,d3,x', 1), ('c2,d3,c1,d2,x', 1), ('c1,d0,d1,d2,x', 2)]
  if not ck.quick:
    configs += [('c2,d3,d2,x', 2), ('c2,d2,d2,d2,x', 1), ('c3,d3,d2,x', 1), ('c1,d3,d3,x', 3), ('c2,d4,x', 2), ('c1,d2,c0,d2,c1,d2,x', 2)]
  total = 0
  ex = []
  for ops, maxpre in configs:
    r = drv.run('E %s %d %d' % (ops, maxpre, 400000))
    if 'ok' not in r:
      ck.violation('%s in exhaustive enumeration of %s (<=%d preemptions)' % (r.get('violation') or r.get('verdict'), ops, maxpre),
                   dict(mode='exhaustive', ops=ops, maxpreempt=maxpre, result=r),
                   bucket='exhaustive:' + (r.get('violation') or r.get('verdict') or '?')[:30])
      continue
    total += r['runs']
    ex.append(dict(history=ops, max_preemptions=maxpre, schedules=r['runs'], complete=bool(r['complete'])))
    ck.evaluations += r['runs']
    ck.nontrivial.update('%s/%d/%d' % (ops, maxpre, i) for i in range(min(r['runs_with_preemption'], 50)))
  ck.extra['exhaustive_configs'] = ex
  ck.extra['exhaustive_runs'] = total
  drv.close()


def replay(ck, body):
  exe = sb.build('c03', ['src/engine/engine_thread.cc'], [os.path.join(vb.NATIVE, 'C03', 'c03_main.cc')])
  drv = Driver(exe)
  c = body['case']
  if c.get('mode') == 'exhaustive':
    r = drv.run('E %s %d 400000' % (c['ops'], c['maxpreempt']))
  else:
    ops, sched, tail, psw = c['case']
    r = drv.run('R %s %s %d %d' % (','.join(ops + ['x']), bytes(sched).hex() or '-', tail, psw))
  if 'ok' not in r:
    ck.violation(str(r), c, bucket='replay')
  ck.case(nontrivial=True, key='a')
  ck.case(nontrivial=True, key='b')
  drv.close()


LEVEL = 'exploration'
TECHNIQUE = 'schedule fuzzing + bounded exhaustive schedule enumeration of the unmodified thread pool under a controlled scheduler (stateless model checking style), Hypothesis-generated histories'
LEVEL_TEXT = '''The real engine_thread.cc runs on real threads serialised by a controlled scheduler; Hypothesis generates operation histories
and schedule choice sequences (shrunk on failure), and small configurations are enumerated exhaustively up to a preemption bound.
Each run is judged by a per-dispatch log oracle (exactly-once, completion before return, thread ids) and scheduler verdicts (deadlock,
livelock, leaked worker).'''
LEVEL_NOTE = '''Sequential consistency assumed (weak-memory reorderings of relaxed accesses are outside the method). mj_markStack/mj_freeStack are
stubbed in this harness. Preemption-bounded enumeration is exhaustive only within the listed configurations and bounds.'''
