"""C04 - Staged and split pipeline calls equal the monolithic call.

Domain : generated models (actuators with activations, sensors of all stages, tendons, equalities, contacts) x states x
         integrator in {Euler, implicit, implicitfast} (+RK4 for the forward-only relations) x inputs (ctrl, qfrc_applied,
         xfrc_applied) set between step1 and step2 x skip stage x skipsensor.
Oracle : bit-exact differential on twin mjData objects (made by mj_copyData, arenas poisoned with different bytes so
         that unwritten arena elements are recognisable):
  (a) {set inputs; mj_step}            == {mj_step1; set inputs; mj_step2}
  (b) full mj_forward, change qvel only -> mj_forwardSkip(POS)  == full mj_forward on the twin
      full mj_forward, change ctrl/forces only -> mj_forwardSkip(VEL) == full mj_forward on the twin;
      same for mj_inverseSkip vs mj_inverse (qacc given)
  (c) mj_forward leaves time/qpos/qvel/act/history/ctrl/applied forces/mocap/eq_active/userdata bit-identical
  (d) with warm-start disabled two consecutive mj_forward calls give identical outputs
"""
import numpy as np
from hypothesis import strategies as st

from vf import datacmp as dc
from vf import modelgen as mg
from vf.runner import Violation

FA, FB = 0xA5, 0x3C
STATE_FIELDS = ['qpos', 'qvel', 'act', 'history', 'ctrl', 'qfrc_applied', 'xfrc_applied', 'mocap_pos', 'mocap_quat',
                'eq_active', 'userdata']
SENSOR_FIELDS = {'sensordata'}
INPUT_FIELDS = ['ctrl', 'qfrc_applied', 'xfrc_applied', 'mocap_pos', 'mocap_quat', 'eq_active', 'userdata']


def keep(d, fields):
  return {f: np.array(getattr(d, f)).copy() for f in fields}


def unchanged(d, before, what, bucket):
  """the call must leave these components of mjData bit-identical (inputs for every call; the whole state for forward/inverse)"""
  for f, x in before.items():
    y = np.array(getattr(d, f))
    if not np.array_equal(y.view(np.uint8), x.view(np.uint8)):
      raise Violation('%s modified %s (first change at flat index %d: %r -> %r)' % (
          what, f, int(np.nonzero(y.ravel() != x.ravel())[0][0]) if np.any(y.ravel() != x.ravel()) else -1,
          x.ravel()[np.nonzero(y.ravel() != x.ravel())[0][0]].item() if np.any(y.ravel() != x.ravel()) else None,
          y.ravel()[np.nonzero(y.ravel() != x.ravel())[0][0]].item() if np.any(y.ravel() != x.ravel()) else None), bucket=bucket + ':' + f)


def cmp_all(lib, m, a, b, pa, pb, where, skip=()):
  sa, sb = dc.snapshot(lib, m, a), dc.snapshot(lib, m, b)
  for k in dc.diff(sa, sb):
    base = k.lstrip('@#')
    if base in skip:
      continue
    if k.startswith('@'):
      if dc.unwritten_excused(sa[k], sb[k], FA, FB):
        continue
      raise Violation('%s: arena array %s differs on written elements (%s)' % (where, base, dc.first_diff(lib, k, sa[k], sb[k])),
                      bucket=where.split(':')[0] + ':' + base)
    if k.startswith('#') or base in dc.TIER_A:
      raise Violation('%s: %s differs (%s)' % (where, k, dc.first_diff(lib, k, sa[k], sb[k])), bucket=where.split(':')[0] + ':' + base)
    if not dc.stale_excused(k, pa.get(k), sa[k], pb.get(k), sb[k]):
      raise Violation('%s: %s differs on elements written by the call (%s)' % (where, k, dc.first_diff(lib, k, sa[k], sb[k])),
                      bucket=where.split(':')[0] + ':' + base)
  return sa, sb


def set_inputs(m, d, seed):
  rng = np.random.RandomState(seed)
  if m.nu:
    d.ctrl[:] = rng.uniform(-2, 2, m.nu)
  if m.nv:
    d.qfrc_applied[:] = rng.uniform(-1, 1, m.nv)
  d.xfrc_applied[1:] = rng.uniform(-1, 1, (m.nbody - 1, 6))


def prepared(lib, m, sseed, nsettle):
  d = lib.make_data(m)
  mg.apply_state(lib, m, d, sseed)
  for _ in range(nsettle):
    lib.mj_step(m, d)
  if not np.all(np.isfinite(d.qpos)) or not np.all(np.isfinite(d.qvel)) or dc.warning_numbers(lib, d).sum() > 0:
    return None
  return d


def run_case(ck, lib, case):
  from vf import mj
  try:
    return _run_case(ck, lib, case)
  except mj.MjError as e:
    # the generated model/state makes the engine raise (singular inertia, diverged state): not an equivalence matter.
    # Both twins run the same pipeline functions; an error on the unchanged tree is a property of the input.
    if any(t in str(e) for t in ('rank-deficient', 'diagonal element too small', 'Cholesky', 'stack overflow', 'unstable')):
      ck.discard('engine-error:' + str(e).split(':')[0][:30])
      return
    raise


def _run_case(ck, lib, case):
  gm, sseed, nsettle, iseed, rel, skipsensor = case
  try:
    m = lib.model_from_xml(gm.xml)
  except Exception:
    ck.discard('compile')
    return
  E = lib.enums
  integ = int(m.opt.integrator)
  a = prepared(lib, m, sseed, nsettle)
  if a is None:
    ck.discard('unstable')
    return
  labels = ['rel:' + rel, 'int:%d' % integ]
  if m.nmocap and iseed % 2:
    # a non-unit mocap_quat is accepted user input (mj_kinematics normalises a local copy): written right before the compared
    # calls so that every relation also covers "the call leaves this state component alone"
    a.mocap_quat[:] = a.mocap_quat * np.random.RandomState(iseed).uniform(0.5, 2.0, (m.nmocap, 1))
    labels.append('mocap_quat-nonunit')
  nefc_seen = 0
  if rel == 'step12':
    if integ == E.mjINT_RK4:
      m.opt.integrator = E.mjINT_EULER   # documented: mj_step2 falls back to Euler for RK4, relation stated for Euler/implicit
    b = lib.copy_data(m, a)
    for i in range(3):
      pa, pb = dc.snapshot(lib, m, a), dc.snapshot(lib, m, b)
      dc.poison_arena(lib, a, FA)
      dc.poison_arena(lib, b, FB)
      set_inputs(m, a, iseed + i)
      ina = keep(a, INPUT_FIELDS)
      lib.mj_step(m, a)
      lib.mj_step1(m, b)
      set_inputs(m, b, iseed + i)
      inb = keep(b, INPUT_FIELDS)
      lib.mj_step2(m, b)
      if not (dc.warning_numbers(lib, a).sum() or dc.warning_numbers(lib, b).sum()):
        unchanged(a, ina, 'mj_step', 'inputs')
        unchanged(b, inb, 'mj_step2', 'inputs')
      if dc.warning_numbers(lib, a).sum() or dc.warning_numbers(lib, b).sum():
        # a bad-state warning fired: autoreset wipes inputs set before mj_step but not those set after mj_step1
        # (documented reset semantics, property C30) -> the equivalence is only claimed for regular steps
        ck.discard('warning-during-compared-step')
        return
      cmp_all(lib, m, a, b, pa, pb, 'step12: step %d' % i)
      nefc_seen = max(nefc_seen, int(a.nefc))
  elif rel in ('skipPOS', 'skipVEL', 'invPOS', 'invVEL'):
    inv = rel.startswith('inv')
    lib.mj_forward(m, a)
    if inv:
      lib.mj_inverse(m, a)
    b = lib.copy_data(m, a)
    rng = np.random.RandomState(iseed)
    for d in (a, b):
      if rel.endswith('POS'):
        if m.nv:
          d.qvel[:] = np.random.RandomState(iseed).uniform(-1, 1, m.nv)
      else:
        set_inputs(m, d, iseed)
        if inv and m.nv:
          d.qacc[:] = d.qacc + np.random.RandomState(iseed + 7).uniform(-1, 1, m.nv)
    pa, pb = dc.snapshot(lib, m, a), dc.snapshot(lib, m, b)
    stage = E.mjSTAGE_POS if rel.endswith('POS') else E.mjSTAGE_VEL
    # the twin recomputes everything (arena rebuilt -> poison it); the skip call reuses its arena
    dc.poison_arena(lib, b, FB)
    # "the full call" = the same entry point with no stage skipped (and the same skipsensor argument: sensors also
    # trigger lazily evaluated arrays such as subtree_linvel/cacc, so both sides must agree on whether they run)
    sta, stb = keep(a, STATE_FIELDS), keep(b, STATE_FIELDS)
    if inv:
      lib.mj_inverseSkip(m, a, stage, skipsensor)
      lib.mj_inverseSkip(m, b, E.mjSTAGE_NONE, skipsensor)
    else:
      lib.mj_forwardSkip(m, a, stage, skipsensor)
      lib.mj_forwardSkip(m, b, E.mjSTAGE_NONE, skipsensor)
    # forward / inverse (skipped or not) compute derived quantities only: the state and the inputs stay bit-identical
    unchanged(a, sta, 'mj_%sSkip(stage)' % ('inverse' if inv else 'forward'), 'pure')
    unchanged(b, stb, 'mj_%sSkip(NONE)' % ('inverse' if inv else 'forward'), 'pure')
    skip = ()
    # mjContact.H ("cone Hessian, set by mj_constraintUpdate") is solver scratch: it is written only for an elliptic contact in
    # the middle (cone) zone when the Newton solver asks for it. Elsewhere the skip side legitimately keeps the H of its earlier
    # pass while the twin's freshly created contact holds zeros -> H is compared only where this call defines it.
    for d in (a, b):
      for i in range(int(d.ncon)):
        adr = int(d.contact['efc_address'][i])
        defined = (int(m.opt.solver) == E.mjSOL_NEWTON and adr >= 0 and int(d.efc_state[adr]) == E.mjCNSTRSTATE_CONE)
        if not defined:
          d.contact['H'][i] = 0
    # unwritten arena elements of the skip side keep the bytes of its first full pass: only the twin carries FB
    sa, sb = dc.snapshot(lib, m, a), dc.snapshot(lib, m, b)
    for k in dc.diff(sa, sb):
      base = k.lstrip('@#')
      if base in skip:
        continue
      if k.startswith('@'):
        xa = np.frombuffer(sa[k] or b'', dtype=np.uint8)
        xb = np.frombuffer(sb[k] or b'', dtype=np.uint8)
        if len(xa) == len(xb) and np.all(xb[xa != xb] == FB):
          continue   # twin never wrote these elements
        raise Violation('%s: arena array %s differs (%s)' % (rel, base, dc.first_diff(lib, k, sa[k], sb[k])), bucket=rel + ':' + base)
      if k.startswith('#') or base in dc.TIER_A:
        raise Violation('%s: %s differs (%s)' % (rel, k, dc.first_diff(lib, k, sa[k], sb[k])), bucket=rel + ':' + base)
      if not dc.stale_excused(k, pa.get(k), sa[k], pb.get(k), sb[k]):
        raise Violation('%s: %s differs on written elements (%s)' % (rel, k, dc.first_diff(lib, k, sa[k], sb[k])), bucket=rel + ':' + base)
    nefc_seen = int(a.nefc)
    labels.append('skipsensor=%d' % skipsensor)
  elif rel == 'pure':
    before = {f: getattr(a, f).copy() for f in STATE_FIELDS}
    t0 = a.time
    for call in ('mj_forward', 'mj_forward', 'mj_inverse'):
      getattr(lib, call)(m, a)
      if a.time != t0:
        raise Violation('%s changed time' % call, bucket='pure:time')
      for f in STATE_FIELDS:
        x = getattr(a, f)
        if not np.array_equal(x.view(np.uint8), before[f].view(np.uint8)):
          raise Violation('%s modified state component %s' % (call, f), bucket='pure:' + f)
    nefc_seen = int(a.nefc)
  elif rel == 'idem':
    m.opt.disableflags = int(m.opt.disableflags) | int(E.mjDSBL_WARMSTART)
    dc.poison_arena(lib, a, FA)
    lib.mj_forward(m, a)
    b = lib.copy_data(m, a)
    pa, pb = dc.snapshot(lib, m, a), dc.snapshot(lib, m, b)
    dc.poison_arena(lib, b, FB)
    lib.mj_forward(m, b)
    sa, sb = dc.snapshot(lib, m, a), dc.snapshot(lib, m, b)
    for k in dc.diff(sa, sb):
      base = k.lstrip('@#')
      if k.startswith('@'):
        xa = np.frombuffer(sa[k] or b'', dtype=np.uint8)
        xb = np.frombuffer(sb[k] or b'', dtype=np.uint8)
        if len(xa) == len(xb) and np.all((xb[xa != xb] == FB) & (xa[xa != xb] == FA)):
          continue
        raise Violation('idem: arena array %s differs between 1st and 2nd mj_forward' % base, bucket='idem:' + base)
      if not dc.stale_excused(k, pa.get(k), sa[k], pb.get(k), sb[k]) or k.startswith('#') or base in dc.TIER_A:
        raise Violation('idem: %s differs between 1st and 2nd mj_forward (warmstart disabled)' % k, bucket='idem:' + base)
    nefc_seen = int(a.nefc)
  nt = nefc_seen > 0 and (m.nu > 0 or m.nsensor > 0)
  ck.case(nontrivial=nt, key=(gm.xml, sseed, nsettle, iseed, rel, skipsensor),
          sample=dict(xml=gm.xml[:500], relation=rel, nefc=nefc_seen, nu=int(m.nu), nsensor=int(m.nsensor)) if nt else None,
          labels=labels + (['efc'] if nefc_seen else ['noefc']))


def strategy():
  models = mg.models(max_bodies=5, sensors=True, mocap=True, plane=None, history=True,
                     opt_kwargs=dict(flags=True, fluid=True, stress=True))
  return st.tuples(models, mg.state_seed(), st.integers(0, 20), st.integers(0, 1 << 20),
                   st.sampled_from(['step12', 'step12', 'skipPOS', 'skipVEL', 'invPOS', 'invVEL', 'pure', 'idem']),
                   st.integers(0, 1))


def _case_from_json(c):
  return (mg.GenModel(c[0]['xml'], dict(option={}, labels=[])), int(c[1]), int(c[2]), int(c[3]), c[4], int(c[5]))


def replay(ck, body):
  lib = ck.lib('rel')
  try:
    run_case(ck, lib, _case_from_json(body['case']['case']))
  except Violation as e:
    ck.violation('Violation: %s' % e, body['case'], bucket=e.bucket)
  ck.nontrivial.update(['replay-a', 'replay-b'])


def main(ck):
  lib = ck.lib('rel')
  ck.rule = ('case = (generated model, state seed, settle steps, input seed, relation in {step12, skipPOS, skipVEL, invPOS, '
             'invVEL, pure, idem}, skipsensor); non-trivial = nefc>0 in the compared call and the model has actuators or '
             'sensors; distinct by the whole case')
  ck.assumptions = ['sleep disabled (documented: stage separation is violated with sleeping)', 'mjcb_control unset',
                    'RK4 models run the step1/step2 relation with Euler (documented fallback)']

  def test(case):
    run_case(ck, lib, case)
  ck.run_hypothesis(test, strategy(), ck.budget(300, 8000), name='split-pipeline')


LEVEL = 'exploration'
TECHNIQUE = 'property-based differential testing: monolithic vs staged/split pipeline calls on twin mjData, bit-exact comparison of all arrays'
LEVEL_TEXT = '''Hypothesis generates models/states/inputs; each case runs one of the documented equivalences (step == step1+step2 with
inputs set in between; forwardSkip/inverseSkip with unchanged earlier-stage inputs == full call; mj_forward pure w.r.t. state;
idempotent without warm start) on twin mjData objects and compares every array bit-exactly.'''
LEVEL_NOTE = '''Elements written by neither side are excused (arena poisoning / unchanged-since-before rule); sleep disabled per docs.
Trusted: verification build + reflection.'''
