"""C05 - Time integration follows the documented schemes.

Domain : generated contact-free models (joint/tendon/actuator damping incl. polynomial, stateful actuators of every
         generated dynamics type with actrange/actearly, ball/free joints, joint limits) x random states x integrator
         {Euler, implicit, implicitfast, RK4} x eulerdamp/damper/actuation flags x timestep.
Oracle : numpy re-implementation of the documented update rules (computation/index.rst eq_semimplicit,
         eq_implicit_update, Integrators, Stateful actuators): run mj_forward on a copy, read M (mj_fullM),
         qfrc_smooth, qfrc_constraint, qacc, ctrl/act, predict (v', q', act', time') and compare with mj_step on a twin.
           Euler       v' = v + h (M + h diag(b))^-1 (qfrc_smooth+qfrc_constraint), b = d(joint damping force)/dv
                       (b == 0 or eulerdamp/damper disabled: v' = v + h a);  q' = q (+) h v'
           implicit    v' = v + h (M - h D)^-1 (...) with D = mjd_smooth_vel(bias=1) (its correctness is C25's job)
           implicitfast  D without the RNE term; documented symmetrisation or the lower-triangle reading are both
                       accepted; standalone free bodies use the exact bias derivative (== implicit on those dofs)
           RK4         classical tableau by own calls of mj_forward at the three intermediate states
         time' == time + h exactly; activations: integrator/filter Euler, filterexact analytic, clamp to actrange;
         quaternions stay unit.
Non-trivial: model has a quaternion joint, an activation or damping, and the update moves the state by > 1e3*tolerance.
"""
import numpy as np
from hypothesis import strategies as st

from vf import gen_smooth as gs
from vf import modelgen as mg
from vf.oracle import dyn, kin
from vf.runner import Violation

EPS = np.finfo(np.float64).eps
K_V = 200          # velocity update, scale cond(Mhat)*(|v| + h|a|)     (worst observed ~1.7 eps*cond, thorough)
K_Q = 64           # position update given the velocity (quaternion exp), scale (1+|q|)  (worst observed ~0.6 eps)
K_ACT = 16         # activation update (observed: bit-exact)
COND_MAX = 1e8
INTEGRATORS = ('Euler', 'RK4', 'implicit', 'implicitfast')


@st.composite
def model_strategy(draw, quick):
  integ = draw(st.sampled_from(INTEGRATORS))
  fl = {}
  for f in ('eulerdamp', 'damper', 'actuation', 'spring'):
    if draw(st.integers(0, 4 if f == 'damper' else 7)) == 0:
      fl[f] = 'disable'
  fl['contact'] = 'disable'
  h = draw(mg.num(0.0005, 0.02, 4))
  medium = ''
  if draw(st.integers(0, 3)) == 0:
    medium = ' density="%s" viscosity="%s"' % (mg.fmt(draw(mg.num(0, 1000, 0))), mg.fmt(draw(mg.num(0, 1, 3))))
  opt = '<option timestep="%s" integrator="%s"%s><flag%s/></option>' % (mg.fmt(h), integ, medium, ''.join(' %s="%s"' % kv for kv in fl.items()))
  gm = draw(gs.smooth_models(max_bodies=4 if quick else 8, max_joints=2, tendons=True, actuators=True, opt=opt,
                             stateful_actuators=True, joint_kwargs=dict(frictionloss=False)))
  # reach: Euler implicit damping that comes ONLY from actuator damping (every joint damping zero, eulerdamp/damper enabled)
  if integ == 'Euler' and gm.info.get('hs_joints') and draw(st.integers(0, 2)) == 0:
    import xml.etree.ElementTree as ET
    root = ET.fromstring(gm.xml)
    for j in root.find('worldbody').iter('joint'):
      j.attrib.pop('damping', None)
    flag = root.find('option').find('flag')
    for f in ('eulerdamp', 'damper', 'actuation'):
      flag.attrib.pop(f, None)
    act = root.find('actuator')
    if act is None:
      act = ET.SubElement(root, 'actuator')
    jn = draw(st.sampled_from(gm.info['hs_joints']))
    dmp = mg.fmt(draw(mg.num(0.05, 2))) if draw(st.booleans()) else '%s %s %s' % (mg.fmt(draw(mg.num(0, 1))), mg.fmt(draw(mg.num(0.01, 0.5))), mg.fmt(draw(mg.num(0, 0.2))))
    ET.SubElement(act, 'motor', name='adamp', joint=jn, gear=mg.fmt(draw(mg.num(-3, 3, 1)) or 2.0), damping=dmp)
    gm.xml = ET.tostring(root, encoding='unicode')
    gm.info['labels'] = sorted(set(gm.info['labels']) | {'euler:actuator-damping-only'})
  if medium:
    gm.info['labels'] = sorted(set(gm.info['labels']) | {'fluid'})
  gm.info['integrator'] = integ
  gm.info['flags'] = fl
  return gm


def dense_D(m, d):
  nv = m.nv
  D = np.zeros((nv, nv))
  nnz, adr, col, val = np.array(m.D_rownnz), np.array(m.D_rowadr), np.array(m.D_colind), np.array(d.qDeriv)
  for i in range(nv):
    D[i, col[adr[i]:adr[i] + nnz[i]]] = val[adr[i]:adr[i] + nnz[i]]
  return D


def main(ck):
  lib = ck.lib('rel')
  E = lib.enums
  worst = {}
  stats = dict(implicitfast_sym=0, implicitfast_lower=0, implicitfast_both=0)

  def track(name, r):
    if r > worst.get(name, -1):
      worst[name] = float(r)

  def ratio(a, b, scale, tol):
    a = np.asarray(a, dtype=np.float64)
    b = np.asarray(b, dtype=np.float64)
    if a.size == 0:
      return 0.0
    return float((np.abs(a - b) / (tol * (np.asarray(scale, dtype=np.float64) + 1e-300))).max())

  def close(name, a, b, scale, tol, what, bucket):
    r = ratio(a, b, scale, tol)
    track(name, r)
    if not r <= 1:
      a = np.asarray(a, dtype=np.float64)
      b = np.asarray(b, dtype=np.float64)
      i = int(np.argmax(np.abs(a - b) / (np.asarray(scale, dtype=np.float64) + 1e-300) + 0 * a))
      raise Violation('%s: engine %.15g vs predicted %.15g at index %d (max ratio to tolerance %.3g)\nengine   %s\npredicted %s' % (
          what, a.ravel()[i], b.ravel()[i], i, r, a, b), bucket=bucket)

  ck.rule = ('gen_smooth models (1-4 bodies quick / 1-8 thorough; damping, polynomial damping, tendon damping, actuator '
             'damping/armature, stateful actuators, ball/free joints, limits) x integrator x flags x timestep in [5e-4, 2e-2] x '
             'random state; non-trivial = (quaternion joint or activation or damping) and the predicted update changes '
             'qvel or act by > 1e3*tolerance; distinct by (xml, state seed)')
  ck.assumptions = [
      'implicitfast: the documentation says D is symmetrised, the code keeps the lower triangle of the (RNE-free) qDeriv; '
      'both readings are computed and either is accepted (they differ only for unsymmetric RNE-free D; counted in '
      'extra.implicitfast_*)',
      'D is the engine\'s own mjd_smooth_vel output (C25 checks it against finite differences)',
      'cond(M - hD) > 1e8: velocity assertion skipped (label illconditioned)',
      'RK4 positions use one manifold step with the weighted stage velocities (the only reading of "q + h sum b_i k_i" '
      'that the engine API offers); muscle/user dynamics and plugins are not generated']

  def act_next(m, dd, act, act_dot, h):
    """Documented activation update (Stateful actuators): Euler for integrator/filter, analytic for filterexact; clamp."""
    out = act.copy()
    for a in range(int(m.nactuator)):
      n = int(m.actuator_actnum[a])
      if n == 0:
        continue
      adr = int(m.actuator_actadr[a])
      dt_ = int(m.actuator_dyntype[a])
      for j in range(adr, adr + n):
        if dt_ == E.mjDYN_FILTEREXACT:
          tau = max(float(m.actuator_dynprm[a][0]), E.mjMINVAL)
          out[j] = act[j] + act_dot[j] * tau * (1 - np.exp(-h / tau))
        else:
          out[j] = act[j] + h * act_dot[j]
        if bool(m.actuator_actlimited[a]):
          lo, hi = m.actuator_actrange[a]
          out[j] = min(max(out[j], lo), hi)
    return out

  def act_dot_ref(m, dd):
    """act_dot from the documented dynamics: integrator u, filter/filterexact (u - w)/tau (u clamped to ctrlrange)."""
    out = np.zeros(m.na)
    for a in range(int(m.nactuator)):
      n = int(m.actuator_actnum[a])
      if n == 0:
        continue
      adr = int(m.actuator_actadr[a]) + n - 1
      u = float(dd.ctrl[int(m.actuator_ctrladr[a])])
      if bool(m.actuator_ctrllimited[int(m.actuator_ctrladr[a])]):
        lo, hi = m.actuator_ctrlrange[int(m.actuator_ctrladr[a])]
        u = min(max(u, lo), hi)
      dt_ = int(m.actuator_dyntype[a])
      if dt_ == E.mjDYN_INTEGRATOR:
        out[adr] = u
      elif dt_ in (E.mjDYN_FILTER, E.mjDYN_FILTEREXACT):
        out[adr] = (u - float(dd.act[adr])) / max(float(m.actuator_dynprm[a][0]), E.mjMINVAL)
      else:
        return None
    return out

  def test(case):
    gm, seed = case
    try:
      m = lib.model_from_xml(gm.xml)
    except Exception:
      ck.discard('compile')
      return
    nv, na = m.nv, m.na
    if nv == 0:
      ck.discard('nv=0')
      return
    integ, fl = gs.opt_info(lib, m)
    h = float(m.opt.timestep)
    d0 = lib.make_data(m)
    mg.apply_state(lib, m, d0, seed, vel_scale=3.0, pos_scale=0.8)
    d0.time = float(seed % 997) * 0.125
    t0 = float(d0.time)
    S = kin.snap(m)
    labels = gs.brief(gm.labels(), ('damping:', 'act:', 'euler:')) + gs.classify(lib, m) + ['int:' + integ] + ['flag:%s-off' % f for f in fl if fl[f] == 'disable' and f != 'contact']

    # ---- engine: one step on a twin
    d1 = lib.copy_data(m, d0)
    lib.mj_step(m, d1)
    if lib.warnings():
      labels.append('engine-warning')
      ck.case(nontrivial=False, key=(gm.xml, seed), labels=labels)
      return
    # ---- documented flag semantics (metamorphic): with the damper flag disabled (springs still on) damping must not enter
    # the update in any form -> the step equals the step of the same model with every damping coefficient set to zero
    if 'damper' in fl and 'spring' not in fl:
      mz = lib.copy_model(m)
      for name in ('dof_damping', 'dof_dampingpoly', 'tendon_damping', 'tendon_dampingpoly', 'actuator_damping', 'actuator_dampingpoly'):
        arr = getattr(mz, name)
        if arr.size:
          arr[...] = 0
      dz = lib.copy_data(mz, d0)
      lib.mj_step(mz, dz)
      had = any(np.any(np.array(getattr(m, name)) != 0) for name in ('dof_damping', 'dof_dampingpoly', 'tendon_damping', 'tendon_dampingpoly',
                                                                       'actuator_damping', 'actuator_dampingpoly'))
      if had:
        labels.append('damper-off-vs-zero-damping')
      for fld in ('qvel', 'qpos', 'act'):
        a_, b_ = np.array(getattr(d1, fld)), np.array(getattr(dz, fld))
        close('damper-flag-' + fld, a_, b_, 1 + np.abs(b_).max() if b_.size else 1.0, 64 * EPS,
              'damper flag disabled: %s after mj_step vs the same model with all damping coefficients zero (%s)' % (fld, integ), 'damper-flag-' + integ)
    # ---- reference: forward on another twin, then the documented update
    dr = lib.copy_data(m, d0)
    lib.mj_forward(m, dr)
    q, v = np.array(dr.qpos), np.array(dr.qvel)
    act = np.array(dr.act)
    a0 = np.array(dr.qacc)
    M = lib.fullM(m, dr)
    wM = np.linalg.eigvalsh(M)
    if not wM[0] > 1e-10 * wM[-1]:
      ck.discard('singular-model')
      return
    f = np.array(dr.qfrc_smooth) + np.array(dr.qfrc_constraint)
    actuation = 'actuation' not in fl
    adot = np.array(dr.act_dot)
    if na and actuation:
      ref_adot = act_dot_ref(m, dr)
      if ref_adot is not None:
        close('act_dot', adot, ref_adot, 1 + np.abs(ref_adot), K_ACT * EPS, 'act_dot vs documented activation dynamics', 'act-dot')

    cond = 1.0
    ill = False
    vnew = None
    alt = None
    if integ == 'Euler':
      k = kin.fk(S, q)
      dl, dp, _, _ = dyn.damping_coefs(S, k)
      b = np.array([dyn.poly_force_deriv(dl[i], dp[i], v[i], True) for i in range(nv)])
      implicit_damp = ('eulerdamp' not in fl) and ('damper' not in fl) and bool(np.any(b != 0))
      if implicit_damp:
        Mh = M + h * np.diag(b)
        cond = np.linalg.cond(Mh)
        vnew = v + h * np.linalg.solve(Mh, f)
        labels.append('euler:implicit-damping')
      else:
        cond = np.linalg.cond(M)
        vnew = v + h * a0
        labels.append('euler:explicit')
      qnew = None
    elif integ in ('implicit', 'implicitfast'):
      lib.mjd_smooth_vel(m, dr, 1)
      Dfull = dense_D(m, dr)
      if integ == 'implicit':
        Mh = M - h * Dfull
        cond = np.linalg.cond(Mh)
        vnew = v + h * np.linalg.solve(Mh, f)
      else:
        lib.mjd_smooth_vel(m, dr, 0)
        Dn = dense_D(m, dr)
        Dsym = 0.5 * (Dn + Dn.T)
        Dlow = np.tril(Dn) + np.tril(Dn, -1).T
        # standalone free bodies: exact bias derivative on their 6x6 block (documented), decoupled from the rest
        free_blocks = []
        for j in range(m.njnt):
          b_ = int(m.jnt_bodyid[j])
          if int(m.jnt_type[j]) == E.mjJNT_FREE and not S.children[b_]:
            free_blocks.append(int(m.jnt_dofadr[j]))

        def solve_with(Dx):
          Mh_ = M - h * Dx
          for a_ in free_blocks:
            sl = slice(a_, a_ + 6)
            Mh_[sl, :] = 0
            Mh_[:, sl] = 0
            Mh_[sl, sl] = M[sl, sl] - h * Dfull[sl, sl]
          return Mh_, v + h * np.linalg.solve(Mh_, f)
        Mh, vnew = solve_with(Dsym)
        _, alt = solve_with(Dlow)
        cond = np.linalg.cond(Mh)
        if free_blocks:
          labels.append('implicitfast:free-body-block')
        if np.abs(Dn - Dn.T).max() > 1e-12 * (1 + np.abs(Dn).max()):
          labels.append('implicitfast:unsymmetric-D')
    else:   # RK4
      Acoef = [[0.5], [0.0, 0.5], [0.0, 0.0, 1.0]]
      Bcoef = [1 / 6, 1 / 3, 1 / 3, 1 / 6]
      K_v = [v.copy()]          # stage velocities
      K_a = [a0.copy()]         # stage accelerations
      K_w = [adot.copy()]       # stage activation derivatives
      ds = lib.copy_data(m, d0)
      for i in range(3):
        dq = sum(c * kv for c, kv in zip(Acoef[i], K_v))
        da = sum(c * ka for c, ka in zip(Acoef[i], K_a))
        dw = sum(c * kw for c, kw in zip(Acoef[i], K_w)) if na else None
        qs = q.copy()
        lib.mj_integratePos(m, qs, np.ascontiguousarray(dq), h)
        ds.qpos[:] = qs
        ds.qvel[:] = v + h * da
        if na:
          ds.act[:] = act + h * dw
        ds.time = t0 + h * sum(Acoef[i])
        lib.mj_forward(m, ds)
        K_v.append(np.array(ds.qvel))
        K_a.append(np.array(ds.qacc))
        K_w.append(np.array(ds.act_dot))
      vq = sum(b_ * kv for b_, kv in zip(Bcoef, K_v))
      vnew = v + h * sum(b_ * ka for b_, ka in zip(Bcoef, K_a))
      adot = sum(b_ * kw for b_, kw in zip(Bcoef, K_w)) if na else adot
      qnew = kin.integrate_pos(S, q, vq, h)
      cond = np.linalg.cond(M)
    ill = not cond < COND_MAX
    if integ != 'RK4':
      qnew = kin.integrate_pos(S, q, np.array(d1.qvel), h)     # position rule given the engine's new velocity

    # ---- compare
    v1, q1 = np.array(d1.qvel), np.array(d1.qpos)
    vscale = cond * (np.abs(v).max() + h * np.abs(a0).max() + h * np.abs(np.linalg.solve(M, np.abs(f))).max() + 1e-300)
    if ill:
      labels.append('illconditioned')
    else:
      r1 = ratio(v1, vnew, vscale, K_V * EPS)
      if alt is not None:
        r2 = ratio(v1, alt, vscale, K_V * EPS)
        if r1 <= 1 and r2 <= 1:
          stats['implicitfast_both'] += 1
        elif r1 <= 1:
          stats['implicitfast_sym'] += 1
          labels.append('implicitfast:matches-symmetrised-only')
        elif r2 <= 1:
          stats['implicitfast_lower'] += 1
          labels.append('implicitfast:matches-lower-triangle-only')
        r1 = min(r1, r2)
      track('qvel:' + integ, r1)
      if not r1 <= 1:
        raise Violation('%s velocity update: engine %s vs documented rule %s (ratio to tolerance %.3g, cond %.3g, h=%g)' % (
            integ, v1, vnew, r1, cond, h), bucket='qvel-' + integ)
    if integ != 'RK4' or not ill:
      close('qpos:' + integ, q1, qnew, 1 + np.abs(q).max() + h * np.abs(v1).max(), (K_Q if integ != 'RK4' else K_V * cond) * EPS,
            '%s position update (q (+) h v_new on the manifold)' % integ, 'qpos-' + integ)
    if integ != 'RK4':
      # semi-implicit: positions must use the NEW velocity
      qold = kin.integrate_pos(S, q, v, h)
      if np.abs(qold - qnew).max() > 1e3 * K_Q * EPS * (1 + np.abs(q).max()):
        labels.append('new-vs-old-velocity-distinguishable')
    if float(d1.time) != t0 + h:
      raise Violation('time after step %.17g != %.17g + %.17g' % (d1.time, t0, h), bucket='time')
    if na:
      want = act_next(m, dr, act, adot, h) if actuation else act
      close('act', np.array(d1.act), want, 1 + np.abs(act) + h * np.abs(adot), K_ACT * EPS * (cond if integ == 'RK4' else 1),
            'activation update', 'act-' + integ)
      for a in range(int(m.nactuator)):
        if actuation and int(m.actuator_actnum[a]) and bool(m.actuator_actlimited[a]):
          adr = int(m.actuator_actadr[a])
          lo, hi = m.actuator_actrange[a]
          x = float(d1.act[adr])
          if not lo <= x <= hi:
            raise Violation('activation %d = %.17g outside actrange [%g, %g] after the step' % (a, x, lo, hi), bucket='actrange')
          if x in (lo, hi):
            labels.append('act-clamped')
    for j in range(m.njnt):
      t = int(m.jnt_type[j])
      if t in (E.mjJNT_FREE, E.mjJNT_BALL):
        pa = int(m.jnt_qposadr[j]) + (3 if t == E.mjJNT_FREE else 0)
        nrm = float(np.linalg.norm(q1[pa:pa + 4]))
        track('quat-norm', abs(nrm - 1) / (4 * EPS))
        if abs(nrm - 1) > 4 * EPS:
          raise Violation('quaternion of joint %d has norm %.17g after the step' % (j, nrm), bucket='quat-norm')

    has = ('m:jnt:ball' in labels or 'm:jnt:free' in labels or na > 0 or bool(np.any(np.array(m.dof_damping) > 0)))
    moved = (np.abs(v1 - v).max() > 1e3 * K_V * EPS * vscale) or (na and np.abs(np.array(d1.act) - act).max() > 1e3 * K_ACT * EPS)
    ck.case(nontrivial=bool(has and moved and not ill), key=(gm.xml, seed),
            sample=dict(xml=gm.xml, seed=seed, integrator=integ, h=h, cond=float(cond), na=na, dv=float(np.abs(v1 - v).max())),
            labels=labels)

  ck.run_hypothesis(test, st.tuples(model_strategy(ck.quick), mg.state_seed()), ck.budget(500, 8000), name='main')
  ck.extra['worst_ratio_of_tolerance'] = {k_: float('%.3g' % v) for k_, v in worst.items()}
  ck.extra['tolerances'] = dict(K_V=K_V, K_Q=K_Q, K_ACT=K_ACT, COND_MAX=COND_MAX)
  ck.extra.update(stats)


replay = gs.make_replay(main)

LEVEL = 'exploration'
TECHNIQUE = ('property-based testing against a numpy re-implementation of the documented integrator update rules '
             '(reference model), comparing mj_step on a twin mjData; classical RK4 re-derived with own stage evaluations')
LEVEL_TEXT = '''Random models x states x integrators x flags x timesteps: the state after mj_step is compared with the update predicted
from the documentation using the engine's own forward-dynamics outputs (M, forces, accelerations, activation rates),
with cond-scaled eps tolerances; time, activation clamping and quaternion norms are checked exactly. Sampled.'''
LEVEL_NOTE = '''Trusted: numpy/LAPACK, ctypes reflection, verification build; D for the implicit integrators is the engine's own analytic
derivative (checked against finite differences in C25). implicitfast accepts both documented readings of the
symmetrisation. Not covered: muscle/dcmotor/pid/user activation dynamics, flex (effective-metric pipeline), sleeping,
sensor/ctrl history buffers, plugins.'''
