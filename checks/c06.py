"""C06 - Inertia, bias force and inverse dynamics are mutually consistent.

Domain : generated contact-free kinematic trees (all joint types, several joints per body, branching, joint/tendon/
         actuator armature, rotated inertial frames) x random (qpos on the manifold, qvel, acceleration a).
Oracle : numpy reference written from the documentation (vf/oracle/kin.py, dyn.py): M = sum_b J_b' I_b J_b + armature
         terms from own forward kinematics/Jacobians; textbook world-frame Newton-Euler by joint-by-joint propagation
         of frame velocities/accelerations.  Plus internal relations: mj_fullM symmetric SPD, mj_mulM == M x,
         stored L'DL factors rebuild M, mj_solveM inverts mj_mulM, sparse structure == ancestor chains,
         qfrc_bias == mj_rne(0) (+ tendon-armature bias), mj_rne(1,a) == rigid-body M a + mj_rne(0).
Non-trivial: nv >= 3 with branching or a quaternion joint, and M has an off-diagonal entry above tolerance.
"""
import numpy as np
from hypothesis import strategies as st

from vf import gen_smooth as gs
from vf import modelgen as mg
from vf.oracle import dyn, kin
from vf.runner import Violation

EPS = np.finfo(np.float64).eps
# Scaled tolerances |a-b| <= K*eps*scale.  Calibrated on the unchanged tree (seeds 1-5, thorough): worst observed
# ratios are recorded in the evidence (extra.worst_ratio_in_eps); K is ~100x the worst.
K_M = 5e3        # M entries vs oracle, scale dyn.mass_matrix_scale      (worst observed ~ 45 eps)
K_MUL = 256      # mj_mulM vs dense product, scale |M||x|            (worst observed ~ 2.5 eps)
K_LDL = 128      # L'DL rebuild vs M, scale * cond                   (worst ~ 0.1 eps*cond)
K_SOLVE = 128    # solve residuals, scale cond(M)*|x|                (worst ~ 0.9 eps*cond)
K_RNE = 2e3      # bias / rne vs oracle, scale = dyn.rne return_scale  (worst ~ 22 eps)
K_ID = 1e3       # engine-internal identities (same data, different summation order)
COND_MAX = 1e8
FD_TENDON = 1e-6  # step for d/dt of the oracle tendon Jacobian (tendon-armature bias); tolerance 1e-6 relative


def dense_pattern(m):
  nv = m.nv
  par = np.array(m.dof_parentid)
  P = np.zeros((nv, nv), dtype=bool)
  for i in range(nv):
    j = i
    while j >= 0:
      P[i, j] = P[j, i] = True
      j = int(par[j])
  return P


@st.composite
def model_strategy(draw, quick):
  gm = draw(_base_strategy(quick))
  # reach: a "simple" body (world child, leaf, aligned inertial frame, axis-aligned joints through the origin: flywheel /
  # linear stage / gimbal-free combinations) driven by geared actuators with rotor armature and optional joint armature
  if draw(st.integers(0, 2)) == 0:
    import xml.etree.ElementTree as ET
    root = ET.fromstring(gm.xml)
    wb = root.find('worldbody')
    b = ET.SubElement(wb, 'body', name='simple', pos='%s %s %s' % tuple(mg.fmt(draw(mg.num(-1, 1, 1))) for _ in range(3)))
    axes = ['1 0 0', '0 1 0', '0 0 1']
    nslide = draw(st.integers(0, 2))
    kinds = ['slide'] * nslide + (['hinge'] if draw(st.booleans()) or nslide == 0 else [])
    used = draw(st.permutations(axes))
    jn = []
    for i, kd in enumerate(kinds):
      a = dict(name='sj%d' % i, type=kd, axis=used[i])
      if draw(st.integers(0, 2)) == 0:
        a['armature'] = mg.fmt(draw(mg.num(0.01, 0.3)))
      ET.SubElement(b, 'joint', **a)
      jn.append('sj%d' % i)
    gt = draw(st.sampled_from(['sphere', 'box']))
    ET.SubElement(b, 'geom', type=gt, size='0.1' if gt == 'sphere' else '0.1 0.15 0.2', contype='0', conaffinity='0')
    act = root.find('actuator')
    if act is None:
      act = ET.SubElement(root, 'actuator')
    for j in jn:
      if draw(st.integers(0, 3)) > 0:
        ET.SubElement(act, 'motor', name='am_' + j, joint=j, gear=mg.fmt(draw(mg.num(-20, 20, 0)) or 3.0),
                      armature=mg.fmt(draw(mg.num(0.0001, 0.01, 4))))
    gm.xml = ET.tostring(root, encoding='unicode')
    gm.info['labels'] = sorted(set(gm.info['labels']) | {'simple-body-with-actuator-armature'})
  # reach: a spatial tendon with armature on a 2-link chain appended after the other bodies (its dof chain does not start at
  # dof 0), from a world site to the tip, with sparse Jacobians -> exercises the sparse, chain-compressed paths of
  # mj_tendon / mj_tendonDot / mj_tendonArmature
  if draw(st.integers(0, 2)) == 0:
    import xml.etree.ElementTree as ET
    root = ET.fromstring(gm.xml)
    wb = root.find('worldbody')
    ET.SubElement(wb, 'site', name='tw', pos=mg.fmt([draw(mg.num(-0.5, 0.5)) for _ in range(3)]))
    def axis():
      a = [draw(st.integers(-2, 2)) for _ in range(3)]
      return mg.fmt(a if any(a) else [0, 1, 0])
    l1 = ET.SubElement(wb, 'body', name='tl1', pos=mg.fmt([draw(mg.num(-0.5, 0.5)) for _ in range(3)]))
    ET.SubElement(l1, 'joint', name='tj1', type=draw(st.sampled_from(['hinge', 'slide', 'ball'])), axis=axis())
    ET.SubElement(l1, 'geom', type='capsule', size='0.04 0.15', pos='0.1 0 0', contype='0', conaffinity='0')
    l2 = ET.SubElement(l1, 'body', name='tl2', pos=mg.fmt([draw(mg.num(0.1, 0.4)), draw(mg.num(-0.2, 0.2)), draw(mg.num(-0.2, 0.2))]))
    ET.SubElement(l2, 'joint', name='tj2', type=draw(st.sampled_from(['hinge', 'hinge', 'slide'])), axis=axis(),
                  pos=mg.fmt([draw(mg.num(-0.1, 0.1)) for _ in range(3)]))
    ET.SubElement(l2, 'geom', type='box', size='0.05 0.08 0.12', pos='0 0.1 0', contype='0', conaffinity='0')
    ET.SubElement(l2, 'site', name='tt', pos=mg.fmt([draw(mg.num(-0.2, 0.2)) for _ in range(3)]))
    ten = root.find('tendon')
    if ten is None:
      ten = ET.SubElement(root, 'tendon')
    ET.SubElement(ten, 'spatial', name='tarm', armature=mg.fmt(draw(mg.num(0.02, 0.5)))).extend(
        [ET.Element('site', site='tw'), ET.Element('site', site='tt')])
    root.find('option').set('jacobian', draw(st.sampled_from(['sparse', 'sparse', 'dense'])))
    gm.xml = ET.tostring(root, encoding='unicode')
    gm.info['labels'] = sorted(set(gm.info['labels']) | {'late-chain-tendon-armature'})
  return gm


def _base_strategy(quick):
  return gs.smooth_models(max_bodies=6 if quick else 12, max_joints=3, actuators=True, tendons=True,
                          stateful_actuators=False, cameras=False,
                          joint_kwargs=dict(limits=False, frictionloss=False),
                          opt_kwargs=dict(integrators=('Euler',), solvers=('Newton',), cones=('pyramidal',),
                                          flags=False, islands=False))


F1_XML = ('<mujoco><worldbody><body><joint type="hinge" axis="0 1 0"/><geom size="0.1" pos="0.3 0 0"/><site name="s1" pos="0.3 0 0.1"/></body>'
          '<body pos="1 0 0"><joint type="hinge" axis="0 1 0"/><geom size="0.1" pos="-0.3 0 0"/><site name="s2" pos="-0.3 0 0.2"/></body></worldbody>'
          '<tendon><spatial armature="0.5"><site site="s1"/><site site="s2"/></spatial></tendon></mujoco>')
F2_XML = '<mujoco><worldbody><body><joint type="hinge" axis="0 1 0" armature="0.3"/><geom size="0.1" pos="0.3 0 0"/></body></worldbody></mujoco>'


def probes(ck, lib):
  """Deterministic probes for the reported deviations that the generated stream excludes by construction."""
  from vf import mj
  # F1: tendon armature coupling two kinematic trees: documented kinetic energy 1/2 a (J v)^2 needs M_01 = a J_0 J_1
  try:
    m = lib.model_from_xml(F1_XML)
  except mj.MjError:
    m = None          # a compiler that rejects such tendons has nothing to truncate
  if m is not None:
    d = lib.make_data(m)
    d.qpos[:] = [0.3, -0.4]
    lib.mj_forward(m, d)
    M = lib.fullM(m, d)
    J = np.array(d.ten_J)[:2]
    want = 0.5 * J[0] * J[1]
    if abs(want) > 1e-6 and abs(M[0, 1] - want) > 1e-9:
      ck.violation('tendon armature across two trees: mj_fullM[0,1] = %.12g, documented a*J0*J1 = %.12g (coupling dropped: M keeps the '
                   'tree sparsity pattern only)' % (M[0, 1], want), dict(xml=F1_XML, qpos=[0.3, -0.4]),
                   bucket='probe-tendon-armature-cross-branch', fingerprint='C06:tendon-armature-cross-branch-truncated')
    ck.label('probe:F1')
  # F2: statement "Newton-Euler with an acceleration a equals M a + bias" with joint armature
  m = lib.model_from_xml(F2_XML)
  d = lib.make_data(m)
  d.qpos[:] = [0.2]
  d.qvel[:] = [1.0]
  lib.mj_forward(m, d)
  r0, r1 = np.zeros(1), np.zeros(1)
  lib.mj_rne(m, d, 0, r0)
  d.qacc[:] = [2.0]
  lib.mj_rne(m, d, 1, r1)
  M = lib.fullM(m, d)
  want = M[0, 0] * 2.0 + r0[0]
  if abs(r1[0] - want) > 1e-9:
    ck.violation('mj_rne(flg_acc=1, a=2) = %.12g but M a + mj_rne(0) = %.12g (joint armature 0.3 not included)' % (r1[0], want),
                 dict(xml=F2_XML, qpos=[0.2], qvel=[1.0], qacc=[2.0]), bucket='probe-rne-armature',
                 fingerprint='C06:rne-acc-omits-armature')
  ck.label('probe:F2')


def main(ck):
  lib = ck.lib('rel')
  if not getattr(ck, '_replaying', False):
    probes(ck, lib)
  worst = {}

  cur = {}
  worst_case = {}

  def track(name, ratio):
    if ratio > worst.get(name, 0):
      worst[name] = float(ratio)
      worst_case[name] = dict(cur, ratio=float(ratio))

  def close(name, a, b, scale, K, what, bucket):
    a = np.asarray(a, dtype=np.float64)
    b = np.asarray(b, dtype=np.float64)
    scale = np.asarray(scale, dtype=np.float64) + 1e-300
    r = np.abs(a - b) / (EPS * scale)
    if r.size == 0:
      return
    track(name, r.max())
    if not np.all(r <= K):
      i = np.unravel_index(int(np.argmax(r)), r.shape)
      raise Violation('%s: engine %.17g vs reference %.17g at %s (|diff|=%.3g = %.3g eps*scale, allowed %g)' % (
          what, a[i], b[i], i, abs(a[i] - b[i]), r[i], K), bucket=bucket)

  ck.rule = ('modelgen/gen_smooth contact-free trees (1-6 bodies quick, 1-12 thorough; free/ball/hinge/slide, up to 3 '
             'joints per body, joint+tendon+actuator armature, rotated inertial frames) x random state and acceleration; '
             'non-trivial = nv>=3 with branching or a ball/free joint and an off-diagonal |M_ij| > 1e-6*sqrt(M_ii M_jj); '
             'distinct by (xml, state seed)')
  ck.assumptions = [
      'mj_rne(flg_acc=1) is compared with (M - armature terms)*a + mj_rne(0): the engine omits joint/tendon armature '
      'from mj_rne although the API text says "M(q)*qacc + C" (reported as finding, not alarmed)',
      'tendon armature whose Jacobian couples dofs that are not ancestor-related cannot be stored in the tree-sparse M; '
      'such cases (label tenarm-crossbranch) compare M on the representable pattern only (reported as finding)',
      'cond(M) > 1e8: solve/factor assertions skipped (label illconditioned)']

  def test(case):
    gm, seed = case
    cur.update(xml=gm.xml, seed=seed)
    try:
      m = lib.model_from_xml(gm.xml)
    except Exception:
      ck.discard('compile')
      return
    nv = m.nv
    if nv == 0:
      ck.discard('nv=0')
      return
    d = lib.make_data(m)
    rng = mg.apply_state(lib, m, d, seed, vel_scale=3.0, ctrl=False, forces=False)
    lib.mj_fwdPosition(m, d)     # no constraint solve: degenerate (singular-M) models are legal inputs here
    lib.mj_fwdVelocity(m, d)
    S = kin.snap(m)
    k = kin.fk(S, np.array(d.qpos))
    qvel = np.array(d.qvel)
    labels = gs.brief(gm.labels(), ('armature:free', 'tendon:', 'simple-body', 'late-chain')) + gs.classify(lib, m)

    # ---- (a) M: symmetric, SPD, equals the reference
    M = lib.fullM(m, d)
    if not np.array_equal(M, M.T):
      raise Violation('mj_fullM result not symmetric', bucket='fullM-sym')
    Mr, Ma = dyn.mass_matrix(S, k, parts=True)
    Mo = Mr + Ma
    sc = dyn.mass_matrix_scale(S, k)
    P = dense_pattern(m)
    simple = np.array(m.dof_simplenum) > 0
    cross = np.abs(Ma * ~P).max() > 0 if nv else False
    wo = np.linalg.eigvalsh(Mo)
    degenerate_simple = bool(np.any(simple)) and not wo[0] > 1e-10 * wo[-1]
    if degenerate_simple:
      # redundant dofs on a body the compiler classified as "simple" (e.g. two collinear, axis-aligned slide joints):
      # the true M is singular (outside the documented assumption "M is always invertible"), the engine stores its
      # diagonal only. Counted and reported, not judged.
      labels.append('carved:singular-simple-body')
      ck.case(nontrivial=False, key=(gm.xml, seed), labels=labels)
      return
    if cross:
      labels.append('tenarm-crossbranch')
      close('M', M[P], Mo[P], sc[P], K_M, 'inertia matrix entry (tree pattern)', 'M-vs-reference')
      if np.abs(M[~P]).max() != 0:
        raise Violation('M has non-zero entries outside the tree pattern', bucket='M-pattern')
    else:
      close('M', M, Mo, sc, K_M, 'inertia matrix entry', 'M-vs-reference')
    w = np.linalg.eigvalsh(M)
    cond = w[-1] / w[0] if w[0] > 0 else np.inf
    if not w[0] > 0 and not w[0] > -K_M * EPS * w[-1]:
      raise Violation('M not positive definite: min eigenvalue %.3g (max %.3g)' % (w[0], w[-1]), bucket='M-spd')
    ill = not (cond < COND_MAX)
    if ill:
      labels.append('illconditioned')
    else:
      try:
        np.linalg.cholesky(M)
      except np.linalg.LinAlgError:
        raise Violation('Cholesky of mj_fullM failed although cond=%.3g' % cond, bucket='M-spd')

    # ---- sparse structure: row i = ancestor chain of dof i (diagonal last); simple dofs: diagonal only
    rownnz, rowadr, colind = np.array(m.M_rownnz), np.array(m.M_rowadr), np.array(m.M_colind)
    par = np.array(m.dof_parentid)
    for i in range(nv):
      chain = []
      j = i
      while j >= 0:
        chain.append(j)
        j = int(par[j])
      want = [i] if simple[i] else chain[::-1]
      got = colind[rowadr[i]:rowadr[i] + rownnz[i]].tolist()
      if got != want:
        raise Violation('M sparsity row %d: colind %s, ancestor chain %s' % (i, got, want), bucket='M-structure')
    if int(rownnz.sum()) != int(m.nC):
      raise Violation('sum(M_rownnz)=%d != nC=%d' % (rownnz.sum(), m.nC), bucket='M-structure')

    # ---- (b) mj_mulM == M x
    X = rng.uniform(-1, 1, (3, nv))
    for x in X:
      res = np.zeros(nv)
      lib.mj_mulM(m, d, res, np.ascontiguousarray(x))
      close('mulM', res, M @ x, np.abs(M) @ np.abs(x), K_MUL, 'mj_mulM vs mj_fullM product', 'mulM')

    # ---- (c) stored factorisation: L'DL rebuilds M; solveM inverts
    qLD = np.array(d.qLD)
    Dinv = np.array(d.qLDiagInv)
    L = np.eye(nv)
    D = np.zeros(nv)
    for i in range(nv):
      a, n = rowadr[i], rownnz[i]
      D[i] = qLD[a + n - 1]
      for t in range(n - 1):
        L[i, colind[a + t]] = qLD[a + t]
    if not ill:
      close('qLDiagInv', Dinv * D, np.ones(nv), np.ones(nv), 16, 'qLDiagInv * diag(D)', 'factor-diag')
      close('LDL', L.T @ np.diag(D) @ L, M, sc * cond, K_LDL, "L'DL rebuilt from qLD vs M", 'factor-rebuild')
      Y = np.ascontiguousarray(M.copy())
      Z = np.zeros((nv, nv))
      lib.mj_solveM(m, d, Z, Y, nv)
      close('solveM-I', Z, np.eye(nv), np.ones((nv, nv)) * cond, K_SOLVE, 'mj_solveM(M columns) vs identity', 'solveM')
      for x in X:
        y = np.zeros(nv)
        lib.mj_mulM(m, d, y, np.ascontiguousarray(x))
        z = np.zeros(nv)
        lib.mj_solveM(m, d, z, y, 1)
        close('solveM-mulM', z, x, cond * np.abs(x).max() * np.ones(nv), K_SOLVE, 'mj_solveM(mj_mulM(x)) vs x', 'solveM')

    # ---- (d) bias force
    r0 = np.zeros(nv)
    lib.mj_rne(m, d, 0, r0)
    ref0, sc0 = dyn.rne(S, k, qvel, None, return_scale=True)
    close('rne0', r0, ref0, sc0 + 1e-12, K_RNE, 'mj_rne(flg_acc=0) vs reference Newton-Euler', 'rne0-vs-reference')
    ta = dyn.armature_terms(S, k)[1]
    bias = np.array(d.qfrc_bias)
    # known engine deviation (reported, see C07): mj_jacDot/mj_tendonDot are wrong for a ball joint that is followed by
    # another joint in the same body; the tendon-armature bias inherits it. Carved out by structure, not by tolerance.
    jt_ = np.array(m.jnt_type)
    ball_not_last = [j for j in range(m.njnt) if jt_[j] == lib.enums.mjJNT_BALL and
                     j != int(m.body_jntadr[int(m.jnt_bodyid[j])]) + int(m.body_jntnum[int(m.jnt_bodyid[j])]) - 1]
    carve = False
    if np.any(ta != 0) and ball_not_last:
      _, Jt = kin.tendon(S, k)
      for j in ball_not_last:
        va = int(m.jnt_dofadr[j])
        if np.any(Jt[ta != 0][:, va:va + 3] != 0):
          carve = True
    if carve:
      labels.append('carved:tendon-bias-ball-then-joint')
    elif np.any(ta != 0):
      tb = dyn.tendon_armature_bias(S, k, qvel, FD_TENDON)
      # finite-difference reference: relative 1e-6 of the armature term scale
      _, J = kin.tendon(S, k)
      tsc = sum(ta[t] * np.abs(J[t]) * (np.abs(J[t]) @ np.abs(qvel)) * (np.abs(qvel).max() + 1) for t in range(m.ntendon))
      err = np.abs(bias - r0 - tb)
      lim = 1e-5 * (tsc + 1e-3) + K_ID * EPS * sc0
      track('tendon-bias-fd', (err / lim).max())
      if np.any(err > lim):
        raise Violation('qfrc_bias - mj_rne(0) = %s, reference tendon-armature bias %s' % (bias - r0, tb),
                        bucket='tendon-bias')
      labels.append('tendon-armature-bias')
    if not np.any(ta != 0):
      if not np.array_equal(bias, r0):
        close('bias', bias, r0, sc0 + 1e-12, K_ID, 'qfrc_bias vs mj_rne(flg_acc=0)', 'bias-vs-rne0')

    # ---- (e) RNE with acceleration
    a = rng.uniform(-5, 5, nv)
    d.qacc[:] = a
    r1 = np.zeros(nv)
    lib.mj_rne(m, d, 1, r1)
    ref1, sc1 = dyn.rne(S, k, qvel, a, return_scale=True)
    close('rne1', r1, ref1, sc1 + 1e-12, K_RNE, 'mj_rne(flg_acc=1) vs reference Newton-Euler', 'rne1-vs-reference')
    Mrig = M - Ma * P if cross else M - Ma
    close('rne1-Ma', r1, Mrig @ a + r0, (np.abs(M) + np.abs(Ma)) @ np.abs(a) + sc0 + 1e-12, K_RNE,
          'mj_rne(1,a) vs (M - armature) a + mj_rne(0)', 'rne1-vs-M')
    if np.any(Ma != 0):
      labels.append('armature-present')
    if np.any(simple & (np.diag(Ma) > np.array(m.dof_armature))):
      labels.append('actuator-armature-on-simple-dof')

    off = np.abs(M - np.diag(np.diag(M)))
    nt = (nv >= 3 and ('m:branching' in labels or 'm:jnt:ball' in labels or 'm:jnt:free' in labels)
          and bool(np.any(off > 1e-6 * sc)))
    ck.case(nontrivial=nt, key=(gm.xml, seed),
            sample=dict(xml=gm.xml, seed=seed, nv=nv, cond=float(cond), labels=[l for l in labels if l.startswith('m:')]),
            labels=labels)

  ck.run_hypothesis(test, st.tuples(model_strategy(ck.quick), mg.state_seed()), ck.budget(600, 6000), name="main")
  import json, os
  with open(os.path.join(os.path.dirname(os.path.dirname(os.path.abspath(__file__))), 'work', 'C06_worst.json'), 'w') as f:
    json.dump(worst_case, f, indent=1)
  ck.extra['worst_ratio_in_eps'] = {k_: round(v, 2) for k_, v in worst.items()}
  ck.extra['tolerances'] = dict(K_M=K_M, K_MUL=K_MUL, K_LDL=K_LDL, K_SOLVE=K_SOLVE, K_RNE=K_RNE, COND_MAX=COND_MAX)


replay = gs.make_replay(main)

LEVEL = 'exploration'
TECHNIQUE = ('property-based testing (Hypothesis model/state generators) against an independent numpy reference '
             '(own forward kinematics, Jacobians, sum J\'IJ inertia, world-frame Newton-Euler) plus algebraic '
             'round trips (mulM/solveM/L\'DL)')
LEVEL_TEXT = '''Random kinematic trees x random states: the engine's inertia matrix, sparse structure, factorisation, solves, bias
force and RNE outputs are compared with a reference written from the documentation, with eps-scaled tolerances
(calibrated ~100x above the worst error observed on the unchanged tree). Sampled, not exhaustive.'''
LEVEL_NOTE = '''Trusted: numpy/LAPACK, the ctypes reflection of the tree headers, the verification build. Not covered: flex dofs,
sleeping (sleep-filtered code paths), tendons with wrapping geometry (oracle handles fixed and site/pulley tendons;
the compiler rejects armature on wrapped tendons anyway). Two documented-vs-actual deviations are carved out and
reported as findings rather than alarmed: mj_rne(flg_acc=1) omits armature; tendon armature across branches is
truncated to the tree sparsity pattern of M.'''
