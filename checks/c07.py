"""C07 - Kinematics and Jacobians are consistent with positions.

Domain : generated trees (all joint types, several joints per body, offsets, cameras, sites, equalities, limits)
         x configurations x attachment objects (body, body COM, subtree COM, geom, site, camera, random points).
Oracle : (a) frames are proper rotations, xmat == matrix(xquat), own numpy forward kinematics (vf/oracle/kin.py)
         reproduces every frame; (b) central finite differences of the ENGINE's own positions / rotation logs along
         mj_integratePos(q, +-eps e_i) reproduce mj_jac*, mj_jacSubtreeCom, mj_jacPointAxis, and the constraint
         Jacobian rows (efc_J, dense and sparse storage) are the derivative of efc_pos; the oracle's geometric
         Jacobian agrees too; (c) mj_objectVelocity (world/local) == J qvel, cvel consistent; (d) mj_jacDot /
         mj_jacDotSparse == d/dt J by central differences along q (+) v t; (e) mj_differentiatePos inverts
         mj_integratePos (and both agree with the oracle's quaternion exponential/log).
Non-trivial: tree depth >= 2 with >= 2 joint types and non-zero offsets.
"""
import os

import numpy as np
from hypothesis import strategies as st

from vf import gen_smooth as gs
from vf import modelgen as mg
from vf.oracle import kin
from vf.runner import Violation

EPS = np.finfo(np.float64).eps
H = 1e-6          # finite-difference step on the manifold
# central FD: truncation ~ H^2 * |d3x| ~ 1e-12*scale, round-off ~ eps*|x|/H ~ 3e-10*scale. Tolerance 4e-8*scale is
# ~100x the worst observed on the unchanged tree (see evidence extra.worst); a wrong Jacobian column is O(scale).
TOL_FD = 4e-8
K_EXACT = 2e3     # eps-scaled comparisons of closed-form quantities (FK vs oracle, J qvel vs objectVelocity)
STRICT = bool(os.environ.get('VF_C07_STRICT'))   # disable the carve-out of the reported mj_jacDot deviation


def rotlog(R):
  """Rotation vector of a (near-identity) rotation matrix."""
  w = np.array([R[2, 1] - R[1, 2], R[0, 2] - R[2, 0], R[1, 0] - R[0, 1]]) * 0.5
  s = np.linalg.norm(w)
  if s < 1e-12:
    return w
  return w / s * np.arctan2(s, (np.trace(R) - 1) * 0.5)


def efc_dense(lib, m, d):
  nefc, nv = int(d.nefc), m.nv
  if nefc == 0:
    return np.zeros((0, nv))
  J = np.array(d.efc_J)
  if lib.mj_isSparse(m):
    nnz, adr, col = np.array(d.efc_J_rownnz), np.array(d.efc_J_rowadr), np.array(d.efc_J_colind)
    out = np.zeros((nefc, nv))
    for r in range(nefc):
      out[r, col[adr[r]:adr[r] + nnz[r]]] = J[adr[r]:adr[r] + nnz[r]]
    return out
  return J[:nefc * nv].reshape(nefc, nv).copy()


@st.composite
def model_strategy(draw, quick):
  gm = draw(_base_strategy(quick))
  # reach: loop closures inside one kinematic tree (connect between a body and its parent / sibling, sharing moving
  # ancestor dofs), evaluated away from the constraint manifold, in both Jacobian storage modes
  import xml.etree.ElementTree as ET
  root = ET.fromstring(gm.xml)
  pairs = []

  def rec(e, moving_above):
    kids = e.findall('body')
    for k in kids:
      mv = moving_above or k.find('joint') is not None
      if moving_above and e.tag == 'body':
        pairs.append((k.get('name'), e.get('name')))
      sub = k.findall('body')
      if mv and len(sub) >= 2:
        pairs.append((sub[0].get('name'), sub[1].get('name')))
      rec(k, mv)
  rec(root.find('worldbody'), False)
  if pairs and draw(st.integers(0, 1)) == 0:
    b1, b2 = draw(st.sampled_from(pairs))
    eq = root.find('equality')
    if eq is None:
      eq = ET.SubElement(root, 'equality')
    ET.SubElement(eq, 'connect', name='loop', body1=b1, body2=b2, anchor=mg.fmt([draw(mg.num(-0.2, 0.2)) for _ in range(3)]))
    opt = root.find('option')
    opt.set('jacobian', draw(st.sampled_from(['sparse', 'sparse', 'dense'])))
    gm.xml = ET.tostring(root, encoding='unicode')
    gm.info['labels'] = sorted(set(gm.info['labels']) | {'same-tree-connect'})
  return gm


def _base_strategy(quick):
  return gs.smooth_models(max_bodies=5 if quick else 10, max_joints=3, actuators=False, tendons=True, equalities=True,
                          cameras=True, gravcomp=False, poly=False, actuator_inertia=False,
                          joint_kwargs=dict(frictionloss=False),
                          opt_kwargs=dict(integrators=('Euler',), solvers=('Newton',), cones=('pyramidal',),
                                          flags=False, islands=False))


F3_XML = '<mujoco><worldbody><body><joint type="ball"/><joint type="slide" axis="1 0 0"/><geom size="0.1"/></body></worldbody></mujoco>'


def probes(ck, lib):
  """Deterministic probe for the reported mj_jacDot deviation (class excluded from the generated stream's assertion)."""
  m = lib.model_from_xml(F3_XML)
  nv = m.nv
  d = lib.make_data(m)
  d.qvel[:] = [0, 0, 1.0, 2.0]
  lib.mj_forward(m, d)

  def jac_at(q):
    dd = lib.make_data(m)
    dd.qpos[:] = q
    lib.mj_kinematics(m, dd)
    lib.mj_comPos(m, dd)
    jp, jr = np.zeros((3, nv)), np.zeros((3, nv))
    lib.mj_jac(m, dd, jp, jr, np.array(dd.xpos[1]), 1)
    return jp
  jdp, jdr = np.zeros((3, nv)), np.zeros((3, nv))
  lib.mj_jacDot(m, d, jdp, jdr, np.array(d.xpos[1]), 1)
  qp, qm = np.array(d.qpos), np.array(d.qpos)
  lib.mj_integratePos(m, qp, np.array(d.qvel), 1e-6)
  lib.mj_integratePos(m, qm, np.array(d.qvel), -1e-6)
  fd = (jac_at(qp) - jac_at(qm)) / 2e-6
  if np.abs(jdp - fd).max() > 1e-5:
    ck.violation('mj_jacDot for a ball joint followed by a slide in one body: jacp columns %s, d/dt mj_jac by central differences %s' % (
        jdp.tolist(), np.round(fd, 6).tolist()), dict(xml=F3_XML, qvel=[0, 0, 1.0, 2.0]), bucket='probe-jacdot-ball-then-joint',
        fingerprint='C07:jacdot-ball-then-joint')
  ck.label('probe:F3')


def main(ck):
  lib = ck.lib('rel')
  if not getattr(ck, '_replaying', False):
    probes(ck, lib)
  E = lib.enums
  worst = {}
  carved = dict(cases=0, deviating=0, max_dev=0.0)

  def track(name, r):
    if r > worst.get(name, 0):
      worst[name] = float(r)

  def near(name, a, b, scale, tol, what, bucket):
    a = np.asarray(a, dtype=np.float64)
    b = np.asarray(b, dtype=np.float64)
    if a.size == 0:
      return
    r = np.abs(a - b) / (tol * (np.asarray(scale, dtype=np.float64) + 1e-300))
    track(name, r.max())
    if not np.all(r <= 1):
      i = np.unravel_index(int(np.argmax(r)), r.shape)
      raise Violation('%s: %.12g vs %.12g at %s (|diff| %.3g, allowed %.3g)' % (
          what, a[i], b[i], tuple(int(x) for x in i), abs(a[i] - b[i]), abs(a[i] - b[i]) / r[i]), bucket=bucket)

  ck.rule = ('gen_smooth trees (1-5 bodies quick / 1-10 thorough, up to 3 joints per body, sites, cameras, tendons, '
             'equalities, joint limits) x random configuration and velocity; every dof perturbed by +-1e-6 through '
             'mj_integratePos; non-trivial = depth>=2, >=2 joint types, some body/joint/site offset non-zero; '
             'distinct by (xml, state seed)')
  ck.assumptions = [
      'cameras are in the default "fixed" mode (tracking/targeting modes are not generated)',
      'mj_jacDot / mj_jacDotSparse / mj_tendonDot deviate from d/dt J for a ball joint that is followed by another '
      'joint in the same body (reported as finding); columns of such ball joints are excluded unless VF_C07_STRICT=1',
      'weld-equality rotation rows and contact rows of efc_J are not differentiated (documented approximations / no '
      'contacts generated); connect, joint, tendon equalities and joint/tendon limits are']

  def test(case):
    gm, seed = case
    try:
      m = lib.model_from_xml(gm.xml)
    except Exception:
      ck.discard('compile')
      return
    nv, nq, nb = m.nv, m.nq, m.nbody
    if nv == 0:
      ck.discard('nv=0')
      return
    d = lib.make_data(m)
    rng = mg.apply_state(lib, m, d, seed, vel_scale=2.0, ctrl=False, forces=False)
    lib.mj_fwdPosition(m, d)
    lib.mj_fwdVelocity(m, d)
    S = kin.snap(m)
    q0 = np.array(d.qpos)
    v0 = np.array(d.qvel)
    k = kin.fk(S, q0, np.array(d.mocap_pos), np.array(d.mocap_quat))
    labels = gs.brief(gm.labels(), ('tendon:', 'same-tree')) + gs.classify(lib, m)

    # ---------------- (a) frames
    def frames(dd):
      return dict(xpos=np.array(dd.xpos), xmat=np.array(dd.xmat).reshape(-1, 3, 3), xquat=np.array(dd.xquat),
                  xipos=np.array(dd.xipos), ximat=np.array(dd.ximat).reshape(-1, 3, 3),
                  geom_xpos=np.array(dd.geom_xpos), geom_xmat=np.array(dd.geom_xmat).reshape(-1, 3, 3),
                  site_xpos=np.array(dd.site_xpos), site_xmat=np.array(dd.site_xmat).reshape(-1, 3, 3),
                  cam_xpos=np.array(dd.cam_xpos), cam_xmat=np.array(dd.cam_xmat).reshape(-1, 3, 3),
                  subtree_com=np.array(dd.subtree_com), xanchor=np.array(dd.xanchor), xaxis=np.array(dd.xaxis))
    F = frames(d)
    for name in ('xmat', 'ximat', 'geom_xmat', 'site_xmat', 'cam_xmat'):
      for i, R in enumerate(F[name]):
        if name == 'ximat' and i == 0:
          continue
        # inertial/geom/site frames are products of two unit quaternions (each unit to a few eps, model quats as
        # normalised by the compiler) turned into a matrix: worst observed |R R^T - I| ~ 45 eps, |det-1| ~ 70 eps
        near('orthonormal', R @ R.T, np.eye(3), 1.0, K_EXACT * EPS, '%s[%d] R R^T' % (name, i), 'frame-orthonormal')
        track('det', abs(np.linalg.det(R) - 1) / (K_EXACT * EPS))
        if not abs(np.linalg.det(R) - 1) < K_EXACT * EPS:
          raise Violation('%s[%d] det=%.17g' % (name, i, np.linalg.det(R)), bucket='frame-det')
    for b in range(nb):
      near('xmat-xquat', F['xmat'][b], kin.q2mat(F['xquat'][b]), 1.0, 64 * EPS, 'xmat[%d] vs matrix of xquat' % b,
           'xmat-vs-xquat')
      if abs(np.linalg.norm(F['xquat'][b]) - 1) > 8 * EPS:
        raise Violation('xquat[%d] norm %.17g' % (b, np.linalg.norm(F['xquat'][b])), bucket='xquat-norm')
    pscale = 1 + np.abs(F['xpos']).max()
    # the compiler snaps a geom/site/inertial frame onto the body or inertial frame when they agree within kFrameEps = 1e-6
    # per component (mjtSameFrame); the engine then copies that frame. Snapped objects are compared with 4e-6.
    snap = dict(geom_xpos=np.array(m.geom_sameframe) != 0, geom_xmat=np.array(m.geom_sameframe) != 0,
                site_xpos=np.array(m.site_sameframe) != 0, site_xmat=np.array(m.site_sameframe) != 0,
                xipos=np.array(m.body_sameframe) != 0, ximat=np.array(m.body_sameframe) != 0)
    for name in ('xpos', 'xipos', 'geom_xpos', 'site_xpos', 'cam_xpos', 'subtree_com', 'xanchor', 'xmat', 'ximat', 'geom_xmat',
                 'site_xmat', 'cam_xmat'):
      rot = name.endswith('mat')
      eng, ref = F[name], getattr(k, name)
      sn = snap.get(name)
      exact = np.ones(len(eng), dtype=bool) if sn is None else ~sn
      if name == 'subtree_com':
        near('fk-' + name, eng, ref, pscale, K_EXACT * EPS + (4e-6 if np.any(snap['xipos']) else 0), 'engine subtree_com vs reference FK', 'fk-pos')
        continue
      near('fk-' + name, eng[exact], ref[exact], 1.0 if rot else pscale, K_EXACT * EPS, 'engine %s vs reference FK' % name,
           'fk-rot' if rot else 'fk-pos')
      if not exact.all():
        near('fk-snapped', eng[~exact], ref[~exact], 1.0 if rot else pscale, 4e-6, 'engine %s (frame snapped by the compiler) vs reference FK' % name,
             'fk-rot' if rot else 'fk-pos')
    near('fk-xaxis', F['xaxis'], k.xaxis, 1.0, K_EXACT * EPS, 'engine xaxis vs reference FK', 'fk-rot')
    for b in range(nb):
      if kin.quat_dist(F['xquat'][b], k.xquat[b]) > 1e-7:   # arccos resolution near 1 is ~1e-8
        raise Violation('xquat[%d] engine %s vs reference %s' % (b, F['xquat'][b], k.xquat[b]), bucket='fk-rot')

    # ---------------- (e) configuration-space maps
    dv = rng.uniform(-1, 1, nv)
    dt = float(rng.choice([1e-3, 0.1, 1.0]))
    q2 = q0.copy()
    lib.mj_integratePos(m, q2, dv, dt)
    near('integratePos-ref', q2, kin.integrate_pos(S, q0, dv, dt), 1 + np.abs(q0).max(), 64 * EPS,
         'mj_integratePos vs quaternion exponential reference', 'integratePos')
    back = np.zeros(nv)
    lib.mj_differentiatePos(m, back, dt, q0, q2)
    # rotation increments |dv*dt| <= 1 rad < pi: the shortest-rotation inverse is unique
    near('diff-int', back, dv, (1 + np.abs(dv).max()) / min(dt, 1.0), 256 * EPS, 'mj_differentiatePos(q, q+v dt) vs v',
         'differentiatePos')
    near('diffPos-ref', back, kin.differentiate_pos(S, q0, q2, dt), (1 + np.abs(dv).max()) / min(dt, 1.0), 256 * EPS,
         'mj_differentiatePos vs quaternion log reference', 'differentiatePos')
    qr = np.array(m.qpos0).copy()
    lib.mj_integratePos(m, qr, rng.uniform(-1, 1, nv), 1.0)
    vv = np.zeros(nv)
    lib.mj_differentiatePos(m, vv, dt, q0, qr)
    q3 = q0.copy()
    lib.mj_integratePos(m, q3, vv, dt)
    k3, kr = kin.fk(S, q3), kin.fk(S, qr)      # compare as poses (quaternion sign-insensitive)
    near('int-diff', k3.xpos, kr.xpos, pscale, 1e3 * EPS, 'q (+) diff(q,q2) dt vs q2 (body positions)', 'int-diff')
    near('int-diff', k3.xmat, kr.xmat, 1.0, 1e3 * EPS, 'q (+) diff(q,q2) dt vs q2 (body orientations)', 'int-diff')

    # ---------------- (b) Jacobians by finite differences of the engine's own kinematics
    d2 = lib.make_data(m)
    d2.mocap_pos[:] = d.mocap_pos
    d2.mocap_quat[:] = d.mocap_quat

    def kinematics_at(q):
      d2.qpos[:] = q
      lib.mj_kinematics(m, d2)
      lib.mj_comPos(m, d2)
      lib.mj_camlight(m, d2)
      return frames(d2)
    # random points / axes attached to bodies (local coordinates)
    pts = [(int(rng.randint(1, nb)), rng.uniform(-0.3, 0.3, 3), rng.normal(size=3)) for _ in range(3)] if nb > 1 else []
    Fp, Fm = [], []
    for i in range(nv):
      e = np.zeros(nv)
      e[i] = 1
      qp, qm = q0.copy(), q0.copy()
      lib.mj_integratePos(m, qp, e, H)
      lib.mj_integratePos(m, qm, e, -H)
      Fp.append(kinematics_at(qp))
      Fm.append(kinematics_at(qm))

    def fd_pos(fn):
      return np.stack([(fn(Fp[i]) - fn(Fm[i])) / (2 * H) for i in range(nv)], axis=-1)

    def fd_rot(fn):
      return np.stack([rotlog(fn(Fp[i]) @ fn(Fm[i]).T) / (2 * H) for i in range(nv)], axis=-1)

    def eng_jac(fn, *args):
      jp, jr = np.zeros((3, nv)), np.zeros((3, nv))
      fn(m, d, jp, jr, *args)
      return jp, jr
    objs = []
    for b in range(1, nb):
      objs.append(('body', b, b, 'xpos', 'xmat', lib.mj_jacBody))
      objs.append(('bodycom', b, b, 'xipos', 'ximat', lib.mj_jacBodyCom))
    for g in range(m.ngeom):
      objs.append(('geom', g, int(m.geom_bodyid[g]), 'geom_xpos', 'geom_xmat', lib.mj_jacGeom))
    for s_ in range(m.nsite):
      objs.append(('site', s_, int(m.site_bodyid[s_]), 'site_xpos', 'site_xmat', lib.mj_jacSite))
    lever = 1 + 2 * np.abs(F['xpos']).max()
    for (kind, i, body, pf, rf, fn) in objs:
      jp, jr = eng_jac(fn, i)
      near('jacp-fd', jp, fd_pos(lambda f: f[pf][i]), lever, TOL_FD, 'mj_jac%s(%d) jacp vs FD of %s' % (kind, i, pf),
           'jac-fd-' + kind)
      near('jacr-fd', jr, fd_rot(lambda f: f[rf][i]), 1.0, TOL_FD, 'mj_jac%s(%d) jacr vs FD of %s' % (kind, i, rf),
           'jac-fd-' + kind)
      op, orr = kin.jac(S, k, F[pf][i], body)
      near('jac-ref', jp, op, lever, K_EXACT * EPS, 'mj_jac%s(%d) jacp vs reference geometric Jacobian' % (kind, i), 'jac-ref')
      near('jac-ref', jr, orr, 1.0, K_EXACT * EPS, 'mj_jac%s(%d) jacr vs reference geometric Jacobian' % (kind, i), 'jac-ref')
    for c in range(m.ncam):    # cameras have no mj_jacCam: use mj_jac at the camera position
      body = int(m.cam_bodyid[c])
      jp, jr = eng_jac(lib.mj_jac, np.ascontiguousarray(F['cam_xpos'][c]), body)
      near('jacp-fd', jp, fd_pos(lambda f: f['cam_xpos'][c]), lever, TOL_FD, 'mj_jac at camera %d vs FD' % c, 'jac-fd-cam')
      near('jacr-fd', jr, fd_rot(lambda f: f['cam_xmat'][c]), 1.0, TOL_FD, 'mj_jac (rot) at camera %d vs FD' % c, 'jac-fd-cam')
    for (b, loc, ax) in pts:
      p = F['xpos'][b] + F['xmat'][b] @ loc
      jp, jr = eng_jac(lib.mj_jac, np.ascontiguousarray(p), b)
      near('jacp-fd', jp, fd_pos(lambda f: f['xpos'][b] + f['xmat'][b] @ loc), lever, TOL_FD, 'mj_jac(point on body %d) vs FD' % b,
           'jac-fd-point')
      axw = F['xmat'][b] @ ax
      jpt, jax = np.zeros((3, nv)), np.zeros((3, nv))
      lib.mj_jacPointAxis(m, d, jpt, jax, np.ascontiguousarray(p), np.ascontiguousarray(axw), b)
      near('jacp-fd', jpt, jp, lever, 64 * EPS, 'mj_jacPointAxis point part vs mj_jac', 'jacPointAxis')
      near('jacaxis-fd', jax, fd_pos(lambda f: f['xmat'][b] @ ax), 1 + np.linalg.norm(ax), TOL_FD,
           'mj_jacPointAxis axis part vs FD of the axis', 'jacPointAxis')
    for b in range(nb):
      js = np.zeros((3, nv))
      lib.mj_jacSubtreeCom(m, d, js, b)
      if b == 0 and float(m.body_subtreemass[0]) <= 0:
        continue
      near('jacsub-fd', js, fd_pos(lambda f: f['subtree_com'][b]), lever, TOL_FD, 'mj_jacSubtreeCom(%d) vs FD' % b, 'jac-fd-subtree')
      near('jac-ref', js, kin.jac_subtree_com(S, k, b), lever, K_EXACT * EPS, 'mj_jacSubtreeCom(%d) vs reference' % b, 'jac-ref')

    # ---------------- (c) velocities
    vscale = (1 + np.abs(v0).max()) * lever * max(1, nv)
    types = [(E.mjOBJ_BODY, 'xipos', 'ximat', range(1, nb), lambda i: i), (E.mjOBJ_XBODY, 'xpos', 'xmat', range(1, nb), lambda i: i),
             (E.mjOBJ_GEOM, 'geom_xpos', 'geom_xmat', range(m.ngeom), lambda i: int(m.geom_bodyid[i])),
             (E.mjOBJ_SITE, 'site_xpos', 'site_xmat', range(m.nsite), lambda i: int(m.site_bodyid[i])),
             (E.mjOBJ_CAMERA, 'cam_xpos', 'cam_xmat', range(m.ncam), lambda i: int(m.cam_bodyid[i]))]
    for (ot, pf, rf, ids, bodyof) in types:
      for i in ids:
        jp, jr = eng_jac(lib.mj_jac, np.ascontiguousarray(F[pf][i]), bodyof(i))
        want = np.concatenate([jr @ v0, jp @ v0])
        for loc in (0, 1):
          res = np.zeros(6)
          lib.mj_objectVelocity(m, d, ot, i, res, loc)
          R = F[rf][i]
          w = want if not loc else np.concatenate([R.T @ want[:3], R.T @ want[3:]])
          near('objvel', res, w, vscale, K_EXACT * EPS, 'mj_objectVelocity(type %d, id %d, local=%d) vs J qvel' % (ot, i, loc), 'objectVelocity')
    cvel = np.array(d.cvel)
    for b in range(1, nb):
      c = F['subtree_com'][int(m.body_rootid[b])]
      jp, jr = eng_jac(lib.mj_jac, np.ascontiguousarray(c), b)
      near('cvel', cvel[b], np.concatenate([jr @ v0, jp @ v0]), vscale, K_EXACT * EPS, 'cvel[%d] vs J(subtree com) qvel' % b, 'cvel')

    # ---------------- (d) time derivative of the Jacobian
    jt_ = np.array(m.jnt_type)
    bad_cols = []
    for j in range(m.njnt):
      b = int(m.jnt_bodyid[j])
      if jt_[j] == E.mjJNT_BALL and j != int(m.body_jntadr[b]) + int(m.body_jntnum[b]) - 1:
        bad_cols += list(range(int(m.jnt_dofadr[j]), int(m.jnt_dofadr[j]) + 3))
    dp, dm = lib.make_data(m), lib.make_data(m)
    for (dd, sgn) in ((dp, 1), (dm, -1)):
      qq = q0.copy()
      lib.mj_integratePos(m, qq, v0, sgn * H)
      dd.qpos[:] = qq
      dd.mocap_pos[:] = d.mocap_pos
      dd.mocap_quat[:] = d.mocap_quat
      lib.mj_kinematics(m, dd)
      lib.mj_comPos(m, dd)
    jscale = lever * (1 + np.abs(v0).max()) * max(1, nv)
    for (b, loc, ax) in pts + [(b_, np.zeros(3), None) for b_ in range(1, nb)]:
      def J_at(dd):
        p = np.array(dd.xpos)[b] + np.array(dd.xmat)[b].reshape(3, 3) @ loc
        jp, jr = np.zeros((3, nv)), np.zeros((3, nv))
        lib.mj_jac(m, dd, jp, jr, np.ascontiguousarray(p), b)
        return jp, jr
      (jpp, jrp), (jpm, jrm) = J_at(dp), J_at(dm)
      p = F['xpos'][b] + F['xmat'][b] @ loc
      jdp, jdr = np.zeros((3, nv)), np.zeros((3, nv))
      lib.mj_jacDot(m, d, jdp, jdr, np.ascontiguousarray(p), b)
      fdp, fdr = (jpp - jpm) / (2 * H), (jrp - jrm) / (2 * H)
      cols = np.ones(nv, dtype=bool)
      if bad_cols and not STRICT:
        cols[bad_cols] = False
        dev = max(np.abs(jdp - fdp)[:, bad_cols].max(), np.abs(jdr - fdr)[:, bad_cols].max())
        carved['cases'] += 1
        if dev > TOL_FD * jscale:
          carved['deviating'] += 1
          carved['max_dev'] = max(carved['max_dev'], float(dev))
      near('jacdot-fd', jdp[:, cols], fdp[:, cols], jscale, TOL_FD, 'mj_jacDot jacp (body %d) vs FD in time of mj_jac' % b, 'jacDot')
      near('jacdot-fd', jdr[:, cols], fdr[:, cols], jscale, TOL_FD, 'mj_jacDot jacr (body %d) vs FD in time of mj_jac' % b, 'jacDot')
      # sparse variant on the full chain equals the dense one
      chain = np.arange(nv, dtype=np.int32)
      sp, sr = np.zeros((3, nv)), np.zeros((3, nv))
      lib.mj_jacDotSparse(m, d, sp, sr, np.ascontiguousarray(p), b, nv, chain)
      near('jacdot-sparse', sp, jdp, jscale, 64 * EPS, 'mj_jacDotSparse vs mj_jacDot (jacp)', 'jacDotSparse')
      near('jacdot-sparse', sr, jdr, jscale, 64 * EPS, 'mj_jacDotSparse vs mj_jacDot (jacr)', 'jacDotSparse')
    if bad_cols:
      labels.append('carved:jacdot-ball-then-joint')

    # ---------------- constraint Jacobian rows: efc_J == d efc_pos / dq (equalities, limits), both storage modes
    nefc = int(d.nefc)
    nrows = 0
    if nefc:
      J = efc_dense(lib, m, d)
      etype, eid, epos = np.array(d.efc_type), np.array(d.efc_id), np.array(d.efc_pos)
      # differential: the other storage mode gives the same matrix
      m2 = lib.copy_model(m)
      m2.opt.jacobian = E.mjJAC_DENSE if lib.mj_isSparse(m) else E.mjJAC_SPARSE
      de = lib.copy_data(m2, d)
      lib.mj_fwdPosition(m2, de)
      # (documented in mj_addConstraint: in dense storage a non-contact constraint whose Jacobian block is exactly
      # zero is dropped, sparse storage keeps it when its dof chain is non-empty -> compare modulo all-zero blocks)
      def blocks(Jm, ty, ids):
        out = {}
        for r in range(len(ty)):
          out.setdefault((int(ty[r]), int(ids[r])), []).append(Jm[r])
        return {k_: np.array(v) for k_, v in out.items()}
      Ba = blocks(J, etype, eid)
      Bb = blocks(efc_dense(lib, m2, de), np.array(de.efc_type), np.array(de.efc_id))
      for key in set(Ba) | set(Bb):
        A_, B_ = Ba.get(key), Bb.get(key)
        if A_ is None or B_ is None:
          X_ = A_ if B_ is None else B_
          if np.any(X_ != 0):
            raise Violation('constraint (type,id)=%s present only in one Jacobian storage mode with non-zero rows' % (key,),
                            bucket='efc-dense-sparse')
          labels.append('efc:zero-block-dropped-in-dense')
          continue
        if A_.shape != B_.shape:
          raise Violation('constraint %s has %d rows (this mode) vs %d rows (other mode)' % (key, len(A_), len(B_)), bucket='efc-dense-sparse')
        near('efc-dense-sparse', A_, B_, 1 + np.abs(J).max(), 64 * EPS, 'efc_J dense vs sparse storage', 'efc-dense-sparse')
      d3 = lib.make_data(m)
      d3.mocap_pos[:] = d.mocap_pos
      d3.mocap_quat[:] = d.mocap_quat
      d3.eq_active[:] = d.eq_active

      def pos_at(q):
        d3.qpos[:] = q
        lib.mj_fwdPosition(m, d3)
        return np.array(d3.efc_type), np.array(d3.efc_id), np.array(d3.efc_pos)
      keep = np.zeros(nefc, dtype=bool)
      for r in range(nefc):
        t = int(etype[r])
        if t == E.mjCNSTR_EQUALITY:
          et = int(m.eq_type[int(eid[r])])
          if et == E.mjEQ_WELD:
            first = int(np.flatnonzero((etype == t) & (eid == eid[r]))[0])
            keep[r] = r - first < 3          # translational rows only
          elif et in (E.mjEQ_CONNECT, E.mjEQ_JOINT, E.mjEQ_TENDON):
            keep[r] = True
        elif t in (E.mjCNSTR_LIMIT_JOINT, E.mjCNSTR_LIMIT_TENDON):
          keep[r] = True
      fd = np.zeros((nefc, nv))
      ok = np.ones(nefc, dtype=bool)
      for i in range(nv):
        e = np.zeros(nv)
        e[i] = 1
        qp, qm = q0.copy(), q0.copy()
        lib.mj_integratePos(m, qp, e, H)
        lib.mj_integratePos(m, qm, e, -H)
        tp, ip, pp = pos_at(qp)
        tm, im, pm = pos_at(qm)
        if len(tp) != nefc or len(tm) != nefc or not (np.array_equal(tp, etype) and np.array_equal(tm, etype) and
                                                      np.array_equal(ip, eid) and np.array_equal(im, eid)):
          ok[:] = False      # active set changed under the perturbation: rows cannot be matched
          break
        fd[:, i] = (pp - pm) / (2 * H)
      if not ok.all():
        labels.append('efc:active-set-changed')
      else:
        sel = keep
        nrows = int(sel.sum())
        if nrows:
          near('efcJ-fd', J[sel], fd[sel], lever, TOL_FD, 'efc_J row vs FD of efc_pos (types %s)' % sorted(set(etype[sel].tolist())),
               'efcJ-fd')
          labels.append('efc-rows-checked')

    njt = len(set(jt_.tolist()))
    offs = bool(np.any(np.abs(np.array(m.body_pos)[1:]) > 0) and (np.any(np.abs(np.array(m.jnt_pos)) > 0) or m.nsite > 0))
    depth2 = bool(np.any(np.array(m.body_parentid)[1:] > 0))
    nt = depth2 and njt >= 2 and offs
    ck.case(nontrivial=nt, key=(gm.xml, seed),
            sample=dict(xml=gm.xml, seed=seed, nv=nv, nefc_rows_checked=nrows, labels=[l for l in labels if l.startswith('m:')]),
            labels=labels)

  ck.run_hypothesis(test, st.tuples(model_strategy(ck.quick), mg.state_seed()), ck.budget(400, 6000), name='main')
  ck.extra['worst_ratio_of_tolerance'] = {k_: float('%.3g' % v) for k_, v in worst.items()}
  ck.extra['tolerances'] = dict(H=H, TOL_FD=TOL_FD, K_EXACT=K_EXACT)
  ck.extra['carved_jacdot_ball_then_joint'] = carved


replay = gs.make_replay(main)

LEVEL = 'exploration'
TECHNIQUE = ('property-based testing: central finite differences of the engine\'s own kinematics along mj_integratePos '
             'perturbations vs every Jacobian routine, differential dense/sparse, round trips on the configuration '
             'manifold, and an independent numpy forward-kinematics/Jacobian reference')
LEVEL_TEXT = '''Random trees x random configurations: every frame, every Jacobian routine (point, body, COM, geom, site, subtree,
point-axis, constraint rows in both storage modes), object velocities and mj_jacDot are compared with finite differences
of positions (tolerance 4e-8*scale, ~100x the worst FD error seen on the unchanged tree) and with a reference written
from the documentation (eps-scaled). Sampled, not exhaustive.'''
LEVEL_NOTE = '''Trusted: numpy, ctypes reflection, verification build. Not covered: tracking/targeting camera modes, lights, flex
vertices, weld rotation rows and contact rows of efc_J, mj_jacSparse/mj_jacDifPair (not exported), tendons with wrapping
geometry. mj_jacDot columns of a ball joint followed by another joint in the same body are carved out (engine deviates;
reported as finding; VF_C07_STRICT=1 re-enables the assertion).'''
