"""C08 - Conservative systems conserve energy and momentum.

Domain : conservative generated models (no damping, frictionloss, actuators, limits, contacts, fluid; joint/tendon
         polynomial springs, armature; gravity on/off), RK4, timestep refinement h, h/2, h/4, h/8 over a fixed horizon.
Oracle : invariants + a reference: (a) sup-norm energy drift of RK4 shrinks at ~4th order (observed order >= 2.5 for hinge/slide models
         when both refinement ratios agree, i.e. in the asymptotic regime; always: drift does not grow under
         refinement); (b) gravity off, free-floating tree: linear and angular momentum (mj_subtreeVel) constant up to
         the RK4 truncation error, which also shrinks with h; (c) energy[1] == 1/2 v'Mv (engine M and reference M),
         energy[0] == reference potential; (d) qfrc_spring == -grad(spring potential) and, with gravity,
         qfrc_spring - qfrc_bias(v=0) == -grad(energy[0]) by central differences on the manifold.
Non-trivial: >= 2 moving bodies with rotation and kinetic<->potential energy exchange > 1 % during the run.
"""
import numpy as np
from hypothesis import strategies as st

from vf import gen_smooth as gs
from vf import modelgen as mg
from vf.oracle import dyn, kin
from vf.runner import Violation

EPS = np.finfo(np.float64).eps
NSTEP = 200            # steps at the coarsest timestep (horizon T = NSTEP*h)
NSAMPLE = 20           # energy/momentum samples per run (sup-norm drift)
K_E = 2e3              # energy identities vs reference, eps-scaled (worst observed ~20 eps)
H_FD = 1e-6
TOL_GRAD = 1e-6        # FD gradient of the potential, relative to force scale (worst observed ~1e-8)
ORDER_LO, ORDER_HI = 2.5, 9.0      # models with hinge/slide joints only (upper bound: sanity only)
MEDIAN_ORDER_LO = 3.6
ORDER_LO_QUAT = 1.4                  # models with ball/free joints: the engine's RK4 is 2nd order there (reported)
# dead-band tendon springs: force only C0 at the band edges -> no order asserted (orders recorded in the evidence)


@st.composite
def model_strategy(draw, quick):
  grav = draw(st.sampled_from(['on', 'off', 'off', 'tilt']))
  g = {'on': '0 0 -9.81', 'off': '0 0 0', 'tilt': '%s %s -9.81' % (mg.fmt(draw(mg.num(-3, 3, 1))), mg.fmt(draw(mg.num(-3, 3, 1))))}[grav]
  opt = ('<option integrator="RK4" timestep="0.001" gravity="%s"><flag energy="enable" contact="disable" '
         'island="disable"/></option>' % g)
  jts = draw(st.sampled_from([mg.JOINT_TYPES, ('hinge', 'slide'), ('hinge', 'slide'), ('ball', 'hinge', 'slide')]))
  gm = draw(gs.smooth_models(conservative=True, max_bodies=4 if quick else 7, max_joints=2, tendons=True, opt=opt,
                             gravcomp=False, joint_types=jts))
  gm.info['gravity'] = grav
  return gm


F4_XML = ('<mujoco><option integrator="RK4" gravity="0 0 0"><flag energy="enable" contact="disable"/></option><worldbody><body><freejoint/>'
          '<inertial pos="0 0 -0.06" mass="0.1" diaginertia="0.01 0.012 0.002"/></body></worldbody></mujoco>')


def probes(ck, lib):
  """Deterministic probe: RK4 energy-drift order of a tumbling free body whose orientation matters (COM offset)."""
  m = lib.model_from_xml(F4_XML)

  def drift(h, n):
    d = lib.make_data(m)
    m.opt.timestep = h
    d.qvel[:] = [1, 2, 3, 3, 2, 1]
    lib.mj_forward(m, d)
    e0 = float(sum(d.energy))
    worst = 0.0
    for i in range(n):
      lib.mj_step(m, d)
      if (i + 1) % 10 == 0:
        lib.mj_forward(m, d)
        worst = max(worst, abs(float(sum(d.energy)) - e0))
    return worst
  ds = [drift(2e-3 / f, 200 * f) for f in (1, 2, 4)]
  if ds[2] > 1e-13:
    order = float(np.log2(np.sqrt(ds[0] / ds[1] * ds[1] / ds[2])))
    ck.extra['probe_F4_order'] = round(order, 3)
    if order < 3.0:
      ck.violation('RK4 energy drift of a free body with offset COM shrinks at order %.2f (drifts %s for h = 2e-3/(1,2,4)); the '
                   'quaternion update is only 2nd-order accurate' % (order, ds), dict(xml=F4_XML, qvel=[1, 2, 3, 3, 2, 1]),
                   bucket='probe-rk4-quaternion-order', fingerprint='C08:rk4-second-order-quaternion')
  ck.label('probe:F4')


def main(ck):
  lib = ck.lib('rel')
  if not getattr(ck, '_replaying', False):
    probes(ck, lib)
  E = lib.enums
  worst = {}

  def track(name, r):
    if r > worst.get(name, 0):
      worst[name] = float(r)

  def close(name, a, b, scale, tol, what, bucket):
    a = np.asarray(a, dtype=np.float64)
    b = np.asarray(b, dtype=np.float64)
    r = np.abs(a - b) / (tol * (np.asarray(scale, dtype=np.float64) + 1e-300))
    if r.size == 0:
      return
    track(name, r.max())
    if not np.all(r <= 1):
      i = np.unravel_index(int(np.argmax(r)), r.shape)
      raise Violation('%s: %.15g vs %.15g (|diff| %.3g, allowed %.3g)' % (what, a[i], b[i], abs(a[i] - b[i]),
                                                                        abs(a[i] - b[i]) / r[i]), bucket=bucket)

  ck.rule = ('conservative gen_smooth models (1-4 bodies quick / 1-7 thorough; springs incl. polynomial and tendon '
             'dead-band, armature, gravity on/off/tilted) x random state; RK4 at h, h/2, h/4, h/8 over %d*h; h chosen so that '
             'max(rate, spring frequency)*h <= 0.2; non-trivial = >=2 moving bodies, a rotational dof, and |dKE| > 1%% '
             'of the energy scale during the run; distinct by (xml, state seed)' % NSTEP)
  ck.assumptions = [
      'order assertion only when the two finest successive refinement ratios agree within a factor 1.5 and the drift is above '
      'round-off (asymptotic regime); otherwise only "refinement does not increase the drift" is asserted',
      'tendon armature that couples dofs outside the tree pattern of M, or acts on a ball joint followed by a slide in '
      'one body, is excluded from (a)/(b) (engine deviations reported under C06/C07)',
      'models with ball/free joints: RK4 positions are advanced with one exponential of the weighted velocity, which is '
      'only 2nd-order accurate on SO(3); observed energy-drift order is 2.0 there (reported as finding); the 4th-order '
      'assertion applies to hinge/slide-only models, quaternion models are required to show order >= 1.7',
      'momentum: trees whose root is a free joint without spring/armature and without tendons leaving the tree']

  def run(m, d0, h, nsteps, root_bodies, quat_springs):
    """Integrate; return sampled (energy, momentum list) arrays."""
    d = lib.copy_data(m, d0)
    m.opt.timestep = h
    every = max(1, nsteps // NSAMPLE)
    Es, Ps = [], []
    maxang = [0.0]
    maxcond = [0.0]

    def sample():
      lib.mj_forward(m, d)
      Es.append(np.array(d.energy))
      for (pa, ref) in quat_springs:
        maxang[0] = max(maxang[0], kin.quat_dist(np.array(d.qpos[pa:pa + 4]), ref))
      ww = np.linalg.eigvalsh(lib.fullM(m, d))
      maxcond[0] = max(maxcond[0], float(ww[-1] / ww[0]) if ww[0] > 0 else np.inf)
      if root_bodies:
        lib.mj_subtreeVel(m, d)
        Ps.append(np.concatenate([np.concatenate([float(m.body_subtreemass[b]) * np.array(d.subtree_linvel[b]),
                                                  np.array(d.subtree_angmom[b])]) for b in root_bodies]))
    sample()
    for i in range(nsteps):
      lib.mj_step(m, d)
      if (i + 1) % every == 0:
        sample()
      elif quat_springs and nsteps == NSTEP:     # coarsest run: watch the rotation-spring angle at every step
        for (pa, ref) in quat_springs:
          maxang[0] = max(maxang[0], kin.quat_dist(np.array(d.qpos[pa:pa + 4]), ref))
    if lib.warnings():
      return None
    Es = np.array(Es)
    if not np.all(np.isfinite(Es)):
      return None
    return Es, (np.array(Ps) if root_bodies else None), maxang[0], maxcond[0]

  def test(case):
    gm, seed = case
    try:
      m = lib.model_from_xml(gm.xml)
    except Exception:
      ck.discard('compile')
      return
    nv = m.nv
    if nv == 0:
      ck.discard('nv=0')
      return
    d = lib.make_data(m)
    mg.apply_state(lib, m, d, seed, vel_scale=2.0, pos_scale=0.7, ctrl=False, forces=False)
    lib.mj_forward(m, d)
    S = kin.snap(m)
    q0, v0 = np.array(d.qpos), np.array(d.qvel)
    k = kin.fk(S, q0)
    gvec = np.array(m.opt.gravity)
    gname = 'off' if not np.any(gvec) else ('on' if not np.any(gvec[:2]) else 'tilt')
    labels = gs.brief(gm.labels(), ('spring:', 'tendon:')) + gs.classify(lib, m) + ['gravity:' + gname]
    grav_on = gname != 'off'

    # ---------------- (c) energies vs reference
    M = lib.fullM(m, d)
    Mr, Ma = dyn.mass_matrix(S, k, parts=True)
    P = np.zeros((nv, nv), dtype=bool)
    par = np.array(m.dof_parentid)
    for i in range(nv):
      j = i
      while j >= 0:
        P[i, j] = P[j, i] = True
        j = int(par[j])
    cross = bool(np.abs(Ma * ~P).max() > 0)
    wm = np.linalg.eigvalsh(Mr + Ma)
    if not wm[0] > 1e-10 * wm[-1]:
      # redundant dofs (e.g. two collinear slides, hinge+ball with one anchor): M is singular, the documentation assumes an
      # invertible M; the dynamics are not defined. Counted, not judged.
      ck.discard('singular-model')
      return
    ke = float(d.energy[1])
    kscale = float(np.abs(v0) @ np.abs(M) @ np.abs(v0)) + 1e-300
    close('KE-engineM', ke, 0.5 * v0 @ M @ v0, kscale, 64 * EPS, 'energy[1] vs 1/2 v\' mj_fullM v', 'kinetic')
    Mo = Mr + (Ma * P if cross else Ma)
    close('KE-reference', ke, 0.5 * v0 @ Mo @ v0, float(np.abs(v0) @ dyn.mass_matrix_scale(S, k) @ np.abs(v0)), K_E * EPS,
          'energy[1] vs 1/2 v\' M_reference v', 'kinetic-reference')
    pe_ref_g, pe_ref_s = dyn.gravity_energy(S, k), dyn.spring_energy(S, k)
    kmax_ = float(max([0.0] + [abs(float(x)) for x in np.array(m.jnt_stiffness)] + [abs(float(x)) for x in np.array(m.jnt_stiffnesspoly).ravel()]
                      + ([abs(float(x)) for x in np.array(m.tendon_stiffness)] if m.ntendon else [])))
    pscale = sum(abs(float(S.body_mass[b])) * float(np.abs(S.gravity) @ np.abs(k.xipos[b])) for b in range(1, m.nbody)) + abs(pe_ref_s) + 1e-14 * (1 + kmax_)   # floor: k*angle^2 with angle ~ a few eps from quaternion re-normalisation
    close('PE-reference', float(d.energy[0]), pe_ref_g + pe_ref_s, pscale, K_E * EPS, 'energy[0] vs reference potential', 'potential-reference')

    # ---------------- (c') "reported kinetic energy ALWAYS equals 1/2 v'Mv": also after stage-skipping evaluations
    for (fn, skipsensor) in ((lib.mj_forwardSkip, 0), (lib.mj_forwardSkip, 1), (lib.mj_inverseSkip, 1)):
      dsk = lib.copy_data(m, d)
      vnew = v0[::-1] * 0.5 + 0.3          # a different velocity, positions untouched
      dsk.qvel[:] = vnew
      fn(m, dsk, E.mjSTAGE_POS, skipsensor)
      close('KE-after-skip', float(dsk.energy[1]), 0.5 * vnew @ M @ vnew, float(np.abs(vnew) @ np.abs(M) @ np.abs(vnew)) + 1e-300, 64 * EPS,
            'energy[1] after a qvel change and %s(mjSTAGE_POS, skipsensor=%d) vs 1/2 v\' M v' % (fn.name, skipsensor), 'kinetic-after-skip')
      close('PE-after-skip', float(dsk.energy[0]), float(d.energy[0]), pscale, 64 * EPS, 'energy[0] unchanged by a velocity-only re-evaluation', 'kinetic-after-skip')

    # ---------------- (b') subtree momentum vs reference at the initial state
    lib.mj_subtreeVel(m, d)
    vmax = np.abs(v0).max() + 1
    for b in range(1, m.nbody):
      mass, com, Pm, Lm = dyn.momentum(S, k, v0, b)
      if mass < 1e-12:
        continue
      reach = 1 + max(np.linalg.norm(k.xipos[c] - com) for c in S.subtree(b)) + np.abs(k.xpos).max()
      msc = mass * vmax * reach * max(1, nv)
      close('linmom-reference', mass * np.array(d.subtree_linvel[b]), Pm, msc, K_E * EPS, 'mass*subtree_linvel[%d] vs reference' % b, 'momentum-reference')
      close('angmom-reference', np.array(d.subtree_angmom[b]), Lm, msc * reach, K_E * EPS, 'subtree_angmom[%d] vs reference' % b, 'momentum-reference')

    # ---------------- (d) spring force = -grad potential (manifold central differences on the engine's energy)
    dg = lib.make_data(m)

    def potential(q, nograv):
      dg.qpos[:] = q
      flags = int(m.opt.disableflags)
      if nograv:
        m.opt.disableflags = flags | E.mjDSBL_GRAVITY
      try:
        lib.mj_fwdPosition(m, dg)
        lib.mj_energyPos(m, dg)
      finally:
        m.opt.disableflags = flags
      return float(dg.energy[0])
    fs = np.array(d.qfrc_spring)
    dz = lib.make_data(m)
    dz.qpos[:] = q0
    lib.mj_forward(m, dz)                       # qvel = 0: bias = gravity only
    bias0 = np.array(dz.qfrc_bias)
    grad_s, grad_all = np.zeros(nv), np.zeros(nv)
    for i in range(nv):
      e = np.zeros(nv)
      e[i] = 1
      qp, qm = q0.copy(), q0.copy()
      lib.mj_integratePos(m, qp, e, H_FD)
      lib.mj_integratePos(m, qm, e, -H_FD)
      grad_s[i] = (potential(qp, True) - potential(qm, True)) / (2 * H_FD)
      if grav_on:
        grad_all[i] = (potential(qp, False) - potential(qm, False)) / (2 * H_FD)
    fscale = 1 + np.abs(fs).max() + np.abs(bias0).max() + abs(pe_ref_s) + (pscale if grav_on else 0)
    close('spring-grad', fs, -grad_s, fscale, TOL_GRAD, 'qfrc_spring vs -grad(spring potential energy[0])', 'spring-gradient')
    if grav_on:
      close('total-grad', fs - bias0, -grad_all, fscale, TOL_GRAD, 'qfrc_spring - qfrc_bias(v=0) vs -grad(energy[0])', 'potential-gradient')
    close('spring-reference', fs, dyn.spring_force(S, k), 1 + np.abs(fs).max(), K_E * EPS, 'qfrc_spring vs reference spring law', 'spring-reference')

    # ---------------- choose the timestep: resolve the fastest rate
    Minv_diag = 1.0 / np.maximum(np.diag(M), 1e-12)
    # spring frequency estimate from a finite-difference stiffness along each dof
    kdiag = np.zeros(nv)
    for i in range(nv):
      e = np.zeros(nv)
      e[i] = 1
      qp, qm = q0.copy(), q0.copy()
      lib.mj_integratePos(m, qp, e, 1e-4)
      lib.mj_integratePos(m, qm, e, -1e-4)
      kdiag[i] = abs(potential(qp, True) - 2 * potential(q0, True) + potential(qm, True)) / 1e-8
    wmax = max(float(np.sqrt((kdiag * Minv_diag).max())), float(np.abs(v0).max()), float(np.sqrt(np.abs(np.array(d.qacc)).max())), 1.0)
    h = min(1e-2, 0.2 / wmax)
    jt = np.array(m.jnt_type)
    ball_then = any(jt[j] == E.mjJNT_BALL and j != int(m.body_jntadr[int(m.jnt_bodyid[j])]) + int(m.body_jntnum[int(m.jnt_bodyid[j])]) - 1
                    for j in range(m.njnt))
    tenarm = m.ntendon and bool(np.any(np.array(m.tendon_armature) > 0))
    carve = cross or (tenarm and ball_then)
    if wm[-1] / wm[0] > 1e4:
      # nearly redundant dofs (e.g. hinge and ball anchored 1 cm apart): accelerations are huge and configuration dependent,
      # the timestep heuristic cannot guarantee a resolved, asymptotic integration -> conservation study skipped
      labels.append('illconditioned')
      carve = True
    if carve:
      labels.append('carved:tendon-armature-deviation')

    # momentum candidates: trees rooted at a free joint, isolated from the world and from other trees
    roots = []
    if not grav_on:
      L, J = kin.tendon(S, k) if m.ntendon else (None, np.zeros((0, nv)))
      for b in range(1, m.nbody):
        if int(m.body_parentid[b]) != 0 or int(m.body_jntnum[b]) != 1:
          continue
        j = int(m.body_jntadr[b])
        if jt[j] != E.mjJNT_FREE or float(m.jnt_stiffness[j]) != 0 or np.any(np.array(m.jnt_stiffnesspoly[j]) != 0):
          continue
        va = int(m.jnt_dofadr[j])
        if np.any(np.array(m.dof_armature[va:va + 6]) != 0):
          continue
        sub = set(S.subtree(b))
        dofs = [i for i in range(nv) if int(m.dof_bodyid[i]) in sub]
        ok = True
        for t in range(m.ntendon):
          inside = np.any(J[t, dofs] != 0) or any(int(m.site_bodyid[int(m.wrap_objid[a_])]) in sub
                                                 for a_ in range(int(m.tendon_adr[t]), int(m.tendon_adr[t]) + int(m.tendon_num[t]))
                                                 if int(m.wrap_type[a_]) == E.mjWRAP_SITE)
          if not inside:
            continue
          # every site of the tendon must be in this tree and no joint outside
          for a_ in range(int(m.tendon_adr[t]), int(m.tendon_adr[t]) + int(m.tendon_num[t])):
            wt = int(m.wrap_type[a_])
            if wt == E.mjWRAP_SITE and int(m.site_bodyid[int(m.wrap_objid[a_])]) not in sub:
              ok = False
            if wt == E.mjWRAP_JOINT and int(m.jnt_bodyid[int(m.wrap_objid[a_])]) not in sub:
              ok = False
        if ok and len(sub) >= 1:
          roots.append(b)

    # ---------------- (a)/(b) refinement study
    quat_springs = []
    for j in range(m.njnt):
      if jt[j] in (E.mjJNT_BALL, E.mjJNT_FREE) and (float(m.jnt_stiffness[j]) != 0 or np.any(np.array(m.jnt_stiffnesspoly[j]) != 0)):
        pa = int(m.jnt_qposadr[j]) + (3 if jt[j] == E.mjJNT_FREE else 0)
        quat_springs.append((pa, np.array(m.qpos_spring[pa:pa + 4])))
    res = [run(m, d, h / f, NSTEP * f, roots, quat_springs) for f in (1, 2, 4, 8)]
    if any(r is None for r in res):
      labels.append('unstable-or-warning')
      ck.case(nontrivial=False, key=(gm.xml, seed), labels=labels)
      return
    Et = [r[0].sum(axis=1) for r in res]
    KEs = res[2][0][:, 1]
    escale = float(np.abs(res[2][0]).max() + np.abs(res[2][0][:, 0] - res[2][0][0, 0]).max() + kscale) + 1e-300
    drift = [float(np.abs(e - e[0]).max()) for e in Et]
    floor = 100 * EPS * escale * np.sqrt(NSTEP * 8)
    exchange = float(np.abs(KEs - KEs[0]).max()) / escale
    rot = bool(np.any(jt != E.mjJNT_SLIDE))
    moving = len([b for b in range(1, m.nbody) if int(m.body_dofnum[b]) > 0])
    nt = moving >= 2 and rot and exchange > 0.01
    sample = dict(xml=gm.xml, seed=seed, h=h, drift=drift, energy_scale=escale, exchange=exchange, momentum_roots=roots)
    # the rotation-spring potential has a kink at angle pi (shortest-rotation log flips): no smooth-ODE claims there
    if not carve and max(r[3] for r in res) > 1e4:
      labels.append('illconditioned-along-trajectory')
      carve = True
    if not carve and max(r[2] for r in res) > 2.4:
      labels.append('carved:quat-spring-near-pi')
      carve = True
    regime = 'quat' if bool(np.any((jt == E.mjJNT_BALL) | (jt == E.mjJNT_FREE))) else 'hs'
    if m.ntendon:
      ls = np.array(m.tendon_lengthspring)
      if np.any((ls[:, 1] > ls[:, 0]) & ((np.array(m.tendon_stiffness) != 0) | np.any(np.array(m.tendon_stiffnesspoly) != 0, axis=1))):
        regime = 'c0'        # dead-band: force is only C0 at the band edges
        labels.append('deadband-spring')
    if not carve:
      track('drift/scale@h', drift[0] / escale)
      # refinement must not make it worse (beyond round-off), whatever the regime
      if drift[3] > max(drift[0], floor) * 3 + floor:
        raise Violation('energy drift grows under timestep refinement: %s (scale %.3g, h=%.3g)' % (drift, escale, h), bucket='energy-refinement')
      # use the finest pair of successive refinement ratios whose drifts are all above round-off
      lv = 1 if drift[3] > 30 * floor else 0
      if drift[lv + 1] > 30 * floor and drift[lv + 2] > 30 * floor:
        r1, r2 = drift[lv] / drift[lv + 1], drift[lv + 1] / drift[lv + 2]
        if max(r1, r2) / min(r1, r2) < 1.5 and drift[lv] < 1e-3 * escale:
          order = float(np.log2(np.sqrt(r1 * r2)))
          labels.append('order-asserted')
          sample['order'] = order
          track('order-min', -order)
          quat = regime != 'hs'
          # in the asymptotic regime a resolved conservative system cannot lose/gain a visible fraction of its energy
          if drift[3] > 1e-3 * escale + floor:
            raise Violation('energy not conserved: sup|E(t)-E(0)| = %s for h/(1,2,4,8), h = %.3g, energy scale %.3g' % (drift, h, escale),
                            bucket='energy-conservation')
          labels.append('order:' + regime)
          ck.extra.setdefault('orders_' + regime, []).append(round(order, 2))
          if regime != 'c0' and not dict(hs=ORDER_LO, quat=ORDER_LO_QUAT)[regime] <= order <= ORDER_HI:
            raise Violation('RK4 energy drift order %.2f (ratios %.2f, %.2f; drifts %s; h=%.3g)' % (order, r1, r2, drift, h), bucket='energy-order')
        else:
          labels.append('non-asymptotic')
      else:
        labels.append('drift-at-roundoff')
      if roots:
        Ps = [r[1] for r in res]
        pdrift = [float(np.abs(p - p[0]).max()) for p in Ps]
        pscale_ = float(np.abs(Ps[2]).max()) + float(np.sum(np.array(m.body_mass)) * (np.abs(v0).max() + 1)) + 1e-300
        pfloor = 1e3 * EPS * pscale_ * np.sqrt(NSTEP * 4)
        track('momentum-drift/scale', pdrift[3] / pscale_)
        sample['momentum_drift'] = pdrift
        labels.append('momentum-checked')
        # linear momentum is preserved exactly by RK methods, angular momentum only to the order of the quaternion
        # update (2nd): bound the fine-step drift loosely and require convergence
        if pdrift[3] > 1e-4 * pscale_ + pfloor and drift[0] < 1e-3 * escale:
          raise Violation('momentum of free-floating tree(s) %s not conserved: sup drift %s (scale %.3g)' % (roots, pdrift, pscale_), bucket='momentum')
        if pdrift[3] > max(pdrift[0], pfloor) * 3 + pfloor:
          raise Violation('momentum drift grows under refinement: %s' % pdrift, bucket='momentum-refinement')
    ck.case(nontrivial=nt, key=(gm.xml, seed), sample=sample, labels=labels)

  ck.run_hypothesis(test, st.tuples(model_strategy(ck.quick), mg.state_seed()), ck.budget(300, 4000), name='main')
  ck.extra['worst'] = {k_: float('%.3g' % v) for k_, v in worst.items()}
  hs = ck.extra.get('orders_hs', [])
  # aggregated evidence of the 4th order: single cases are only required to show >= 2.5 (pre-asymptotic scatter), the
  # median over the hinge/slide models of a run was 4.1-5.0 on the unchanged tree (an order-3 scheme gives ~3.0-3.3)
  if len(hs) >= 8 and float(np.median(hs)) < MEDIAN_ORDER_LO:
    ck.violation('median observed RK4 energy-drift order over %d hinge/slide models is %.2f < %.1f' % (len(hs), float(np.median(hs)), MEDIAN_ORDER_LO),
                 dict(orders=hs), bucket='energy-order-median')
  for key in ('orders_quat', 'orders_hs', 'orders_c0'):
    orders = ck.extra.pop(key, [])
    if orders:
      ck.extra['observed_' + key] = dict(n=len(orders), min=min(orders), median=float(np.median(orders)), max=max(orders))
  ck.extra['tolerances'] = dict(K_E=K_E, TOL_GRAD=TOL_GRAD, ORDER=[ORDER_LO, ORDER_HI], NSTEP=NSTEP)


replay = gs.make_replay(main)

LEVEL = 'exploration'
TECHNIQUE = ('property-based testing with invariants (energy, momentum) under timestep refinement (metamorphic: h, h/2, '
             'h/4), finite-difference gradient of the reported potential, and a numpy reference for both energies')
LEVEL_TEXT = '''Random conservative models x random states, RK4 at three timesteps: sup-norm energy and momentum drift must be small,
must not grow under refinement, and must shrink at ~4th order when the refinement ratios show the asymptotic regime;
kinetic/potential energy and spring forces are compared with a reference and with the manifold gradient. Sampled.'''
LEVEL_NOTE = '''Trusted: numpy, ctypes reflection, verification build. The order estimate is statistical evidence on sampled models,
asserted only in the asymptotic regime (both refinement ratios consistent, drift above round-off). Not covered: flex
springs, wrapped tendons, contacts. Tendon-armature cases hit by the two reported engine deviations are excluded from
the conservation assertions (energy identities (c)/(d) still checked).'''
