"""C09 - Forward and inverse dynamics agree.

Domain : constrained states of vf.gen_cons (equality, friction loss, limits, contacts of every condim, both cones, actuators,
         qfrc_applied / xfrc_applied) x solver {Newton (tolerance 0, many iterations), CG, PGS} x island x dense/sparse;
         integrators Euler (with and without implicit joint damping), implicit, implicitfast for the discrete variant.
Oracle : the documented identity (programming/simulation.rst "Inverse dynamics", computation "Reduced primal problem")
           qfrc_inverse == qfrc_applied + J' xfrc_applied + qfrc_actuator,   efc_force(inverse) == efc_force(forward)
         when mj_inverse is called at the forward qacc.  The right-hand side is rebuilt independently (body-CoM Jacobians
         from mj_jacBodyCom for xfrc_applied).  The discrepancy of the identity is the gradient of the documented cost at
         qacc, so the precondition "the solver has converged" is measured, not assumed: the bound is
           C_REP * (solver's own reported gradient statistic, 0 for a self-stopped tolerance-0 run) / scale
           + K * eps * (sum of the magnitudes of all force terms)
         and runs whose reported gradient dominates the rounding term are counted as unconverged.  Dual solver (PGS): only
         asserted when vf.oracle.cons certifies the returned point as converged (relative gradient at rounding level).
         Discrete variant: a_d = (qvel(t+h) - qvel(t)) / h from mj_step is fed to mj_inverse with mjENBL_INVDISCRETE.
         mjData.solver_fwdinv (fwdinv flag) must obey the same bound.
Non-trivial : nefc > 0 with >= 2 constraint kinds (equality / friction loss / limit / contact) present.
"""
import numpy as np

from vf import gen_cons as gc
from vf import mj
from vf.oracle import cons
from vf.runner import Violation

EPS = np.finfo(float).eps
# eps-multiples of the rounding scale |M||a| + |bias| + |passive| + |rhs terms| + |J|'(|f| + D(|J|(|a|+|a0|)+|aref|)) (the
# discrete variant multiplies the scale by cond(M): its acceleration is converted by a solve with the inertia).
# Calibrated on the unchanged tree (quick seeds 1-3 at 2x budget + thorough seeds 1,2; ~20000 cases): worst observed
# cont 993, disc 3381, efc 15, efc_disc 2299, fwdinv 36.
K_CONT = 1e5
K_DISC = 4e5
K_EFC = 1e4      # efc_force inverse vs forward in eps units of |f| + D(|J|(|a|+|a0|) + |aref|)
K_EFC_D = 2e5    # same for the discrete variant (scale multiplied by cond(M))
C_REP = 2.0


def applied_rhs(lib, m, d):
  """qfrc_applied + sum_b Jcom_b' xfrc_applied_b + qfrc_actuator, and the sum of magnitudes of its terms."""
  nv = int(m.nv)
  rhs = np.array(d.qfrc_applied, dtype=np.float64) + np.array(d.qfrc_actuator, dtype=np.float64)
  mag = np.abs(np.array(d.qfrc_applied)) + np.abs(np.array(d.qfrc_actuator))
  xf = np.array(d.xfrc_applied, dtype=np.float64)
  jp, jr = np.zeros((3, nv)), np.zeros((3, nv))
  for b in range(1, int(m.nbody)):
    if np.any(xf[b]):
      lib.mj_jacBodyCom(m, d, jp, jr, b)
      rhs += jp.T @ xf[b, :3] + jr.T @ xf[b, 3:]
      mag += np.abs(jp).T @ np.abs(xf[b, :3]) + np.abs(jr).T @ np.abs(xf[b, 3:])
  return rhs, mag


def main(ck):
  lib = ck.lib('rel')
  E = lib.enums
  NEWTON, CG, PGS = E.mjSOL_NEWTON, E.mjSOL_CG, E.mjSOL_PGS
  names = {NEWTON: 'newton', CG: 'cg', PGS: 'pgs'}
  INTS = {E.mjINT_EULER: 'Euler', E.mjINT_IMPLICIT: 'implicit', E.mjINT_IMPLICITFAST: 'implicitfast'}
  ck.rule = ('cases from vf.gen_cons (settled states with actuators, qfrc_applied, xfrc_applied; cone drawn; integrator drawn from '
             'Euler/implicit/implicitfast, eulerdamp toggled) x 4 solver variants (Newton tolerance 0 on island/monolithic and '
             'dense/sparse, CG, PGS); continuous and discrete (invdiscrete) inverse at the forward acceleration; non-trivial = '
             'nefc>0 with >= 2 of {equality, friction loss, limit, contact} present; distinct by case key')
  ck.assumptions = ['RK4 excluded (documented: invdiscrete applies to all integrators other than RK4)',
                    'noslip_iterations = 0 (documented as not solving a single optimisation problem)',
                    'dual solver on sparse storage excluded for models with reduced inertia sparsity (known finding '
                    'C10/computeY-simple-dof)', 'sleep disabled, no flex']
  worst = dict(cont=0.0, disc=0.0, efc=0.0, efc_disc=0.0, fwdinv=0.0)
  ITER = 100 if ck.quick else 200

  def test(case):
    r = gc.prepare(lib, case, ck)
    if r is None:
      return
    m, d0 = r
    if int(m.opt.integrator) not in INTS:
      ck.discard('integrator')
      return
    nv = int(m.nv)
    h = float(m.opt.timestep)
    rng = np.random.RandomState(case.seed ^ 0x2545f491)
    redM = gc.reduced_M(m)
    base_dis = int(m.opt.disableflags) & ~(E.mjDSBL_ISLAND | E.mjDSBL_WARMSTART | E.mjDSBL_EULERDAMP)
    base_en = int(m.opt.enableflags) & ~(E.mjENBL_INVDISCRETE | E.mjENBL_FWDINV)
    eulerdamp = int(rng.randint(4) != 0)
    labels = set(['int:' + INTS[int(m.opt.integrator)], 'eulerdamp' if eulerdamp else 'eulerdamp-off'])
    variants = [(NEWTON, 1, E.mjJAC_DENSE), (NEWTON, 0, E.mjJAC_SPARSE), (CG, int(rng.randint(2)), int(rng.randint(2))),
                (PGS, int(rng.randint(2)), int(rng.randint(2)))]
    kinds = set()
    info = {}
    nefc_any = 0
    for (solver, island, jac) in variants:
      if (solver == PGS or case.get('diagexact')) and jac == E.mjJAC_SPARSE and redM:
        labels.add('excluded:sparse-pgs-on-reduced-M')
        jac = E.mjJAC_DENSE
      m.opt.solver, m.opt.jacobian = solver, jac
      m.opt.tolerance = 0.0 if solver != PGS else 1e-14
      m.opt.iterations = {NEWTON: ITER, CG: 2 * ITER, PGS: 2000}[solver]
      m.opt.disableflags = base_dis | (0 if island else E.mjDSBL_ISLAND) | (0 if eulerdamp else E.mjDSBL_EULERDAMP)
      m.opt.enableflags = base_en
      tag = '%s/%s/%s' % (names[solver], 'island' if island else 'mono', 'sparse' if jac == E.mjJAC_SPARSE else 'dense')
      d1 = lib.copy_data(m, d0)
      try:
        lib.mj_forward(m, d1)
      except mj.MjError as e:
        if 'rank-deficient' in str(e) and gc.illconditioned_hessian(lib, m, d0):
          ck.discard('illconditioned-hessian')
          return
        raise
      if lib.warnings():
        ck.discard('engine-warning')
        return
      nefc = int(d1.nefc)
      a = np.array(d1.qacc, dtype=np.float64)
      if not np.all(np.isfinite(a)):
        ck.discard('nonfinite-qacc')
        return
      f_fwd = np.array(d1.efc_force, dtype=np.float64)[:nefc]
      rhs, rhs_mag = applied_rhs(lib, m, d1)
      # rounding scale of the identity
      M = lib.fullM(m, d1)
      evM = np.linalg.eigvalsh(M)
      condM = float(evM[-1] / evM[0])
      scale = np.abs(M) @ np.abs(a) + np.abs(np.array(d1.qfrc_bias)) + np.abs(np.array(d1.qfrc_passive)) + rhs_mag
      rep = 0.0
      conv = True
      if nefc:
        P = cons.Problem(lib, m, d1)
        aJ = np.abs(P.J)
        # HARNESS rule 2: stiffness/inertia ratio of the constrained problem above 1e8 (e.g. R ~ 1e-15 rows of contacts that
        # cannot move their body): forces are dominated by cancellation; label + skip, counted
        Yw = np.linalg.solve(np.linalg.cholesky(M), P.J.T)
        if 1.0 + float(np.linalg.eigvalsh((Yw * P.D) @ Yw.T)[-1]) > 1e8:
          ck.discard('illconditioned(stiffness/inertia>1e8)')
          return
        fs = np.abs(f_fwd) + P.D * (aJ @ (np.abs(a) + np.abs(P.a0)) + np.abs(P.aref))
        for (i, dim, mu) in P.ell:
          fs[i:i + dim] = np.abs(f_fwd[i:i + dim]).max() + P.D[i:i + dim].max() * max(1.0, float((1 / mu).max()), float(mu.max())) * \
              (aJ[i:i + dim] @ (np.abs(a) + np.abs(P.a0)) + np.abs(P.aref[i:i + dim])).max()
        scale = scale + aJ.T @ fs + np.abs(M) @ np.abs(P.a0)
        Sc = max(float(np.trace(M)), float(m.stat.meaninertia) * max(1, nv))
        if solver != PGS:
          st_ = cons.solver_stats(lib, d1)
          niter = np.array(d1.solver_niter)
          nis = 1 if (not island or int(d1.nisland) == 0) else int(d1.nisland)
          if nis > E.mjNISLAND:
            labels.add('nisland>mjNISLAND')
            continue
          terms = []
          for k in range(nis):
            nk = int(niter[k])
            if nk >= int(m.opt.iterations):
              terms.append(float(st_[k, min(nk, E.mjNSOLVER) - 1]['gradient']) if nk <= E.mjNSOLVER else np.inf)
            else:
              terms.append(0.0)
          rep = float(np.sqrt(np.sum(np.square(terms))))
          if not np.isfinite(rep):
            labels.add(names[solver] + ':no-statistic')
            continue
        else:
          # dual solver: convergence certified by the reference model of the documented problem
          g = P.grad(a)
          if np.linalg.norm(g) > 1e3 * EPS * np.linalg.norm(P.noise(a, P.force(P.jar(a)))):
            labels.add('pgs:unconverged')
            conv = False
        for t in np.unique(P.type):
          kinds.add(('equality', 'frictionloss', 'frictionloss', 'limit', 'limit', 'contact', 'contact', 'contact')[int(t)])
        nefc_any = max(nefc_any, nefc)
      sn = float(np.linalg.norm(scale)) + 1e-300
      if not conv:
        continue
      unconv = bool(nefc and rep * Sc * C_REP > K_CONT * EPS * sn)
      labels.add(names[solver] + (':unconverged(reported)' if unconv else ':converged'))
      bound_rep = C_REP * rep * (Sc if nefc else 0.0)
      # ---------------- continuous inverse at the forward acceleration
      d2 = lib.copy_data(m, d1)
      m.opt.enableflags = base_en
      lib.mj_inverse(m, d2)
      qi = np.array(d2.qfrc_inverse, dtype=np.float64)
      err = float(np.linalg.norm(qi - rhs))
      worst['cont'] = max(worst['cont'], (err - bound_rep) / (EPS * sn))
      if err > bound_rep + K_CONT * EPS * sn and nefc and not P.resolvable(a, qi - rhs):
        # the residual gradient cannot be resolved by a solver working with cost values of this magnitude
        labels.add(names[solver] + ':residual-below-cost-resolution')
        continue
      if err > bound_rep + K_CONT * EPS * sn:
        raise Violation('%s: |qfrc_inverse - (qfrc_applied + J\'xfrc_applied + qfrc_actuator)| = %.6g exceeds reported-gradient '
                        'bound %.3g + %.3g (rounding); nefc=%d ne=%d nf=%d nl=%d ncon=%d cone=%s' % (
                            tag, err, bound_rep, K_CONT * EPS * sn, nefc, d1.ne, d1.nf, d1.nl, d1.ncon, case.cone),
                        bucket='inverse-continuous')
      if nefc:
        f_inv = np.array(d2.efc_force, dtype=np.float64)[:nefc]
        if int(d2.nefc) != nefc:
          raise Violation('%s: mj_inverse changed nefc %d -> %d' % (tag, nefc, d2.nefc), bucket='inverse-efc')
        if solver != PGS:
          e = float(np.linalg.norm(f_inv - f_fwd) / (EPS * np.linalg.norm(fs) + 1e-300))
          worst['efc'] = max(worst['efc'], e)
          if e > K_EFC:
            raise Violation('%s: efc_force of mj_inverse differs from the forward one: |df| = %.6g (%.3g eps of the rounding '
                            'scale)' % (tag, np.linalg.norm(f_inv - f_fwd), e), bucket='inverse-efc')
      # ---------------- discrete inverse
      # (only for converged runs: the integrators advance with M^-1-free formulas built on qfrc_constraint, so for an
      #  unconverged qacc the finite-differenced acceleration corresponds to a different point of the cost)
      if nefc and bound_rep > 10 * EPS * sn:
        labels.add(names[solver] + ':discrete-skipped(residual above rounding)')
      elif (solver == NEWTON or rng.randint(2)) and not unconv:
        m.opt.enableflags = base_en | E.mjENBL_FWDINV
        d3 = lib.copy_data(m, d0)
        try:
          lib.mj_step(m, d3)
        except mj.MjError as e:
          if 'rank-deficient' in str(e) and gc.illconditioned_hessian(lib, m, d0):
            ck.discard('illconditioned-hessian')
            return
          raise
        m.opt.enableflags = base_en
        # fwdinv statistics recorded inside mj_step obey the bound of the continuous identity
        fwdinv = np.array(d3.solver_fwdinv, dtype=np.float64)
        fw = float(np.max(fwdinv))
        if nefc and solver != PGS:
          worst['fwdinv'] = max(worst['fwdinv'], (fw - bound_rep) / (EPS * sn))
          if fw > bound_rep + K_CONT * EPS * sn:
            raise Violation('%s: solver_fwdinv = %s recorded by mj_step exceeds the bound %.3g + %.3g' % (
                tag, fwdinv, bound_rep, K_CONT * EPS * sn), bucket='fwdinv-statistic')
        if lib.warnings() or not np.all(np.isfinite(d3.qvel)):
          labels.add('step-warning')
          continue
        ad = (np.array(d3.qvel, dtype=np.float64) - np.array(d0.qvel, dtype=np.float64)) / h
        d4 = lib.copy_data(m, d1)
        d4.qacc[:] = ad
        m.opt.enableflags = base_en | E.mjENBL_INVDISCRETE
        lib.mj_inverse(m, d4)
        m.opt.enableflags = base_en
        qi = np.array(d4.qfrc_inverse, dtype=np.float64)
        # extra rounding: velocity difference / h and the damping-modified inertia
        vs = (np.abs(np.array(d3.qvel)) + np.abs(np.array(d0.qvel))) / h
        # the conversion a_d -> qacc solves with the inertia: rounding amplified by cond(M) (tolerance policy of DESIGN 4)
        sn_d = condM * float(np.linalg.norm(scale + np.abs(M) @ (np.abs(ad) + vs))) + 1e-300
        err = float(np.linalg.norm(qi - rhs))
        worst['disc'] = max(worst['disc'], (err - bound_rep) / (EPS * sn_d))
        if err > bound_rep + K_DISC * EPS * sn_d:
          raise Violation('%s: discrete inverse (invdiscrete, %s%s): |qfrc_inverse - applied| = %.6g exceeds bound %.3g + %.3g; '
                          'nefc=%d' % (tag, INTS[int(m.opt.integrator)], '' if eulerdamp else ', eulerdamp off', err, bound_rep,
                                       K_DISC * EPS * sn_d, nefc), bucket='inverse-discrete')
        if nefc and solver != PGS:
          f_inv = np.array(d4.efc_force, dtype=np.float64)[:nefc]
          # (the conversion solve couples the dofs of a tree: every dof carries rounding of the size of the largest one)
          amax = float(np.max(np.abs(ad) + np.abs(a), initial=0.0))
          e = float(np.linalg.norm(f_inv - f_fwd) / (EPS * condM * np.linalg.norm(fs + P.D * (aJ @ (np.abs(ad) + vs + amax))) + 1e-300))
          worst['efc_disc'] = max(worst['efc_disc'], e)
          if e > K_EFC_D:
            raise Violation('%s: efc_force of the discrete inverse differs from the forward one: |df| = %.6g (%.3g eps)' % (
                tag, np.linalg.norm(f_inv - f_fwd), e), bucket='inverse-discrete-efc')
        labels.add('discrete')
      info = dict(nefc=nefc, ne=int(d1.ne), nf=int(d1.nf), nl=int(d1.nl), ncon=int(d1.ncon), variant=tag)
    m.opt.disableflags = base_dis
    m.opt.enableflags = base_en
    nt = nefc_any > 0 and len(kinds) >= 2
    labs = sorted(labels) + ['cone:' + case.cone] + ['kind:' + k for k in sorted(kinds)]
    if nefc_any == 0:
      labs.append('nefc=0')
    labs += [l for l in case.labels if l.startswith(('act:', 'trn:', 'eq:'))]
    ck.case(nontrivial=nt, key=case.key(), sample=case.sample(kinds=sorted(kinds), **info) if nt else None, labels=labs)

  ck.run_hypothesis(test, gc.cases(max_bodies=5 if ck.quick else 7), ck.budget(900, 8000), name='fwdinv')
  ck.extra['tolerances'] = dict(K_CONT=K_CONT, K_DISC=K_DISC, K_EFC=K_EFC, K_EFC_D=K_EFC_D, C_REP=C_REP)
  ck.extra['worst_observed_eps'] = {k: float('%.4g' % v) for k, v in worst.items()}


LEVEL = 'exploration'
TECHNIQUE = ('property-based testing (Hypothesis models + settled states) of the forward/inverse identity with an independently '
             'rebuilt right-hand side, convergence measured from the solver statistics / a reference gradient, continuous and '
             'discrete-time (invdiscrete) variants')
LEVEL_TEXT = '''Generated constrained states (all constraint kinds, both cones, actuators and applied forces) are solved forward
(Newton with tolerance 0, CG, PGS; islands, dense/sparse) and mj_inverse is called at the forward acceleration and at the
finite-differenced acceleration of mj_step with invdiscrete (Euler with/without implicit damping, implicit, implicitfast).
qfrc_inverse must equal qfrc_applied + J'xfrc_applied + qfrc_actuator (right-hand side rebuilt with body-CoM Jacobians) within
the solver's own reported residual plus rounding, and the constraint forces of the inverse must equal the forward ones.'''
LEVEL_NOTE = '''Sampled, not exhaustive. Convergence is measured: runs whose reported gradient dominates the bound are labelled
unconverged (bound is then loose), PGS is asserted only when the reference gradient certifies convergence. RK4, noslip, sleep
and flex are excluded as documented. qfrc_actuator is the engine's own (C27 checks it).'''
