"""C10 - Constraint solvers return the optimum of the documented problem.

Domain : generated models (vf.gen_cons: equality / friction loss / limits / contacts of condim 1,3,4,6, both cones,
         anisotropic explicit pairs, tendons) in settled states x {Newton, CG, PGS} x island on/off x dense/sparse
         Jacobian x warmstart on/off, noslip = 0.
Oracle : vf.oracle.cons - the documented objective 1/2 (a-a0)'M(a-a0) + s(J a - aref), s defined as the conjugate of the
         dual problem (projection on Omega in the R metric), its gradient, the strong-convexity certificate
         delta(a) = sqrt(g'M^-1 g) >= |a - a*|_M, and a damped-Newton reference minimiser.
         What is asserted on the engine is always tied to what the engine *claims* (statistics, early stop), never to an
         iteration budget:
           force-law    efc_force == -grad s(J qacc - aref) (primal solvers);  M (qacc - a0) == J' efc_force (PGS)
           optimality   a primal solver that stops by itself although early termination is disabled (tolerance 0)
                        is at the optimum to rounding;  after any iteration the oracle gradient norm is bounded by the
                        reported gradient statistic (+ rounding)
           monotone     cost(final) <= min(cost(warmstart), cost(qacc_smooth)) (only qacc_smooth without warmstart)
           agreement    every solver / island / storage variant and the reference minimiser lie within their certified
                        distances of each other; all variants see bit-compatible problem data
           pgs-gap      PGS that stopped on its tolerance has a small relative duality gap primal(a(f)) + dual(f)
Non-trivial : >= 2 different zones of the piecewise cost are occupied at the solution (e.g. an active contact row and a
         saturated friction-loss row).
"""
import numpy as np
from hypothesis import strategies as st

from vf import gen_cons as gc
from vf import mj
from vf.oracle import cons
from vf.runner import Violation

EPS = np.finfo(float).eps
# Tolerance constants (HARNESS rule 2): calibrated on the unchanged tree (quick seeds 1-3, 3 runs at 8x budget, thorough seeds
# 1,2; ~25000 cases); ratios are in eps units of the rounding scale `noise` = |M|(|a|+|a0|) + |J|'(|f| + D(|J|(|a|+|a0|)+|aref|)).
K_GRAD = 6e4      # oracle gradient at a self-declared optimum: worst observed 600 eps
K_FORCE = 1e4     # efc_force vs oracle force law, per solver iteration (J*qacc - aref is updated incrementally): worst observed
                  # 12 eps for short runs, 8e5 eps after 200 iterations (bound 2e6)
K_DATA = 1e3      # problem data (J, aref, R, a0, M) between storage / island variants: worst observed 1.8 eps
K_COST = 1e4      # cost comparisons, in eps units of the sum of the absolute cost terms: worst observed 0.15
C_REP = 2.0       # slack factor on the reported gradient statistic
PGS_GAP = 1e-3    # loose relative duality gap of a PGS run that stopped on tolerance 1e-14 (worst observed 7e-6)


def trace_scale(P, m):
  """Upper bound of 1/scale of the solver statistics: the statistics are documented as scaled by 1/trace(M(qpos0))
  (= 1/(meaninertia*nv)); island solves use the island's own trace.  Using the largest of these traces can only make
  the bound  |g| <= reported * trace  looser."""
  return max(float(np.trace(P.M)), float(m.stat.meaninertia) * max(1, int(m.nv)))


def run(lib, m, d0, solver, island, jac, warm, tol, iters):
  E = lib.enums
  m.opt.solver = solver
  m.opt.jacobian = jac
  m.opt.tolerance = tol
  m.opt.iterations = iters
  fl = int(m.opt.disableflags) & ~(E.mjDSBL_ISLAND | E.mjDSBL_WARMSTART)
  if not island:
    fl |= E.mjDSBL_ISLAND
  if not warm:
    fl |= E.mjDSBL_WARMSTART
  m.opt.disableflags = fl
  d = lib.copy_data(m, d0)
  lib.mj_forward(m, d)
  return d


FP_COMPUTEY = 'C10/computeY-simple-dof'
FP_STATIC = 'C10/static-static-pair-dense'

PROBE_COMPUTEY = [
    ('free joint with frictionloss, PGS, sparse',
     '<mujoco><option solver="PGS" jacobian="sparse"/><worldbody><body><joint type="free" frictionloss="0.01"/>'
     '<geom type="sphere" size=".1"/></body></worldbody></mujoco>'),
    ('two slide joints with frictionloss on a point-symmetric body, PGS, sparse',
     '<mujoco><option solver="PGS" jacobian="sparse"/><worldbody><body><joint type="slide" axis="1 0 0" frictionloss="0.01"/>'
     '<joint type="slide" axis="0 1 0" frictionloss="0.01"/><geom type="sphere" size=".1"/></body></worldbody></mujoco>'),
    ('free joint with frictionloss, Newton + noslip, sparse',
     '<mujoco><option solver="Newton" jacobian="sparse" noslip_iterations="3"/><worldbody><geom type="plane" size="1 1 .1"/>'
     '<body pos="0 0 .05"><joint type="free" frictionloss=".1"/><geom type="sphere" size=".1"/></body></worldbody></mujoco>'),
    ('free joint with frictionloss, Newton, sparse, diagexact flag',
     '<mujoco><option solver="Newton" jacobian="sparse"><flag diagexact="enable"/></option><worldbody><body>'
     '<joint type="free" frictionloss="0.01"/><geom type="sphere" size=".1"/></body></worldbody></mujoco>'),
]
PROBE_STATIC = [
    ('explicit pair floor / geom of a jointless body, default options (dense Jacobian, islands)',
     '<mujoco><worldbody><geom name="floor" type="plane" size="3 3 .1"/><body pos="0 0 1"><joint type="free"/>'
     '<geom type="sphere" size="0.03"/></body><body><geom name="g2" type="sphere" size="0.03"/></body></worldbody>'
     '<contact><pair geom1="floor" geom2="g2"/></contact></mujoco>'),
]


def probes(ck, lib):
  """One dedicated probe per known finding: every variant of the documented option space must load and run
  (doc/computation: 'Each solver algorithm can be used with both pyramidal and elliptic friction cones, and both dense
  and sparse representations of the constraint Jacobian')."""
  for fp, bucket, lst in ((FP_COMPUTEY, 'sparse-dual-simple-dof', PROBE_COMPUTEY), (FP_STATIC, 'static-static-pair', PROBE_STATIC)):
    for what, xml in lst:
      try:
        m = lib.model_from_xml(xml)
        d = lib.make_data(m)
        lib.mj_forward(m, d)
        lib.mj_step(m, d)
        ck.label('probe-ok:' + bucket)
      except mj.MjError as e:
        ck.violation('valid model (%s) cannot be compiled / stepped: %s' % (what, e), dict(xml=xml), bucket=bucket,
                     fingerprint=fp)


def main(ck):
  lib = ck.lib('rel')
  E = lib.enums
  NEWTON, CG, PGS = E.mjSOL_NEWTON, E.mjSOL_CG, E.mjSOL_PGS
  names = {NEWTON: 'newton', CG: 'cg', PGS: 'pgs'}
  ck.rule = ('cases from vf.gen_cons (modelgen trees + raised floor, default condim/frictionloss classes, anisotropic explicit '
             'pairs; state = generated state + k in {0,1,3,10,30} mj_step; cone drawn); each case is solved by Newton '
             '(island x dense/sparse x warmstart, tolerance 0), CG (2 variants, tolerance 0), PGS (island on/off, tolerance '
             '1e-14, 2000 iterations) and a 1-3 iteration Newton run; non-trivial = >= 2 distinct cost zones occupied at '
             'the solution; distinct by (xml, state seed, settle steps, cone, scales)')
  ck.assumptions = ['problem data (M, qacc_smooth, efc_J, efc_aref, efc_R, efc_frictionloss, contact friction/dim) are '
                    'taken from the engine; their correctness is the subject of C06/C07/C12/C13',
                    'noslip_iterations = 0 (the documentation says the noslip cascade no longer solves a single problem)',
                    'no flex (implicit effective metric inactive), no geom adhesion',
                    'explicit contact pairs are only generated for geoms of jointed bodies (see report: static-static '
                    'pair + dense Jacobian + islands raises an engine error)']
  stats = dict(max_grad_eps=0.0, max_force_eps=0.0, max_data_eps=0.0, max_pgs_gap=0.0, max_cost_eps=0.0,
               max_agree_ratio=0.0, max_rep_ratio=0.0)
  ITER = 100 if ck.quick else 200
  probes(ck, lib)

  def test(case):
    r = gc.prepare(lib, case, ck)
    if r is None:
      return
    m, d0 = r
    if int(m.nv) > 40:
      ck.discard('nv>40')
      return
    dflags0 = int(m.opt.disableflags)
    redM = gc.reduced_M(m)
    rng = np.random.RandomState(case.seed)
    # ---- variants
    variants = []
    for island in (1, 0):
      for jac in (E.mjJAC_DENSE, E.mjJAC_SPARSE):
        for warm in (1, 0):
          variants.append((NEWTON, island, jac, warm, 0.0, ITER))
    for island in (1, 0):
      variants.append((CG, island, int(rng.choice([E.mjJAC_DENSE, E.mjJAC_SPARSE])), int(rng.randint(2)), 0.0, 2 * ITER))
    for island in (1, 0):
      variants.append((PGS, island, int(rng.choice([E.mjJAC_DENSE, E.mjJAC_SPARSE])), int(rng.randint(2)), 1e-14, 2000))
    variants.append((NEWTON, int(rng.randint(2)), int(rng.choice([E.mjJAC_DENSE, E.mjJAC_SPARSE])), 1, 1e-8,
                     int(rng.randint(1, 4))))
    variants.append((CG, int(rng.randint(2)), int(rng.choice([E.mjJAC_DENSE, E.mjJAC_SPARSE])), 1, 1e-8,
                     int(rng.randint(1, 6))))
    P = None
    sols = []
    a_ws = np.array(d0.qacc_warmstart, dtype=np.float64)
    labels = set()
    for (solver, island, jac, warm, tol, iters) in variants:
      if (solver == PGS or case.get('diagexact')) and jac == E.mjJAC_SPARSE and redM:
        # input class of known finding C10/computeY-simple-dof (probed separately): excluded by construction, counted
        labels.add('excluded:sparse-pgs-on-reduced-M')
        jac = E.mjJAC_DENSE
      try:
        d = run(lib, m, d0, solver, island, jac, warm, tol, iters)
      except mj.MjError as e:
        if 'rank-deficient' not in str(e):
          raise
        # Newton's Cholesky of M + J'DJ failed: legitimate only for numerically singular problems (stiffness/inertia
        # ratio > 1e8, e.g. R ~ 1e-15 rows); measured on a dense CG pass of the same state, else a violation
        if gc.illconditioned_hessian(lib, m, d0):
          ck.discard('illconditioned-hessian')
          return
        raise
      if lib.warnings():
        ck.discard('engine-warning')
        return
      if int(d.nefc) == 0:
        ck.case(nontrivial=False, labels=['nefc=0'])
        return
      if int(d.efm_active):
        raise Violation('efm_active set without flex', bucket='problem-data')
      tag = '%s/%s/%s/%s' % (names[solver], 'island' if island else 'mono', 'sparse' if jac == E.mjJAC_SPARSE else 'dense',
                             'warm' if warm else 'cold')
      Pv = cons.Problem(lib, m, d)
      if P is None:
        P = Pv
        errs = P.layout_errors()
        if errs:
          raise Violation('problem layout: %s' % errs, bucket='problem-data')
        Sc = trace_scale(P, m)
        lam_min = float(np.linalg.eigvalsh(P.M)[0])
        Lc = np.linalg.cholesky(P.M)
        Yw = np.linalg.solve(Lc, P.J.T)            # M^-1/2 J'
        condH = 1.0 + float(np.linalg.eigvalsh((Yw * P.D) @ Yw.T)[-1])   # cond of the Hessian bound M + J'DJ in the M metric
        nisland = int(d.nisland)
      else:
        # all variants must see the same documented problem
        same = Pv.nefc == P.nefc and np.array_equal(Pv.type, P.type) and np.array_equal(Pv.id, P.id)
        A, B = Pv, P
        if not same:
          # storage variants may keep or drop rows whose Jacobian is identically zero (they do not change the problem);
          # everything else must coincide
          kv, kp = np.any(Pv.J != 0, axis=1), np.any(P.J != 0, axis=1)
          if not (np.array_equal(Pv.type[kv], P.type[kp]) and np.array_equal(Pv.id[kv], P.id[kp])):
            raise Violation('%s: constraint list differs from the first variant beyond zero-Jacobian rows (nefc %d vs %d)'
                            % (tag, Pv.nefc, P.nefc), bucket='problem-data')
          labels.add('zero-jacobian-rows-differ-between-variants')

          class _V:
            pass
          A, B = _V(), _V()
          for o, src, k in ((A, Pv, kv), (B, P, kp)):
            o.J, o.aref, o.R, o.a0, o.M, o.aref_scale = src.J[k], src.aref[k], src.R[k], src.a0, src.M, src.aref_scale[k]
        for nm, x, y, sc in (('efc_J', A.J, B.J, np.abs(B.J).max(initial=0)), ('efc_aref', A.aref, B.aref, A.aref_scale + B.aref_scale),
                             ('efc_R', A.R, B.R, None), ('qacc_smooth', A.a0, B.a0, np.abs(B.a0).max(initial=0)),
                             ('M', A.M, B.M, np.abs(B.M).max())):
          scale = (np.abs(x) + np.abs(y)) if sc is None else sc
          err = np.abs(x - y)
          ratio = float(np.max(err / (EPS * (scale + 1e-300)), initial=0))
          stats['max_data_eps'] = max(stats['max_data_eps'], ratio)
          if ratio > K_DATA:
            raise Violation('%s: %s differs from the first variant by %.3g eps' % (tag, nm, ratio), bucket='problem-data')
      Q = Pv
      aJ = np.abs(Q.J)
      a = np.array(d.qacc, dtype=np.float64)
      fE = np.array(d.efc_force, dtype=np.float64)[:Q.nefc]
      if not (np.all(np.isfinite(a)) and np.all(np.isfinite(fE))):
        raise Violation('%s: non-finite qacc/efc_force' % tag, bucket='nonfinite')
      y = Q.jar(a)
      g, fO = Q.grad(a, with_force=True)
      noise = Q.noise(a, fO)
      nn = float(np.linalg.norm(noise)) + 1e-300
      gn = float(np.linalg.norm(g))
      # block-wise rounding scale of a force: |f| + D_max(block) (|J||a| + |aref|)
      Dm = Q.D.copy()
      for (i, dim, mu) in Q.ell:
        Dm[i:i + dim] = Q.D[i:i + dim].max() * max(1.0, float((1 / mu).max()), float(mu.max()))
      fscale = np.abs(fO) + np.abs(fE) + Dm * (aJ @ (np.abs(a) + np.abs(Q.a0)) + np.abs(Q.aref))
      st_ = cons.solver_stats(lib, d)
      niter = np.array(d.solver_niter, dtype=np.int64)
      ni_used = 1 if not island or int(d.nisland) == 0 else int(d.nisland)
      # ---------------- force law
      if solver != PGS:
        fr = float(np.linalg.norm(fE - fO) / (EPS * np.linalg.norm(fscale) + 1e-300))
        stats['max_force_eps'] = max(stats['max_force_eps'], fr)
        # (the primal solvers update J*qacc - aref incrementally: one rounding error of this scale per iteration)
        if fr > K_FORCE * (1 + int(np.sum(niter[:min(ni_used, E.mjNISLAND)]))):
          raise Violation('%s: efc_force differs from the documented force law -grad s(J qacc - aref): |df|=%.3g (%.3g eps '
                          'of the rounding scale), nefc=%d' % (tag, np.linalg.norm(fE - fO), fr, Q.nefc), bucket='force-law')
      else:
        lhs = Q.M @ (a - Q.a0)
        rhs = Q.J.T @ fE
        sc = np.abs(Q.M) @ np.abs(a - Q.a0) + aJ.T @ np.abs(fE) + np.abs(Q.M) @ np.abs(Q.a0)
        fr = float(np.linalg.norm(lhs - rhs) / (EPS * np.linalg.norm(sc) + 1e-300))
        stats['max_force_eps'] = max(stats['max_force_eps'], fr)
        if fr > K_FORCE * 10:
          raise Violation('%s: M (qacc - qacc_smooth) != J\' efc_force after PGS (%.3g eps)' % (tag, fr), bucket='force-law')
      # ---------------- optimality claims
      claim = None
      if solver != PGS:
        if ni_used > E.mjNISLAND:
          labels.add('nisland>mjNISLAND')
        else:
          ks = range(ni_used)
          rep_terms = []
          self_stop = True
          for k in ks:
            nk = int(niter[k])
            if nk >= iters:
              self_stop = False
            if nk == 0:
              if tol > 0:          # certificate claim: gradient (Newton) / gap below tolerance; bound by tolerance itself
                rep_terms.append(tol if solver == NEWTON else np.inf)
              else:
                rep_terms.append(0.0)
            elif nk >= iters or tol > 0:
              rep_terms.append(float(st_[k, min(nk, E.mjNSOLVER) - 1]['gradient']) if nk <= E.mjNSOLVER else np.inf)
            else:
              rep_terms.append(0.0)   # stopped by itself with early termination disabled: claims a line-search optimum
          rep = float(np.sqrt(np.sum(np.square(rep_terms)))) if np.all(np.isfinite(rep_terms)) else np.inf
          bound = C_REP * rep * Sc + K_GRAD * EPS * nn
          if np.isfinite(bound):
            claim = 'selfstop' if (tol == 0 and self_stop) else 'reported'
            if rep > 0:
              stats['max_rep_ratio'] = max(stats['max_rep_ratio'], gn / (rep * Sc))
            else:
              stats['max_grad_eps'] = max(stats['max_grad_eps'], gn / (EPS * nn))
            if gn > bound and not Q.resolvable(a, g):
              labels.add('%s:residual-below-cost-resolution' % names[solver])
            elif gn > bound:
              raise Violation('%s: oracle gradient norm %.6g at the returned qacc exceeds what the solver claims (%s: reported '
                              'scaled gradient %.3g -> bound %.3g; rounding scale %.3g; niter=%s of %d, tolerance=%g, '
                              'nefc=%d, nv=%d)' % (tag, gn, claim, rep, bound, nn, list(niter[:ni_used]), iters, tol, Q.nefc,
                                                    Q.nv), bucket=names[solver] + '-optimality')
          labels.add('%s:%s' % (names[solver], claim or 'noclaim'))
        # ---------------- monotone
        c_fin = Q.cost(a)
        c_s = Q.cost(Q.a0)
        c_start = min(c_s, Q.cost(a_ws)) if warm else c_s
        cscale = Q.cost_scale(a) + Q.cost_scale(a_ws if warm else Q.a0) + Q.cost_scale(Q.a0)
        exc = (c_fin - c_start) / (EPS * cscale + 1e-300)
        stats['max_cost_eps'] = max(stats['max_cost_eps'], float(exc))
        if exc > K_COST:
          raise Violation('%s: final cost %.17g is above the cost of the documented starting point %.17g (excess %.3g eps of '
                          'the cost terms)' % (tag, c_fin, c_start, exc), bucket='monotone')
      else:
        # PGS stopped on tolerance 1e-14 before its 2000 iterations: loose fixed-point residual
        stopped = all(int(niter[k]) < iters for k in range(min(ni_used, E.mjNISLAND))) and ni_used <= E.mjNISLAND
        if stopped:
          # Documented exception (doc "PGS": ray from the tip of the cone through the current solution, then the
          # ellipsoid slice at the current normal force): a block sitting exactly at the tip with a normal row that asks
          # for no force (y_n >= 0) cannot be moved by either step although the conic optimum may be non-zero.  Such
          # blocks are masked (counted) and the fixed point is required of all other rows.
          # Second exception (observed, reported): the friction sub-problem solvers mju_QCQP2/3/N give up and return zero
          # friction when the mu-scaled friction block of A+R fails an ABSOLUTE 1e-10 determinant / pivot test; PGS then
          # reports zero improvement with a non-optimal block.  Blocks below 1e-9 are masked (counted).
          mask = np.ones(Q.nefc, dtype=bool)
          ARo = Q.J @ np.linalg.solve(Q.M, Q.J.T) + np.diag(Q.R)
          for (i, dim, mu) in Q.ell:
            if not np.any(fE[i:i + dim]) and y[i] >= 0 and np.any(fO[i:i + dim]):
              mask[i:i + dim] = False
              labels.add('pgs:elliptic-tip-fixed-point')
              continue
            Ac = ARo[i + 1:i + dim, i + 1:i + dim] * np.outer(mu, mu)
            degenerate = (np.linalg.det(Ac) < 1e-9) if dim < 6 else (np.linalg.eigvalsh(Ac)[0] < 1e-9)
            if degenerate:
              mask[i:i + dim] = False
              labels.add('pgs:qcqp-degenerate-block')
          labels.add('pgs:stopped')
          claim = 'pgs-stopped'
          if not np.all(mask):
            labels.add('pgs:stopped-with-excepted-block')
          elif condH > 1e8:
            # a(f) = a0 + M^-1 J'f is dominated by cancellation when the constraint stiffness exceeds the inertia by more
            # than 1e8 (R ~ 1e-15 rows of degenerate contacts): HARNESS rule 2, label + skip
            labels.add('pgs:illconditioned-skip')
          else:
            # certified suboptimality (doc "Warmstart": duality gap at the constraint forces): primal cost at
            # a(f) = a0 + M^-1 J'f plus dual cost at f is >= 0 and vanishes only at the optimum; a negative value means f is
            # outside Omega.  PGS only promises a small cost improvement per sweep, so the bound is loose (relative 1e-3).
            dual = 0.5 * fE @ (ARo @ fE) + fE @ (Q.J @ Q.a0 - Q.aref)
            primal = Q.cost(a)
            gap = primal + dual
            gscale = abs(primal) + abs(dual) + 1e3 * EPS * Q.cost_scale(a) + 1e-300
            stats['max_pgs_gap'] = max(stats['max_pgs_gap'], abs(gap) / gscale)
            if abs(gap) > PGS_GAP * gscale:
              raise Violation('%s: PGS stopped on tolerance after %s iterations with relative duality gap %.3g (primal %.9g, '
                              'dual %.9g): efc_force is %s' % (tag, list(niter[:ni_used]), gap / gscale, primal, dual,
                                                               'not optimal' if gap > 0 else 'outside the admissible set'),
                              bucket='pgs-gap')
        else:
          labels.add('pgs:unconverged')
      sols.append((tag, a, P.delta(P.grad(a)), claim, nn))
    # ---------------- reference minimiser and agreement
    a_ref, info = cons.minimize(P, maxiter=100)
    g_ref = P.grad(a_ref)
    d_ref = P.delta(g_ref)
    ref_conv = info['rel'] <= 1e-13
    labels.add('ref:converged' if ref_conv else 'ref:unconverged')
    nn_ref = float(np.linalg.norm(P.noise(a_ref, P.force(P.jar(a_ref)))))
    for (tag, a, dl, claim, nn_a) in sols:
      slack = K_GRAD * EPS * (nn_ref + nn_a) / np.sqrt(lam_min)
      dist = P.mnorm(a - a_ref)
      ratio = dist / (dl + d_ref + slack + 1e-300)
      stats['max_agree_ratio'] = max(stats['max_agree_ratio'], ratio)
      if ratio > 1.0:
        raise Violation('%s: |qacc - qacc_ref|_M = %.6g exceeds the certified distances %.3g + %.3g (+%.3g rounding): the '
                        'variants do not solve the same strongly convex problem' % (tag, dist, dl, d_ref, slack),
                        bucket='agreement')
      # a variant that claims optimality must also be as cheap as the converged reference
      if ref_conv and claim == 'selfstop':
        c_e, c_r = P.cost(a), P.cost(a_ref)
        cs = P.cost_scale(a) + P.cost_scale(a_ref)
        if c_e - c_r > K_COST * EPS * cs + 0.5 * d_ref ** 2:
          raise Violation('%s: cost %.17g above the reference optimum %.17g' % (tag, c_e, c_r), bucket='cost-vs-ref')
    zones = set(P.zones(a_ref))
    comp = gc.composition(lib, d)
    nt = len(zones) >= 2
    labs = sorted(labels) + comp + ['zone:' + z for z in sorted(zones)] + ['cone:' + case.cone]
    if nisland >= 2:
      labs.append('nisland>=2')
    labs += [l for l in case.labels if l.startswith(('eq:', 'tendon:', 'pair:', 'default:'))]
    m.opt.disableflags = dflags0
    ck.case(nontrivial=nt, key=case.key(),
            sample=case.sample(nefc=P.nefc, nv=P.nv, ne=P.ne, nf=P.nf, nl=P.nl, ncon=int(d.ncon), nisland=nisland,
                               zones=sorted(zones), ref_iters=info['iters'],
                               newton_iters=[int(x) for x in niter[:3]]) if nt else None,
            labels=labs)

  ck.run_hypothesis(test, gc.cases(max_bodies=5 if ck.quick else 7), ck.budget(600, 9000), name='solvers')
  ck.extra['tolerances'] = dict(K_GRAD=K_GRAD, K_FORCE=K_FORCE, K_DATA=K_DATA, K_COST=K_COST, C_REP=C_REP, PGS_GAP=PGS_GAP)
  ck.extra['worst_observed'] = {k: float('%.4g' % v) for k, v in stats.items()}


LEVEL = 'exploration'
TECHNIQUE = ('property-based testing (Hypothesis models + settled states) with a reference model of the documented convex '
             'problem: dual-projection cost/gradient oracle, strong-convexity distance certificates, damped-Newton reference '
             'minimiser, differential over solver / island / storage / warmstart variants')
LEVEL_TEXT = '''Generated constrained states are solved by Newton, CG and PGS under every island / dense-sparse / warmstart
variant. The engine's results are judged by an independent evaluation of the documented objective (conjugate of the dual
problem, no zone formulas of the C code): force law, truthfulness of the solver's own convergence claims (self-stop with
tolerance 0, reported gradient statistic), monotone decrease from the documented warm start, certified agreement of all
variants with a damped-Newton reference minimiser, loose duality-gap bound for PGS runs that stopped on tolerance.'''
LEVEL_NOTE = '''Sampled, not exhaustive. Problem data (M, J, aref, R) are the engine's own; only nv <= 40. Unconverged runs
(iteration budget exhausted, PGS not stopped) are counted in the labels and only checked against their certified distance.
noslip excluded (documented as not solving one problem); flex / adhesion excluded. Explicit pairs between two static geoms
are kept out of the generator (they make mj_forward raise an error with dense Jacobian + islands - reported separately).'''
