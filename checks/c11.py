"""C11 - Constraint forces are admissible.

Domain : constrained states of vf.gen_cons (all constraint kinds, condim 1/3/4/6, both cones, anisotropic pairs) x solver
         {Newton, CG, PGS} x iterations {1, 3, 100} (unconverged iterates included) x noslip {0, 1..5} x island on/off x
         dense/sparse Jacobian x warmstart on/off.
Oracle : invariants of the documented admissible set Omega (doc/computation "Dual problem", "Friction cones"):
           friction-loss rows  |f| <= frictionloss
           limit, frictionless and pyramidal rows  f >= 0
           elliptic blocks  f_1 >= 0,  f_1^2 >= sum_i f_i^2 / mu_{i-1}^2   (mu = contact.friction)
         plus  qfrc_constraint == J' efc_force,  and mj_contactForce == the contact-frame wrench implied by efc_force:
         identity basis for elliptic cones, the documented pyramid edge basis for pyramidal cones (re-implemented in
         vf.oracle.cons.pyramid_decode), zero for contacts that are not in the constraint list.  The decode is cross-checked
         physically: the generalized force of the contact rows  J_c' f_c  must equal  S' w  where w is the reported wrench
         and S the 6 x nv contact-frame Jacobian built from mj_jac of the two bodies at the contact point.
Non-trivial : a sliding contact (force on the boundary of its cone with positive normal force) or a saturated
         friction-loss row is present.
"""
import numpy as np

from vf import gen_cons as gc
from vf import mj
from vf.oracle import cons
from vf.runner import Violation

EPS = np.finfo(float).eps
# Admissibility slack: the projections are clamps / analytic cone formulas, so violations should be at rounding level.
# Worst observed (quick seeds 1-3 + thorough seeds 1,2; ~20000 cases x 8 variants): bound rows 0 (exact), elliptic cone 2.2e-13.
REL = 1e-9
K_QFRC = 1e3     # qfrc_constraint vs J'f in eps units of |J|'|f|: worst observed 2.1
K_DEC = 1e3      # mj_contactForce vs decode in eps units: worst observed 0.99
K_PHYS = 1e4     # S'w vs J_c'f_c in eps units of (|frame| (|jac2|+|jac1|))'|w| + |J_c|'|f_c|: worst observed 1.1

def contact_jac(lib, m, d, c, nv):
  """6 x nv Jacobian of the relative spatial velocity (body of geom[1] minus body of geom[0]) at the contact point,
  expressed in the contact frame (doc 'Friction cones': contact Jacobian, force acts from the first to the second geom)."""
  con = d.contact
  pos = np.array(con['pos'][c], dtype=np.float64)
  fr = np.array(con['frame'][c], dtype=np.float64).reshape(3, 3)    # rows are the axes
  g1, g2 = int(con['geom'][c][0]), int(con['geom'][c][1])
  b1, b2 = int(m.geom_bodyid[g1]), int(m.geom_bodyid[g2])
  jp1, jr1, jp2, jr2 = (np.zeros((3, nv)) for _ in range(4))
  lib.mj_jac(m, d, jp1, jr1, pos, b1)
  lib.mj_jac(m, d, jp2, jr2, pos, b2)
  S = np.vstack([fr @ (jp2 - jp1), fr @ (jr2 - jr1)])
  # magnitude of the terms that are added to form S (the two body Jacobians may cancel): rounding scale of S
  af = np.abs(fr)
  Smag = np.vstack([af @ (np.abs(jp2) + np.abs(jp1)), af @ (np.abs(jr2) + np.abs(jr1))])
  return S, Smag


FP_NOSLIP = 'C11/noslip-qcqp-infeasible'
PROBE_NOSLIP_XML = (
    '<mujoco><option timestep="0.001" cone="elliptic" noslip_iterations="3" impratio="0.5"/><worldbody>'
    '<geom name="floor" type="plane" size="3 3 .1"/><body name="b1"><joint type="ball" pos="-0.04 0 -0.04"/>'
    '<inertial pos="0 0 0" mass="0.1" diaginertia="0.01 0.01 0.002"/><body name="b2" pos="0.08 0 -0.07" '
    'quat="-0.5773502691896258 -0.5773502691896258 -0.5773502691896258 0"><joint type="hinge" axis="1 -1 0"/>'
    '<joint type="slide" axis="0 1 -1"/><geom type="sphere" size="0.19" contype="0" conaffinity="0"/>'
    '<geom type="capsule" size="0.03 0.03" condim="6"/></body></body></worldbody></mujoco>')
PROBE_NOSLIP_QPOS = [0.99970377, 0.00488087, 0.02151681, 0.01027532, 0.00897664, -0.01526904]


def cone_excess(d, c, f):
  """(normal, friction-weighted tangential norm) of elliptic contact c."""
  adr = int(d.contact['efc_address'][c])
  dim = int(d.contact['dim'][c])
  mu = np.array(d.contact['friction'][c], dtype=np.float64)[:dim - 1]
  fb = f[adr:adr + dim]
  return float(fb[0]), float(np.sqrt(np.sum((fb[1:] / mu) ** 2))), fb


def probe_noslip(ck, lib):
  """Dedicated probe of known finding C11/noslip-qcqp-infeasible: noslip + elliptic cone + condim-6 contact returns a
  force outside the friction cone (mju_QCQP early exit flagged 'unconstrained', projection skipped)."""
  m = lib.model_from_xml(PROBE_NOSLIP_XML)
  d = lib.make_data(m)
  d.qpos[:] = PROBE_NOSLIP_QPOS
  lib.mj_forward(m, d)
  f = np.array(d.efc_force, dtype=np.float64)
  for c in range(int(d.ncon)):
    if int(d.contact['efc_address'][c]) < 0:
      continue
    fn, tn, fb = cone_excess(d, c, f)
    if fn < 0 or tn > fn * (1 + REL):
      ck.violation('noslip_iterations=3, elliptic cone, condim 6: contact %d force %s has friction-weighted tangential norm '
                   '%.6g > normal force %.6g (friction %s)' % (c, fb, tn, fn, d.contact['friction'][c]),
                   dict(xml=PROBE_NOSLIP_XML, qpos=PROBE_NOSLIP_QPOS), bucket='noslip-elliptic-cone', fingerprint=FP_NOSLIP)
      return
  ck.label('probe-ok:noslip-elliptic-cone')


def main(ck):
  lib = ck.lib('rel')
  E = lib.enums
  NEWTON, CG, PGS = E.mjSOL_NEWTON, E.mjSOL_CG, E.mjSOL_PGS
  names = {NEWTON: 'newton', CG: 'cg', PGS: 'pgs'}
  ck.rule = ('cases from vf.gen_cons (settled states, cone drawn) x 8 option variants per case drawn from solver x iterations '
             '{1,3,100} x noslip {0,1..5} x island x dense/sparse x warmstart; non-trivial = some variant returns a contact force '
             'on the boundary of its cone with positive normal force (sliding) or a saturated friction-loss row; distinct by '
             'case key')
  ck.assumptions = ['geom adhesion = 0 (the documentation allows negative net normal force with adhesion)',
                    'dual solvers (PGS, noslip) use dense storage on models whose sparse inertia rows are reduced (input class '
                    'of known finding C10/computeY-simple-dof, counted as excluded:*)',
                    'noslip is not combined with elliptic cones on models that can produce frictional contacts (input class of '
                    'known finding C11/noslip-qcqp-infeasible, probed separately, counted as excluded:*); noslip is exercised '
                    'with pyramidal cones']
  worst = dict(bound=0.0, cone=0.0, qfrc=0.0, decode=0.0, phys=0.0)
  probe_noslip(ck, lib)

  def test(case):
    r = gc.prepare(lib, case, ck)
    if r is None:
      return
    m, d0 = r
    nv = int(m.nv)
    redM = gc.reduced_M(m)
    rng = np.random.RandomState(case.seed ^ 0x5bd1e995)
    # frictional contact possible in this model? (geom condim, explicit pairs)
    has_fric = bool(np.any(np.asarray(m.geom_condim) > 1)) or bool(int(m.npair) and np.any(np.asarray(m.pair_dim) > 1))
    labels = set()
    nontriv = False
    info = {}
    for v in range(8):
      solver = [NEWTON, CG, PGS][v % 3] if v < 6 else int(rng.choice([NEWTON, CG, PGS]))
      iters = int(rng.choice([1, 3, 100]))
      noslip = int(rng.choice([0, 0, 1, 5]))
      island = int(rng.randint(2))
      jac = int(rng.choice([E.mjJAC_DENSE, E.mjJAC_SPARSE]))
      warm = int(rng.randint(2))
      if jac == E.mjJAC_SPARSE and redM and (solver == PGS or noslip or case.get('diagexact')):
        labels.add('excluded:sparse-dual-on-reduced-M')
        jac = E.mjJAC_DENSE
      if noslip and case.cone == 'elliptic' and has_fric:
        # input class of known finding C11/noslip-qcqp-infeasible (probed separately): excluded by construction, counted.
        # (condim 6 leaves the cone by orders of magnitude; condim 3/4 were observed outside by ~1e-6 relative through the
        #  same early exit of mju_QCQP2/3 with la == 0)
        labels.add('excluded:noslip-elliptic-frictional')
        noslip = 0
      m.opt.solver, m.opt.iterations, m.opt.noslip_iterations, m.opt.jacobian = solver, iters, noslip, jac
      m.opt.tolerance = float(rng.choice([0.0, 1e-8]))
      fl = int(m.opt.disableflags) & ~(E.mjDSBL_ISLAND | E.mjDSBL_WARMSTART)
      fl |= 0 if island else E.mjDSBL_ISLAND
      fl |= 0 if warm else E.mjDSBL_WARMSTART
      m.opt.disableflags = fl
      d = lib.copy_data(m, d0)
      try:
        lib.mj_forward(m, d)
      except mj.MjError as e:
        if 'rank-deficient' in str(e) and gc.illconditioned_hessian(lib, m, d0):
          labels.add('illconditioned-hessian-skip')
          continue
        raise
      tag = '%s/it%d/noslip%d/%s/%s/%s' % (names[solver], iters, noslip, 'island' if island else 'mono',
                                            'sparse' if jac == E.mjJAC_SPARSE else 'dense', 'warm' if warm else 'cold')
      nefc = int(d.nefc)
      if nefc == 0:
        labels.add('nefc=0')
        continue
      f = np.array(d.efc_force, dtype=np.float64)[:nefc]
      if not np.all(np.isfinite(f)):
        if lib.warnings():
          labels.add('engine-warning')
          continue
        raise Violation('%s: non-finite efc_force' % tag, bucket='nonfinite')
      t = np.array(d.efc_type)[:nefc]
      eid = np.array(d.efc_id)[:nefc]
      floss = np.array(d.efc_frictionloss, dtype=np.float64)[:nefc]
      J = cons.dense_J(lib, m, d)
      fmax = float(np.abs(f).max(initial=0))
      # ---- friction loss
      isf = (t == cons.FRICTION_DOF) | (t == cons.FRICTION_TENDON)
      if np.any(isf):
        exc = np.abs(f[isf]) - floss[isf]
        w = float(np.max(exc / (floss[isf] + 1e-300)))
        worst['bound'] = max(worst['bound'], w)
        if w > REL:
          k = int(np.flatnonzero(isf)[np.argmax(exc)])
          raise Violation('%s: friction-loss row %d has |f|=%.17g > frictionloss=%.17g' % (tag, k, abs(f[k]), floss[k]),
                          bucket='frictionloss-bound')
        if np.any(np.abs(f[isf]) >= floss[isf] * (1 - 1e-12)) and np.any(floss[isf] > 0):
          nontriv = True
          labels.add('saturated-frictionloss')
      # ---- unilateral scalar rows
      isp = (t == cons.LIMIT_JOINT) | (t == cons.LIMIT_TENDON) | (t == cons.CONTACT_FRICTIONLESS) | (t == cons.CONTACT_PYRAMIDAL)
      if np.any(isp):
        w = float(np.max(-f[isp]) / (fmax + 1e-300))
        worst['bound'] = max(worst['bound'], w)
        if w > REL:
          k = int(np.flatnonzero(isp)[np.argmin(f[isp])])
          raise Violation('%s: unilateral row %d (type %s) has negative force %.17g (max |f| %.3g)' % (
              tag, k, gc.TYPE_NAMES[int(t[k])], f[k], fmax), bucket='negative-force')
      # ---- contacts
      con = d.contact
      ncon = int(d.ncon)
      res = np.zeros(6)
      qc_rows = np.zeros(nv)
      qc_wrench = np.zeros(nv)
      sc_phys = np.zeros(nv)
      for c in range(ncon):
        adr = int(con['efc_address'][c])
        dim = int(con['dim'][c])
        mu = np.array(con['friction'][c], dtype=np.float64)
        res[:] = np.nan
        lib.mj_contactForce(m, d, c, res)
        if adr < 0:
          if np.any(res != 0):
            raise Violation('%s: mj_contactForce of contact %d not in the constraint list is %s' % (tag, c, res),
                            bucket='contactforce')
          continue
        ty = int(t[adr])
        if ty == cons.CONTACT_ELLIPTIC:
          fb = f[adr:adr + dim]
          want = np.zeros(6)
          want[:dim] = fb
          fn = fb[0]
          tn = float(np.sqrt(np.sum((fb[1:] / mu[:dim - 1]) ** 2)))
          w = max(-fn, tn - fn) / (abs(fn) + tn + 1e-300) if (fn < 0 or tn > fn) else 0.0
          worst['cone'] = max(worst['cone'], w)
          if w > REL and max(-fn, tn - fn) > REL * fmax:
            raise Violation('%s: elliptic contact %d (dim %d) outside its cone: normal %.17g, friction-weighted tangential '
                            'norm %.17g, friction %s, force %s' % (tag, c, dim, fn, tn, mu[:dim - 1], fb), bucket='elliptic-cone')
          if fn > 0 and tn >= fn * (1 - 1e-9):
            nontriv = True
            labels.add('sliding-elliptic-dim%d' % dim)
          nrow = dim
        elif ty == cons.CONTACT_PYRAMIDAL:
          nrow = 2 * (dim - 1)
          fb = f[adr:adr + nrow]
          want = cons.pyramid_decode(fb, mu, dim)
          if np.sum(fb) > 0 and np.any(fb == 0):
            nontriv = True
            labels.add('sliding-pyramidal-dim%d' % dim)
        elif ty == cons.CONTACT_FRICTIONLESS:
          nrow = 1
          fb = f[adr:adr + 1]
          want = np.zeros(6)
          want[0] = fb[0]
        else:
          raise Violation('%s: contact %d points at efc row %d of type %d' % (tag, c, adr, ty), bucket='contactforce')
        if not (np.all(eid[adr:adr + nrow] == c) and np.all(t[adr:adr + nrow] == ty)):
          raise Violation('%s: efc rows %d..%d do not all belong to contact %d' % (tag, adr, adr + nrow, c), bucket='contactforce')
        sc = np.abs(want) + float(np.abs(fb).sum()) * np.r_[1.0, mu][:6] + 1e-300
        e = float(np.max(np.abs(res - want) / (EPS * sc)))
        worst['decode'] = max(worst['decode'], e)
        if not np.all(np.isfinite(res)) or e > K_DEC:
          raise Violation('%s: mj_contactForce(contact %d, dim %d, %s) = %s but efc_force %s decodes to %s' % (
              tag, c, dim, gc.TYPE_NAMES[ty], res, fb, want), bucket='contactforce')
        S, Smag = contact_jac(lib, m, d, c, nv)
        qc_wrench += S.T @ res
        Jc = J[adr:adr + nrow]
        qc_rows += Jc.T @ fb
        sc_phys += Smag.T @ np.abs(res) + np.abs(Jc).T @ np.abs(fb)
        labels.add('%s-dim%d' % (gc.TYPE_NAMES[ty], dim))
      if ncon:
        e = float(np.linalg.norm(qc_wrench - qc_rows) / (EPS * np.linalg.norm(sc_phys) + 1e-300))
        worst['phys'] = max(worst['phys'], e)
        if e > K_PHYS:
          raise Violation('%s: contact-frame wrenches reported by mj_contactForce map to generalized force %s but the contact '
                          'rows of efc_J give %s (%.3g eps)' % (tag, qc_wrench, qc_rows, e), bucket='contactforce-physical')
      # ---- qfrc_constraint
      q = np.array(d.qfrc_constraint, dtype=np.float64)
      want = J.T @ f
      sc = np.abs(J).T @ np.abs(f)
      e = float(np.linalg.norm(q - want) / (EPS * np.linalg.norm(sc) + 1e-300))
      worst['qfrc'] = max(worst['qfrc'], e)
      if e > K_QFRC:
        raise Violation('%s: qfrc_constraint differs from J\' efc_force by %.3g eps (|diff| %.3g)' % (
            tag, e, np.linalg.norm(q - want)), bucket='qfrc_constraint')
      labels.add(names[solver])
      labels.add('iterations=%d' % iters)
      if noslip:
        labels.add('noslip>0')
      info = dict(nefc=nefc, ncon=ncon, ne=int(d.ne), nf=int(d.nf), nl=int(d.nl), variant=tag)
    lib.warnings()
    labs = sorted(labels) + ['cone:' + case.cone]
    if 'nefc' in info:
      labs += gc.composition(lib, d)
    ck.case(nontrivial=nontriv, key=case.key(), sample=case.sample(**info) if nontriv else None, labels=labs)

  ck.run_hypothesis(test, gc.cases(max_bodies=5 if ck.quick else 7), ck.budget(900, 10000), name='admissible')
  ck.extra['tolerances'] = dict(REL=REL, K_QFRC=K_QFRC, K_DEC=K_DEC, K_PHYS=K_PHYS)
  ck.extra['worst_observed'] = {k: float('%.4g' % v) for k, v in worst.items()}


LEVEL = 'exploration'
TECHNIQUE = ('property-based testing (Hypothesis models + settled states, random solver/iteration/noslip/island/storage variants) '
             'against the invariants of the documented admissible set, a re-implemented pyramid decode and a physical '
             'cross-check of contact wrenches through independently built contact-frame Jacobians')
LEVEL_TEXT = '''Every returned iterate (1, 3 or 100 iterations of Newton / CG / PGS, with and without the noslip pass, islands,
dense or sparse storage) must lie in the documented admissible set: friction-loss box, non-negative unilateral rows,
elliptic cone in the contact friction weighting. qfrc_constraint must equal J' efc_force, and mj_contactForce must equal the
decode of efc_force (documented pyramid basis re-implemented) and reproduce the generalized force of the contact rows through
the contact-frame Jacobian computed from mj_jac.'''
LEVEL_NOTE = '''Sampled, not exhaustive. Geom adhesion (which legitimately allows negative net normal force) is excluded. The
contact-frame Jacobian uses mj_jac (verified by C07). Dual solvers on sparse storage are excluded for models with reduced
inertia sparsity (known finding C10/computeY-simple-dof). noslip is exercised with pyramidal cones only: noslip + elliptic
cone + frictional contact is the input class of known finding C11/noslip-qcqp-infeasible (one dedicated probe).'''
