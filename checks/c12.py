"""C12 - The constraint cost has consistent derivatives.

Domain : (a) direct calls of the pure function mj_constraintUpdate_impl on synthetic constraint systems: 0..3 equality rows,
             0..3 friction-loss rows, then a random sequence of non-negative rows (limit / frictionless / pyramidal types) and
             elliptic contacts of dimension 3, 4, 6.  R in 1e-6..1e3, D = 1/R; elliptic regularisers built by the documented
             rule R1 = R0/impratio, Rj mu_j^2 = R1 mu_1^2, contact.mu = mu_1 sqrt(R1/R0) (impratio 0.1..100, friction
             1e-3..10, anisotropic).  jar is drawn (i) generically, (ii) ON zone boundaries (jar = +-R floss, jar = 0,
             N = mu T, mu N + T = 0, T = 0 with N of either sign) and a few ulps / a tiny relative step on either side,
             (iii) with huge / tiny magnitudes (1e-12 .. 1e8).
         (b) mj_constraintUpdate on generated models (elliptic and pyramidal cones, equalities, friction loss, limits) at
             settled states with random jar vectors: the model's own efc_R / contact.mu / friction must satisfy the documented
             coupling, the same oracle applies, and qfrc_constraint = J' efc_force.
Oracle : vf/oracle/conscost.py - the force is the solution of the documented *dual* problem
             f = argmin_{lambda in Omega} 1/2 lambda' R lambda + lambda' jar      (Omega: free / box / >= 0 / elliptic cone)
         and the cost is minus its optimal value (convex duality); every row kind is solved from its KKT candidates, no zone
         formulas.  On top of it: force == -d cost / d jar by 4th-order central differences of the engine's own cost along random
         directions; Lipschitz continuity of the force across boundaries with the constant max(D) (C^1 and convex:
         Hessian between 0 and D); midpoint convexity; contact.H == -d force / d jar (finite differences of the engine's force
         inside the middle zone), symmetric, positive semi-definite; efc_state == zone of the dual solution; NULL cost /
         flg_coneHessian = 0 do not change force and state (and leave H untouched).
Non-trivial : the case has a row on a zone boundary, or an elliptic contact in the middle (cone) zone.
"""
import numpy as np
from hypothesis import strategies as st

from vf import modelgen as mg
from vf.oracle import conscost as oc
from vf.runner import Violation

EPS = 2.0 ** -52
K_FORCE = 256     # |force - oracle| <= K eps * (scale of the terms that are added/cancelled to form it); worst observed see evidence
K_COST = 256      # |cost - oracle| <= K eps * sum |terms|
TOL_FD = 1e-7     # relative, 5-point central differences of the cost inside one zone
TOL_H = 1e-8      # relative to max|H|, finite differences of the force inside the middle zone

STATE_NAME = {0: 'satisfied', 1: 'quadratic', 2: 'linearneg', 3: 'linearpos', 4: 'cone'}


class System:
  """A synthetic constraint system in the argument layout of mj_constraintUpdate_impl."""

  def __init__(self, lib, rng, max_contacts=4):
    E = lib.enums
    self.lib = lib
    ne, nf = int(rng.randint(0, 4)), int(rng.randint(0, 4))
    rows = []           # (kind, start, dim, mu)
    R, floss, types, ids = [], [], [], []
    cons = []           # per elliptic contact: dict(mu, friction, dim)
    for _ in range(ne):
      rows.append((oc.EQUALITY, len(R), 1, None))
      R.append(10.0 ** rng.uniform(-6, 3)); floss.append(0.0); types.append(E.mjCNSTR_EQUALITY); ids.append(0)
    for _ in range(nf):
      rows.append((oc.FRICTION, len(R), 1, None))
      R.append(10.0 ** rng.uniform(-6, 3)); floss.append(10.0 ** rng.uniform(-3, 2))
      types.append(int(rng.choice([E.mjCNSTR_FRICTION_DOF, E.mjCNSTR_FRICTION_TENDON]))); ids.append(0)
    nblocks = int(rng.randint(0 if ne + nf else 1, max_contacts + 3))
    for _ in range(nblocks):
      if rng.rand() < 0.4:
        n = int(rng.choice([1, 1, 2, 4, 6]))      # a limit row, or the 2(dim-1) rows of a pyramidal contact
        tp = int(rng.choice([E.mjCNSTR_LIMIT_JOINT, E.mjCNSTR_LIMIT_TENDON, E.mjCNSTR_CONTACT_FRICTIONLESS])) if n == 1 else \
            int(E.mjCNSTR_CONTACT_PYRAMIDAL)
        r = 10.0 ** rng.uniform(-6, 3)
        for _k in range(n):
          rows.append((oc.NONNEG, len(R), 1, None))
          R.append(r); floss.append(0.0); types.append(tp); ids.append(0)
      elif len(cons) < max_contacts:
        dim = int(rng.choice([3, 3, 4, 6]))
        fr = np.empty(5)
        fr[0] = 10.0 ** rng.uniform(-2, 1)
        fr[1] = fr[0] if rng.rand() < 0.6 else 10.0 ** rng.uniform(-2, 1)
        fr[2] = 10.0 ** rng.uniform(-3, 0)
        fr[3] = 10.0 ** rng.uniform(-4, -1)
        fr[4] = fr[3] if rng.rand() < 0.6 else 10.0 ** rng.uniform(-4, -1)
        impratio = 1.0 if rng.rand() < 0.3 else 10.0 ** rng.uniform(-1, 2)
        R0 = 10.0 ** rng.uniform(-6, 3)
        R1 = R0 / impratio
        Rc = [R0, R1] + [R1 * fr[0] * fr[0] / (fr[j] * fr[j]) for j in range(1, dim - 1)]
        mu = fr[0] * np.sqrt(R1 / R0)
        rows.append((oc.ELLIPTIC, len(R), dim, fr[:dim - 1].copy()))
        for j in range(dim):
          R.append(Rc[j]); floss.append(0.0); types.append(E.mjCNSTR_CONTACT_ELLIPTIC); ids.append(len(cons))
        cons.append(dict(mu=mu, friction=fr, dim=dim, impratio=impratio))
    self.ne, self.nf = ne, nf
    self.rows = rows
    self.R = np.array(R, dtype=np.float64)
    self.D = 1.0 / self.R
    self.floss = np.array(floss, dtype=np.float64)
    self.type = np.array(types, dtype=np.int32)
    self.id = np.array(ids, dtype=np.int32)
    self.nefc = len(R)
    dt = lib.struct_dtype('mjContact')
    self.contact = np.zeros(max(len(cons), 1), dtype=dt)
    for c, rec in enumerate(cons):
      self.contact['mu'][c] = rec['mu']
      self.contact['friction'][c] = rec['friction']
      self.contact['dim'][c] = rec['dim']
    self.cons = cons

  def update(self, jar, want_cost=True, hess=1):
    jar = np.ascontiguousarray(jar, dtype=np.float64)
    state = np.full(self.nefc + 2, -9, dtype=np.int32)
    force = np.full(self.nefc + 2, 1.25e77)
    cost = np.full(1, np.nan)
    self.lib.mj_constraintUpdate_impl(self.ne, self.nf, self.nefc, self.D, self.R, self.floss, jar, self.type, self.id,
                                      self.contact, state, force, cost if want_cost else None, hess)
    if state[self.nefc] != -9 or force[self.nefc] != 1.25e77:
      raise Violation('mj_constraintUpdate_impl wrote past nefc', bucket='overrun')
    return force[:self.nefc].copy(), state[:self.nefc].copy(), float(cost[0])

  def describe(self, jar):
    return dict(ne=self.ne, nf=self.nf, rows=[(k, i, d, None if m is None else [float(x).hex() for x in m]) for k, i, d, m in self.rows],
                R=[float(x).hex() for x in self.R], floss=[float(x).hex() for x in self.floss],
                mu=[float(c['mu']).hex() for c in self.cons], jar=[float(x).hex() for x in jar])

  def force_scale(self, jar):
    """Per row: magnitude of the terms that are added to form the force (rounding scale)."""
    sc = self.D * np.abs(jar)
    for kind, i, dim, mu in self.rows:
      if kind == oc.ELLIPTIC:
        c = self.R[i + 1] * mu[0] ** 2
        wn = np.linalg.norm(jar[i + 1:i + dim] * mu)
        base = (abs(jar[i]) + wn) / (self.R[i] + c) + sc[i] + wn / c
        sc[i] = base
        sc[i + 1:i + dim] = base * mu + sc[i + 1:i + dim]
      elif kind == oc.FRICTION:
        sc[i] = max(sc[i], self.floss[i])
    return sc


def draw_jar(rng, sysm, mode):
  """Returns (jar, flags per constraint row-group: True if placed on / next to a boundary)."""
  n = sysm.nefc
  glob = 10.0 ** rng.uniform(-12, 8) if mode == 'scaled' else 10.0 ** rng.uniform(-2, 2)
  jar = rng.normal(size=n) * glob
  onb = False
  for kind, i, dim, mu in sysm.rows:
    R = sysm.R
    place = mode == 'boundary' and rng.rand() < 0.8
    if kind == oc.EQUALITY:
      if rng.rand() < 0.05:
        jar[i] = 0.0
    elif kind == oc.FRICTION:
      b = R[i] * sysm.floss[i]
      if place:
        jar[i] = b * rng.choice([-1, 1])
        onb = True
      elif mode != 'scaled':
        jar[i] = b * rng.uniform(-3, 3)
    elif kind == oc.NONNEG:
      if place:
        jar[i] = 0.0 if rng.rand() < 0.5 else rng.choice([-1, 1]) * 5e-324 * rng.randint(1, 4)
        onb = True
    else:
      c = R[i + 1] * mu[0] ** 2
      w = rng.normal(size=dim - 1)
      r = rng.rand()
      if r < 0.15:
        w[:] = 0                                  # T = 0
      elif r < 0.35:
        w[rng.randint(0, dim - 1)] = 0
      w *= glob * 10.0 ** rng.uniform(-1, 1)
      jar[i + 1:i + dim] = w / mu                 # so that |jar_j mu_j| = |w|
      wn = float(np.linalg.norm(jar[i + 1:i + dim] * mu))
      top, bot = wn, -wn * R[i] / c               # z0 >= top: top zone; z0 <= bot: bottom zone
      if place:
        which = rng.randint(0, 3)
        jar[i] = top if which == 0 else bot if which == 1 else 0.5 * (top + bot) if wn > 0 else rng.choice([-1, 1]) * glob
        if which == 2 and wn == 0:
          pass
        onb = True
      else:
        zone = rng.randint(0, 3)
        if wn == 0:
          jar[i] = glob * rng.normal()
        elif zone == 0:
          jar[i] = top * (1 + 10.0 ** rng.uniform(-6, 1))
        elif zone == 1:
          jar[i] = bot * (1 + 10.0 ** rng.uniform(-6, 1))
        else:
          t = rng.uniform(0.001, 0.999)
          jar[i] = bot + t * (top - bot)
  return jar, onb


def perturb_ulps(rng, jar, k):
  out = jar.copy()
  for i in range(len(out)):
    steps = int(rng.randint(-k, k + 1))
    for _ in range(abs(steps)):
      out[i] = np.nextafter(out[i], np.inf if steps > 0 else -np.inf)
  return out


def fd5(f, h):
  return (8 * (f(h) - f(-h)) - (f(2 * h) - f(-2 * h))) / (12 * h)


class Checker:
  def __init__(self, ck, lib):
    self.ck = ck
    self.lib = lib
    self.worst = {}

  def note(self, name, ratio):
    if ratio > self.worst.get(name, 0.0):
      self.worst[name] = float(ratio)

  def base(self, sysm, jar, what, near_boundary_ok=True):
    """Engine vs dual oracle at one point. Returns (force, state, cost, zones, abscost, dist)."""
    E = self.lib.enums
    sysm.contact['H'][:] = -3.5
    force, state, cost = sysm.update(jar, True, 1)
    H1 = sysm.contact['H'].copy()
    f, s, zones, absc = oc.solve(sysm.rows, sysm.R, jar, sysm.floss)
    if not (np.all(np.isfinite(force)) and np.isfinite(cost)):
      raise Violation('%s: non-finite force/cost for finite inputs: %s' % (what, sysm.describe(jar)), bucket='nonfinite')
    sc = sysm.force_scale(jar)
    err = np.abs(force - f)
    tol = K_FORCE * EPS * sc + 1e-300
    self.note('force', float(np.max(err / tol)))
    if np.any(err > tol):
      i = int(np.argmax(err / tol))
      raise Violation('%s: efc_force[%d]=%r but the minimiser of the documented dual problem is %r (scale %.3g); %s' % (
          what, i, float(force[i]), float(f[i]), float(sc[i]), sysm.describe(jar)), bucket='force-vs-dual')
    absc = max(absc, float(np.sum(sysm.D * jar * jar)))      # natural magnitude of the terms of s, also when the optimum is 0
    tolc = K_COST * EPS * absc + 1e-300
    self.note('cost', abs(cost - s) / tolc)
    if abs(cost - s) > tolc:
      raise Violation('%s: cost=%r, dual value %r (|terms| %.3g); %s' % (what, cost, s, absc, sysm.describe(jar)), bucket='cost-vs-dual')
    # state == zone, unless the point is within rounding of a boundary
    mind = 1.0
    k = 0
    for (kind, i, dim, mu), zone in zip(sysm.rows, zones):
      if kind == oc.EQUALITY:
        dist = 1.0
      elif kind == oc.FRICTION:
        b = sysm.R[i] * sysm.floss[i]
        dist = abs(abs(jar[i]) - b) / (abs(jar[i]) + b + 1e-300)
      elif kind == oc.NONNEG:
        dist = 1.0 if jar[i] != 0 else 0.0
      else:
        dist = oc.boundary_distance(sysm.R[i:i + dim], jar[i:i + dim], mu)
      mind = min(mind, dist)
      got = [STATE_NAME.get(int(x), '?%d' % x) for x in state[i:i + dim]]
      if len(set(got)) != 1:
        raise Violation('%s: state not replicated over the %d rows of a contact: %s' % (what, dim, got), bucket='state')
      if kind == oc.NONNEG and jar[i] == 0:
        ok = got[0] in ('satisfied', 'quadratic')
      elif dist < 1e-12:
        ok = True
      else:
        ok = got[0] == zone
      if not ok:
        raise Violation('%s: efc_state of rows %d.. is %s, the dual solution is in zone %s (relative boundary distance %.3g); %s' % (
            what, i, got[0], zone, dist, sysm.describe(jar)), bucket='state')
    # NULL cost / no Hessian: same force & state, H untouched
    sysm.contact['H'][:] = -3.5
    force2, state2, _ = sysm.update(jar, False, 0)
    if not (np.array_equal(force2, force) and np.array_equal(state2, state)):
      raise Violation('%s: force/state depend on whether cost / cone Hessian are requested; %s' % (what, sysm.describe(jar)), bucket='flags')
    if not np.all(sysm.contact['H'] == -3.5):
      raise Violation('%s: contact.H written although flg_coneHessian = 0' % what, bucket='flags')
    sysm.contact['H'][:] = H1
    return force, state, cost, zones, absc, mind

  def gradient_fd(self, sysm, jar, force, absc, rng):
    """-force . u == d cost / d u by central differences of the engine's cost (within one zone: tight; across: Lipschitz bound)."""
    n = sysm.nefc
    E = self.lib.enums
    # direction: every component moves by ~1e-4 of its own block's scale (elliptic blocks: in the w coordinates of the cone)
    u = rng.normal(size=n) * np.maximum(np.abs(jar), 1e-3 * np.max(np.abs(jar)) + 1e-300)
    smooth = True
    for kind, i, dim, mu in sysm.rows:
      if kind == oc.ELLIPTIC:
        wn = float(np.linalg.norm(jar[i + 1:i + dim] * mu))
        L = abs(jar[i]) + wn
        u[i:i + dim] = rng.normal(size=dim) * L / np.concatenate([[1.0], mu])
        if wn < 2e-2 * L:
          smooth = False              # next to the cone axis the higher derivatives of |w| are large: use the Lipschitz bound only
    h = 1e-4
    states = []

    def cost_at(t):
      f_, s_, c_ = sysm.update(jar + t * u, True, 0)
      states.append(s_)
      return c_
    _, st0, _ = sysm.update(jar, True, 0)
    g = fd5(cost_at, h)
    same = smooth and all(np.array_equal(s_, st0) for s_ in states)
    want = -float(np.dot(force, u))
    scale = float(np.sum(np.abs(force * u))) + absc + 1e-300
    if same:
      tol = TOL_FD * scale
      self.note('grad-fd', abs(g - want) / tol)
    else:
      # C^1 with Hessian between 0 and D: the stencil error is bounded by h * u' D u (times a small constant)
      tol = TOL_FD * scale + 4 * h * float(np.sum(sysm.D * u * u))
    if abs(g - want) > tol:
      raise Violation('force is not minus the gradient of the cost: d cost/du = %r by finite differences, -force.u = %r (tol %.3g, %s); %s' % (
          g, want, tol, 'one zone' if same else 'crosses zones', sysm.describe(jar)), bucket='gradient-fd')
    return same

  def lipschitz(self, sysm, jar, rng):
    """Force continuity across a boundary point: |f(z + d) - f(z - d)| <= max(D) |2 d| (convex C^1 with Hessian <= D)."""
    n = sysm.nefc
    mag = np.maximum(np.abs(jar), 1e-6 * (np.max(np.abs(jar)) + 1e-300))
    for rel in (1e-7, 1e-11):
      dlt = rng.normal(size=n) * mag * rel
      fa, _, ca = sysm.update(jar + dlt, True, 0)
      fb, _, cb = sysm.update(jar - dlt, True, 0)
      # componentwise in the D-metric: |df_i| / sqrt(D_i) summed <= sqrt(sum D_i d_i^2) * 2
      lhs = float(np.sqrt(np.sum((fa - fb) ** 2 / sysm.D)))
      rhs = 2 * float(np.sqrt(np.sum(sysm.D * dlt * dlt)))
      rnd = K_FORCE * EPS * float(np.sqrt(np.sum(sysm.force_scale(jar) ** 2 / sysm.D)))
      self.note('lipschitz', lhs / (rhs * (1 + 1e-6) + rnd + 1e-300))
      if lhs > rhs * (1 + 1e-6) + rnd:
        raise Violation('force jumps across a zone boundary: |f(z+d)-f(z-d)|_{1/D} = %.6g > 2|d|_D = %.6g (+rounding %.3g) for |d|/|z| ~ %g; %s' % (
            lhs, rhs, rnd, rel, sysm.describe(jar)), bucket='c1-continuity')

  def hessian(self, sysm, jar, state, rng):
    """contact.H == - d force / d jar inside the middle zone, symmetric PSD."""
    E = self.lib.enums
    done = 0
    sysm.update(jar, False, 1)            # (re)compute contact.H at exactly this point
    for kind, i, dim, mu in sysm.rows:
      if kind != oc.ELLIPTIC or state[i] != E.mjCNSTRSTATE_CONE:
        continue
      if oc.boundary_distance(sysm.R[i:i + dim], jar[i:i + dim], mu) < 2e-2:
        continue
      c = int(sysm.id[i])
      H = np.array(sysm.contact['H'][c][:dim * dim]).reshape(dim, dim)
      # natural coordinates of the cone geometry: w_0 = jar_0, w_k = jar_k mu_k (zone boundaries are w_0 = |w| and w_0 = -|w| R0/c)
      sk = np.concatenate([[1.0], mu])
      wn = float(np.linalg.norm(jar[i + 1:i + dim] * mu))
      L = abs(jar[i]) + wn
      FD = np.empty((dim, dim))
      okz = True
      for k in range(dim):
        hk = 2e-4 * (L if k == 0 else wn) / sk[k]

        def f_at(t):
          z = jar.copy()
          z[i + k] += t
          f_, s_, _ = sysm.update(z, False, 0)
          if s_[i] != E.mjCNSTRSTATE_CONE:
            raise KeyError
          return f_[i:i + dim]
        try:
          FD[:, k] = -fd5(f_at, hk)
        except KeyError:
          okz = False
          break
      if not okz:
        self.ck.label('hessian:stencil-leaves-zone')
        continue
      # compare in the w coordinates: S^-1 H S^-1
      Hs = H / np.outer(sk, sk)
      Fs = FD / np.outer(sk, sk)
      m = float(np.max(np.abs(Hs))) + 1e-300
      self.note('hessian-fd', float(np.max(np.abs(Hs - Fs))) / (TOL_H * m))
      if np.max(np.abs(Hs - Fs)) > TOL_H * m:
        raise Violation('contact.H differs from -d force/d jar (finite differences) in the middle zone: H=%s FD=%s; %s' % (
            H.tolist(), FD.tolist(), sysm.describe(jar)), bucket='hessian-fd')
      if np.max(np.abs(H - H.T)) > 0:
        raise Violation('contact.H is not symmetric: %s' % H.tolist(), bucket='hessian-sym')
      ev = np.linalg.eigvalsh(Hs)
      if ev[0] < -1e-9 * m:
        raise Violation('contact.H is not positive semi-definite (min eigenvalue %.3g of the scaled Hessian): %s; %s' % (
            ev[0], H.tolist(), sysm.describe(jar)), bucket='hessian-psd')
      done += 1
    return done


def check_model(ck, chk, lib, gm, seed):
  """(b) the same oracle on a real model's constraint data + J' f."""
  E = lib.enums
  try:
    m = lib.model_from_xml(gm.xml)
  except Exception:
    ck.discard('compile')
    return
  if m.nv == 0 or not np.all(np.isfinite(m.dof_invweight0)):
    ck.discard('degenerate')
    return
  d = lib.make_data(m)
  from vf import mj
  rng = mg.apply_state(lib, m, d, seed, vel_scale=0.5, pos_scale=0.3)
  try:
    for _ in range(int(rng.randint(0, 30))):
      lib.mj_step(m, d)
    lib.mj_forward(m, d)
  except mj.MjError as e:
    # settling only serves to reach states with active constraints; a solver error on a (near-)singular generated model is not
    # a question about mj_constraintUpdate
    ck.discard('engine-error-while-settling: ' + str(e)[:40])
    return
  if lib.warnings() or not np.all(np.isfinite(d.qacc)) or d.nefc == 0:
    ck.discard('warning-or-no-constraints')
    return
  nefc, nv = int(d.nefc), int(m.nv)
  R = np.array(d.efc_R[:nefc]); D = np.array(d.efc_D[:nefc]); fl = np.array(d.efc_frictionloss[:nefc])
  tp = np.array(d.efc_type[:nefc]); eid = np.array(d.efc_id[:nefc])
  con = d.contact
  rows = []
  i = 0
  impratio = float(m.opt.impratio)
  while i < nefc:
    t = int(tp[i])
    if t == E.mjCNSTR_EQUALITY:
      rows.append((oc.EQUALITY, i, 1, None)); i += 1
    elif t in (E.mjCNSTR_FRICTION_DOF, E.mjCNSTR_FRICTION_TENDON):
      rows.append((oc.FRICTION, i, 1, None)); i += 1
    elif t == E.mjCNSTR_CONTACT_ELLIPTIC:
      c = int(eid[i]); dim = int(con['dim'][c]); fr = np.array(con['friction'][c][:dim - 1])
      # documented coupling of the regulariser (what makes the analytical inverse exact)
      if dim > 1:
        okc = abs(R[i + 1] * impratio - R[i]) <= 1e-12 * R[i] and all(
            abs(R[i + j] * fr[j - 1] ** 2 - R[i + 1] * fr[0] ** 2) <= 1e-12 * R[i + 1] * fr[0] ** 2 for j in range(1, dim)) and \
            abs(float(con['mu'][c]) - fr[0] * np.sqrt(R[i + 1] / R[i])) <= 1e-12 * fr[0]
        if not okc and R[i + 1] > 2 * lib.enums.mjMINVAL:
          raise Violation('elliptic contact %d: efc_R / contact.mu do not satisfy R1=R0/impratio, Rj mu_j^2 = R1 mu_1^2, mu = mu_1 sqrt(R1/R0): R=%s friction=%s mu=%r impratio=%r' % (
              c, R[i:i + dim].tolist(), fr.tolist(), float(con['mu'][c]), impratio), bucket='model-R-coupling')
      rows.append((oc.ELLIPTIC, i, dim, fr)); i += dim
    else:
      rows.append((oc.NONNEG, i, 1, None)); i += 1
  if np.any(np.abs(R * D - 1) > 1e-12):
    raise Violation('efc_D != 1/efc_R', bucket='model-D')
  aref = np.array(d.efc_aref[:nefc])
  J = np.zeros((nefc, nv))
  if lib.mj_isSparse(m):
    nnz, adr, col, val = d.efc_J_rownnz, d.efc_J_rowadr, d.efc_J_colind, d.efc_J
    for r in range(nefc):
      a, n = int(adr[r]), int(nnz[r])
      np.add.at(J[r], col[a:a + n], val[a:a + n])
  else:
    J[:] = np.asarray(d.efc_J)[:nefc * nv].reshape(nefc, nv)
  mid = 0
  for trial in range(4):
    if trial == 0:
      jar = J @ np.array(d.qacc) - aref
    else:
      jar = (J @ np.array(d.qacc) - aref) * rng.uniform(-2, 2, nefc) + rng.normal(size=nefc) * np.abs(aref).mean() * rng.rand()
    cost = np.zeros(1)
    lib.mj_constraintUpdate(m, d, np.ascontiguousarray(jar), cost, 1)
    force = np.array(d.efc_force[:nefc]); state = np.array(d.efc_state[:nefc])
    f, s, zones, absc = oc.solve(rows, R, jar, fl)
    sc = D * np.abs(jar)
    for kind, i0, dim, mu in rows:
      if kind == oc.ELLIPTIC and dim > 1:
        c_ = R[i0 + 1] * mu[0] ** 2
        wn = np.linalg.norm(jar[i0 + 1:i0 + dim] * mu)
        base = (abs(jar[i0]) + wn) / (R[i0] + c_) + sc[i0] + wn / c_
        sc[i0] = base
        sc[i0 + 1:i0 + dim] = base * mu + sc[i0 + 1:i0 + dim]
      elif kind == oc.FRICTION:
        sc[i0] = max(sc[i0], fl[i0])
    tol = K_FORCE * EPS * sc + 1e-300
    chk.note('model-force', float(np.max(np.abs(force - f) / tol)))
    if np.any(np.abs(force - f) > tol):
      k = int(np.argmax(np.abs(force - f) / tol))
      raise Violation('model: efc_force[%d]=%r, dual minimiser %r (type %d)' % (k, float(force[k]), float(f[k]), int(tp[k])), bucket='model-force')
    tolc = K_COST * EPS * max(absc, float(np.sum(D * jar * jar))) + 1e-300
    if abs(float(cost[0]) - s) > tolc:
      raise Violation('model: cost %r, dual value %r' % (float(cost[0]), s), bucket='model-cost')
    q = np.array(d.qfrc_constraint)
    want = J.T @ force
    tq = 64 * EPS * (np.abs(J).T @ np.abs(force)) + 1e-300
    if np.any(np.abs(q - want) > tq):
      raise Violation("model: qfrc_constraint != J' efc_force (max diff %.3g)" % float(np.max(np.abs(q - want))), bucket='model-JTf')
    mid += sum(1 for (kind, i0, dim, mu) in rows if kind == oc.ELLIPTIC and state[i0] == E.mjCNSTRSTATE_CONE)
  kinds = sorted({k for k, _, _, _ in rows})
  ck.case(nontrivial=mid > 0, key=(gm.xml, seed), sample=dict(part='model', nefc=nefc, kinds=kinds, middle_zone_contacts=mid,
                                                              impratio=impratio) if mid else None,
          labels=['model'] + ['model-kind:' + k for k in kinds] + (['model-middle-zone'] if mid else []))


def main(ck):
  lib = ck.lib('rel')
  chk = Checker(ck, lib)
  ck.rule = ('Hypothesis draws (mode, seed); a numpy RandomState builds a constraint system (ne, nf, non-negative rows, elliptic contacts of dim 3/4/6 '
             'with documented regulariser coupling) and jar vectors: generic / on zone boundaries +- ulps and +- tiny relative steps / huge-tiny scales; '
             'plus generated models at settled states. non-trivial = a row sits on a zone boundary (relative distance < 1e-9) or an elliptic contact is in '
             'the middle zone; distinct by (mode, seed, index)')
  ck.assumptions = ['elliptic regularisers follow the documented coupling (R1 = R0/impratio, Rj mu_j^2 = R1 mu_1^2, mu = mu_1 sqrt(R1/R0)); '
                    'on generated models this coupling is itself asserted', 'elliptic contacts of dimension 1 are passed as frictionless rows (as the engine does)',
                    'efc_state on an exact boundary point may be either neighbouring zone (the force is continuous there)']

  def test(case):
    mode, seed = case
    rng = np.random.RandomState(seed)
    sysm = System(lib, rng)
    E = lib.enums
    for rep in range(4):
      jar, onb = draw_jar(rng, sysm, mode)
      force, state, cost, zones, absc, mind = chk.base(sysm, jar, mode)
      labels = ['mode:' + mode]
      if mode == 'boundary':
        chk.lipschitz(sysm, jar, rng)
        for k in (1, 3):
          chk.base(sysm, perturb_ulps(rng, jar, k), 'boundary+-%dulp' % k)
        mag = np.maximum(np.abs(jar), 1e-6 * (np.max(np.abs(jar)) + 1e-300))
        for rel in (1e-9, 1e-6):
          chk.base(sysm, jar + rng.normal(size=len(jar)) * mag * rel, 'boundary+-%g' % rel)
      else:
        same = chk.gradient_fd(sysm, jar, force, absc, rng)
        labels.append('fd:one-zone' if same else 'fd:crosses-zones')
        # midpoint convexity with a second point
        jar2, _ = draw_jar(rng, sysm, mode)
        _, _, c2 = sysm.update(jar2, True, 0)
        _, _, cm = sysm.update(0.5 * (jar + jar2), True, 0)
        _, _, _, a2 = oc.solve(sysm.rows, sysm.R, jar2, sysm.floss)
        if cm > 0.5 * (cost + c2) + K_COST * EPS * (absc + a2):
          raise Violation('cost is not midpoint convex: s((a+b)/2)=%r > (s(a)+s(b))/2=%r; a: %s b: %s' % (
              cm, 0.5 * (cost + c2), sysm.describe(jar), [float(x).hex() for x in jar2]), bucket='convexity')
      nh = chk.hessian(sysm, jar, state, rng)
      if nh:
        labels.append('hessian-checked')
      ncone = int(sum(1 for (kind, i, dim, mu) in sysm.rows if kind == oc.ELLIPTIC and state[i] == E.mjCNSTRSTATE_CONE))
      for (kind, i, dim, mu), z in zip(sysm.rows, zones):
        labels.append('zone:%s:%s' % (kind, z))
      ck.case(nontrivial=bool(mind < 1e-9 or ncone > 0), key=(mode, seed, rep),
              sample=dict(part='impl', mode=mode, ne=sysm.ne, nf=sysm.nf, contacts=[(c['dim'], round(c['impratio'], 3)) for c in sysm.cons],
                          nefc=sysm.nefc, zones=zones, min_boundary_distance=mind) if rep == 0 else None, labels=sorted(set(labels)))

  ck.run_hypothesis(test, st.tuples(st.sampled_from(['generic', 'generic', 'boundary', 'boundary', 'scaled']), st.integers(0, 2 ** 31 - 1)),
                    ck.budget(1300, 60000), name="impl")

  def test_model(case):
    gm, seed = case
    check_model(ck, chk, lib, gm, seed)
  gen = mg.models(min_bodies=2, max_bodies=6, plane=True, spread=0.5, sensors=False, actuators=False,
                  joint_types=('free', 'hinge', 'slide'),
                  geom_kwargs=dict(condims=(1, 3, 3, 4, 6)),
                  opt_kwargs=dict(cones=('elliptic', 'elliptic', 'pyramidal'), solvers=('CG', 'Newton'), flags=False, islands=None,
                                  integrators=('Euler', 'implicitfast'), jacobians=('dense', 'sparse')))
  ck.run_hypothesis(test_model, st.tuples(gen, mg.state_seed()), ck.budget(60, 3000), name='models')
  ck.extra['worst_ratio'] = {k: float('%.3g' % v) for k, v in sorted(chk.worst.items())}
  ck.extra['tolerances'] = dict(K_FORCE=K_FORCE, K_COST=K_COST, TOL_FD=TOL_FD, TOL_H=TOL_H)


LEVEL = 'exploration'
TECHNIQUE = ('property-based testing (Hypothesis-seeded constraint systems with boundary-targeted inputs) against a reference derived from the documented '
             'dual problem (KKT enumeration), finite differences, Lipschitz/convexity inequalities')
LEVEL_TEXT = '''mj_constraintUpdate_impl is called directly on synthetic systems mixing equality, friction-loss, limit/pyramidal and elliptic rows (dim 3/4/6, documented
regulariser coupling, impratio 0.1-100, anisotropic friction) with residuals drawn generically, exactly on every zone boundary (+- ulps, +- tiny steps) and at extreme
magnitudes. Forces and cost are compared with the minimiser / optimal value of the documented dual problem, the force with finite differences of the engine's own cost,
the cone Hessian with finite differences of the engine's force; continuity across boundaries is checked through the Lipschitz bound implied by convexity with Hessian <= D,
convexity by midpoints, efc_state by the zone of the dual solution. The same oracle runs on generated models (also asserting the regulariser coupling and J' f).'''
LEVEL_NOTE = '''Tolerances: 256 eps x the magnitude of the terms that are summed (worst observed ratios in evidence), 1e-7 relative for cost differences, 1e-8 relative for the
Hessian. Elliptic contacts with dim 1 are not passed with the elliptic type. Inputs that violate the regulariser coupling are outside the documented contract and not generated.
The Hessian is only differenced where the whole stencil stays in the middle zone.'''
