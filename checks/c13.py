"""C13 - Contacts report true geometry.

Domain : two-geom scenes for every primitive pair (plane, sphere, capsule, ellipsoid, cylinder, box), sizes over three
         decades, constructive placement "support point of B at support point of A + delta*dir" with delta in the classes
         deep / shallow penetration, touching, inside margin, at the margin boundary, beyond; structured degenerate poses
         (parallel capsules, face/edge aligned boxes, sphere centre inside box/cylinder, cap/rim/side of cylinders);
         geom margins and gaps (this tree: pair margin = sum, detection at margin+gap).
Oracle : vf/oracle/geomref.py - closed-form signed distances (plane-X by support function, sphere-X by point SDF,
         capsule-capsule by segment distance, capsule-box by convex 1-D search) and, for the convex-collider pairs, the
         duality certificate  -[h_A(n)+h_B(-n)] <= true distance <= |x2-x1|  evaluated on the contact's own normal and
         witness points, plus sampled optimality of the penetration depth.
Non-trivial : a contact exists and (the pose is not axis aligned or it is one of the structured degenerate poses).
"""
import math
import os

import numpy as np
from hypothesis import strategies as st

from vf import gen_geom as gg
from vf.oracle import geomref as gr
from vf.runner import Violation

TYPES_A = ('plane', 'sphere', 'capsule', 'ellipsoid', 'cylinder', 'box')
TYPES_B = ('sphere', 'capsule', 'ellipsoid', 'cylinder', 'box')
ORDER = {t: i for i, t in enumerate(gr.TYPES)}

# ---- tolerances (HARNESS rule 2). Lengths are relative to `sc` = size scale of the pair + |centre distance|.
# closed-form colliders are a handful of flops on O(sc) numbers: worst observed ratio on the unchanged tree (seeds
# 1-5, thorough) was 2.1e-14 -> K_PRIM = 1e-11 (>= 100x); frame orthonormality worst 4e-16 -> 1e-13.
K_FRAME = 1e-13
K_PRIM = 1e-11
K_PRIM_CB = 1e-7     # capsule-box collider: internal thresholds; worst observed 2e-9 (missed 2.75e-8 deep contact, size 5)
K_COND = 100.0       # x eps x pose_condition (near-parallel axes: sine by cancellation), worst observed 0.8
# convex collider (GJK/EPA): result is accurate to ccd_tolerance (absolute, documented "in units of distance") when
# the iteration budget is not hit; K_CCD multiples of ccd_tolerance plus K_PRIM*sc rounding.  Worst observed 0.93 tol.
K_CCD = 4.0
# ... and relative to the scene scale: GJK/EPA stop on iteration caps / stagnation; worst observed consistent error
# 3.2e-6*sc (sphere-ellipsoid inside the margin, size 8, thorough tier) -> 1e-5
K_CCDREL = 1e-5
# box-box: documented in the collider (engine_collision_box.c header comment): a face axis may replace an edge axis
# when within 5 % -> reported depth in [D, D/0.95]; edge bias 1e-6 relative.
BOXBOX_FUDGE = 1.0 / 0.95 + 1e-5
TOUCH_BAND = 30.0    # |true distance| <= TOUCH_BAND*ccd_tolerance: mj_geomDistance not asserted (finding F1)
NON_CCD = {('plane', 'sphere'), ('plane', 'capsule'), ('plane', 'cylinder'), ('plane', 'box'), ('plane', 'ellipsoid'),
           ('sphere', 'sphere'), ('sphere', 'capsule'), ('sphere', 'cylinder'), ('sphere', 'box'),
           ('capsule', 'capsule'), ('capsule', 'box'), ('box', 'box')}     # pairs with a closed-form collider
TOL_FLOOR = 6e-8      # x scene scale: below this ccd_tolerance the GJK stopping test is under double rounding (see test())
SMOOTH = ('sphere', 'capsule', 'ellipsoid')
DEEP = 0.5           # penetration deeper than this fraction of the smaller size: only invariants (depth not unique)


def axes_of(S):
  if S.typ in ('plane', 'capsule', 'cylinder'):
    return [S.mat[:, 2]]
  if S.typ in ('box', 'ellipsoid'):
    return [S.mat[:, 0], S.mat[:, 1], S.mat[:, 2]]
  return []


def pose_condition(S1, S2):
  """1/(smallest non-zero sine or cosine between feature axes of the two geoms): closed-form colliders obtain the
  sine of a small angle by cancellation (error eps/angle), so their accuracy degrades like this number."""
  cond = 1.0
  for u in axes_of(S1):
    for v in axes_of(S2):
      s_, c_ = float(np.linalg.norm(np.cross(u, v))), abs(float(u @ v))
      a = min(s_, c_)
      if a > 1e-15:
        cond = max(cond, 1.0 / a)
  return cond


class SkipPose(Exception):
  pass


def hsup_any(S, n):
  """Support value including the half-space below a plane (only defined along its normal)."""
  if S.typ == 'plane':
    return float(n @ S.pos)
  return gr.hsup(S, n)


def scene_strategy():
  return st.fixed_dictionaries(dict(
      ta=st.sampled_from(TYPES_A), tb=st.sampled_from(TYPES_B),
      logscale=st.integers(-20, 10),            # size scale 10^(x/10): 0.01 .. 10
      margin=st.sampled_from(['zero', 'zero', 'small', 'large', 'onesided']),
      gap=st.sampled_from(['zero', 'zero', 'some']),
      far=st.sampled_from([0, 0, 0, 1, 100]),   # offset of the scene from the origin, in units of scale
      multiccd=st.booleans(),
      tol_exp=st.sampled_from([6, 6, 7, 8]),
      seed=st.integers(0, 2 ** 31 - 1)))


DELTA_CLASSES = ('pen-shallow', 'pen-shallow', 'pen-deep', 'touch', 'in-margin', 'in-margin', 'edge', 'beyond')


def main(ck, only_case=None, only_req=None):
  lib = ck.lib('rel')
  E = lib.enums
  ck.rule = ('Hypothesis draws geom types, size scale (1e-2..1e1), margin/gap class, ccd tolerance, multiccd, a seed; '
             'per model 8 poses built constructively: orientation kind x direction kind x delta class (see gen_geom); '
             'non-trivial = >=1 contact and (orientation/direction not axis aligned or structured degenerate pose); '
             'distinct by (types, sizes, pose)')
  ck.assumptions = ['pair margin = margin1+margin2, contacts detected while dist <= margin+gap (XMLreference geom/gap, '
                    'computation "margin and gap")',
                    'box-box: reported depth may exceed the true depth by <= 5 % (face preferred over edge axis, stated in '
                    'the collider source) and separated boxes inside the margin band are only certified one-sided '
                    '(reported dist >= true dist); see LEVEL_NOTE',
                    'ellipsoid/cylinder pairs go through the native GJK/EPA collider: tolerance K_CCD*ccd_tolerance; '
                    'cases where EPA hits ccd_iterations are not distinguishable through the API and would alarm']
  calib = dict(prim=0.0, frame=0.0, ccd=0.0, gd_sym=0.0, gd_con=0.0, between=0.0)
  stats = dict(boxbox_band=0, boxbox_missing=0, gd_touching_band=0, epa_touching_band=0, translation_variant=0, frame_f3=0, parallel_capsules_f5=0,
               parallel_capsules_f5_wrong=0, parallel_capsules_f5_missing=0)
  nposes = 8

  worker = gg.EngineWorker()
  REPRO = gg.EPA_CRASH_REPRO

  def reaches_epa(pair):
    return pair not in NON_CCD or pair == ('box', 'box')      # mj_geomDistance sends box-box to GJK/EPA

  def worker_eval(req, pair, what):
    convex = pair not in NON_CCD and 'sphere' not in pair and 'plane' not in pair
    return gg.guarded_eval(ck, lib, worker, req, pair, convex, stats, what)

  def engine(xml, m, d, S, M, G, PA, RA, PB, RB, _):
    cdist = float(np.linalg.norm(S[0].pos - S[1].pos))
    sc = S[0].scale() * (S[0].typ != 'plane') + S[1].scale() + cdist + float(np.linalg.norm(S[1].pos))
    distmax = max(M + G, 0.0) + 4 * sc
    pair = tuple(sorted((S[0].typ, S[1].typ), key=ORDER.get))
    qpos = list(PB) + list(gg.mat2quat(RB))
    if reaches_epa(pair):
      res = worker_eval(dict(xml=xml, mocap_pos=list(map(float, PA)), mocap_quat=list(map(float, gg.mat2quat(RA))),
                             qpos=list(map(float, qpos)), distmax=float(distmax)), pair, 'pose')
      if res is None:
        return None
    else:
      res = gg.eval_pose(lib, m, d, PA, gg.mat2quat(RA), qpos, distmax)
    res['distmax'] = distmax
    res['sc'] = sc
    return res

  def test(case):
    rng = np.random.RandomState(case['seed'])
    ta, tb = case['ta'], case['tb']
    scale = 10 ** (case['logscale'] / 10.0)
    sa = np.array([1.0, 1.0, 0.1]) if ta == 'plane' else gg.rand_size(rng, ta, scale)
    sb = gg.rand_size(rng, tb, scale * math.exp(rng.uniform(-1, 1)))
    smin = min(1e9 if ta == 'plane' else float(np.min(sa)), float(np.min(sb)))
    mk = case['margin']
    mtot = dict(zero=0.0, small=1e-3 * smin, large=0.2 * smin, onesided=0.05 * smin)[mk]
    if mk == 'onesided':
      ma, mb = (mtot, 0.0) if rng.rand() < 0.5 else (0.0, mtot)
    else:
      f = rng.uniform(0, 1)
      ma, mb = f * mtot, (1 - f) * mtot
    gtot = 0.1 * smin * rng.uniform(0.1, 1) if case['gap'] == 'some' else 0.0
    gaa = gtot * rng.uniform(0, 1)
    gab = gtot - gaa
    tol_ccd = 10.0 ** (-case['tol_exp'])
    flags = '' if case['multiccd'] else '<flag multiccd="disable"/>'
    # ccd_iterations raised from the default 35: curved shapes need more EPA iterations to reach 1e-8..1e-10
    opt = '<option ccd_tolerance="%s" ccd_iterations="200">%s</option>' % (gg.fmt(tol_ccd), flags)
    xml = gg.two_geom_xml(gg.geom_xml('ga', ta, sa, ma, gaa), gg.geom_xml('gb', tb, sb, mb, gab), opt)
    m = lib.model_from_xml(xml)
    d = lib.make_data(m)
    M = float(m.geom_margin[0] + m.geom_margin[1])
    G = float(m.geom_gap[0] + m.geom_gap[1])
    assert abs(M - (ma + mb)) <= 1e-15 + 1e-12 * (ma + mb) and abs(G - gtot) <= 1e-15 + 1e-12 * gtot
    for ip in range(nposes):
      okind = gg.ORIENT_KINDS[rng.randint(len(gg.ORIENT_KINDS))]
      dkind = 'normal' if ta == 'plane' else gg.DIR_KINDS[rng.randint(len(gg.DIR_KINDS))]
      dclass = DELTA_CLASSES[rng.randint(len(DELTA_CLASSES))]
      if dclass in ('in-margin', 'edge') and M + G == 0:
        dclass = 'touch'
      RA = gg.orient(rng, 'random' if rng.rand() < 0.7 else 'identity')
      RB = gg.orient(rng, okind, RA)
      PA = case['far'] * scale * gg.rand_unit(rng) + scale * rng.uniform(-1, 1, 3)
      A0 = gr.Shape(ta, sa, PA, RA)
      dvec = RA[:, 2].copy() if ta == 'plane' else gg.direction(rng, dkind, RA, RB)
      if dclass == 'pen-shallow':
        delta = -smin * 10 ** rng.uniform(-6, math.log10(0.3))
      elif dclass == 'pen-deep':
        delta = -smin * rng.uniform(0.5, 1.6)
      elif dclass == 'touch':
        delta = smin * rng.choice([-1, 1]) * 10 ** rng.uniform(-12, -7)
      elif dclass == 'in-margin':
        delta = (M + G) * rng.uniform(0, 1)
      elif dclass == 'edge':
        delta = (M + G) * (1 + rng.choice([-1, 1]) * 10 ** rng.uniform(-9, -3))
      else:
        delta = (M + G) + smin * rng.uniform(0.01, 0.5)
      PB = gg.place(rng, A0, tb, sb, RB, dvec, delta)
      shifted = False
      inside = ip < 2 and ta != 'plane' and (ta in ('sphere', 'capsule') or tb in ('sphere', 'capsule'))
      if inside:
        # structured class "centre inside": the centre of the sphere / capsule lies INSIDE the other geom, near each cap /
        # face / wall, in both halves of every local axis (sphere-X depths are unique at any depth and are asserted)
        small_is_b = tb in ('sphere', 'capsule') and (ta not in ('sphere', 'capsule') or rng.rand() < 0.5)
        ct, cs, cR = (ta, sa, RA) if small_is_b else (tb, sb, RB)
        u = rng.uniform(-1, 1, 3)
        near = 1 - 10 ** rng.uniform(-3, -0.3)
        if ct == 'box':
          pl = cs[:3] * u * 0.98
          if rng.rand() < 0.6:
            i = rng.randint(3)
            pl[i] = rng.choice([-1.0, 1.0]) * cs[i] * near
        elif ct in ('cylinder', 'capsule'):
          rho, phi = cs[0] * 0.98 * math.sqrt(rng.rand()), rng.uniform(0, 2 * math.pi)
          z = cs[1] * u[2] * 0.98
          r3 = rng.rand()
          if r3 < 0.45:
            z = rng.choice([-1.0, 1.0]) * cs[1] * near            # next to a cap (both halves)
          elif r3 < 0.7:
            rho = cs[0] * near                                   # next to the wall
          pl = np.array([rho * math.cos(phi), rho * math.sin(phi), z])
        elif ct == 'ellipsoid':
          pl = cs[:3] * gg.rand_unit(rng) * 0.95 * rng.rand() ** (1 / 3)
        else:
          pl = cs[0] * gg.rand_unit(rng) * 0.9 * rng.rand() ** (1 / 3)
        PB = PA + RA @ pl if small_is_b else PA - RB @ pl
        dclass, dkind, delta = 'centre-inside', 'inside', float('nan')
      corner = ip >= 4 and {ta, tb} == {'capsule', 'box'}
      if corner:
        # structured class "capsule aimed at a box corner": each of the 8 corners in turn, capsule axis oblique to the box
        # edges and perpendicular to the approach direction u (u inside the corner's normal cone), so the closest capsule
        # point is the MIDDLE of its segment, the closest box feature is the corner itself and the distance is exactly delta
        ci = (case['seed'] + ip) % 8
        sg = np.array([1.0 if ci & 1 else -1.0, 1.0 if ci & 2 else -1.0, 1.0 if ci & 4 else -1.0])
        box_is_a = ta == 'box'
        bs, cr = (sa, sb[0]) if box_is_a else (sb, sa[0])
        ul = sg * rng.uniform(0.25, 1.0, 3)
        ul /= np.linalg.norm(ul)
        if M + G > 0 and rng.rand() < 0.5:
          delta, dclass = (M + G) * rng.uniform(0.05, 0.95), 'in-margin'
        else:
          delta, dclass = -cr * 10 ** rng.uniform(-4, -1.3), 'pen-shallow'
        Rbox = gg.orient(rng, 'random' if rng.rand() < 0.7 else 'identity')
        uw = Rbox @ ul
        zc = gg.perp_unit(rng, uw)
        xc = gg.perp_unit(rng, zc)
        Rcap = np.stack([xc, np.cross(zc, xc), zc], axis=1)
        if box_is_a:
          RA, RB = Rbox, Rcap
          PB = PA + Rbox @ (sg * bs[:3]) + uw * (cr + delta)
        else:
          RA, RB = Rcap, Rbox
          PB = PA - Rbox @ (sg * bs[:3]) - uw * (cr + delta)
        okind, dkind, shifted = 'random', 'box-corner-%d' % ci, False
      if rng.rand() < 0.3 and not inside and not corner:
        PB = PB + gg.perp_unit(rng, dvec) * smin * rng.uniform(0, 0.5)
        shifted = True
      S = [gr.Shape(ta, sa, PA, RA), gr.Shape(tb, sb, PB, RB)]
      res = engine(xml, m, d, S, M, G, PA, RA, PB, RB, None)
      if res is None:
        continue               # the collider killed the worker: reported inside engine()
      # the engine's kinematics must have put the geoms where the scene says (sanity of the harness)
      if np.max(np.abs(res['xpos'][0] - PA)) > 1e-9 * (1 + np.linalg.norm(PA)) or np.max(np.abs(res['xmat'][1] - RB)) > 1e-9:
        raise AssertionError('scene placement mismatch')
      S = [gr.Shape(ta, sa, res['xpos'][0], res['xmat'][0]), gr.Shape(tb, sb, res['xpos'][1], res['xmat'][1])]
      info = dict(ta=ta, tb=tb, sa=sa, sb=sb, PA=PA, qA=gg.mat2quat(RA), PB=PB, qB=gg.mat2quat(RB), margin=M, gap=G,
                  okind=okind, dkind=dkind, dclass=dclass, delta=delta, shifted=shifted, tol=tol_ccd, xml=xml)
      soft = []
      try:
        check_pose(ck, res, S, M, G, tol_ccd, info, calib, stats, soft, True)
      except SkipPose:
        continue
      if soft and tol_ccd < TOL_FLOOR * res['sc']:
        # Input rule: GJK stops when the duality gap x.(x - s) < 0.5*ccd_tolerance^2. x and s are differences of WORLD
        # coordinates, so the gap carries a rounding error of about 8*eps*sc^2 (sc = sizes + centre distance + |position|);
        # for ccd_tolerance < sqrt(16*eps)*sc = 6e-8*sc the test cannot be resolved, GJK runs on into degenerate simplices
        # and stops by stagnation. Measured on one geometry: errors up to 7e-4 at tolerance 1e-8 in 50-80 % of 1e-12..1e-7
        # perturbations, 1e-13 at tolerance 1e-6. Same root cause as the listed rounding-sensitivity finding.
        ck.label('ccd_tolerance-below-rounding-level(known finding)')
        finding('gjk-translation-variant', 'ccd_tolerance %.0e is below the rounding level 6e-8*scale(%.3g) of the GJK stopping '
                'test: ' % (tol_ccd, res['sc']) + soft[0][0], info)
        soft = []
      if soft:
        # FINDING F2 (see report): GJK occasionally stagnates with an error far above ccd_tolerance, and whether it
        # does depends on the last bits of the coordinates. The same configuration is re-evaluated after rigid
        # translations of the whole scene: if the engine itself then produces a conforming answer the case is
        # counted as translation-variant (not asserted); a consistent error still fails.
        ok = False
        for attempt in range(6):
          # 3 rigid translations of the scene, then 3 rotations of geom B by 1e-10 rad about its own centre
          o = scale * rng.uniform(-2, 2, 3) if attempt < 3 else np.zeros(3)
          RBp = RB if attempt < 3 else gg.axis_angle(gg.rand_unit(rng), 1e-10) @ RB
          S2 = [gr.Shape(ta, sa, PA + o, RA), gr.Shape(tb, sb, PB + o, RBp)]
          res2 = engine(xml, m, d, S2, M, G, PA + o, RA, PB + o, RBp, None)
          if res2 is None:
            continue
          S2 = [gr.Shape(ta, sa, res2['xpos'][0], res2['xmat'][0]), gr.Shape(tb, sb, res2['xpos'][1], res2['xmat'][1])]
          soft2 = []
          try:
            check_pose(ck, res2, S2, M, G, tol_ccd, info, calib, stats, soft2, False)
          except SkipPose:
            continue
          if not soft2:
            ok = True
            break
        if not ok:
          raise Violation(soft[0][0], bucket=soft[0][1])
        ck.label('gjk-translation-variant(known finding)')
        finding('gjk-translation-variant', soft[0][0], info)
    ck.label('pair:%s-%s' % tuple(sorted((ta, tb), key=ORDER.get)))

  WHAT = {
      'gjk-touching-band': 'native GJK/EPA with |true distance| <~ 10*ccd_tolerance: mj_geomDistance returns a penetration of up '
                           'to ~100x ccd_tolerance (also for separated geoms), fromto may be all zero or outside the geoms, '
                           'and the contact normal is arbitrary (47..180 deg off observed)',
      'gjk-translation-variant': 'native GJK stagnates with an error far above ccd_tolerance (1.5e-5 at tolerance 1e-10, '
                                 'sphere-ellipsoid) depending on the last bits of the coordinates: a rigid translation of both '
                                 'geoms (or a 1e-10 rad rotation of one of them) changes mj_geomDistance / contact dist by >> tolerance; '
                                 'box-box example: 1.1165 reported for boxes 0.0336 apart',
      'makeframe-parallel-tangent': 'mjc_PlaneCapsule passes the capsule axis as contact tangent; when the axis is exactly '
                                    'parallel to the plane normal mju_makeFrame normalises a zero vector to (1,0,0) and the '
                                    'contact frame is not orthonormal (|F F^T - I| = 0.38)',
      'capsule-capsule-parallel': 'mjraw_CapsuleCapsule with parallel axes: (a) the parallel branch pairs the end points of '
                                  'capsule 1 with their clipped projections on capsule 2 and returns once two contacts exist: '
                                  'depth too small (44 % observed) when capsule 1 overhangs capsule 2; (b) the parallel test '
                                  '|det| < mjMINVAL is absolute: for half-lengths >~ 1 rounding noise selects the general '
                                  'branch with meaningless parameters (missing contacts, ~100 % depth error)',
      'planecylinder-parallel-noise': 'mjc_PlaneCylinder: when the cylinder axis equals the plane normal up to rounding (angle ~1e-16 rad, '
                                      'e.g. both orientations derived from the same rotation) the test len_sqr >= mjMINVAL^2 passes and the '
                                      'rim direction is normalised rounding noise: contact dist / mj_geomDistance are wrong by up to one radius '
                                      '(-0.00203 instead of +5.0e-6 for r=0.005)',
      'capsulebox-distmax': 'mjraw_CapsuleBox initialises bestdistmax with a length (margin + 2*sizes) and compares it with '
                            'squared distances: for geoms/margins larger than ~1 contacts are missed and mj_geomDistance '
                            'returns distmax (same root cause as C28:capsulebox-distmax)'}

  def finding(fp, msg, info):
    stats['finding:' + fp] = stats.get('finding:' + fp, 0) + 1
    ck.violation('%s -- %s' % (WHAT[fp], msg), {k: v for k, v in info.items()}, bucket='known:' + fp,
                 fingerprint='C13:' + fp)

  def check_pose(ck, res, S, M, G, tol_ccd, info, calib, stats, soft, record):
    ncon = int(res['ncon'])
    con = res['con'] if ncon else None
    cdist = float(np.linalg.norm(S[0].pos - S[1].pos))
    sc = S[0].scale() * (S[0].typ != 'plane') + S[1].scale() + cdist + float(np.linalg.norm(S[1].pos))
    cond = pose_condition(S[0], S[1])
    if cond > 1e8:
      if record:
        ck.case(nontrivial=False, labels=['illconditioned(skipped)'])
      return
    t1, t2 = sorted((S[0].typ, S[1].typ), key=ORDER.get)
    pair = (t1, t2)
    # capsule-box works with line/box-edge intersections whose parameters are themselves quotients by the sine:
    # observed error ~ eps/angle^2 (4e-8 at 3e-5 rad)
    tprim = sc * ((K_PRIM_CB if pair == ('capsule', 'box') else K_PRIM) +
                  K_COND * 2.2e-16 * (cond * cond if pair in (('capsule', 'box'), ('capsule', 'capsule')) else cond))
    # (capsule-capsule: the closest-point parameters are quotients by det = sin^2(angle): observed 2.6e-8 at 3e-5 rad)
    if tprim > 1e-6 * sc:
      if record:
        ck.case(nontrivial=False, labels=['illconditioned(skipped)'])
      return
    is_ccd = pair not in NON_CCD
    tdist = tprim + ((K_CCD * tol_ccd + K_CCDREL * sc) if is_ccd else 0.0)
    # plane-cylinder with the disc parallel to the plane up to rounding (0 < sin < 1e-12): the collider derives the rim
    # direction from a cancellation that is pure noise there, so the reported rim point can be off by up to one radius
    # (the distance is unaffected and every point of the disc is equally close): positions get a slack of one radius
    disc_slack = 0.0
    if pair == ('plane', 'cylinder'):
      sn = float(np.linalg.norm(np.cross(S[0].mat[:, 2], S[1].mat[:, 2])))
      if 0 < sn < 1e-12:
        disc_slack = float(S[1].size[0] if S[1].typ == 'cylinder' else S[0].size[0])
    smin = min(S[0].minsize(), S[1].minsize())
    desc = lambda: ' | case: %s' % {k: (v.tolist() if isinstance(v, np.ndarray) else v) for k, v in info.items() if k != 'xml'}

    def hard(msg, bucket):
      if disc_slack:
        # FINDING: mjc_PlaneCylinder decides "disc parallel to the plane" with len_sqr < mjMINVAL^2 (1e-30); for angles of
        # ~1e-16 rad (orientations equal up to rounding) the rim direction `vec` is normalised rounding noise, not
        # perpendicular to the axis, and both the contact position and the DISTANCE are off by up to one radius
        if record:
          finding('planecylinder-parallel-noise', msg + desc(), info)
        raise SkipPose()
      raise Violation(msg + desc(), bucket=bucket)

    def softfail(msg, bucket):
      soft.append((msg + desc(), bucket))

    # ---- true distance when a closed form exists (geoms ordered as the colliders order them: by type)
    a, b = (S[0], S[1]) if ORDER[S[0].typ] <= ORDER[S[1].typ] else (S[1], S[0])
    pd = gr.pair_distance(a, b)
    dtrue = None
    if pd is not None:
      dtrue, kind = pd
      if kind == 'separated-core' and dtrue + a.size[0] <= 1e-9 * sc:
        dtrue = None        # capsule axis touches/enters the box: depth no longer given by the segment distance
    if pair == ('box', 'box'):
      sat, sat_ax = gr.box_box_sat(S[0], S[1])

    # ---- every contact: frame, margin bound, ids
    dmin, kmin = None, -1
    labels_pre = []
    for k in range(ncon):
      c = con[k]
      if dmin is None or c['dist'] < dmin:
        dmin, kmin = float(c['dist']), k
      F = np.array(c['frame']).reshape(3, 3)
      err = float(np.max(np.abs(F @ F.T - np.eye(3))))
      calib['frame'] = max(calib['frame'], err)
      if pair == ('plane', 'capsule') and np.linalg.norm(np.cross(S[0].mat[:, 2], S[1].mat[:, 2])) < 1e-14:
        # FINDING F3 (see report): capsule axis exactly parallel to the plane normal -> mju_makeFrame receives a
        # tangent parallel to the normal and returns a non-orthogonal frame unless the normal happens to be
        # orthogonal to (1,0,0).  Counted, not asserted.
        if err > K_FRAME:
          labels_pre.append('frame-not-orthonormal(known finding, capsule perpendicular to plane)')
          if record:
            finding('makeframe-parallel-tangent', '|F F^T - I| = %.3g' % err + desc(), info)
          continue
      if not err <= K_FRAME + K_COND * 2.2e-16 * cond:   # tangent given by a capsule axis nearly parallel to n
        hard('contact frame not orthonormal: |F F^T - I| = %.3g' % err, 'frame')
      if np.linalg.det(F) < 0.5:
        hard('contact frame is left-handed', 'frame')
      if not float(c['dist']) <= M + G + tprim:
        hard('contact dist %.17g > margin+gap %.17g' % (c['dist'], M + G), 'dist>margin')
      if float(c['includemargin']) != M:
        hard('includemargin %.17g != margin1+margin2 %.17g' % (c['includemargin'], M), 'includemargin')
      g = sorted(int(x) for x in c['geom'])
      if g != [0, 1]:
        hard('contact geoms %s' % g, 'ids')
      if ORDER[S[int(c['geom'][0])].typ] > ORDER[S[int(c['geom'][1])].typ]:
        hard('contact geoms not ordered by type', 'ids')
      if dmin is None or c['dist'] < dmin:
        dmin, kmin = float(c['dist']), k

    deep = dmin is not None and dmin < -DEEP * smin
    # capsule axis inside / crossing the other geom: the minimum-translation depth is not what the segment-based colliders
    # measure (and is not unique when the axes cross): invariants only. Sphere-X keeps its exact assertions.
    core_inside = info['dclass'] == 'centre-inside' and 'capsule' in pair and 'sphere' not in pair
    if core_inside:
      deep = ncon > 0
    labels = ['pair:%s-%s/%s' % (t1, t2, 'contact' if ncon else 'none'), 'delta:' + info['dclass'],
              'orient:' + info['okind'], 'dir:' + info['dkind']]
    labels += labels_pre
    if disc_slack:
      labels.append('plane-cylinder-disc-parallel-up-to-rounding(position slack r)')
    if deep:
      labels.append('deep(invariants only)')

    # ---- existence (closed-form pairs): contact iff true distance <= margin+gap, don't-care band tdist
    par_caps = pair == ('capsule', 'capsule') and np.linalg.norm(np.cross(S[0].mat[:, 2], S[1].mat[:, 2])) < 1e-6
    if par_caps and dtrue is not None and dtrue < M + G - tdist and ncon == 0:
      labels.append('parallel-capsules-missing-contact(known finding)')
      if record:
        finding('capsule-capsule-parallel', 'no contact, true distance %.17g < margin+gap %.17g' % (dtrue, M + G) + desc(),
                info)
    # capsule-box with sizes/margins > ~1: known defect (length compared with squared lengths)
    cb_big = lambda marg: False     # (C28:capsulebox-distmax was repaired in /repo: no carve-out any more)
    if cb_big(M + G) and dtrue is not None and ((dtrue < M + G - tdist and ncon == 0)):
      labels.append('capsule-box-missing-contact(known finding)')
      if record:
        finding('capsulebox-distmax', 'no contact, true distance %.17g < margin+gap %.17g' % (dtrue, M + G) + desc(), info)
      dtrue_exist = None
    else:
      dtrue_exist = dtrue
    # the broad phase compares bounding boxes rounded to float32 (mj_SAP): a pair whose boxes overlap by less than one
    # float32 ulp of the coordinate can be pruned -> existence is don't-care within 2e-7*(size + |position|)
    tex = tdist + 2e-7 * sc
    if dtrue_exist is not None and not par_caps:
      if dtrue < M + G - tex and ncon == 0:
        (softfail if is_ccd else hard)('no contact although true distance %.17g < margin+gap %.17g' % (dtrue, M + G),
                                       'missing-contact')
      if dtrue > M + G + tdist and ncon > 0:
        (softfail if is_ccd else hard)('contact (dist %.17g) although true distance %.17g > margin+gap %.17g' % (
            dmin, dtrue, M + G), 'spurious-contact')

    if ncon:
      c = con[kmin]
      g1, g2 = int(c['geom'][0]), int(c['geom'][1])
      S1, S2 = S[g1], S[g2]
      n = np.array(c['frame'][:3])
      touching = is_ccd and abs(dmin - (M + G)) <= TOUCH_BAND * tol_ccd   # the collider works on shapes inflated by (margin+gap)/2
      if is_ccd and not touching and not info['shifted'] and abs(info['delta'] - (M + G)) <= TOUCH_BAND * tol_ccd:
        # constructed to touch (|signed distance - (margin+gap)| <= |delta - (margin+gap)|) but the collider reports something else
        touching = True
        if record:
          finding('gjk-touching-band', 'geoms constructed to touch (delta %.3g) but the contact has dist %.6g' % (
              info['delta'], dmin) + desc(), info)     # EPA started from a (near) degenerate simplex
      # ---- distance value
      f5 = pair == ('capsule', 'capsule') and np.linalg.norm(np.cross(S[0].mat[:, 2], S[1].mat[:, 2])) < 1e-6
      if f5:
        # FINDING F5 (see report): exactly parallel capsules. (a) the parallel branch pairs the END POINTS of geom1's
        # axis with their clipped projections on geom2 and returns as soon as two contacts exist, so when capsule 1
        # overhangs capsule 2 the reported depth is too small (44 % observed); (b) the parallel test is
        # |det| < 1e-15 (absolute): for half-lengths >~ 1 rounding noise in det selects the general branch with
        # meaningless parameters (missing contacts, depth errors ~100 %). Only the sound one-sided relation is kept.
        labels.append('parallel-capsules(only dist >= true asserted)')
        if record and abs(dmin - dtrue) > tdist:
          finding('capsule-capsule-parallel', 'min contact dist %.17g, true %.17g' % (dmin, dtrue) + desc(), info)
        if dmin < dtrue - tdist:
          hard('parallel capsules: contact dist %.17g deeper than the true signed distance %.17g' % (dmin, dtrue),
               'dist:capsule-capsule')
      elif dtrue is not None and not (deep and (is_ccd or pair in (('capsule', 'capsule'), ('capsule', 'box')))):
        # (deep GJK/EPA penetrations, e.g. a sphere centre inside an ellipsoid: invariants only; observed error 4e-4 relative)
        err = abs(dmin - dtrue)
        if err <= tdist:
          calib['ccd' if is_ccd else 'prim'] = max(calib['ccd' if is_ccd else 'prim'],
                                                  err / (tol_ccd if is_ccd else sc))
        else:
          (softfail if is_ccd else hard)('min contact dist %.17g, true signed distance %.17g (|diff| %.3g > tol %.3g)' % (
              dmin, dtrue, err, tdist), 'dist:%s-%s' % pair)
      # ---- normal direction and slab certificate:  -(h1(n)+h2(-n)) <= true dist; equality certifies dist and the
      #      direction (a reversed normal gives the sum of the widths instead)
      w = hsup_any(S1, n) + hsup_any(S2, -n)
      if pair == ('box', 'box'):
        if not deep:
          if sat <= 0:      # penetrating: exact depth D = -sat
            D = -sat
            tbb = tprim + 1e-8 * sc      # the collider's own rounding slacks (mjBOXBOX_*EPS); worst observed 2e-10*sc
            if not (-dmin >= D - tbb and -dmin <= D * BOXBOX_FUDGE + tbb):
              hard('box-box depth %.17g outside [D, D/0.95], D=%.17g' % (-dmin, D), 'dist:box-box')
            if abs(w + dmin) > tbb + (BOXBOX_FUDGE - 1) * D:
              hard('box-box normal is not the axis of the reported depth: overlap along n %.17g, depth %.17g' % (
                  w, -dmin), 'normal:box-box')
          else:
            if record:
              stats['boxbox_band'] += 1
            labels.append('boxbox-separated-band')
            # one-sided: the witness pair is a real pair of surface points, so dist >= true distance >= SAT bound
            if dmin < sat - tprim:
              hard('box-box dist %.17g below the separating-axis bound %.17g' % (dmin, sat), 'dist:box-box')
            if sat > tprim and not (-w > 0 and -w <= dmin + tprim):
              hard('box-box normal does not separate the boxes: gap along n %.17g, dist %.17g' % (-w, dmin),
                   'normal:box-box')
      elif (not deep or (dtrue is not None and kind == 'exact' and pair[0] in ('plane', 'sphere'))) and not is_ccd and not f5:
        # (plane-X and sphere-X depths are unique at any depth: sphere centre inside a box / cylinder is asserted too)
        err = abs(w + dmin)
        if not err <= tdist:
          hard('normal/dist certificate: overlap width along the reported normal %.17g but dist %.17g (tol %.3g)' % (
              w, dmin, tdist), 'normal:%s-%s' % pair)
      elif not deep and touching:
        # FINDING F1: inside the touching band the EPA normal is arbitrary (observed 47 deg and ~180 deg off)
        labels.append('epa-touching-band(normal not asserted)')
        if record and w + dmin > 0.02 * sc + tdist:
          finding('gjk-touching-band', 'contact dist %.3g with normal along which the overlap is %.6g' % (dmin, w) + desc(),
                  info)
      elif not deep and is_ccd:
        # GJK/EPA pair. w(n) = h1(n)+h2(-n) >= -(true signed distance) for every n, so the reported depth can never
        # exceed the width along its own normal; EPA stops on the best upper bound seen so far, hence its final face
        # normal is only approximately optimal (observed: 2 degrees at tolerance 1e-6): the direction is asserted
        # loosely (a reversed normal gives w ~ sum of the sizes), the value against the refined minimum of w.
        if -dmin > w + tdist:
          softfail('depth %.17g exceeds the overlap width %.17g along the reported normal' % (-dmin, w),
                   'normal:%s-%s' % pair)
        if w + dmin > 0.02 * sc + tdist:
          softfail('normal direction: overlap width along the reported normal %.17g but dist %.17g' % (w, dmin),
               'normal:%s-%s' % pair)
        if dtrue is None:
          wmin, nb = gr.penetration_depth_sampled(S1, S2, 400, True, extra=[n])
          est = -wmin        # <= true signed distance (sound); == up to ~1e-9*size when the global minimum is found
          if dmin < est - tdist:
            softfail('penetration depth %.17g is not minimal: direction %s gives %.17g' % (-dmin, nb.tolist(), wmin),
                     'depth-not-minimal')
          elif dmin > est + tdist + 1e-8 * sc and S1.typ in SMOOTH and S2.typ in SMOOTH:
            # (two-sided only where w(n) is smooth so that the refinement provably reaches the local minimum; with
            #  boxes/cylinders the pattern search can stall on a crease and the bound would be unsound)
            softfail('contact dist %.17g but the refined support-function minimum gives %.17g (direction %s)' % (
                dmin, est, nb.tolist()), 'dist:%s-%s' % pair)
          else:
            calib['ccd'] = max(calib['ccd'], abs(dmin - est) / tol_ccd)
      # ---- position lies between the two surfaces: pos -+ n*dist/2 are points of the two geoms
      for k in range(ncon):
        ck_ = con[k]
        nk = np.array(ck_['frame'][:3])
        pk = np.array(ck_['pos'])
        dk = float(ck_['dist'])
        if dk < -DEEP * smin or (touching and is_ccd) or (pair == ('box', 'box') and sat > 0) or f5 or (is_ccd and ncon > 1) \
            or core_inside:
          # (convex multi-contact manifolds: points come from perturbed poses / face clipping, only the single-contact
          #  result of GJK/EPA is asserted)
          continue
        e1 = gr.sdf(S[int(ck_['geom'][0])], pk - nk * dk / 2)
        e2 = gr.sdf(S[int(ck_['geom'][1])], pk + nk * dk / 2)
        if not is_ccd and k == kmin:   # closed-form colliders, deepest contact: exactly on the surfaces. GJK/EPA witnesses
          e1, e2 = abs(e1), abs(e2)    # are convex combinations of support points and secondary manifold points (upper
                                       # end of a tilted capsule on a plane ...) are interior: members of the geoms (one-sided)
        if not is_ccd:
          tolk = tdist
          calib['between'] = max(calib['between'], max(e1, e2) / sc)
        elif k == kmin:
          tolk = 4 * tdist + 1e-1 * (abs(dk) + M + G)   # normal only ~1e-2 rad accurate (see above): 2nd order in it,
                                                      # lever arm = distance between the inflated witness points
        else:
          tolk = tdist + 4e-3 * sc              # multiccd secondary points come from +-1e-3 rad perturbed poses
        if pair == ('box', 'box'):
          # penetration: 5 % face preference; separated band: edge-edge witnesses are clamped segment points and the
          # distance is measured along the axis, so pos-+n*dist/2 only approximates them
          tolk += (0.06 if sat <= 0 else 0.5) * abs(dk)
        if max(e1, e2) > tolk + disc_slack:
          (softfail if is_ccd else hard)('contact %d/%d: witness points pos-+n*dist/2 are outside the geoms by %.3g / %.3g (tol %.3g)' % (
              k, ncon, e1, e2, tolk), 'between:%s-%s' % pair)

    # ---- mj_geomDistance: symmetric, agrees with the contact and the closed form
    distmax = res['distmax']
    d12, f12, d21, f21 = res['d12'], res['f12'], res['d21'], res['f21']
    gd_ccd = is_ccd or pair == ('box', 'box')       # mj_geomDistance sends box-box to GJK/EPA as well
    tgd = tprim + ((K_CCD * tol_ccd + K_CCDREL * sc) if gd_ccd else 0.0)
    deep_gd = d12 < -DEEP * smin
    band = [None]

    def touching_band():
      """FINDING F1 (see report): for GJK/EPA pairs whose true |distance| is below ~ccd_tolerance, mj_geomDistance
      returns a penetration of up to ~100x ccd_tolerance. Decided with an independent estimate of the distance."""
      if not gd_ccd:
        return False
      if band[0] is None:
        if dtrue is not None:
          est = dtrue
        else:
          ub, _ = gr.penetration_depth_sampled(S[0], S[1], 400, True, extra=[f12[3:] - f12[:3], S[1].pos - S[0].pos])
          est = -ub
        # by construction |signed distance| <= |delta| for unshifted poses (support points at distance delta along dvec)
        bydelta = (not info['shifted']) and abs(info['delta']) <= TOUCH_BAND * tol_ccd
        band[0] = bydelta or abs(est) <= TOUCH_BAND * tol_ccd + tprim
        if not band[0] and dtrue is None:
          # the cheap estimate can stall on creases of box/cylinder pairs: decide with a much denser search
          feat = [sg * S[i].mat[:, k] for i in (0, 1) if S[i].typ != 'plane' for k in range(3) for sg in (1.0, -1.0)]
          ub, _ = gr.penetration_depth_sampled(S[0], S[1], 6000, True,
                                               extra=[f12[3:] - f12[:3], S[1].pos - S[0].pos] + feat, nstart=16)
          band[0] = abs(ub) <= TOUCH_BAND * tol_ccd + tprim
        if band[0]:
          labels.append('geomDistance-touching-band')
      return band[0]

    def gd_fail(msg, bucket):
      if core_inside:
        return
      if par_caps:
        if record:
          finding('capsule-capsule-parallel', msg + desc(), info)
        return
      if cb_big(distmax):
        if record:
          finding('capsulebox-distmax', msg + desc(), info)
        return
      if touching_band():
        if record:
          finding('gjk-touching-band', msg + desc(), info)
        return
      (softfail if gd_ccd else hard)(msg, bucket)
    err = abs(d12 - d21)
    if err <= tgd:
      calib['gd_sym'] = max(calib['gd_sym'], err / (tol_ccd if gd_ccd else sc))
    elif not (deep_gd and gd_ccd):
      gd_fail('mj_geomDistance not symmetric: %.17g vs %.17g' % (d12, d21), 'gd-sym')
    if d12 < distmax and not deep_gd:
      # fromto are points of geom1 / geom2 realising the distance, and swap with the arguments
      for (dd, ft, sa_, sb_) in ((d12, f12, S[0], S[1]), (d21, f21, S[1], S[0])):
        seglen = float(np.linalg.norm(ft[3:] - ft[:3]))
        if abs(seglen - abs(dd)) > tgd * 2:
          gd_fail('mj_geomDistance fromto length %.17g != |dist| %.17g' % (seglen, dd), 'gd-fromto')
        e1, e2 = gr.sdf(sa_, ft[:3]), gr.sdf(sb_, ft[3:])
        if not gd_ccd:
          e1, e2 = abs(e1), abs(e2)
        if max(e1, e2) > tgd * 4 + (1e-4 * sc if gd_ccd else 0.0) + disc_slack:   # GJK witnesses: barycentric combinations in world
          # coordinates of a possibly unconverged simplex, worst observed 4e-5*sc (see C15 K_MEMBER)
          gd_fail('mj_geomDistance fromto points outside the geoms by %.3g/%.3g' % (e1, e2), 'gd-fromto')
        if dd > 1e-3 * smin:
          # separated (direction of the witness segment well conditioned): slab certificate along it
          nn = (ft[3:] - ft[:3]) / seglen
          lb = -(hsup_any(sa_, nn) + hsup_any(sb_, -nn))
          if dd > lb + tgd * 2:
            gd_fail('mj_geomDistance %.17g exceeds what its own witness direction certifies (%.17g)' % (dd, lb),
                    'gd-certificate')
    if dtrue is not None and dtrue < distmax and not (deep_gd and (gd_ccd or pair in (('capsule', 'capsule'), ('capsule', 'box')))):
      if abs(d12 - dtrue) > tgd:
        gd_fail('mj_geomDistance %.17g, true signed distance %.17g' % (d12, dtrue), 'gd-true')
    if ncon and not deep and not deep_gd and not (is_ccd and touching):
      # (touching = the margin-inflated shapes the collider works on are within the touching band, by the input rule
      #  |delta - (margin+gap)| <= TOUCH_BAND*ccd_tolerance or by the contact itself: listed finding, contact not asserted)
      err = abs(d12 - dmin)
      if pair == ('box', 'box'):
        ok = sat > 0 or (sat <= 0 and -dmin >= -d12 - tgd and -dmin <= -d12 * BOXBOX_FUDGE + tgd)
      else:
        ok = err <= tgd + tdist
        if ok:
          calib['gd_con'] = max(calib['gd_con'], err / (tol_ccd if gd_ccd else sc))
      if not ok:
        gd_fail('mj_geomDistance %.17g disagrees with min contact dist %.17g' % (d12, dmin), 'gd-vs-contact')
    if pair == ('box', 'box') and ncon == 0 and d12 < M + G - tgd and not touching_band():
      if record:
        stats['boxbox_missing'] += 1
      labels.append('boxbox-no-contact-inside-margin(documented limitation)')

    if not record:
      return
    aligned = info['okind'] in ('identity', 'axis90') and info['dkind'] in ('A-axis', 'B-axis', 'normal')
    structured = info['okind'] in ('parallel', 'parallel-z', 'tilt') or info['dkind'] in (
        'A-diag2', 'A-diag3', 'perp-Az', 'perp-Bz', 'near-A-axis') or info['dkind'].startswith('box-corner') or info['dclass'] in ('pen-deep', 'edge', 'centre-inside')
    nt = ncon > 0 and (not aligned or structured)
    ck.case(nontrivial=nt, key=(pair, info['sa'], info['sb'], info['PB'], info['qB']),
            sample=dict(pair=pair, ncon=ncon, dmin=dmin, dtrue=dtrue, geomdist=d12, margin=M, gap=G,
                        dclass=info['dclass'], okind=info['okind'], dkind=info['dkind'], sizes=[info['sa'], info['sb']]),
            labels=labels)

  # deterministic probe of the known EPA crash (exact reproducer, in the worker)
  r0 = worker_eval(dict(REPRO), ('cylinder', 'box'), 'reproducer of C13:epa-buffer-overrun-iteration-limit')
  ck.label('epa-crash-reproducer:%s' % ('died' if r0 is None else 'survived'))
  if only_req is not None:
    # replay of a journalled worker request (crash reproducer)
    pair = tuple(sorted(__import__('re').findall(r'type="(\w+)"', only_req['xml'])[:2], key=ORDER.get))
    r = worker_eval(dict(only_req), pair, 'replay')
    ck.case(nontrivial=True, key='replay', sample=dict(died=r is None))
    ck.case(nontrivial=True, key='replay2')
  elif only_case is not None:
    try:
      test(only_case)
    except Violation as e:
      ck.violation('Violation: %s' % e, dict(case=only_case), bucket=getattr(e, 'bucket', None))
  else:
    ck.run_hypothesis(test, scene_strategy(), ck.budget(350, 12000), name='contacts', shrink=False)
  worker.stop()
  ck.extra['tolerances'] = dict(K_FRAME=K_FRAME, K_PRIM=K_PRIM, K_CCD=K_CCD, BOXBOX_FUDGE=BOXBOX_FUDGE, DEEP=DEEP)
  ck.extra['worst_observed'] = {k: float(v) for k, v in calib.items()}
  ck.extra['boxbox'] = stats


def replay(ck, body):
  c = body.get('case') or {}
  if isinstance(c, dict) and 'mocap_pos' in c:
    main(ck, only_req={k: c[k] for k in ('xml', 'mocap_pos', 'mocap_quat', 'qpos', 'distmax') if k in c})
  elif isinstance(c, dict) and isinstance(c.get('case'), dict):
    main(ck, only_case=c['case'])
  else:
    raise ValueError('unsupported replay body')


LEVEL = 'exploration'
TECHNIQUE = ('property-based testing: constructive two-geom scene generator (support-point placement, structured degenerate '
             'poses) against closed-form signed distances and support-function duality certificates')
LEVEL_TEXT = '''Random primitive pairs x sizes (3 decades) x margins/gaps x 8 poses per model; every contact is checked for
unit normal, orthonormal right-handed frame, dist <= margin+gap, includemargin, geom ordering; the minimum contact distance is
compared with an independent closed-form signed distance (plane-X, sphere-X, capsule-capsule, capsule-box) or certified by
support functions along the reported normal plus sampled optimality (convex collider pairs); witness points pos-+n*dist/2 must lie
on the two surfaces; mj_geomDistance must be symmetric, return witness points on the surfaces, and agree with the contact and the
closed form. Sampled, not exhaustive.'''
LEVEL_NOTE = '''Only the native GJK/EPA path is exercised (libccd is a stub in the verification build). ccd_iterations is raised to 200
so that EPA converges to the requested tolerance on curved shapes. Box-box: the collider is a separating-axis/clipping method; in
penetration the depth is compared with the exact SAT depth within the collider's documented 5 % face-preference; for separated boxes
inside the margin band only dist >= SAT bound is decided (vertex-vertex / vertex-edge arrangements are reported with a larger distance or
not at all - counted in coverage.boxbox, see report). Penetrations deeper than 50 % of the smaller size get invariants only.'''
