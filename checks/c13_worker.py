"""Worker process of C13/C15: evaluates two-geom poses (mj_forward + mj_geomDistance) so that a crash of the collider kills
this process and not the check. Protocol: one JSON request per line on stdin -> one JSON reply per line on stdout.
request: xml, mocap_pos, mocap_quat, qpos, [distmax], [ccd_iterations]"""
import json
import sys

import numpy as np


def main():
  from vf import gen_geom as gg
  from vf import mj
  lib = mj.load('rel')
  cache = {}
  out = sys.stdout
  for line in sys.stdin:
    req = json.loads(line)
    try:
      key = req['xml']
      if key not in cache:
        if len(cache) > 4:
          cache.clear()
        m = lib.model_from_xml(key)
        cache[key] = (m, lib.make_data(m), int(m.opt.ccd_iterations))
      m, d, it0 = cache[key]
      m.opt.ccd_iterations = int(req.get('ccd_iterations', it0))
      rep = gg.eval_pose(lib, m, d, req['mocap_pos'], req['mocap_quat'], req['qpos'], req.get('distmax'), raw=True)
      lib.warnings()
    except mj.MjError as e:
      rep = dict(error=str(e))
    out.write(json.dumps(rep) + '\n')
    out.flush()


if __name__ == '__main__':
  main()
