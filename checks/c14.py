"""C14 - Collision pair selection is complete and respects the filters.

Domain : 5-25 bodies (quick) in random trees (free / hinge / slide / ball joints, jointless bodies welded to their parent, static
         top-level bodies, mocap bodies) with 1-4 geoms each (sphere, capsule, ellipsoid, cylinder, box, inline convex meshes),
         planes and static geoms on the world, random 3-bit contype/conaffinity, geom margins and gaps, <exclude> body pairs,
         explicit <pair> elements with their own margin/gap, clustered placement (about a third of the candidate pairs within
         margin), flags filterparent / midphase / contact / constraint.
Oracle : brute-force reference in Python over the compiled model arrays, written from computation/index.rst "Collision detection":
         candidate = every geom pair on different weld groups, not weld-parent/child (unless the parent is the world or
         filterparent is disabled), at least one side with dofs, contype/conaffinity compatible, bodies not excluded, a
         collision function exists; union explicit pairs (bypass these filters, use the pair margin/gap). A candidate is
         proximate iff mj_geomDistance(g1, g2) < margin+gap (margins and gaps are summed). Expected: set of geom pairs in
         mjData.contact == proximate candidates, with a don't-care band around the threshold.
         Metamorphic partners: midphase disabled, second run (byte-identical contact list), rigid motion of the whole scene
         (all world children wrapped in a <frame>).
Non-trivial : the scene has an accepted pair and pairs rejected for at least two different reasons
              (bitmask / exclude / parent / same weld / no dof / distance).
"""
import math

import numpy as np
from hypothesis import strategies as st

from vf import gen_geom as gg
from vf.oracle import geomref as gr
from vf.runner import Violation

PRIMS = ('sphere', 'capsule', 'ellipsoid', 'cylinder', 'box')
# don't-care band around the proximity threshold, relative to the scene scale (=1): closed-form colliders decide within
# rounding, the broad phase compares float32 bounds (6e-8), GJK/EPA pairs are only accurate to ~100*ccd_tolerance near
# touching (finding C13:gjk-touching-band) -> 3e-4.
BAND_PRIM = 1e-6
BAND_CCD = 3e-4
NON_CCD = {('plane', 'sphere'), ('plane', 'capsule'), ('plane', 'cylinder'), ('plane', 'box'), ('plane', 'ellipsoid'),
           ('plane', 'mesh'), ('sphere', 'sphere'), ('sphere', 'capsule'), ('sphere', 'cylinder'), ('sphere', 'box'),
           ('capsule', 'capsule'), ('capsule', 'box'), ('box', 'box')}
ORDER = {t: i for i, t in enumerate(gr.TYPES)}


def scene_strategy():
  return st.fixed_dictionaries(dict(nbody=st.integers(3, 25), nworld=st.integers(0, 3), nplane=st.integers(0, 2),
                                    nexclude=st.integers(0, 4), npair=st.integers(0, 4),
                                    filterparent=st.booleans(), seed=st.integers(0, 2 ** 31 - 1)))


def build(case, rng, nbody):
  assets = []
  gnames = []
  bnames = []

  def geom(name, allow_plane=False):
    typ = (PRIMS + ('mesh',))[rng.randint(6)]
    a = ' name="%s"' % name
    if typ == 'mesh':
      v = gg.random_hull_points(rng, rng.randint(5, 12)) * gg.rand_size(rng, 'box', 0.12)
      mname = 'm%d' % len(assets)
      assets.append(gg.mesh_asset(mname, np.asarray(v, dtype=np.float32)))
      a += ' type="mesh" mesh="%s"' % mname
    else:
      s = gg.rand_size(rng, typ, 0.12)
      a += ' type="%s" size="%s"' % (typ, gg.fmt(s[:gg.NSIZE[typ]]))
    a += ' pos="%s" quat="%s"' % (gg.fmt(rng.uniform(-0.15, 0.15, 3)), gg.fmt(gg.rand_quat(rng)))
    r = rng.rand()
    if r < 0.35:
      a += ' contype="%d" conaffinity="%d"' % (rng.randint(0, 8), rng.randint(0, 8))
    elif r < 0.45:
      a += ' contype="0" conaffinity="0"'
    if rng.rand() < 0.3:
      a += ' margin="%s"' % gg.fmt(rng.choice([0.002, 0.02, 0.05]))
      if rng.rand() < 0.5:
        a += ' gap="%s"' % gg.fmt(rng.choice([0.005, 0.03]))
    gnames.append(name)
    return '<geom%s/>' % a

  ncl = max(1, nbody // 5)
  centres = rng.uniform(-0.6, 0.6, (ncl, 3)) + [0, 0, 0.6]
  bodies = []
  for i in range(nbody):
    par = -1 if i == 0 or rng.rand() < 0.55 else int(rng.randint(0, i))
    kind = rng.rand()
    bodies.append(dict(par=par, children=[], idx=i, kind=kind))
    if par >= 0:
      bodies[par]['children'].append(i)

  def render(i, world_pos):
    b = bodies[i]
    name = 'b%d' % i
    bnames.append(name)
    top = b['par'] < 0
    if top:
      pos = centres[rng.randint(ncl)] + rng.uniform(-0.25, 0.25, 3)
    else:
      pos = rng.uniform(-0.25, 0.25, 3)
    attrs = ' name="%s" pos="%s" quat="%s"' % (name, gg.fmt(pos), gg.fmt(gg.rand_quat(rng)))
    inner = ''
    k = b['kind']
    mocap_ok = top
    if top and k < 0.12:
      attrs += ' mocap="true"'
    elif top and k < 0.2:
      pass                                   # static body
    elif top and k < 0.75:
      inner += '<freejoint/>'
    elif k < 0.3 and not top:
      pass                                   # welded to its parent
    else:
      jt = ['hinge', 'slide', 'ball'][rng.randint(3)]
      inner += '<joint type="%s"%s/>' % (jt, '' if jt == 'ball' else ' axis="%s"' % gg.fmt(gg.rand_unit(rng)))
    for g in range(rng.randint(1, 5)):
      inner += geom('g%d_%d' % (i, g))
    for c in b['children']:
      inner += render(c, None)
    return '<body%s>%s</body>' % (attrs, inner)

  # ---- off-centre meshes (bounding box centre far from the centre of mass, where the compiler puts the geom frame) with a
  #      small partner body that touches the mesh ONLY at its far end: the broad phase must still generate the pair
  probes = ''
  for k in range(rng.randint(1, 4)):
    kind = ['spike', 'wedge'][rng.randint(2)]
    w, h = rng.uniform(0.012, 0.02), rng.uniform(0.25, 0.4)
    if kind == 'spike':
      v = np.array([[-w, -w, 0], [w, -w, 0], [w, w, 0], [-w, w, 0], [0, 0, h]], dtype=np.float32)
      tip = np.array([0.0, 0.0, h])
    else:                                   # wedge: thick end at z=0, line-like end at z=h
      v = np.array([[-w, -3 * w, 0], [w, -3 * w, 0], [w, 3 * w, 0], [-w, 3 * w, 0], [-w, 0, h], [w, 0, h]], dtype=np.float32)
      tip = np.array([0.0, 0.0, h])
    mname = 'm%d' % len(assets)
    assets.append(gg.mesh_asset(mname, v))
    R = gg.quat2mat(gg.rand_quat(rng))
    P = centres[rng.randint(ncl)] + rng.uniform(-0.4, 0.4, 3)
    r = rng.uniform(0.008, 0.012)
    c = P + R @ (tip + np.array([0, 0, 0.4 * r]))       # sphere centre just beyond the far end: penetrates it by 0.6 r
    bnames.append('s%d' % k)
    bnames.append('t%d' % k)
    gnames.append('gs%d_0' % k)
    gnames.append('gt%d_0' % k)
    probes += ('<body name="s%d" pos="%s" quat="%s"><freejoint/><geom name="gs%d_0" type="mesh" mesh="%s"/></body>' % (
        k, gg.fmt(P), gg.fmt(gg.mat2quat(R)), k, mname))
    probes += '<body name="t%d" pos="%s"><freejoint/><geom name="gt%d_0" type="sphere" size="%s"/></body>' % (
        k, gg.fmt(c), k, gg.fmt(r))

  # ---- mid-phase margin probes: two multi-geom bodies (both go through the BVH mid-phase), BOTH with non-zero margin / gap,
  #      facing each other so that the separation of their BVH boxes equals the sphere gap, which is drawn between
  #      max(marginA, marginB) and marginA + marginB (where only the documented SUM of the margins keeps the pair alive)
  for k in range(rng.randint(1, 3)):
    r = rng.uniform(0.03, 0.06)
    a = rng.choice([0.01, 0.02, 0.04])
    b = rng.choice([0.01, 0.03, 0.05])
    ga_, gb_ = (rng.choice([0.0, 0.01]), rng.choice([0.0, 0.02]))
    ta_, tb_ = a + ga_, b + gb_
    gapd = max(ta_, tb_) + rng.uniform(0.15, 0.85) * (ta_ + tb_ - max(ta_, tb_))
    R = gg.quat2mat(gg.rand_quat(rng)) if rng.rand() < 0.7 else np.eye(3)
    P = centres[rng.randint(ncl)] + rng.uniform(-0.5, 0.5, 3) + np.array([0, 0, 1.5 + k])
    P2 = P + R @ np.array([2 * r + gapd, 0, 0])
    q = gg.fmt(gg.mat2quat(R))
    for nm, pos, mar, gp in (('u%d' % k, P, a, ga_), ('v%d' % k, P2, b, gb_)):
      bnames.append(nm)
      gx = ''
      for j, yy in enumerate((-0.07, 0.07, 0.21)[:rng.randint(2, 4)]):
        gnames.append('g%s_%d' % (nm, j))
        gx += '<geom name="g%s_%d" type="sphere" size="%s" pos="0 %s 0" margin="%s"%s/>' % (
            nm, j, gg.fmt(r), gg.fmt(yy), gg.fmt(mar), ' gap="%s"' % gg.fmt(gp) if gp else '')
      probes += '<body name="%s" pos="%s" quat="%s"><freejoint/>%s</body>' % (nm, gg.fmt(pos), q, gx)

  world = ''
  for p in range(case['nplane']):
    q = gg.axis_angle(gg.rand_unit(rng), rng.uniform(0, 0.3)) if p else np.eye(3)
    world += '<geom name="p%d" type="plane" size="2 2 .1" pos="%s" quat="%s"%s/>' % (
        p, gg.fmt([0, 0, rng.uniform(0, 0.3)]), gg.fmt(gg.mat2quat(q)), ' margin="0.01"' if rng.rand() < .3 else '')
    gnames.append('p%d' % p)
  for w in range(case['nworld']):
    world += geom('w%d' % w).replace('pos="', 'pos="', 1)
  world += ''.join(render(i, None) for i in range(nbody) if bodies[i]['par'] < 0)
  world += probes
  contact = ''
  for _ in range(case['nexclude']):
    if len(bnames) >= 2:
      a, b = rng.choice(len(bnames), 2, replace=False)
      contact += '<exclude body1="%s" body2="%s"/>' % (bnames[a], bnames[b])
  pairs = set()
  for _ in range(case['npair']):
    a, b = rng.choice(len(gnames), 2, replace=False)
    ga, gb = gnames[a], gnames[b]
    def dofless(gn):
      if gn[0] in 'pw':
        return True
      if gn[1] in 'stuv':
        return False
      b = bodies[int(gn[1:].split('_')[0])]
      return b['par'] < 0 and b['kind'] < 0.2
    if ga.split('_')[0] == gb.split('_')[0] or (ga, gb) in pairs or (gb, ga) in pairs:
      continue
    if dofless(ga) and dofless(gb) and rng.rand() < 0.9:
      continue      # (a pair between two dof-less bodies makes mj_forward raise an error: finding C14:pair-static-static)
    pairs.add((ga, gb))
    contact += '<pair geom1="%s" geom2="%s"%s%s/>' % (ga, gb, ' margin="%s"' % gg.fmt(rng.choice([0.01, 0.06])) if rng.rand() < .6
                                                      else '', ' gap="0.02"' if rng.rand() < .3 else '')
  return assets, world, contact


def main(ck):
  lib = ck.lib('rel')
  from vf import mj
  E = lib.enums
  ck.rule = ('Hypothesis draws #bodies (3-25), #world geoms, #planes, #excludes, #pairs, filterparent, seed; tree shape, joints, '
             'geoms, bitmasks, margins, clustered placement from the seed; two random configurations per model; non-trivial = '
             '>=1 accepted pair and >=2 distinct rejection reasons among the all-pairs candidates; distinct by (xml, qpos)')
  ck.assumptions = ['sleep disabled, mjcb_contactfilter unset, no flex/hfield/sdf',
                    'explicit <pair>s bypass the body-level filters, the bitmask AND <exclude> (engine behaviour; the documentation only '
                    'names filters 3 and 4)',
                    'proximity oracle = mj_geomDistance (public narrow-phase query that bypasses broad and mid phase) with a '
                    'dont-care band of 1e-6 (closed-form colliders) / 3e-4 (GJK/EPA pairs, see C13:gjk-touching-band)',
                    'box-box pairs with 0 <= distance <= margin+gap are dont-care: the separating-axis collider reports a lower '
                    'bound or nothing in the margin band (see C13 report); exactly parallel capsules are not generated']
  stats = dict(pairs_checked=0, dontcare=0, rigid_motion=0, midphase=0)

  def finding(fp, msg, info):
    stats['finding:' + fp] = stats.get('finding:' + fp, 0) + 1
    ck.violation(msg, info, bucket='known:' + fp, fingerprint='C14:' + fp)

  def reference(m, d, disable_filterparent):
    ng = int(m.ngeom)
    typ = [gr.TYPES[int(t)] for t in m.geom_type]
    body = [int(b) for b in m.geom_bodyid]
    weld = [int(w) for w in m.body_weldid]
    par = [int(p) for p in m.body_parentid]
    dofnum = [int(x) for x in m.body_dofnum]
    contype = [int(x) for x in m.geom_contype]
    conaff = [int(x) for x in m.geom_conaffinity]
    excl = set()
    for k in range(int(m.nexclude)):
      sig = int(m.exclude_signature[k])
      excl.add((sig >> 16, sig & 0xFFFF))
    explicit = {}
    for k in range(int(m.npair)):
      g1, g2 = int(m.pair_geom1[k]), int(m.pair_geom2[k])
      explicit[(min(g1, g2), max(g1, g2))] = k
    verdict = {}
    for g1 in range(ng):
      for g2 in range(g1 + 1, ng):
        key = (g1, g2)
        a, b = sorted((typ[g1], typ[g2]), key=ORDER.get)
        if a == 'plane' and b == 'plane':
          verdict[key] = ('reject', 'no-collider', None)
          continue
        if key in explicit:
          k = explicit[key]
          verdict[key] = ('candidate', 'explicit-pair', float(m.pair_margin[k]) + float(m.pair_gap[k]))
          continue
        b1, b2 = body[g1], body[g2]
        w1, w2 = weld[b1], weld[b2]
        if w1 == w2:
          verdict[key] = ('reject', 'same-weld', None)
          continue
        if dofnum[w1] == 0 and dofnum[w2] == 0:
          verdict[key] = ('reject', 'no-dof', None)
          continue
        wp1, wp2 = weld[par[w1]], weld[par[w2]]
        if not disable_filterparent and w1 != 0 and w2 != 0 and (w1 == wp2 or w2 == wp1):
          verdict[key] = ('reject', 'parent', None)
          continue
        if (min(b1, b2), max(b1, b2)) in excl:
          verdict[key] = ('reject', 'exclude', None)
          continue
        if not ((contype[g1] & conaff[g2]) or (contype[g2] & conaff[g1])):
          verdict[key] = ('reject', 'bitmask', None)
          continue
        verdict[key] = ('candidate', 'auto', float(m.geom_margin[g1] + m.geom_margin[g2] + m.geom_gap[g1] + m.geom_gap[g2]))
    return verdict, typ

  def contact_pairs(d):
    n = int(d.ncon)
    if n == 0:
      return set(), b''
    c = d.contact[:n]
    s = {(min(int(a), int(b)), max(int(a), int(b))) for a, b in c['geom']}
    # fields written by the collision driver (H/mu/efc_address belong to the solver, padding bytes are unspecified)
    raw = b''.join(np.ascontiguousarray(c[f]).tobytes() for f in ('dist', 'pos', 'frame', 'includemargin', 'friction', 'solref',
                                                                  'solimp', 'dim', 'geom', 'exclude'))
    return s, raw

  def test(case):
    rng = np.random.RandomState(case['seed'])
    nbody = case['nbody'] if ck.quick else min(60, case['nbody'] * 2)
    assets, world, contact = build(case, rng, nbody)
    flags = '' if case['filterparent'] else ' filterparent="disable"'
    head = '<mujoco><option><flag%s/></option><size memory="40M"/><asset>%s</asset>' % (flags, ''.join(assets))
    xml = head + '<worldbody>%s</worldbody><contact>%s</contact></mujoco>' % (world, contact)
    try:
      m = lib.model_from_xml(xml)
    except mj.MjError as e:
      if 'qhull' in str(e) or 'pair' in str(e).lower() or 'exclude' in str(e).lower():
        ck.discard('compile:' + str(e)[:30])
        return
      raise
    d = lib.make_data(m)
    # rigid-motion partner: the same world wrapped in a frame
    Rf = gg.quat2mat(gg.rand_quat(rng))
    pf = rng.uniform(-1, 1, 3)
    xml2 = head + '<worldbody><frame pos="%s" quat="%s">%s</frame></worldbody><contact>%s</contact></mujoco>' % (
        gg.fmt(pf), gg.fmt(gg.mat2quat(Rf)), world, contact)
    m2 = lib.model_from_xml(xml2)
    d2 = lib.make_data(m2)
    for conf in range(2):
      qpos = np.array(m.qpos0)
      if conf:
        dq = rng.uniform(-0.3, 0.3, m.nv)
        if m.nv:
          lib.mj_integratePos(m, qpos, dq, 1.0)
      d.qpos[:] = qpos
      if m.nmocap:
        d.mocap_pos[:] = d.mocap_pos + (rng.uniform(-0.1, 0.1, (m.nmocap, 3)) if conf else 0)
      try:
        lib.mj_forward(m, d)
      except mj.MjError as e:
        if 'between two static bodies' in str(e):
          finding('pair-static-static', 'an explicit <pair> between geoms of two dof-less bodies (world / static / mocap) bypasses '
                  'the "neither body can move" filter; when the geoms are within margin mj_forward aborts with mju_error("%s") '
                  '(island construction, marked SHOULD NOT OCCUR) xml=%s' % (e, xml), dict(xml=xml))
          ck.discard('pair-static-static')
          return
        raise
      lib.warnings()
      got, raw = contact_pairs(d)
      verdict, typ = reference(m, d, not case['filterparent'])
      reasons = {}
      expected, dontcare = set(), set()
      for key, (v, why, thr) in verdict.items():
        if v == 'reject':
          reasons[why] = reasons.get(why, 0) + 1
          continue
        g1, g2 = key
        a, b = sorted((typ[g1], typ[g2]), key=ORDER.get)
        band = BAND_PRIM if (a, b) in NON_CCD else BAND_CCD
        dm = 1.5 * thr + 10 * band + 1e-3
        dist = lib.mj_geomDistance(m, d, g1, g2, dm, None)
        stats['pairs_checked'] += 1
        if (a, b) == ('box', 'box') and thr > 0 and -band <= dist <= 1.5 * thr + band:
          # (the SAT collider measures the separation along its best axis, which under-estimates vertex-vertex / vertex-edge
          #  distances: 13 % observed, so pairs slightly beyond the threshold may still get a contact)
          dontcare.add(key)
        elif dist < thr - band:
          expected.add(key)
          reasons['accept:' + why] = reasons.get('accept:' + why, 0) + 1
        elif dist > thr + band:
          reasons['distance'] = reasons.get('distance', 0) + 1
        else:
          dontcare.add(key)
      stats['dontcare'] += len(dontcare)
      info = dict(xml=xml, qpos=qpos, conf=conf)
      missing = expected - got
      extra = got - expected - dontcare
      if missing:
        g1, g2 = sorted(missing)[0]
        raise Violation('%d proximate candidate pair(s) without contact, e.g. geoms %d (%s, body %d) and %d (%s, body %d): '
                        'reference says %s, distance %.6g, threshold %.6g; qpos=%s xml=%s' % (
                            len(missing), g1, typ[g1], m.geom_bodyid[g1], g2, typ[g2], m.geom_bodyid[g2], verdict[(g1, g2)][1],
                            lib.mj_geomDistance(m, d, g1, g2, 10.0, None), verdict[(g1, g2)][2], qpos.tolist(), xml),
                        bucket='missing-pair')
      if extra:
        g1, g2 = sorted(extra)[0]
        v = verdict[(g1, g2)]
        raise Violation('%d contact pair(s) that the reference rejects, e.g. geoms %d (%s, body %d) and %d (%s, body %d): %s '
                        '(distance %.6g, threshold %s); qpos=%s xml=%s' % (
                            len(extra), g1, typ[g1], m.geom_bodyid[g1], g2, typ[g2], m.geom_bodyid[g2], v[1],
                            lib.mj_geomDistance(m, d, g1, g2, 10.0, None), v[2], qpos.tolist(), xml), bucket='extra-pair')
      # every contact within its pair's threshold; geom order by type
      # ---- determinism: a second evaluation gives a byte-identical contact list
      dd = lib.make_data(m)
      dd.qpos[:] = d.qpos
      if m.nmocap:
        dd.mocap_pos[:] = d.mocap_pos
        dd.mocap_quat[:] = d.mocap_quat
      lib.mj_forward(m, dd)
      got_b, raw_b = contact_pairs(dd)
      if raw_b != raw:
        raise Violation('contact list differs between two evaluations of the same state (ncon %d vs %d); qpos=%s xml=%s' % (
            d.ncon, dd.ncon, qpos.tolist(), xml), bucket='determinism')
      # sorted by geom pair within a body pair is documented loosely; assert the list is grouped: each geom pair contiguous
      seq = [(int(a), int(b)) for a, b in d.contact['geom'][:int(d.ncon)]]
      seen, last = set(), None
      for p in seq:
        if p != last:
          if p in seen:
            raise Violation('contacts of geom pair %s are not contiguous in mjData.contact; xml=%s' % (p, xml), bucket='order')
          seen.add(p)
          last = p
      # ---- midphase disabled: same pair set
      m.opt.disableflags = int(m.opt.disableflags) | E.mjDSBL_MIDPHASE
      lib.mj_forward(m, dd)
      m.opt.disableflags = int(m.opt.disableflags) & ~E.mjDSBL_MIDPHASE
      got_m, _ = contact_pairs(dd)
      stats['midphase'] += 1
      if (got_m ^ got) - dontcare:
        p = sorted((got_m ^ got) - dontcare)[0]
        raise Violation('pair set differs with the mid-phase disabled: %s only %s midphase; qpos=%s xml=%s' % (
            p, 'without' if p in got_m else 'with', qpos.tolist(), xml), bucket='midphase')
      # ---- contact / constraint disabled: no contacts
      for fl in (E.mjDSBL_CONTACT, E.mjDSBL_CONSTRAINT):
        m.opt.disableflags = int(m.opt.disableflags) | fl
        lib.mj_forward(m, dd)
        m.opt.disableflags = int(m.opt.disableflags) & ~fl
        if int(dd.ncon) != 0:
          raise Violation('contacts present with disable flag %d; xml=%s' % (fl, xml), bucket='disable')
      # ---- rigid motion of the whole scene
      if m2.nq == m.nq and m2.ngeom == m.ngeom:
        if conf == 0:
          d2.qpos[:] = m2.qpos0          # free joints live in world coordinates: the frame moves qpos0 with it
          lib.mj_forward(m2, d2)
          got2, _ = contact_pairs(d2)
          stats['rigid_motion'] += 1
          diff = (got2 ^ got) - dontcare
          # pairs whose distance is within the band of the threshold may flip under rounding: re-evaluate them
          diff = {p for p in diff if verdict[p][0] == 'reject' or
                  abs(lib.mj_geomDistance(m, d, p[0], p[1], 10.0, None) - verdict[p][2]) > 10 * BAND_CCD}
          if diff:
            p = sorted(diff)[0]
            raise Violation('pair set changes under a rigid motion of the whole scene: pair %s present only %s the motion; '
                            'frame pos=%s quat=%s xml=%s' % (p, 'after' if p in got2 else 'before', pf.tolist(),
                                                             gg.mat2quat(Rf).tolist(), xml), bucket='rigid-motion')
      nfar = sum(1 for p in expected if m.geom_type[p[0]] == E.mjGEOM_MESH and np.linalg.norm(m.geom_aabb[p[0]][:3]) > 0.03 or
                 m.geom_type[p[1]] == E.mjGEOM_MESH and np.linalg.norm(m.geom_aabb[p[1]][:3]) > 0.03)
      rej = [k for k in reasons if not k.startswith('accept')]
      multi = any(int(m.body_geomnum[int(m.geom_bodyid[g])]) > 1 for p in expected for g in p)
      labels = ['reason:' + k for k in reasons] + (['accepted-pair-on-multigeom-body(BVH)'] if multi else [])
      if nfar:
        labels.append('accepted-pair-with-offcentre-mesh')
      if m.nmocap:
        labels.append('mocap')
      ck.case(nontrivial=len(expected) >= 1 and len(rej) >= 2, key=(xml, qpos),
              sample=dict(nbody=int(m.nbody), ngeom=int(m.ngeom), ncon=int(d.ncon), pairs_in_contact=len(got),
                          expected=len(expected), dontcare=len(dontcare), reasons=reasons, npair=int(m.npair),
                          nexclude=int(m.nexclude)), labels=labels)

  ck.run_hypothesis(test, scene_strategy(), ck.budget(60, 1500), name='pairs', shrink=False)
  ck.extra['stats'] = stats
  ck.extra['bands'] = dict(BAND_PRIM=BAND_PRIM, BAND_CCD=BAND_CCD)


LEVEL = 'exploration'
TECHNIQUE = ('property-based testing: generated multi-body scenes against a brute-force all-pairs reference model of the documented '
             'filters with mj_geomDistance as proximity oracle; metamorphic partners (midphase off, rigid motion, repeat run)')
LEVEL_TEXT = '''Random body trees with weld groups, static and mocap bodies, multi-geom bodies (BVH mid-phase), planes, meshes, random
contype/conaffinity, margins/gaps, excludes and explicit pairs, clustered so that many pairs are near their threshold. The set of geom
pairs in mjData.contact must equal the pairs that a brute-force reference selects (documented filters + narrow-phase distance below
margin+gap), outside a small don't-care band; the pair set must not change with the mid-phase disabled nor under a rigid motion of
the scene, the contact list must be byte-identical across runs with each pair's contacts contiguous, and empty with contact /
constraint disabled. Sampled, not exhaustive.'''
LEVEL_NOTE = '''The proximity oracle is the engine's own narrow-phase distance query (independent of broad/mid phase and of the pair
bookkeeping, which is what this property is about); narrow-phase geometry itself is C13/C15. Box-box pairs inside the margin band,
GJK pairs within 3e-4 of the threshold and exactly parallel capsules are don't-care because of the narrow-phase findings reported
under C13. Flex, hfield, SDF, sleeping and mjcb_contactfilter are out of scope. Body permutation in the XML is not exercised.'''
