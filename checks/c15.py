"""C15 - Convex narrow-phase distances are correct and swap-symmetric (native GJK/EPA path only).

Domain : pairs from {sphere, capsule, ellipsoid, cylinder, box, convex mesh (tetrahedron, cube, icosphere, random hulls)} that are
         routed to the native convex collider (mjc_Convex; box-box through mj_geomDistance), anisotropic sizes over two decades,
         constructive placement (support point of B at support point of A + delta*dir) with delta in deep / shallow penetration,
         touching, separated; structured orientations and directions (axis aligned, parallel, tilted, face/edge/vertex
         directions); ccd_tolerance 1e-6..1e-8, multiccd on/off, geom margins.
Oracle : certificates from support functions (vf/oracle/geomref.py), no solver is trusted:
         separated   - fromto points are members of their geoms, |x2-x1| = dist, and the slab between the support planes along
                       (x2-x1) bounds the distance from below: both bracket the reported distance within tolerance;
         penetrating - depth <= overlap width along the reported direction, depth <= width along every sampled/refined
                       direction (sound), depth == exact separating-axis depth for polytope pairs, == refined minimum for
                       smooth pairs;
         swap        - mj_geomDistance(g1,g2) == mj_geomDistance(g2,g1) with swapped fromto; the contact of the scene with the two
                       geoms exchanged has the same dist and the reversed normal.
Non-trivial : neither geom is a sphere and the pose is not axis aligned.
"""
import math

import numpy as np
from hypothesis import strategies as st

from vf import gen_geom as gg
from vf.oracle import geomref as gr
from vf.runner import Violation

TYPES = ('sphere', 'capsule', 'ellipsoid', 'cylinder', 'box', 'mesh')
ORDER = {t: i for i, t in enumerate(gr.TYPES)}
# pairs with a closed-form collider are C13's; here only what reaches GJK/EPA (box-box: through mj_geomDistance)
PRIMITIVE = {('sphere', 'sphere'), ('sphere', 'capsule'), ('sphere', 'cylinder'), ('sphere', 'box'), ('capsule', 'capsule'),
             ('capsule', 'box')}
K_CCD = 4.0          # x ccd_tolerance (absolute, "in units of distance"); worst converged observation 0.93
K_CCDREL = 1e-5      # x scene scale: iteration caps / stagnation, worst consistent observation 3.2e-6 (see C13)
K_MEMBER = 1e-4      # x scale (incl. distance from the origin): witness points are barycentric combinations in WORLD coordinates;
                     # worst observed 3e-6*|position| (box-ellipsoid 24 m from the origin: 6.8e-5 outside the box)
TOUCH_BAND = 30.0    # |distance| <= TOUCH_BAND*ccd_tolerance: known finding, not asserted (arbitrary normal seen at 13x)
DEEP = 0.5
SMOOTH = ('sphere', 'capsule', 'ellipsoid')
POLY = ('box', 'mesh')
DELTA_CLASSES = ('pen-shallow', 'pen-shallow', 'pen-deep', 'touch', 'sep-near', 'sep-far', 'sep-far')


def scene_strategy():
  return st.fixed_dictionaries(dict(ta=st.sampled_from(TYPES), tb=st.sampled_from(TYPES), logscale=st.integers(-15, 5),
                                    margin=st.sampled_from(['zero', 'zero', 'some']), multiccd=st.booleans(),
                                    tol_exp=st.sampled_from([6, 6, 7, 8]), far=st.sampled_from([0, 0, 1, 30]),
                                    seed=st.integers(0, 2 ** 31 - 1)))


def poly_axes(S):
  """Face normals and edge directions (world) of a box or convex mesh."""
  if S.typ == 'box':
    ax = [S.mat[:, i] for i in range(3)]
    return np.array(ax), np.array(ax)
  pl = S.planes()
  normals = pl[:, :3] @ S.mat.T
  # merge duplicates
  uniq = []
  for n in normals:
    if not any(abs(n @ u) > 1 - 1e-12 for u in uniq):
      uniq.append(n)
  edges = set()
  for a, b, c in S.faces:
    for i, j in ((a, b), (b, c), (c, a)):
      edges.add((min(i, j), max(i, j)))
  ed = []
  for i, j in edges:
    e = S.verts[j] - S.verts[i]
    e = S.mat @ (e / np.linalg.norm(e))
    if not any(abs(e @ u) > 1 - 1e-12 for u in ed):
      ed.append(e)
  return np.array(uniq), np.array(ed)


def exact_poly_width(A, B):
  """min over the separating-axis candidates of w(n) = h_A(n)+h_B(-n): exact penetration depth (if > 0) of two polytopes."""
  fa, ea = poly_axes(A)
  fb, eb = poly_axes(B)
  cr = np.cross(ea[:, None, :], eb[None, :, :]).reshape(-1, 3)
  ln = np.linalg.norm(cr, axis=1)
  cr = cr[ln > 1e-9] / ln[ln > 1e-9][:, None]
  D = np.concatenate([fa, fb, cr])
  D = np.concatenate([D, -D])
  w = gr.hsup_many(A, D) + gr.hsup_many(B, -D)
  k = int(np.argmin(w))
  return float(w[k]), D[k]


def main(ck):
  lib = ck.lib('rel')
  from vf import mj
  E = lib.enums
  ck.rule = ('Hypothesis draws the two geom types, scale (0.03..3), margin class, multiccd, ccd_tolerance, scene offset, seed; 6 poses per '
             'model: orientation kind x direction kind x delta class; non-trivial = neither geom is a sphere and the pose is not axis '
             'aligned; distinct by (types, sizes, pose)')
  ck.assumptions = ['only the native GJK/EPA pipeline is exercised: libccd is a stub in the verification build, so "agree with each '
                    'other" (native vs libccd) is NOT decided',
                    'ccd_iterations = 200 (default 35) so that iteration caps do not dominate; tolerance = 4*ccd_tolerance + 1e-6*scale',
                    'penetration deeper than half of the smaller size: only one-sided certificates (depth not unique / EPA start)',
                    'inside TOUCH_BAND*ccd_tolerance of touching the results are not asserted (finding gjk-touching-band)']
  stats = dict(separated=0, penetrating=0, touching=0, swap_models=0, exact_poly=0, smooth_two_sided=0)
  worst = dict(sep=0.0, pen=0.0, sym=0.0, member=0.0)
  nposes = 6

  WHAT = {'gjk-touching-band': 'native GJK/EPA within ~10*ccd_tolerance of touching: mj_geomDistance / contact results are wrong by up to '
                               '~100x the tolerance, witness points may be zero or outside the geoms, normals arbitrary',
          'multiccd-reversed-normal': 'with multiccd enabled (default) the native collider returns, for box/mesh vs box/mesh pairs in '
                                      'shallow penetration, a contact whose normal is REVERSED (points from geom 2 to geom 1) while '
                                      'dist is correct; with multiccd disabled the same pose gives the correct normal',
          'gjk-rounding-sensitive': 'native GJK/EPA result changes by far more than the tolerance under a rigid translation of both geoms '
                                    'or a 1e-10 rad rotation of one (stagnation / degenerate simplex decided by rounding)'}

  def finding(fp, msg, info):
    stats['finding:' + fp] = stats.get('finding:' + fp, 0) + 1
    ck.violation('%s -- %s' % (WHAT[fp], msg), info, bucket='known:' + fp, fingerprint='C15:' + fp)

  def shape_spec(rng, typ, scale):
    if typ == 'mesh':
      kind = ['tetra', 'cube', 'ico', 'hull'][rng.randint(4)]
      if kind == 'tetra':
        v, _ = gg.tetra_mesh()
      elif kind == 'cube':
        v, _ = gg.box_mesh()
      elif kind == 'ico':
        v, _ = gg.icosphere(0)
      else:
        v = gg.random_hull_points(rng, rng.randint(5, 16))
      v = np.asarray(v * gg.rand_size(rng, 'box', scale), dtype=np.float32).astype(float)
      return dict(typ='mesh', verts=v, size=np.zeros(3), kind=kind)
    return dict(typ=typ, size=gg.rand_size(rng, typ, scale), verts=None)

  def model_for(specA, specB, ma, mb, opt):
    assets = ''
    gx = []
    for name, sp, mar in (('ga', specA, ma), ('gb', specB, mb)):
      if sp['typ'] == 'mesh':
        assets += gg.mesh_asset('m_' + name, sp['verts'])
        gx.append(gg.geom_xml(name, 'mesh', sp['size'], mar, 0.0, mesh='m_' + name))
      else:
        gx.append(gg.geom_xml(name, sp['typ'], sp['size'], mar, 0.0))
    xml = gg.two_geom_xml(gx[0], gx[1], opt, '<asset>%s</asset>' % assets if assets else '')
    return xml, lib.model_from_xml(xml)

  def mesh_pose_fix(m, g):
    """compiled meshes are re-centred / re-oriented: return (pos, quat) of the geom in its body (to place by geom frame)"""
    return np.array(m.geom_pos[g]), gg.quat2mat(np.array(m.geom_quat[g]))

  def place_geoms(m, d, PA, RA, PB, RB):
    """Set body poses such that the ORIGINAL shape frames (as specified) are at (PA,RA), (PB,RB)."""
    # geom frame = body frame * (geom_pos, geom_quat); for primitives geom_pos=0, quat=identity
    gp0, gR0 = mesh_pose_fix(m, 0)
    gp1, gR1 = mesh_pose_fix(m, 1)
    # the compiled mesh vertices v' satisfy: v_spec = gR v' + gp (mesh frame shift), so body pose = spec pose
    gg.set_pose(lib, m, d, PA, RA, PB, RB)

  def test(case):
    rng = np.random.RandomState(case['seed'])
    ta, tb = case['ta'], case['tb']
    pair = tuple(sorted((ta, tb), key=ORDER.get))
    if pair in PRIMITIVE:
      ck.discard('closed-form pair (C13)')
      return
    scale = 10 ** (case['logscale'] / 10.0)
    A = shape_spec(rng, ta, scale)
    B = shape_spec(rng, tb, scale * math.exp(rng.uniform(-0.7, 0.7)))
    tol = 10.0 ** (-case['tol_exp'])
    opt = '<option ccd_tolerance="%s" ccd_iterations="200">%s</option>' % (gg.fmt(tol), '' if case['multiccd'] else
                                                                          '<flag multiccd="disable"/>')
    ma = mb = 0.0
    try:
      xml, m = model_for(A, B, 0.0, 0.0, opt)
    except mj.MjError as e:
      if 'qhull' in str(e):
        ck.discard('hull')
        return
      raise
    d = lib.make_data(m)
    smin0 = None
    if case['margin'] == 'some':
      pass
    xml_s, m_s = model_for(B, A, 0.0, 0.0, opt)       # the two geoms exchanged
    d_s = lib.make_data(m_s)
    stats['swap_models'] += 1
    for ip in range(nposes):
      okind = gg.ORIENT_KINDS[rng.randint(len(gg.ORIENT_KINDS))]
      dkind = gg.DIR_KINDS[rng.randint(len(gg.DIR_KINDS))]
      dclass = DELTA_CLASSES[rng.randint(len(DELTA_CLASSES))]
      RA = gg.orient(rng, 'random' if rng.rand() < 0.7 else 'identity')
      RB = gg.orient(rng, okind, RA)
      PA = case['far'] * scale * gg.rand_unit(rng) + scale * rng.uniform(-1, 1, 3)
      gg.set_pose(lib, m, d, PA, RA, PA + 10 * scale, RB)
      S0 = gr.shape_from_model(m, d, 0)
      S1 = gr.shape_from_model(m, d, 1)
      smin = min(S0.minsize(), S1.minsize())
      dvec = gg.direction(rng, dkind, RA, RB)
      if dclass == 'pen-shallow':
        delta = -smin * 10 ** rng.uniform(-5, math.log10(0.3))
      elif dclass == 'pen-deep':
        delta = -smin * rng.uniform(0.5, 1.5)
      elif dclass == 'touch':
        delta = smin * rng.choice([-1, 1]) * 10 ** rng.uniform(-12, -7)
      elif dclass == 'sep-near':
        delta = smin * 10 ** rng.uniform(-5, -1)
      else:
        delta = smin * 10 ** rng.uniform(-1, 1)
      # place by the compiled geom frames: B's centre such that its support point is at A's support point + delta*dvec
      pA = gr.support(S0, dvec)
      sB = S1.mat @ gr.support_local(S1.typ, S1.size, S1.mat.T @ (-dvec), S1.verts)
      target = pA + delta * dvec - sB                 # desired geom_xpos of B
      PB = d.qpos[0:3] + (target - S1.pos)
      shifted = rng.rand() < 0.3
      if shifted:
        PB = PB + gg.perp_unit(rng, dvec) * smin * rng.uniform(0, 0.5)
      coaxial = ip < 2 and ta in ('sphere', 'capsule', 'ellipsoid', 'cylinder') and tb in ('sphere', 'capsule', 'ellipsoid', 'cylinder')
      # (aligned box/mesh faces are degenerate for EPA witnesses and are exercised by the regular structured poses, where
      #  the rounding-sensitivity probe may also rotate)
      if coaxial:
        # structured degenerate pose: identity orientations (exact rotation matrices) and centres EXACTLY aligned along a
        # world axis (bit-equal lateral coordinates): GJK ends with a 2-vertex simplex through the origin
        k = int(rng.randint(3))
        sgn = float(rng.choice([-1.0, 1.0]))
        RA = RB = np.eye(3)
        okind, dkind, shifted = 'identity', 'coaxial-%s%s' % ('+' if sgn > 0 else '-', 'xyz'[k]), False
        e = np.zeros(3)
        e[k] = 1.0
        extA = gr.hsup(gr.Shape(S0.typ, S0.size, np.zeros(3), np.eye(3)), e)
        extB = gr.hsup(gr.Shape(S1.typ, S1.size, np.zeros(3), np.eye(3)), e)
        if dclass in ('pen-deep', 'touch') or rng.rand() < 0.5:
          dclass = 'pen-shallow'
          delta = -smin * 10 ** rng.uniform(-4, math.log10(0.2))
        PB = PA.copy()
        PB[k] = PA[k] + sgn * (extA + extB + delta)
      info = dict(xml=xml, xml_s=xml_s, PA=PA, qA=gg.mat2quat(RA), PB=PB, qB=gg.mat2quat(RB), okind=okind, dkind=dkind, dclass=dclass,
                  delta=delta, shifted=bool(shifted), tol=tol, coaxial=bool(coaxial))
      soft = evaluate(m, d, m_s, d_s, PA, RA, PB, RB, info, tol, True)
      if soft is None:
        continue          # the collider killed the worker on this pose (reported)
      if soft and tol < 6e-8 * scale_of(info, m, d):
        # input rule (derivation in checks/c13.py): ccd_tolerance below the rounding level of the GJK stopping test
        ck.label('ccd_tolerance-below-rounding-level(known finding)')
        finding('gjk-rounding-sensitive', 'ccd_tolerance %.0e below the rounding level 6e-8*scale of the GJK stopping test: ' % tol
                + soft[0][0], {k: v for k, v in info.items()})
        soft = []
      if soft:
        ok = False
        for attempt in range(3 if coaxial else 6):     # (a rotation would destroy the exact alignment that is being tested)
          o = scale * rng.uniform(-2, 2, 3) if attempt < 3 else np.zeros(3)
          RBp = RB if attempt < 3 else gg.axis_angle(gg.rand_unit(rng), 1e-10) @ RB
          if evaluate(m, d, m_s, d_s, PA + o, RA, PB + o, RBp, info, tol, False) == []:
            ok = True
            break
        if not ok:
          raise Violation(soft[0][0], bucket=soft[0][1])
        ck.label('gjk-rounding-sensitive(known finding)')
        finding('gjk-rounding-sensitive', soft[0][0], {k: v for k, v in info.items()})
    ck.label('pair:%s-%s' % pair)

  def scale_of(info, m, d):
    S = [gr.shape_from_model(m, d, 0), gr.shape_from_model(m, d, 1)]      # kinematics of the last evaluated pose
    return S[0].scale() + S[1].scale() + float(np.linalg.norm(S[0].pos - S[1].pos)) + float(np.linalg.norm(S[1].pos))

  def evaluate(m, d, m_s, d_s, PA, RA, PB, RB, info, tol, record):
    soft = []
    # kinematics only (no collision) in-process: geom frames of the compiled (re-centred) meshes
    qA, qB = gg.mat2quat(RA), gg.mat2quat(RB)
    d.mocap_pos[0] = PA
    d.mocap_quat[0] = qA
    d.qpos[0:3] = PB
    d.qpos[3:7] = qB
    lib.mj_kinematics(m, d)
    S = [gr.shape_from_model(m, d, 0), gr.shape_from_model(m, d, 1)]
    pair = tuple(sorted((S[0].typ, S[1].typ), key=ORDER.get))
    sc = S[0].scale() + S[1].scale() + float(np.linalg.norm(S[0].pos - S[1].pos)) + float(np.linalg.norm(S[1].pos))
    smin = min(S[0].minsize(), S[1].minsize())
    tdist = K_CCD * tol + K_CCDREL * sc
    tmem = K_MEMBER * sc + tol
    desc = lambda: ' | case: %s' % {k: (v.tolist() if isinstance(v, np.ndarray) else v) for k, v in info.items()}

    def softfail(msg, bucket):
      soft.append((msg + desc(), bucket))

    def hard(msg, bucket):
      raise Violation(msg + desc(), bucket=bucket)
    distmax = 6 * sc
    convex = 'sphere' not in pair
    res = gg.guarded_eval(ck, lib, worker, dict(xml=info['xml'], mocap_pos=list(map(float, PA)), mocap_quat=list(map(float, qA)),
                                                qpos=list(map(float, PB)) + list(map(float, qB)), distmax=float(distmax)),
                          pair, convex, stats, 'pose')
    if res is None:
      return None
    d12, f12, d21, f21 = res['d12'], res['f12'], res['d21'], res['f21']
    bydelta = (not info['shifted']) and abs(info['delta']) <= TOUCH_BAND * tol
    touching = bydelta or max(abs(d12), abs(d21)) <= TOUCH_BAND * tol      # both orders (one order alone may be the defect)
    if info.get('coaxial') and info['delta'] < -TOUCH_BAND * tol and -info['delta'] < 0.3 * smin:
      touching = False
    labels = ['pair:%s-%s' % pair, 'delta:' + info['dclass'], 'orient:' + info['okind'], 'dir:' + info['dkind']]
    ncon = int(res['ncon'])
    con = res['con'] if ncon else None
    if touching:
      # ---- known finding: count deviations, assert nothing but boundedness
      stats['touching'] += record
      labels.append('touching-band')
      bad = abs(d12 - d21) > tdist or (not np.any(f12) and d12 < distmax) or abs(d12) > TOUCH_BAND * tol + tdist
      if bad and record:
        finding('gjk-touching-band', 'mj_geomDistance %.6g / %.6g (swapped), fromto %s, construction delta %.3g' % (
            d12, d21, f12.tolist(), info['delta']) + desc(), {k: v for k, v in info.items()})
      if abs(d12) > 1e-2 * sc or abs(d21) > 1e-2 * sc:
        softfail('touching geoms reported at distance %.6g / %.6g' % (d12, d21), 'touching-gross')
    else:
      # ---- swap symmetry of the distance query
      if abs(d12 - d21) > tdist:
        softfail('mj_geomDistance(g1,g2) %.17g != mj_geomDistance(g2,g1) %.17g' % (d12, d21), 'swap-distance')
      else:
        worst['sym'] = max(worst['sym'], abs(d12 - d21) / tol)
      deep = d12 < -DEEP * smin
      if info.get('coaxial') and info['delta'] < -TOUCH_BAND * tol and -info['delta'] < 0.3 * smin:
        # aligned smooth shapes: the surface normals at the two axis points are +-axis, so the axis is the (locally unique)
        # minimum-translation direction and the depth is |delta| by construction
        for dd, what in ((d12, 'g1,g2'), (d21, 'g2,g1')):
          if abs(dd - info['delta']) > 0.05 * abs(info['delta']) + tdist:
            softfail('coaxial pair penetrating by %.6g along %s: mj_geomDistance(%s) = %.6g' % (
                -info['delta'], info['dkind'], what, dd), 'coaxial-depth')
        if ncon == 0 and pair != ('box', 'box'):
          softfail('coaxial pair penetrating by %.6g along %s: no contact' % (-info['delta'], info['dkind']), 'coaxial-contact')
      for (dd, ft, A_, B_, what) in ((d12, f12, S[0], S[1], 'g1,g2'), (d21, f21, S[1], S[0], 'g2,g1')):
        if dd >= distmax:
          softfail('mj_geomDistance(%s) returned distmax %.6g for geoms %.6g apart (construction)' % (what, distmax,
                                                                                                      info['delta']), 'no-result')
          continue
        seg = ft[3:] - ft[:3]
        seglen = float(np.linalg.norm(seg))
        if abs(seglen - abs(dd)) > tdist:
          softfail('mj_geomDistance(%s): |fromto| %.17g != |dist| %.17g' % (what, seglen, dd), 'fromto-length')
          continue
        e1, e2 = gr.sdf(A_, ft[:3]), gr.sdf(B_, ft[3:])
        worst['member'] = max(worst['member'], max(e1, e2) / sc)
        if max(e1, e2) > tmem + (1e-2 * abs(dd) if dd < 0 else 0.0):
          softfail('mj_geomDistance(%s): fromto points are outside their geoms by %.3g / %.3g' % (what, e1, e2),
                   'fromto-member')
        if seglen < 1e-3 * smin:
          continue
        if dd > 0:
          n = seg / seglen
          lb = -(gr.hsup(A_, n) + gr.hsup(B_, -n))       # every point pair is at least this far apart
          if what == 'g1,g2' and record:
            stats['separated'] += 1
          if dd > lb + tdist:
            softfail('mj_geomDistance(%s) = %.17g but the support planes along its own witness direction are only %.17g '
                     'apart: not the minimum distance' % (what, dd, lb), 'separated-certificate')
          else:
            worst['sep'] = max(worst['sep'], (dd - lb) / tol)
        else:
          n = -seg / seglen
          w = gr.hsup(A_, n) + gr.hsup(B_, -n)
          if what == 'g1,g2' and record:
            stats['penetrating'] += 1
          if -dd > w + (tdist if not deep else 1e-3 * sc):
            softfail('mj_geomDistance(%s): depth %.17g exceeds the overlap width %.17g along its own direction' % (
                what, -dd, w), 'depth-certificate')
          if what == 'g1,g2' and not deep:
            if A_.typ in POLY and B_.typ in POLY:
              wex, nex = exact_poly_width(A_, B_)
              if record:
                stats['exact_poly'] += 1
              if abs(-dd - wex) > tdist:
                softfail('polytope pair: depth %.17g, exact separating-axis depth %.17g (axis %s)' % (-dd, wex, nex.tolist()),
                         'depth-exact')
              else:
                worst['pen'] = max(worst['pen'], abs(-dd - wex) / tol)
            else:
              wmin, nb = gr.penetration_depth_sampled(A_, B_, 400, True, extra=[n])
              if -dd > wmin + tdist:
                softfail('depth %.17g is not minimal: direction %s has overlap width %.17g' % (-dd, nb.tolist(), wmin),
                         'depth-not-minimal')
              elif A_.typ in SMOOTH and B_.typ in SMOOTH:
                if record:
                  stats['smooth_two_sided'] += 1
                if -dd < wmin - tdist - 1e-8 * sc:
                  softfail('smooth pair: depth %.17g below the refined minimum overlap width %.17g' % (-dd, wmin),
                           'depth-too-small')
                else:
                  worst['pen'] = max(worst['pen'], abs(-dd - wmin) / tol)
      # ---- contacts of the convex collider: consistent with the distance query, swap gives the reversed normal
      if pair != ('box', 'box'):
        if d12 < -tdist and ncon == 0:
          softfail('penetrating by %.6g but mj_collision reports no contact' % -d12, 'missing-contact')
        if d12 > tdist and ncon > 0:
          softfail('separated by %.6g but mj_collision reports a contact (dist %.6g)' % (d12, con['dist'].min()),
                   'spurious-contact')
        if ncon and d12 < -tdist and not deep:
          k = int(np.argmin(con['dist']))
          cd = float(con['dist'][k])
          if ncon == 1 and abs(cd - d12) > 2 * tdist:     # (multi-point manifolds measure depth per clipped point)
            softfail('contact dist %.17g != mj_geomDistance %.17g' % (cd, d12), 'contact-vs-distance')
          n1 = np.array(con['frame'][k][:3])
          g1, g2 = int(con['geom'][k][0]), int(con['geom'][k][1])
          w = gr.hsup(S[g1], n1) + gr.hsup(S[g2], -n1)
          multi = '<flag multiccd="disable"/>' not in info['xml']
          if w + cd > 0.02 * sc + tdist and multi and S[g1].typ in POLY and S[g2].typ in POLY:
            if record:
              finding('multiccd-reversed-normal', 'contact dist %.6g (correct) but along the contact normal %s the overlap width is '
                      '%.6g: the normal does not point from geom %d to geom %d' % (cd, n1.tolist(), w, g1, g2) + desc(),
                      {k: v for k, v in info.items()})
          elif w + cd > 0.02 * sc + tdist:
            hard('contact normal does not point from geom %d to geom %d: overlap width along it %.6g, dist %.6g' % (g1, g2, w, cd),
                 'contact-normal')
          # exchanged scene: geom 0 is B's shape at B's pose, geom 1 is A's shape at A's pose
          res_s = None
          if not (multi and S[g1].typ in POLY and S[g2].typ in POLY):
            res_s = gg.guarded_eval(ck, lib, worker, dict(xml=info['xml_s'], mocap_pos=list(map(float, PB)),
                                                          mocap_quat=list(map(float, qB)),
                                                          qpos=list(map(float, PA)) + list(map(float, qA))),
                                    pair, convex, stats, 'exchanged geoms')
          if res_s is None:
            pass        # multiccd manifolds of polytopes: normals are unreliable (finding multiccd-reversed-normal) / worker died
          elif int(res_s['ncon']) == 0:
            softfail('exchanged geoms: no contact (original dist %.6g)' % cd, 'swap-contact')
          else:
            cs = res_s['con']
            ks = int(np.argmin(cs['dist']))
            if ncon == 1 and int(res_s['ncon']) == 1 and abs(float(cs['dist'][ks]) - cd) > 2 * tdist:
              softfail('exchanged geoms: contact dist %.17g vs %.17g' % (cs['dist'][ks], cd), 'swap-contact')
            ns = np.array(cs['frame'][ks][:3])
            # in the exchanged scene geom 0 is B's shape (at B's pose) and geom 1 is A's shape: the normal must again point from
            # the contact's first geom to its second one (certified by the overlap width along it; comparing the two normal
            # vectors directly is unsound where the minimum-translation direction is not unique, e.g. near-parallel cylinders)
            Sx = [S[1], S[0]]
            gs1, gs2 = int(cs['geom'][ks][0]), int(cs['geom'][ks][1])
            ws = gr.hsup(Sx[gs1], ns) + gr.hsup(Sx[gs2], -ns)
            if ws + float(cs['dist'][ks]) > 0.02 * sc + tdist:
              softfail('exchanged geoms: normal %s does not point from geom %d to geom %d (overlap width along it %.6g, dist '
                       '%.6g); original normal %s' % (ns.tolist(), gs1, gs2, ws, cs['dist'][ks], n1.tolist()), 'swap-normal')
            elif S[0].typ == S[1].typ and float(n1 @ ns) > math.cos(0.2):
              softfail('exchanged geoms of equal type: the normal %s did not reverse (original %s)' % (ns.tolist(), n1.tolist()),
                       'swap-normal')
    if not record:
      return soft
    aligned = info['okind'] in ('identity', 'axis90') and info['dkind'] in ('A-axis', 'B-axis')
    nt = 'sphere' not in pair and not aligned
    ck.case(nontrivial=nt, key=(pair, info['PB'], info['qB'], info['xml']),
            sample=dict(pair=pair, dclass=info['dclass'], okind=info['okind'], dkind=info['dkind'], delta=info['delta'],
                        geomdist=d12, swapped=d21, ncon=ncon, tol=tol), labels=labels)
    return soft

  worker = gg.EngineWorker()
  r0 = gg.guarded_eval(ck, lib, worker, dict(gg.EPA_CRASH_REPRO), ('cylinder', 'box'), True, stats,
                       'reproducer of epa-buffer-overrun-iteration-limit')
  ck.label('epa-crash-reproducer:%s' % ('died' if r0 is None else 'survived'))
  ck.run_hypothesis(test, scene_strategy(), ck.budget(330, 8000), name='convex', shrink=False)
  worker.stop()
  ck.extra['tolerances'] = dict(K_CCD=K_CCD, K_CCDREL=K_CCDREL, K_MEMBER=K_MEMBER, TOUCH_BAND=TOUCH_BAND, DEEP=DEEP)
  ck.extra['worst_observed_in_units_of_ccd_tolerance'] = worst
  ck.extra['stats'] = stats


LEVEL = 'exploration'
TECHNIQUE = ('property-based testing: constructive convex pair generator against support-function certificates (slab lower bound, member '
             'witnesses, overlap width), exact separating-axis depth for polytopes, sampled+refined optimality, swap metamorphic relation')
LEVEL_TEXT = '''Random convex pairs (ellipsoid, cylinder, box, capsule, sphere, convex meshes) x sizes x 6 constructive poses per model
(separated, touching, shallow and deep penetration; structured and random orientations). mj_geomDistance is certified from both
sides without trusting any solver: witness points must belong to their geoms and realise the distance, the support planes along the
witness direction must be that far apart (separated), the depth may not exceed the overlap width along its own or any sampled/refined
direction and must equal the exact separating-axis depth for polytope pairs / the refined minimum for smooth pairs (penetrating).
Swapping the arguments must give the same distance; the contact of mj_collision must agree with the distance query, point from the
first to the second geom, and keep dist / reverse the normal when the two geoms are exchanged in the model. Sampled, not exhaustive.'''
LEVEL_NOTE = '''ONLY the native GJK/EPA path is decided. The libccd path (mjDSBL_NATIVECCD) cannot be exercised: the library source is absent
and the verification build links a stub, so the clause "the native collider and the libccd path ... agree with each other" is NOT
decided. Within ~10*ccd_tolerance of touching and for rounding-sensitive configurations the engine deviates (reported findings); those
cases are counted and not asserted. Depth two-sidedness is only decided for polytope-polytope (exact) and smooth-smooth (refined) pairs;
mixed pairs get the sound one-sided bounds.'''
