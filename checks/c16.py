"""C16 - Ray casting returns the nearest intersection.

Domain : scenes with 3-10 geoms of every type except sdf (height fields with nrow != ncol and raised rims, plane finite/infinite, sphere, capsule, ellipsoid, cylinder,
         box, inline meshes: tetrahedron, cube, icosphere, random hulls) on the world body and on free bodies with 1-3 geoms
         (rotated bodies with off-centre geoms: the multi-ray body culling path), geom groups, invisible geoms (alpha 0),
         x ~40 rays per scene from outside / inside a geom / far away, aimed at geoms, random, axis-parallel, grazing,
         non-unit direction vectors; filters geomgroup (NULL or random mask), flg_static, bodyexclude.
Oracle : vf/oracle/geomref.py - quadratic / slab intersections written from the documented shapes, Moller-Trumbore over
         the compiled mesh faces; reference mj_ray = min over geoms that pass the documented filters; -1 <=> no geom hit;
         don't-care for decisions within 1e-9 (grazing, origin on the surface, mesh edges). mju_rayGeom / mj_rayMesh per
         geom; mj_multiRay == mj_ray per ray with the documented cutoff semantics (geoms entirely beyond cutoff ignored,
         geoms entirely within must be seen, in between either).
Non-trivial : >= 2 geoms intersected along the ray, or a filter removes the nearest geom, or the ray starts inside a geom.
"""
import math

import numpy as np
from hypothesis import strategies as st

from vf import gen_geom as gg
from vf.oracle import geomref as gr
from vf.runner import Violation

# |x_engine - x_oracle| <= K_X * (L + |origin|) / |vec| where L = scene scale: both sides solve the same quadratics in
# double precision; cancellation in b^2-ac for far origins costs ~eps*(|o|/r)^2. Worst observed 3e-12 -> 1e-9.
K_X = 1e-9
K_N = 1e-6        # normal components (conditioning 1/sin(incidence) handled by the fragile flag)
TANGENT = 1e-9    # don't-care band of hit/no-hit decisions (DESIGN: 1e-9 of tangency)

PRIM = ('sphere', 'capsule', 'ellipsoid', 'cylinder', 'box')
NGROUP = 6



class HShape(gr.Shape):
  """Height field as the exterior surface of its solid (terrain triangles, four side walls down to -base, bottom), from the
  documented geometry (XMLreference asset/hfield: grid over [-sx,sx]x[-sy,sy], z = data*sz >= 0, base box of depth size[3])."""
  hfield = True

  def minsize(self):
    return self._ms


def hfield_shape(m, d, g):
  hid = int(m.geom_dataid[g])
  nrow, ncol = int(m.hfield_nrow[hid]), int(m.hfield_ncol[hid])
  sx, sy, sz, base = [float(v) for v in m.hfield_size[hid]]
  adr = int(m.hfield_adr[hid])
  data = np.array(m.hfield_data[adr:adr + nrow * ncol], dtype=float).reshape(nrow, ncol)
  xs = -sx + 2 * sx * np.arange(ncol) / (ncol - 1)
  ys = -sy + 2 * sy * np.arange(nrow) / (nrow - 1)
  verts, faces = [], []

  def vid(p):
    verts.append(p)
    return len(verts) - 1

  def tri(a, b, c, out):
    n = np.cross(np.subtract(b, a), np.subtract(c, a))
    if np.dot(n, out) < 0:
      b, c = c, b
    faces.append((vid(a), vid(b), vid(c)))
  for r in range(nrow - 1):
    for c in range(ncol - 1):
      v00 = (xs[c], ys[r], data[r, c] * sz)
      v10 = (xs[c + 1], ys[r], data[r, c + 1] * sz)
      v11 = (xs[c + 1], ys[r + 1], data[r + 1, c + 1] * sz)
      v01 = (xs[c], ys[r + 1], data[r + 1, c] * sz)
      tri(v00, v10, v11, (0, 0, 1))        # cell diagonal from (r,c) to (r+1,c+1): engine convention (see assumptions)
      tri(v00, v11, v01, (0, 0, 1))
  for c in range(ncol - 1):
    for r, yy, out in ((0, -sy, (0, -1, 0)), (nrow - 1, sy, (0, 1, 0))):
      b0, b1 = (xs[c], yy, -base), (xs[c + 1], yy, -base)
      t0, t1 = (xs[c], yy, data[r, c] * sz), (xs[c + 1], yy, data[r, c + 1] * sz)
      tri(b0, b1, t1, out)
      tri(b0, t1, t0, out)
  for r in range(nrow - 1):
    for c, xx, out in ((0, -sx, (-1, 0, 0)), (ncol - 1, sx, (1, 0, 0))):
      b0, b1 = (xx, ys[r], -base), (xx, ys[r + 1], -base)
      t0, t1 = (xx, ys[r], data[r, c] * sz), (xx, ys[r + 1], data[r + 1, c] * sz)
      tri(b0, b1, t1, out)
      tri(b0, t1, t0, out)
  tri((-sx, -sy, -base), (sx, -sy, -base), (sx, sy, -base), (0, 0, -1))
  tri((-sx, -sy, -base), (sx, sy, -base), (-sx, sy, -base), (0, 0, -1))
  S = HShape('mesh', [sx, sy, sz], np.array(d.geom_xpos[g]), np.array(d.geom_xmat[g]).reshape(3, 3), np.array(verts), faces)
  S._ms = min(sx, sy, max(sz, base))
  S.hf = dict(sx=sx, sy=sy, sz=sz, base=base, nrow=nrow, ncol=ncol, zmax=float(data.max()) * sz)
  return S


def scene_strategy():
  return st.fixed_dictionaries(dict(
      nworld=st.integers(0, 3), nbody=st.integers(1, 3), plane=st.sampled_from(['none', 'infinite', 'finite', 'finite']),
      logscale=st.integers(-10, 10), seed=st.integers(0, 2 ** 31 - 1)))


def build_scene(case, rng):
  scale = 10 ** (case['logscale'] / 10.0)
  assets, world = [], []
  gid = [0]
  meshes = {}

  def one_geom(name):
    t = ('mesh',) + PRIM
    typ = t[rng.randint(len(t))]
    a = ' name="%s"' % name
    if rng.rand() < 0.3:
      a += ' contype="0" conaffinity="0"'     # visual-only geoms: their body may have no BVH
    if typ == 'mesh':
      kind = ['tetra', 'cube', 'ico', 'hull'][rng.randint(4)]
      if kind == 'tetra':
        v, _ = gg.tetra_mesh()
      elif kind == 'cube':
        v, _ = gg.box_mesh()
      elif kind == 'ico':
        v, _ = gg.icosphere(1)
      else:
        v = gg.random_hull_points(rng, rng.randint(6, 20))
      v = v * (scale * gg.rand_size(rng, 'box', 0.3))
      mname = 'm%d' % len(assets)
      assets.append(gg.mesh_asset(mname, v))
      a += ' type="mesh" mesh="%s"' % mname
    else:
      s = gg.rand_size(rng, typ, 0.3 * scale)
      a += ' type="%s" size="%s"' % (typ, gg.fmt(s[:gg.NSIZE[typ]]))
    a += ' pos="%s" quat="%s"' % (gg.fmt(scale * rng.uniform(-1, 1, 3) * 0.6), gg.fmt(gg.rand_quat(rng) if rng.rand() < 0.8
                                                                                      else [1, 0, 0, 0]))
    if rng.rand() < 0.6:
      a += ' group="%d"' % rng.randint(0, NGROUP)
    if rng.rand() < 0.12:
      a += ' rgba="0.5 0.5 0.5 0"'
    return '<geom%s/>' % a
  if case['plane'] != 'none':
    sz = '0 0 0.1' if case['plane'] == 'infinite' else '%s %s 0.1' % (gg.fmt(scale * rng.uniform(0.5, 2)),
                                                                       gg.fmt(scale * rng.uniform(0.5, 2)))
    q = gg.rand_quat(rng) if rng.rand() < 0.5 else np.array([1.0, 0, 0, 0])
    world.append('<geom name="plane" type="plane" size="%s" pos="%s" quat="%s" contype="0" conaffinity="0"%s/>' % (
        sz, gg.fmt(scale * rng.uniform(-1, 1, 3)), gg.fmt(q), ' group="%d"' % rng.randint(0, NGROUP) if rng.rand() < .5 else ''))
  if rng.rand() < 0.75:
    nrow = int(rng.randint(2, 7))
    ncol = int(rng.randint(2, 7))
    if nrow == ncol and rng.rand() < 0.85:
      ncol = nrow + int(rng.choice([-1, 1, 2])) if nrow > 2 else nrow + int(rng.randint(1, 3))
    el = rng.uniform(0, 1, (nrow, ncol))
    if rng.rand() < 0.6:                      # raised / lowered rims so that the wall profiles differ from the interior
      for edge in range(4):
        v = rng.choice([0.0, 1.0, 2.0])
        if edge == 0:
          el[0, :] += v
        elif edge == 1:
          el[-1, :] += v
        elif edge == 2:
          el[:, 0] += v
        else:
          el[:, -1] += v
    hs = scale * np.array([rng.uniform(0.3, 1.0), rng.uniform(0.3, 1.0), rng.uniform(0.1, 0.5), rng.uniform(0.05, 0.3)])
    assets.append('<hfield name="hf" nrow="%d" ncol="%d" size="%s" elevation="%s"/>' % (
        nrow, ncol, gg.fmt(hs), ' '.join('%.6g' % v for v in el.ravel())))
    world.append('<geom name="hf" type="hfield" hfield="hf" pos="%s" quat="%s" contype="0" conaffinity="0"%s/>' % (
        gg.fmt(scale * rng.uniform(-1, 1, 3)), gg.fmt(gg.rand_quat(rng) if rng.rand() < 0.6 else [1, 0, 0, 0]),
        ' group="%d"' % rng.randint(0, NGROUP) if rng.rand() < .5 else ''))
  for i in range(case['nworld']):
    world.append(one_geom('w%d' % i))
  for b in range(case['nbody']):
    inner = ''.join(one_geom('b%d_%d' % (b, k)) for k in range(rng.randint(1, 4)))
    joint = '<freejoint/>' if rng.rand() < 0.8 else ''       # a body without joint is static (welded to the world)
    world.append('<body name="b%d" pos="%s" quat="%s">%s%s</body>' % (
        b, gg.fmt(scale * rng.uniform(-1.5, 1.5, 3)), gg.fmt(gg.rand_quat(rng)), joint, inner))
  xml = '<mujoco><asset>%s</asset><worldbody>%s</worldbody></mujoco>' % (''.join(assets), ''.join(world))
  return xml, scale


def main(ck):
  lib = ck.lib('rel')
  from vf import mj
  E = lib.enums
  ck.rule = ('Hypothesis draws scene composition (plane kind, #static geoms, #bodies, scale 0.1..10, seed); geoms/poses/rays '
             'from the seed; 40 rays per scene x random filters; non-trivial = >=2 geoms intersected or a filter removes '
             'the nearest geom or the origin is inside a geom; distinct by (scene xml, ray, filters)')
  ck.assumptions = ['plane geoms are hit only from the front (+z) side and, when their first two sizes are positive, only inside '
                    'the rendered rectangle (engine convention; XMLreference describes the rectangle as rendering only)',
                    'invisible geoms (rgba alpha 0, no material) are excluded (documented for rangefinder; mj_ray comment "visible geoms")',
                    'mj_multiRay is called with unit direction vectors (cutoff is a distance)',
                    'height fields: exterior surface of the documented solid (grid over [-sx,sx]x[-sy,sy], z = data*sz, base box); each '
                    'cell is split along the diagonal from (r,c) to (r+1,c+1) (engine convention, the documentation only says '
                    '"triangular prisms"); rays whose origin is inside the bounding box of the height field are dont-care for it',
                    'sdf geoms are not generated (see LEVEL_NOTE)']
  worst = dict(x=0.0, normal=0.0)
  stats = dict(rays=0, hits=0, none=0, fragile=0, multiray_rays=0, multiray_dontcare=0)
  nrays = 40

  def finding(fp, msg, info):
    stats['finding:' + fp] = stats.get('finding:' + fp, 0) + 1
    ck.violation(msg, info, bucket='known:' + fp, fingerprint='C16:' + fp)

  def test(case):
    rng = np.random.RandomState(case['seed'])
    xml, scale = build_scene(case, rng)
    try:
      m = lib.model_from_xml(xml)
    except mj.MjError as e:
      if 'qhull' in str(e) or 'hull' in str(e).lower():
        ck.discard('hull')
        return
      raise
    d = lib.make_data(m)
    # random state of the free bodies
    for j in range(m.njnt):
      a = int(m.jnt_qposadr[j])
      d.qpos[a:a + 3] = scale * rng.uniform(-1.5, 1.5, 3)
      d.qpos[a + 3:a + 7] = gg.rand_quat(rng)
    lib.mj_forward(m, d)
    ng = int(m.ngeom)
    shapes = [hfield_shape(m, d, g) if int(m.geom_type[g]) == E.mjGEOM_HFIELD else gr.shape_from_model(m, d, g) for g in range(ng)]
    ishf = [getattr(sh, 'hfield', False) for sh in shapes]
    hfs = [g for g in range(ng) if ishf[g]]
    gtype = [int(t) for t in m.geom_type]
    bodyid = [int(b) for b in m.geom_bodyid]
    static = [int(m.body_weldid[b]) == 0 for b in bodyid]
    visible = [not (int(m.geom_matid[g]) < 0 and float(m.geom_rgba[g][3]) == 0) for g in range(ng)]
    group = [min(NGROUP - 1, max(0, int(m.geom_group[g]))) for g in range(ng)]
    rbound = [float(r) for r in m.geom_rbound]
    L = scale * 3
    ck.label(*('type:' + ('hfield%s' % ('(nrow!=ncol)' if shapes[g].hf['nrow'] != shapes[g].hf['ncol'] else '') if ishf[g] else shapes[g].typ) for g in range(ng)))

    def oracle_geom(g, pnt, vec):
      if ishf[g]:
        h = shapes[g].hf
        pl = shapes[g].to_local(pnt)
        if abs(pl[0]) <= h['sx'] * (1 + 1e-9) and abs(pl[1]) <= h['sy'] * (1 + 1e-9) and -h['base'] * (1 + 1e-9) <= pl[2] <= h['zmax'] * (1 + 1e-9):
          return dict(x=None, fragile=True)          # origin (possibly) inside the solid: not modelled
      return gr.ray_shape(shapes[g], pnt, vec, TANGENT)

    def passes(g, mask, flg_static, bodyexclude):
      if bodyid[g] == bodyexclude or not visible[g]:
        return False
      if not flg_static and static[g]:
        return False
      return mask is None or bool(mask[group[g]])

    def hf_ray():
      g = hfs[rng.randint(len(hfs))]
      sh = shapes[g]
      h = sh.hf
      which = rng.randint(6)           # 0:-x 1:+x 2:-y 3:+y walls, 4: base, 5: top
      far = rng.uniform(0.2, 3.0) * max(h['sx'], h['sy'])
      tl = np.array([rng.uniform(-0.95, 0.95) * h['sx'], rng.uniform(-0.95, 0.95) * h['sy'], rng.uniform(-h['base'], 1.2 * h['zmax'] + 1e-3)])
      ol = np.array([rng.uniform(-1.5, 1.5) * h['sx'], rng.uniform(-1.5, 1.5) * h['sy'], rng.uniform(-h['base'], 1.5 * h['zmax'] + 1e-3)])
      if which < 2:
        sg = -1.0 if which == 0 else 1.0
        tl[0], ol[0] = sg * h['sx'], sg * (h['sx'] + far)
      elif which < 4:
        sg = -1.0 if which == 2 else 1.0
        tl[1], ol[1] = sg * h['sy'], sg * (h['sy'] + far)
      elif which == 4:
        tl[2], ol[2] = -h['base'], -h['base'] - far
      else:
        tl[2], ol[2] = 0.5 * h['zmax'], h['zmax'] + far
      pnt = sh.to_world(ol)
      vec = sh.mat @ (tl - ol)
      vec = vec / np.linalg.norm(vec) * 10 ** rng.uniform(-1, 1)
      return np.ascontiguousarray(pnt), np.ascontiguousarray(vec), None

    def make_ray():
      if hfs and rng.rand() < 0.3:
        return hf_ray()
      k = rng.randint(6)
      inside = None
      if k == 0 and ng and not ishf[(g0_ := rng.randint(ng))]:
        g = g0_
        inside = g
        s = shapes[g]
        pnt = s.pos + (0 if s.typ == 'plane' else 0.3 * s.minsize()) * gg.rand_unit(rng) * rng.uniform(0, 1)
      elif k == 1:
        pnt = L * 10 ** rng.uniform(1, 3.5) * gg.rand_unit(rng)     # far to very far origins (flat BVH leaves, cancellation)
      else:
        pnt = L * rng.uniform(-1, 1, 3)
      kd = rng.randint(6)
      g = rng.randint(ng)
      s = shapes[g]
      if kd <= 1:
        tgt = s.pos + (0.5 * s.minsize() if s.typ != 'plane' else scale) * rng.uniform(-1, 1, 3)
        vec = tgt - pnt
      elif kd == 2:
        vec = np.zeros(3)
        vec[rng.randint(3)] = rng.choice([-1.0, 1.0])
      elif kd == 3 and s.typ != 'plane':
        # grazing: aim at the silhouette of the bounding feature
        to = s.pos - pnt
        perp = gg.perp_unit(rng, to)
        r = s.minsize() if s.typ != 'sphere' else s.size[0]
        vec = to + perp * r * (1 + rng.choice([-1, 1]) * 10 ** rng.uniform(-12, -2))
      else:
        vec = gg.rand_unit(rng)
      nv = np.linalg.norm(vec)
      if nv < 1e-9 * L:
        vec = gg.rand_unit(rng)
        nv = 1.0
      vec = vec / nv * 10 ** rng.uniform(-1, 1)
      return np.ascontiguousarray(pnt, dtype=float), np.ascontiguousarray(vec, dtype=float), inside

    for ir in range(nrays):
      pnt, vec, inside = make_ray()
      mask = None if rng.rand() < 0.4 else (rng.rand(NGROUP) < 0.7).astype(np.uint8)
      flg_static = int(rng.rand() < 0.7)
      bodyexclude = -1 if rng.rand() < 0.6 else int(rng.randint(m.nbody))
      vn = float(np.linalg.norm(vec))
      tolx = K_X * (L + float(np.linalg.norm(pnt))) / vn * (1 + (float(np.linalg.norm(pnt)) / L) ** 2)
      info = dict(xml=xml, qpos=d.qpos.copy(), pnt=pnt, vec=vec, mask=None if mask is None else mask.tolist(),
                  flg_static=flg_static, bodyexclude=bodyexclude)
      desc = lambda: ' | ray: %s' % {k: (v.tolist() if isinstance(v, np.ndarray) else v) for k, v in info.items()
                                     if k != 'xml'} + ' xml: ' + xml
      # ---- per-geom functions (no filters)
      orc = [oracle_geom(g, pnt, vec) for g in range(ng)]
      for g in range(ng):
        nrm = np.zeros(3)
        if ishf[g]:
          xg = lib.mj_rayHfield(m, d, g, pnt, vec, nrm)
        elif shapes[g].typ == 'mesh':
          xg = lib.mj_rayMesh(m, d, g, pnt, vec, nrm)
        else:
          xg = lib.mju_rayGeom(np.ascontiguousarray(d.geom_xpos[g]), np.ascontiguousarray(d.geom_xmat[g]),
                               np.ascontiguousarray(m.geom_size[g]), pnt, vec, gtype[g], nrm)
        compare_one(xg, nrm, orc[g], shapes[g], pnt, vec, tolx, 'geom %d (%s)' % (g, shapes[g].typ), desc, worst, info)
      # ---- mj_ray with filters
      gidbuf = np.zeros(1, dtype=np.int32)
      nrm = np.zeros(3)
      x = lib.mj_ray(m, d, pnt, vec, mask, flg_static, bodyexclude, gidbuf, nrm)
      gid = int(gidbuf[0])
      cand = [(g, orc[g]) for g in range(ng) if passes(g, mask, flg_static, bodyexclude) and orc[g] is not None]
      robust = [(g, o) for g, o in cand if o.get('x') is not None and not o['fragile']]
      allx = [(g, o) for g, o in cand if o.get('x') is not None]
      stats['rays'] += 1
      if x < 0:
        stats['none'] += 1
        if gid != -1 or np.any(nrm != 0):
          raise Violation('mj_ray returned -1 but geomid %d normal %s%s' % (gid, nrm, desc()), bucket='none-outputs')
        if robust:
          g0, o0 = min(robust, key=lambda t: t[1]['x'])
          raise Violation('mj_ray returned -1 but geom %d (%s) is hit at x=%.17g%s' % (g0, shapes[g0].typ, o0['x'], desc()),
                          bucket='missed-hit')
      else:
        stats['hits'] += 1
        if gid < 0 or gid >= ng or not passes(gid, mask, flg_static, bodyexclude):
          raise Violation('mj_ray returned geom %d which does not pass the filters%s' % (gid, desc()), bucket='filter')
        og = orc[gid]
        if og is None or (og.get('x') is None):
          if og is None:
            raise Violation('mj_ray hit geom %d (%s) at %.17g; the reference finds no intersection%s' % (
                gid, shapes[gid].typ, x, desc()), bucket='phantom-hit')
        elif abs(og['x'] - x) > tolx and not og['fragile']:
          raise Violation('mj_ray x=%.17g on geom %d (%s), reference %.17g%s' % (x, gid, shapes[gid].typ, og['x'], desc()),
                          bucket='distance')
        if robust:
          g0, o0 = min(robust, key=lambda t: t[1]['x'])
          if x > o0['x'] + tolx:
            raise Violation('mj_ray returned x=%.17g (geom %d) but geom %d (%s) is hit earlier at %.17g%s' % (
                x, gid, g0, shapes[g0].typ, o0['x'], desc()), bucket='not-nearest')
        if allx and not (og is not None and og.get('x') is None):      # (the hit geom itself is don't-care for this ray)
          xmin = min(o['x'] for g, o in allx)
          if x < xmin - tolx:
            raise Violation('mj_ray x=%.17g is nearer than every reference intersection (min %.17g)%s' % (x, xmin, desc()),
                            bucket='too-near')
        if abs(np.linalg.norm(nrm) - 1) > 1e-12:
          raise Violation('mj_ray normal not unit: %s%s' % (nrm, desc()), bucket='normal')
        p_hit = pnt + x * vec
      if any(o is not None and o.get('fragile') for o in orc):
        stats['fragile'] += 1
      # ---- evidence
      nhit = len(allx)
      allcand = [(g, orc[g]) for g in range(ng) if orc[g] is not None and orc[g].get('x') is not None]
      nearest_all = min(allcand, key=lambda t: t[1]['x'])[0] if allcand else None
      removed = nearest_all is not None and not passes(nearest_all, mask, flg_static, bodyexclude)
      started_inside = any(shapes[g].typ != 'plane' and not ishf[g] and gr.sdf(shapes[g], pnt) < -1e-9 * L for g in range(ng))
      labels = ['nhit=%d' % min(nhit, 3), 'result:' + ('none' if x < 0 else ('hfield' if ishf[gid] else shapes[gid].typ))]
      if removed:
        labels.append('filter-removes-nearest')
      if started_inside:
        labels.append('origin-inside-geom')
      if mask is None:
        labels.append('geomgroup=NULL')
      ck.case(nontrivial=nhit >= 2 or removed or started_inside, key=(xml, pnt, vec, info['mask'], flg_static, bodyexclude),
              sample=dict(ngeom=ng, types=[s.typ for s in shapes], pnt=pnt, vec=vec, mask=info['mask'],
                          flg_static=flg_static, bodyexclude=bodyexclude, x=x, geomid=gid, nhit=nhit,
                          filter_removes_nearest=removed, origin_inside=started_inside),
              labels=labels)

    # ---- mj_multiRay vs mj_ray
    for rep in range(3):
      pnt, _, _ = make_ray()
      nr = 24
      vecs = np.zeros((nr, 3))
      for i in range(nr):
        _, v, _ = make_ray()
        vecs[i] = v / np.linalg.norm(v)
      # aim half of them from this origin at geoms
      for i in range(0, nr, 2):
        g = rng.randint(ng)
        s = shapes[g]
        v = s.pos + (0.5 * s.minsize() if s.typ != 'plane' else scale) * rng.uniform(-1, 1, 3) - pnt
        if np.linalg.norm(v) > 1e-9 * L:
          vecs[i] = v / np.linalg.norm(v)
      mask = None if rng.rand() < 0.4 else (rng.rand(NGROUP) < 0.7).astype(np.uint8)
      flg_static = int(rng.rand() < 0.7)
      bodyexclude = -1 if rng.rand() < 0.6 else int(rng.randint(m.nbody))
      cutoff = [1e30, L * 10 ** rng.uniform(-1, 1)][rng.randint(2)]
      gids = np.full(nr, -7, dtype=np.int32)
      dist = np.full(nr, -7.0)
      nrms = np.full((nr, 3), -7.0)
      lib.mj_multiRay(m, d, pnt, vecs, mask, flg_static, bodyexclude, gids, dist, nrms, nr, float(cutoff))
      cdist = [float(np.linalg.norm(shapes[g].pos - pnt)) for g in range(ng)]
      for i in range(nr):
        v = np.ascontiguousarray(vecs[i])
        stats['multiray_rays'] += 1
        info = dict(xml=xml, qpos=d.qpos.copy(), pnt=pnt, vec=v, mask=None if mask is None else mask.tolist(),
                    flg_static=flg_static, bodyexclude=bodyexclude, cutoff=cutoff)
        desc = lambda: ' | ray: %s' % {k: (vv.tolist() if isinstance(vv, np.ndarray) else vv) for k, vv in info.items()
                                       if k != 'xml'} + ' xml: ' + xml
        # per-geom engine distances (same functions mj_ray uses) restricted to the allowed / required sets
        per = {}
        for g in range(ng):
          if not passes(g, mask, flg_static, bodyexclude):
            continue
          if ishf[g]:
            xg = lib.mj_rayHfield(m, d, g, pnt, v, None)
          elif shapes[g].typ == 'mesh':
            xg = lib.mj_rayMesh(m, d, g, pnt, v, None)
          else:
            xg = lib.mju_rayGeom(np.ascontiguousarray(d.geom_xpos[g]), np.ascontiguousarray(d.geom_xmat[g]),
                                 np.ascontiguousarray(m.geom_size[g]), pnt, v, gtype[g], None)
          if xg >= 0:
            per[g] = xg
        planes_ok = lambda g: shapes[g].typ == 'plane'      # rbound 0: never "further than cutoff"
        allowed = {g: xg for g, xg in per.items() if planes_ok(g) or cdist[g] - rbound[g] <= cutoff * (1 + 1e-12)}
        # planes have no bounding sphere: whether 'further than cutoff' refers to their frame origin or their surface
        # is not documented -> never required, always allowed
        required = {g: xg for g, xg in per.items() if not planes_ok(g) and cdist[g] + rbound[g] <= cutoff * (1 - 1e-12)}
        a = min(allowed.values()) if allowed else -1.0
        b = min(required.values()) if required else -1.0
        got, gg_ = float(dist[i]), int(gids[i])
        ok = True
        if a == b:
          ok = got == a and (got < 0 or (gg_ in allowed and allowed[gg_] == got))
        else:
          stats['multiray_dontcare'] += 1
          ok = (got in allowed.values() and got >= a and (b < 0 or got <= b)) or (got < 0 and b < 0)
        if ok and got >= 0:
          # normal must be the one mj_ray reports for that geom alone
          pass
        if not ok and got >= 0 and gg_ in per and per[gg_] == got and gg_ not in allowed and \
            int(m.body_bvhadr[bodyid[gg_]]) < 0 and (a < 0 or got <= a):
          # geom entirely beyond cutoff but on a body without collision BVH (all geoms contype=conaffinity=0):
          # mju_multiRayPrepare skips such bodies, so the documented "geoms further than cutoff are ignored" does not hold
          finding('multiray-cutoff-nobvh', 'mj_multiRay returns a hit at %.6g on geom %d although the geom is entirely beyond '
                  'cutoff %.6g: bodies without a BVH (no colliding geoms) are skipped by the cutoff test in '
                  'mju_multiRayPrepare%s' % (got, gg_, cutoff, desc()), info)
          ok = True
        if not ok:
          msg = ('mj_multiRay ray %d: dist %.17g geom %d, but the geoms passing the filters give nearest %.17g (all within '
                 'reach) / %.17g (entirely within cutoff)%s' % (i, got, gg_, a, b, desc()))
          # a candidate geom that is not part of its body's collision BVH (contype=conaffinity=0) while the body has a
          # BVH built from its other geoms: mju_singleRay culls the whole body with the BVH root bounding sphere
          missed = [g for g, xg in allowed.items() if xg == a] if a >= 0 else []
          nobvh = [g for g in missed if int(m.geom_contype[g]) == 0 and int(m.geom_conaffinity[g]) == 0 and
                   int(m.body_bvhadr[bodyid[g]]) >= 0]
          if nobvh and (got < 0 or got > a):
            finding('multiray-visual-geom-culled', 'mj_multiRay misses a visual-only geom (contype=conaffinity=0) that mj_ray '
                    'hits: mju_singleRay pre-tests the body with the bounding sphere of its collision BVH root, which '
                    'does not contain non-colliding geoms -- ' + msg, info)
          else:
            raise Violation(msg, bucket='multiray')
        if gg_ == -1 and got >= 0 or (got < 0 and (gg_ != -1 or np.any(nrms[i] != 0))):
          raise Violation('mj_multiRay ray %d inconsistent outputs dist %.17g geom %d normal %s%s' % (
              i, got, gg_, nrms[i], desc()), bucket='multiray-outputs')
      # zero-length vectors give -1
    z = np.zeros((2, 3))
    z[1] = [0, 0, 1]
    gids = np.zeros(2, dtype=np.int32)
    dist = np.zeros(2)
    lib.mj_multiRay(m, d, np.zeros(3), z, None, 1, -1, gids, dist, None, 2, 1e30)
    if dist[0] != -1:
      raise Violation('mj_multiRay with a zero direction returned %.17g' % dist[0], bucket='zero-vec')
    try:
      lib.mj_ray(m, d, np.zeros(3), np.zeros(3), None, 1, -1, None, None)
      raise Violation('mj_ray accepted a zero-length direction', bucket='zero-vec')
    except mj.MjError:
      pass

  def compare_one(xg, nrm, o, shape, pnt, vec, tolx, what, desc, worst, info=None):
    """Per-geom function against the reference."""
    if o is None:
      if xg >= 0 and shape.typ not in ('mesh', 'plane'):
        # grazing from far away: the hit/no-hit decision is b^2 - a*c with |o|^2/r^2 cancellation. If the engine's hit point
        # lies on the surface within that conditioning the ray does graze the geom: don't-care.
        ph = pnt + xg * vec
        cond = (1 + float(np.linalg.norm(pnt - shape.pos)) / max(shape.minsize(), 1e-300)) ** 2
        if abs(gr.sdf(shape, ph)) <= 1e-15 * cond * (shape.scale() + float(np.linalg.norm(pnt - shape.pos))) + 1e-9 * shape.scale():
          return
      if xg >= 0:
        raise Violation('%s: engine x=%.17g, reference: no intersection%s' % (what, xg, desc()), bucket='geom-phantom')
      if np.any(nrm != 0):
        raise Violation('%s: no hit but normal %s%s' % (what, nrm, desc()), bucket='geom-normal')
      return
    if o.get('fragile'):
      return
    if xg < 0:
      raise Violation('%s: engine returns -1, reference x=%.17g (%s)%s' % (what, o['x'], o['kind'], desc()),
                      bucket='geom-missed')
    err = abs(xg - o['x'])
    worst['x'] = max(worst['x'], err / tolx * K_X)
    if err > tolx:
      raise Violation('%s: engine x=%.17g, reference %.17g (%s)%s' % (what, xg, o['x'], o['kind'], desc()),
                      bucket='geom-distance')
    # normal: unit, outward (documented: always out of the geometry)
    ne = float(np.max(np.abs(nrm - o['normal'])))
    # conditioning of the normal on curved surfaces ~ tolx*|vec|/radius; meshes: exact per face
    cond = 1.0 / max(abs(float(o['normal'] @ vec)) / float(np.linalg.norm(vec)), 1e-6)
    if ne > K_N * cond:
      raise Violation('%s: normal %s, reference (outward) %s%s' % (what, nrm.tolist(), o['normal'].tolist(), desc()),
                      bucket='geom-normal')
    worst['normal'] = max(worst['normal'], ne / cond)

  ck.run_hypothesis(test, scene_strategy(), ck.budget(150, 1500), name='rays', shrink=False)
  ck.extra['tolerances'] = dict(K_X=K_X, K_N=K_N, TANGENT=TANGENT)
  ck.extra['worst_observed'] = worst
  ck.extra['stats'] = stats


LEVEL = 'exploration'
TECHNIQUE = ('property-based testing: generated multi-geom scenes and rays against an analytic ray/shape reference (quadratics, slabs, '
             'Moller-Trumbore), reference filter model, and the differential relation mj_multiRay == n x mj_ray')
LEVEL_TEXT = '''Random scenes (planes, every primitive, inline meshes; static and free multi-geom bodies; groups, invisible geoms) x 40
rays (outside / inside / far origins; aimed, random, axis-parallel, grazing directions; non-unit vectors) x random geomgroup /
flg_static / bodyexclude. mj_ray must return the minimum of the analytic per-geom intersections over the geoms that pass the filters
(and -1/-1 exactly when none), with the returned geom an argmin; mju_rayGeom / mj_rayMesh are compared per geom including the outward
unit normal; mj_multiRay must agree bit-exactly with per-geom results under the documented cutoff semantics. Sampled, not exhaustive.'''
LEVEL_NOTE = '''SDF geoms are not generated (no inline-asset SDF exists without plugins); height fields are covered from outside (four side walls,
base, terrain; non-square grids) with the cell diagonal taken from the engine; flex/skin rays (mj_rayFlex, mju_raySkin) are outside the statement. Decisions within 1e-9
of tangency / an edge / the origin lying on a surface are don't-care. Plane convention (front side only, rendered rectangle) is taken
from the engine, the documentation is silent.'''
