"""C17 - Constraint islands are the connected components of coupling.

Domain : (a) the union-find core called directly (mj_dsuMerge / mj_dsuRoot / mj_dsuAssign): every merge sequence up to a
             small length over forests of 3..6 trees with endpoints {-1 (static), 0..n-1}, verified after every prefix;
             random sequences on up to 64 trees x 200 operations with interleaved mj_dsuRoot calls (path compression in
             the middle of a history).  mj_floodFill on random symmetric graphs with self loops, duplicate and unsorted
             columns, empty rows and row storage with gaps.
         (b) models: piles / rows of many kinematic trees on a plane (free, slide+hinge, ball, welded bodies), child
             links with limited joints and frictionloss, connect / weld / joint / tendon equalities between trees,
             fixed tendons across trees with frictionloss and limits; rows of adjacent single-dof trees coupled only through
             generic-scan rows via the first dof of the later tree; small dim-2 flexes (elastic2d none/stretch/bend/both,
             optional pin, a drawn subset of vertices lowered onto the floor, optionally two flexes); plus vf.modelgen models; settled for 0..40 steps
             so that contacts exist; jacobian sparse (oracle) and dense (differential).
Oracle : own connected-components code (BFS over an adjacency dict, 15 lines).  (a) same partition, island ids ascending
         in each island's smallest tree, untouched trees -1, nidof = sum of dofnum over active trees, mj_dsuRoot returns
         the smallest tree of the component and never changes the partition.  (b) incidence = trees of the structural
         non-zeros of every efc_J row; islands == components of that incidence plus one clique per flex with elastic passive forces
         (elastic2d != none, from the generator's own knowledge of the XML); efc_island / dof_island / tree_island consistent; dofs of
         unconstrained trees -1; the dof, efc and tree index maps are mutually inverse permutations and contiguous per
         island; address arrays are cumulative sums; per-island equality/friction counts; island-ordered copies of
         efc_type/id/D/R/frictionloss are gathers; the dense Jacobian run is judged directly against the components of its own
         incidence (numerical non-zeros for the rows that take the generic scan: tendon friction/limit, joint/tendon equalities;
         body trees for the shortcut rows) and must equal the sparse partition whenever the incidences coincide.
Non-trivial : >= 3 islands, or a merge chain of length >= 3 (an island with >= 4 trees / a component built by >= 3 unions).
"""
import itertools

import numpy as np
from hypothesis import strategies as st

from vf import modelgen as mg
from vf.runner import Violation


# ------------------------------------------------------------------ oracle: connected components (independent of the engine)

def components(n, groups, active=None):
  """groups: iterable of vertex collections that must end up together. Returns (label per vertex or -1, ncomp):
  labels numbered in ascending order of each component's smallest vertex; vertices not in any group (and not in
  `active`) get -1."""
  adj = {}
  for g in groups:
    g = [v for v in g if v >= 0]
    for v in g:
      adj.setdefault(v, set()).update(g)
  for v in (active or ()):
    adj.setdefault(v, set())
  label = [-1] * n
  k = 0
  for v in range(n):
    if v in adj and label[v] == -1:
      label[v] = k
      todo = [v]
      while todo:
        u = todo.pop()
        for w in adj[u]:
          if label[w] == -1:
            label[w] = k
            todo.append(w)
      k += 1
  return label, k


_seen = set()


def once(tag):
  if tag in _seen:
    return False
  _seen.add(tag)
  return True


# ------------------------------------------------------------------ (a) union-find core

def verify_dsu(lib, parent, ntree, ops, dofnum, what):
  """parent: engine state after the merge operations `ops` (list of (a, b)); checks assign + roots on copies."""
  label, k = components(ntree, [(a, b) for a, b in ops], active=None)
  island = np.full(ntree + 2, -77, dtype=np.int32)
  nidof = np.full(1, -1, dtype=np.int32)
  pc = parent.copy()
  nis = lib.mj_dsuAssign(island, pc, dofnum, ntree, nidof)
  if nis != k or island[:ntree].tolist() != label:
    raise Violation('%s: mj_dsuAssign -> nisland=%d island=%s, components say nisland=%d island=%s (ops %s)' % (
        what, nis, island[:ntree].tolist(), k, label, ops), bucket='dsu-assign')
  if island[ntree] != -77 or island[ntree + 1] != -77:
    raise Violation('%s: mj_dsuAssign wrote past island[ntree]' % what, bucket='dsu-overrun')
  want = int(sum(int(dofnum[t]) for t in range(ntree) if label[t] >= 0))
  if int(nidof[0]) != want:
    raise Violation('%s: mj_dsuAssign nidof=%d, expected %d (ops %s)' % (what, int(nidof[0]), want, ops), bucket='dsu-nidof')
  # roots: smallest tree of the component; calling root (path compression) must not change the partition
  pr = parent.copy()
  mins = {}
  for t in range(ntree):
    if label[t] >= 0:
      mins.setdefault(label[t], t)
  for t in range(ntree - 1, -1, -1):
    if label[t] >= 0:
      r = lib.mj_dsuRoot(pr, t)
      if r != mins[label[t]]:
        raise Violation('%s: mj_dsuRoot(%d)=%d, smallest tree of its component is %d (ops %s)' % (
            what, t, r, mins[label[t]], ops), bucket='dsu-root')
      if pr[t] != r:
        raise Violation('%s: mj_dsuRoot(%d) did not compress the path (parent[%d]=%d, root %d)' % (what, t, t, pr[t], r),
                        bucket='dsu-compress')
    elif pr[t] != -1:
      raise Violation('%s: inactive tree %d has parent %d' % (what, t, pr[t]), bucket='dsu-inactive')
  island2 = np.full(ntree, -77, dtype=np.int32)
  nis2 = lib.mj_dsuAssign(island2, pr, dofnum, ntree, nidof)
  if nis2 != k or island2.tolist() != label:
    raise Violation('%s: partition changed after mj_dsuRoot calls: %s vs %s' % (what, island2.tolist(), label), bucket='dsu-root-partition')
  return label, k


def exhaustive_dsu(ck, lib, ntree, maxlen):
  from vf import mj
  dofnum = np.arange(1, ntree + 1, dtype=np.int32) * 2 - 1     # distinct so that nidof identifies the active set
  pairs = [(a, b) for a in range(-1, ntree) for b in range(-1, ntree) if not (a == -1 and b == -1)]
  count = [0]
  # the static-static merge is documented as an error
  p0 = np.full(ntree, -1, dtype=np.int32)
  try:
    lib.mj_dsuMerge(p0, -1, -1)
    raise Violation('mj_dsuMerge(-1, -1) did not raise', bucket='dsu-static-static')
  except mj.MjError:
    pass

  def rec(parent, ops):
    for a, b in pairs:
      p2 = parent.copy()
      lib.mj_dsuMerge(p2, a, b)
      ops2 = ops + [(a, b)]
      label, k = verify_dsu(lib, p2, ntree, ops2, dofnum, 'dsu-exhaustive(ntree=%d)' % ntree)
      count[0] += 1
      nunion = sum(1 for t in range(ntree) if label[t] >= 0) - k      # unions that actually joined components
      nt = k >= 3 or nunion >= 3
      if nt or count[0] % 97 == 0:
        ck.case(nontrivial=nt, key=('dsu', ntree, tuple(ops2)),
                sample=dict(part='dsu-exhaustive', ntree=ntree, merges=ops2, islands=label) if nt and ntree == 5 and count[0] > 30000 and once('dsu-ex') else None)
      else:
        ck.evaluations += 1
      if len(ops2) < maxlen:
        rec(p2, ops2)
  rec(np.full(ntree, -1, dtype=np.int32), [])
  ck.label('dsu-exhaustive:ntree=%d,len<=%d' % (ntree, maxlen))
  return count[0]


# ------------------------------------------------------------------ (b) models

@st.composite
def pile_models(draw):
  """Rows of many kinematic trees on a plane with engineered couplings between trees."""
  n = draw(st.integers(3, 10))
  x = 0.0
  bodies = []
  hinge_names = []     # (joint name, top-level index)
  body_names = []
  site_names = []
  for i in range(n):
    gap = draw(st.sampled_from([0.17, 0.19, 0.3, 0.45, 0.6]))   # < 0.2: touching neighbours (radius 0.1)
    x += gap
    high = draw(st.integers(0, 4)) == 0                   # in the air: no contact at all
    z = 0.6 if high else draw(st.sampled_from([0.095, 0.1, 0.099]))
    jt = draw(st.sampled_from(['free', 'free', 'slidehinge', 'ball', 'none', 'slide']))
    gt = draw(st.sampled_from(['sphere', 'box', 'capsule']))
    size = {'sphere': '0.1', 'box': '0.1 0.1 0.1', 'capsule': '0.1 0.05'}[gt]
    condim = draw(st.sampled_from([1, 3, 3, 4, 6]))
    inner = ''
    if jt == 'free':
      inner += '<freejoint name="f%d"/>' % i
    elif jt == 'slidehinge':
      fl = ' frictionloss="%s"' % draw(st.sampled_from(['0.1', '1'])) if draw(st.booleans()) else ''
      inner += '<joint name="s%d" type="slide" axis="0 0 1"%s/><joint name="h%d" type="hinge" axis="0 1 0"/>' % (i, fl, i)
      hinge_names += [('s%d' % i, i), ('h%d' % i, i)]
    elif jt == 'slide':
      lim = ' limited="true" range="-0.001 0.3"' if draw(st.booleans()) else ''
      inner += '<joint name="s%d" type="slide" axis="0 0 1"%s/>' % (i, lim)
      hinge_names.append(('s%d' % i, i))
    elif jt == 'ball':
      inner += '<joint name="b%d" type="ball"/>' % i
    inner += '<geom name="g%d" type="%s" size="%s" condim="%d"/><site name="st%d" pos="0 0 0.05"/>' % (i, gt, size, condim, i)
    if jt != 'none' and draw(st.integers(0, 2)) == 0:
      # child link: limited hinge, optionally already beyond its limit, optionally with frictionloss
      rng_ = draw(st.sampled_from(['-0.5 0.5', '0.2 0.5', '-1 -0.1']))
      fl = ' frictionloss="0.2"' if draw(st.booleans()) else ''
      inner += ('<body name="c%d" pos="0 0.25 0.1"><joint name="ch%d" type="hinge" axis="1 0 0" limited="true" range="%s"%s/>'
                '<geom name="gc%d" type="capsule" size="0.04 0.08" contype="%d" conaffinity="%d"/></body>') % (
                    i, i, rng_, fl, i, draw(st.integers(0, 1)), draw(st.integers(0, 1)))
      hinge_names.append(('ch%d' % i, i))
      body_names.append('c%d' % i)
      inner = inner.replace('<geom name="gc%d"' % i, '<site name="sc%d" pos="0 0.05 0"/><geom name="gc%d"' % (i, i))
      site_names.append('sc%d' % i)
    bodies.append('<body name="t%d" pos="%r 0 %r">%s</body>' % (i, round(x, 3), z, inner))
    if jt != 'none':
      body_names.append('t%d' % i)
    site_names.append('st%d' % i)             # sites of welded (static) bodies too
  eq = ''
  tend = ''
  neq = draw(st.integers(0, 3))
  has_site_eq = False
  for k in range(neq):
    kinds = ['connect', 'weld'] + (['joint'] if len(hinge_names) >= 2 else [])
    kind = draw(st.sampled_from(kinds))
    act = '' if draw(st.integers(0, 5)) else ' active="false"'
    if kind in ('connect', 'weld') and len(site_names) >= 2 and draw(st.integers(0, 2)) == 0:
      # site semantics (both sites required); one of them may sit on a static body but not both
      s1 = draw(st.sampled_from([x for x in site_names if x[2:] in [b[1:] for b in body_names]] or site_names))
      s2 = draw(st.sampled_from([x for x in site_names if x != s1]))
      eq += '<%s name="e%d" site1="%s" site2="%s"%s/>' % (kind, k, s1, s2, act)
      has_site_eq = True
    elif kind in ('connect', 'weld') and body_names:
      b1 = draw(st.sampled_from(body_names))
      others = [b for b in body_names if b != b1]
      b2 = draw(st.sampled_from(others)) if others and draw(st.integers(0, 3)) else None
      extra = ' anchor="0 0 0"' if kind == 'connect' else ''
      eq += '<%s name="e%d" body1="%s"%s%s%s/>' % (kind, k, b1, ' body2="%s"' % b2 if b2 else '', extra, act)
    elif kind == 'joint':
      j1, j2 = draw(st.lists(st.sampled_from([h[0] for h in hinge_names]), min_size=2, max_size=2, unique=True))
      eq += '<joint name="e%d" joint1="%s" joint2="%s" polycoef="0 1 0 0 0"%s/>' % (k, j1, j2, act)
  nt = draw(st.integers(0, 2)) if len(hinge_names) >= 2 else 0
  for k in range(nt):
    js = draw(st.lists(st.sampled_from([h[0] for h in hinge_names]), min_size=2, max_size=3, unique=True))
    mode = draw(st.sampled_from(['frictionloss', 'limit', 'equality', 'spring']))
    a = ''
    if mode == 'frictionloss':
      a = ' frictionloss="0.5"'
    elif mode == 'limit':
      a = ' limited="true" range="0.05 0.1"'      # violated at qpos0 (length 0): limit row active
    elif mode == 'spring':
      a = ' stiffness="10"'                        # passive only: must NOT couple islands
    tend += '<fixed name="td%d"%s>%s</fixed>' % (k, a, ''.join('<joint joint="%s" coef="%d"/>' % (j, c + 1) for c, j in enumerate(js)))
    if mode == 'equality':
      eq += '<tendon name="te%d" tendon1="td%d"/>' % (k, k)
  cone = draw(st.sampled_from(['pyramidal', 'elliptic']))
  solver = draw(st.sampled_from(['Newton', 'CG']))   # not PGS: see assumptions (unrelated engine error in the PGS/sparse projection)
  xml = ('<mujoco><option jacobian="sparse" cone="%s" solver="%s" timestep="0.002"><flag island="disable"/></option><worldbody>'
         '<geom name="floor" type="plane" size="5 5 .1"/>%s</worldbody>%s%s</mujoco>') % (
             cone, solver, ''.join(bodies), '<tendon>%s</tendon>' % tend if tend else '', '<equality>%s</equality>' % eq if eq else '')
  labels = ['pile', 'cone:' + cone, 'solver:' + solver] + (['eq'] if eq else []) + (['tendon'] if tend else []) + (['eq-site'] if has_site_eq else [])
  return mg.GenModel(xml, dict(labels=labels))


@st.composite
def adjacent_models(draw):
  """Rows of small kinematic trees (mostly a single hinge or slide) coupled ONLY through rows that take the generic Jacobian scan
  (joint equalities, tendon equalities, tendon friction loss, tendon limits) between trees that are adjacent in dof order, the
  later tree usually being touched through its FIRST dof only.  No contacts, so nothing else merges the trees."""
  n = draw(st.integers(2, 8))
  bodies, joints = [], []          # joints[i] = list of joint names of tree i (in dof order)
  for i in range(n):
    kind = draw(st.sampled_from(['hinge', 'hinge', 'hinge', 'slide', 'two', 'two_hs']))
    fl = ' frictionloss="0.3"' if draw(st.integers(0, 5)) == 0 else ''
    lim = ' limited="true" range="0.2 0.5"' if draw(st.integers(0, 7)) == 0 else ''      # violated at qpos0: limit row of one tree
    if kind == 'hinge':
      jx = '<joint name="j%da" type="hinge" axis="0 1 0"%s%s/>' % (i, fl, lim)
      names = ['j%da' % i]
    elif kind == 'slide':
      jx = '<joint name="j%da" type="slide" axis="0 0 1"%s%s/>' % (i, fl, lim)
      names = ['j%da' % i]
    elif kind == 'two':
      jx = '<joint name="j%da" type="slide" axis="0 0 1"%s/><joint name="j%db" type="hinge" axis="0 1 0"%s/>' % (i, fl, i, lim)
      names = ['j%da' % i, 'j%db' % i]
    else:
      jx = '<joint name="j%da" type="hinge" axis="0 1 0"/><joint name="j%db" type="slide" axis="1 0 0"%s/>' % (i, i, fl)
      names = ['j%da' % i, 'j%db' % i]
    joints.append(names)
    bodies.append('<body name="t%d" pos="%d 0 1">%s<geom name="g%d" type="capsule" size="0.05 0.2" pos="0 0 -0.2" contype="0" conaffinity="0"/></body>' % (
        i, i, jx, i))
  eq, tend = '', ''
  nt = 0
  pairs = [(i, i + 1) for i in range(n - 1) if draw(st.integers(0, 9)) < 6]
  if n >= 3 and draw(st.integers(0, 4)) == 0:
    a = draw(st.integers(0, n - 3))
    pairs.append((a, a + 2))
  for k, (a, b) in enumerate(pairs):
    ja = draw(st.sampled_from(joints[a]))
    jb = joints[b][0] if draw(st.integers(0, 9)) < 8 else draw(st.sampled_from(joints[b]))
    mode = draw(st.sampled_from(['jointeq', 'jointeq', 'tendon-friction', 'tendon-limit', 'tendon-eq']))
    if draw(st.booleans()):
      ja, jb = jb, ja                     # either order in the document
    if mode == 'jointeq':
      act = '' if draw(st.integers(0, 7)) else ' active="false"'
      eq += '<joint name="e%d" joint1="%s" joint2="%s" polycoef="0 %s 0 0 0"%s/>' % (k, ja, jb, draw(st.sampled_from(['1', '-1', '0.5', '2'])), act)
    else:
      a_ = {'tendon-friction': ' frictionloss="0.5"', 'tendon-limit': ' limited="true" range="0.05 0.1"', 'tendon-eq': ''}[mode]
      tend += '<fixed name="td%d"%s><joint joint="%s" coef="1"/><joint joint="%s" coef="%s"/></fixed>' % (
          nt, a_, ja, jb, draw(st.sampled_from(['1', '-2', '0.5'])))
      if mode == 'tendon-eq':
        eq += '<tendon name="te%d" tendon1="td%d"/>' % (nt, nt)
      nt += 1
  solver = draw(st.sampled_from(['Newton', 'CG']))
  xml = ('<mujoco><option jacobian="sparse" solver="%s" timestep="0.002"><flag island="disable"/></option><worldbody>%s</worldbody>%s%s</mujoco>') % (
      solver, ''.join(bodies), '<tendon>%s</tendon>' % tend if tend else '', '<equality>%s</equality>' % eq if eq else '')
  return mg.GenModel(xml, dict(labels=['adjacent', 'solver:' + solver] + (['eq'] if eq else []) + (['tendon'] if tend else [])))


@st.composite
def flex_models(draw):
  """Small dim-2 flexes (every vertex is its own kinematic tree) above a plane; a drawn subset of vertices is lowered onto the
  floor, the others stay in the air.  elastic2d in {none, stretch, bend, both} decides whether the flex has elastic passive
  forces, i.e. whether its vertex trees are stiffness-coupled (XMLreference flex/elasticity/elastic2d)."""
  nflex = draw(st.integers(1, 2))
  fx, e2ds, lowered = '', [], []
  for f in range(nflex):
    a, b = draw(st.sampled_from([(2, 2), (2, 3), (3, 2), (3, 3)]))
    e2d = draw(st.sampled_from(['none', 'stretch', 'bend', 'bend', 'both']))
    pin = '<pin id="%d"/>' % draw(st.integers(0, a * b - 1)) if draw(st.integers(0, 3)) == 0 else ''
    fx += ('<flexcomp name="fx%d" type="grid" dim="2" count="%d %d 1" spacing=".1 .1 .1" pos="%r 0 .3" mass="1" radius=".01">'
           '<elasticity young="%s" poisson="0.2" thickness="0.01" elastic2d="%s"/><contact selfcollide="none" internal="false"/>%s</flexcomp>') % (
               f, a, b, 0.8 * f, draw(st.sampled_from(['1e3', '1e4'])), e2d, pin)
    e2ds.append(e2d)
    nlow = draw(st.integers(0, 3))
    lowered.append(sorted(set(draw(st.lists(st.integers(0, a * b - 1), min_size=nlow, max_size=nlow)))))
  extra = '<body name="lone" pos="2 0 1"><joint name="jl" type="slide" axis="0 0 1" range="-1 1" limited="true"/><geom size=".05"/></body>'
  if draw(st.booleans()):
    extra += '<body name="ball" pos="-1 0 0.049"><freejoint/><geom size=".05"/></body>'
  solver = draw(st.sampled_from(['Newton', 'CG']))
  cone = draw(st.sampled_from(['pyramidal', 'elliptic']))
  xml = ('<mujoco><option jacobian="sparse" solver="%s" cone="%s" timestep="0.001"><flag island="disable"/></option><worldbody>'
         '<geom name="floor" type="plane" size="3 3 .1"/>%s%s</worldbody></mujoco>') % (solver, cone, fx, extra)
  return mg.GenModel(xml, dict(labels=['flex', 'solver:' + solver, 'cone:' + cone] + ['flex:elastic2d=' + e for e in sorted(set(e2ds))],
                               elastic2d=e2ds, lowered=lowered))


def flex_setup(lib, m, d, gm):
  """Lower the drawn vertices onto the floor, push the lone slider beyond its limit. Returns the stiffness cliques (lists of trees)."""
  lib.mj_kinematics(m, d)
  lib.mj_flex(m, d)
  vx = np.array(d.flexvert_xpos).reshape(-1, 3)
  vb = m.flex_vertbodyid.tolist()
  cliques = []
  for f, (e2d, low) in enumerate(zip(gm.info['elastic2d'], gm.info['lowered'])):
    adr, num = int(m.flex_vertadr[f]), int(m.flex_vertnum[f])
    for v in low:
      b = vb[adr + v]
      if int(m.body_dofnum[b]) == 3:                      # not pinned: three slides x, y, z
        qa = int(m.jnt_qposadr[int(m.body_jntadr[b])]) + 2
        d.qpos[qa] = float(d.qpos[qa]) - float(vx[adr + v, 2]) + 0.005
    if e2d != 'none':
      cliques.append(sorted({int(m.body_treeid[b]) for b in vb[adr:adr + num]} - {-1}))
  d.qpos[int(m.jnt_qposadr[lib.mj_name2id(m, lib.enums.mjOBJ_JOINT, 'jl')])] = 1.2
  return cliques


def row_trees_sparse(m, d):
  """Per efc row: frozenset of trees of the structural non-zeros of efc_J (sparse layout)."""
  nnz, adr, col = d.efc_J_rownnz, d.efc_J_rowadr, d.efc_J_colind
  tid = m.dof_treeid
  return [frozenset(int(tid[c]) for c in col[int(adr[i]):int(adr[i]) + int(nnz[i])]) for i in range(int(d.nefc))]


def row_trees_dense(m, d):
  J = np.asarray(d.efc_J).ravel()[:int(d.nefc) * int(m.nv)].reshape(int(d.nefc), int(m.nv)) if d.nefc else np.zeros((0, m.nv))
  tid = m.dof_treeid
  return [frozenset(int(tid[c]) for c in np.flatnonzero(J[i])) for i in range(int(d.nefc))]


def check_islands(lib, m, d, rows, what, cliques=()):
  """Full structural check of the island arrays of d against the components of the incidence `rows` (+ one clique of trees per
  stiffness-coupled flex; island discovery only runs when there is at least one constraint row)."""
  E = lib.enums
  ntree, nv, nefc = int(m.ntree), int(m.nv), int(d.nefc)
  label, k = components(ntree, list(rows) + ([c for c in cliques if len(c) >= 2] if nefc else []))
  if any(len(r) == 0 for r in rows):
    raise Violation('%s: a constraint row has an empty Jacobian row' % what, bucket='model-empty-row')
  if int(d.nisland) != k:
    raise Violation('%s: nisland=%d, components of the efc_J incidence: %d (tree labels %s)' % (what, int(d.nisland), k, label),
                    bucket='model-nisland')
  if k == 0:
    if int(d.nidof) != 0:
      raise Violation('%s: no islands but nidof=%d' % (what, int(d.nidof)), bucket='model-nidof')
    return label, k
  ti = d.tree_island.tolist()
  if ti != label:
    raise Violation('%s: tree_island=%s, expected %s (ids ascending in the smallest tree of each component)' % (what, ti, label),
                    bucket='model-tree_island')
  tid = m.dof_treeid.tolist()
  di = d.dof_island.tolist()
  if di != [label[t] for t in tid]:
    raise Violation('%s: dof_island=%s inconsistent with tree_island=%s' % (what, di, label), bucket='model-dof_island')
  ei = d.efc_island.tolist()
  want_ei = [label[min(r)] for r in rows]
  if ei != want_ei:
    raise Violation('%s: efc_island=%s, expected %s' % (what, ei, want_ei), bucket='model-efc_island')
  # ---- trees
  cnt = [label.count(i) for i in range(k)]
  if d.island_ntree.tolist() != cnt or d.island_itreeadr.tolist() != np.concatenate([[0], np.cumsum(cnt)[:-1]]).tolist():
    raise Violation('%s: island_ntree/itreeadr %s %s, expected counts %s' % (what, d.island_ntree.tolist(), d.island_itreeadr.tolist(), cnt),
                    bucket='model-itree')
  want_map = [t for i in range(k) for t in range(ntree) if label[t] == i] + [t for t in range(ntree) if label[t] < 0]
  if d.map_itree2tree.tolist() != want_map:
    raise Violation('%s: map_itree2tree=%s expected %s' % (what, d.map_itree2tree.tolist(), want_map), bucket='model-itree')
  # ---- dofs
  inv = [sum(1 for x in di if x == i) for i in range(k)]
  nidof = sum(inv)
  if int(d.nidof) != nidof or d.island_nv.tolist() != inv or d.island_idofadr.tolist() != np.concatenate([[0], np.cumsum(inv)[:-1]]).tolist():
    raise Violation('%s: nidof=%d island_nv=%s island_idofadr=%s, expected %d %s' % (
        what, int(d.nidof), d.island_nv.tolist(), d.island_idofadr.tolist(), nidof, inv), bucket='model-idof')
  d2i, i2d = d.map_dof2idof.tolist(), d.map_idof2dof.tolist()
  if sorted(d2i) != list(range(nv)) or sorted(i2d) != list(range(nv)):
    raise Violation('%s: dof maps are not permutations: %s %s' % (what, d2i, i2d), bucket='model-dofmap')
  if any(i2d[d2i[j]] != j for j in range(nv)) or any(d2i[i2d[j]] != j for j in range(nv)):
    raise Violation('%s: map_dof2idof and map_idof2dof are not mutually inverse: %s %s' % (what, d2i, i2d), bucket='model-dofmap')
  adr = d.island_idofadr.tolist()
  for i in range(k):
    seg = i2d[adr[i]:adr[i] + inv[i]]
    if sorted(seg) != [j for j in range(nv) if di[j] == i]:
      raise Violation('%s: idof segment of island %d holds dofs %s' % (what, i, seg), bucket='model-dofmap')
    if int(d.island_dofadr[i]) != min(seg):
      raise Violation('%s: island_dofadr[%d]=%d, first dof of the island is %d' % (what, i, int(d.island_dofadr[i]), min(seg)),
                      bucket='model-dofadr')
  if sorted(i2d[nidof:]) != [j for j in range(nv) if di[j] < 0]:
    raise Violation('%s: idofs >= nidof are not exactly the unconstrained dofs' % what, bucket='model-dofmap')
  # ---- constraints
  inefc = [ei.count(i) for i in range(k)]
  et = d.efc_type.tolist()
  ine = [sum(1 for c in range(nefc) if ei[c] == i and et[c] == E.mjCNSTR_EQUALITY) for i in range(k)]
  inf_ = [sum(1 for c in range(nefc) if ei[c] == i and et[c] in (E.mjCNSTR_FRICTION_DOF, E.mjCNSTR_FRICTION_TENDON)) for i in range(k)]
  if (d.island_nefc.tolist() != inefc or d.island_ne.tolist() != ine or d.island_nf.tolist() != inf_ or
      d.island_iefcadr.tolist() != np.concatenate([[0], np.cumsum(inefc)[:-1]]).tolist()):
    raise Violation('%s: island_nefc/ne/nf/iefcadr = %s %s %s %s, expected %s %s %s' % (
        what, d.island_nefc.tolist(), d.island_ne.tolist(), d.island_nf.tolist(), d.island_iefcadr.tolist(), inefc, ine, inf_),
        bucket='model-iefc')
  e2i, i2e = d.map_efc2iefc.tolist(), d.map_iefc2efc.tolist()
  if sorted(e2i) != list(range(nefc)) or any(i2e[e2i[c]] != c for c in range(nefc)) or any(e2i[i2e[c]] != c for c in range(nefc)):
    raise Violation('%s: map_efc2iefc / map_iefc2efc are not mutually inverse permutations: %s %s' % (what, e2i, i2e),
                    bucket='model-efcmap')
  eadr = d.island_iefcadr.tolist()
  for i in range(k):
    seg = i2e[eadr[i]:eadr[i] + inefc[i]]
    if sorted(seg) != [c for c in range(nefc) if ei[c] == i]:
      raise Violation('%s: iefc segment of island %d holds rows %s' % (what, i, seg), bucket='model-efcmap')
  idx = np.asarray(i2e, dtype=np.int64)
  for f_i, f_e in (('iefc_type', 'efc_type'), ('iefc_id', 'efc_id'), ('iefc_frictionloss', 'efc_frictionloss'),
                   ('iefc_D', 'efc_D'), ('iefc_R', 'efc_R')):
    a, b = np.asarray(getattr(d, f_i)), np.asarray(getattr(d, f_e))[idx]
    if a.tobytes() != np.ascontiguousarray(b).tobytes():
      raise Violation('%s: %s is not %s gathered through map_iefc2efc' % (what, f_i, f_e), bucket='model-iefc-gather')
  return label, k


def dense_oracle_rows(lib, m, d, m2, d2, rows_sparse):
  """Tree incidence of every row of the DENSE run, for judging it directly against the component oracle.
  Rows that the engine resolves through the generic Jacobian scan (tendon friction / limit, joint and tendon equalities) couple
  exactly the trees in which the dense row is numerically non-zero (documented in engine_island.c: dense scan tests J[j]); all
  other rows (dof friction, joint limits, contacts, connect / weld) couple the trees of the bodies involved whatever the values,
  which is the structural pattern of the same row in the sparse run at the same state.  Dense mode may drop constraints whose
  Jacobian is entirely zero, so rows are aligned by their (type, id) sequence.  Returns None if the alignment fails."""
  E = lib.enums
  ks = list(zip(d.efc_type.tolist(), d.efc_id.tolist()))
  kd = list(zip(d2.efc_type.tolist(), d2.efc_id.tolist()))
  numeric = row_trees_dense(m2, d2)
  eqt = m.eq_type.tolist()
  cgeom = d2.contact['geom'].tolist() if int(d2.ncon) else []
  out, p = [], 0
  for i, key in enumerate(kd):
    while p < len(ks) and ks[p] != key:
      p += 1
    if p == len(ks):
      return None
    t, cid = key
    generic = t in (E.mjCNSTR_FRICTION_TENDON, E.mjCNSTR_LIMIT_TENDON) or (
        t == E.mjCNSTR_EQUALITY and eqt[cid] in (E.mjEQ_JOINT, E.mjEQ_TENDON)) or (
        t in (E.mjCNSTR_CONTACT_FRICTIONLESS, E.mjCNSTR_CONTACT_PYRAMIDAL, E.mjCNSTR_CONTACT_ELLIPTIC) and min(cgeom[cid]) < 0)   # flex contact
    out.append(numeric[i] if generic else rows_sparse[p])
    p += 1
  return out


def check_model(ck, lib, gm, seed, nsteps):
  from vf import mj
  E = lib.enums
  try:
    m = lib.model_from_xml(gm.xml)
  except Exception:
    ck.discard('compile')
    return
  if m.nv == 0 or m.ntree == 0:
    ck.discard('no-dof')
    return
  if not np.all(np.isfinite(m.dof_invweight0)):
    ck.discard('singular-inertia-at-qpos0')     # e.g. hinge + ball at the same point: NaN constraint weights, not an island question
    return
  m.opt.jacobian = E.mjJAC_SPARSE
  m.opt.enableflags = int(m.opt.enableflags) & ~int(E.mjENBL_SLEEP)
  # Models are compiled and stepped with island discovery DISABLED (monolithic solve) and islands are switched on only for the
  # position stage whose result is inspected: a wrong partition is then reported by comparison, before any per-island solver
  # consumes it (which could crash on inconsistent maps).
  isl_off = int(m.opt.disableflags) | int(E.mjDSBL_ISLAND)
  isl_on = isl_off & ~int(E.mjDSBL_ISLAND)
  ck.journal(dict(xml=gm.xml, seed=seed, nsteps=nsteps))
  d = lib.make_data(m)
  cliques = []
  if 'flex' in gm.labels():
    cliques = flex_setup(lib, m, d, gm)
    d.qvel[:] = np.random.RandomState(seed).uniform(-0.05, 0.05, m.nv)
  elif 'pile' in gm.labels() or 'adjacent' in gm.labels():
    rng = np.random.RandomState(seed)
    d.qvel[:] = rng.uniform(-0.3, 0.3, m.nv)
  else:
    mg.apply_state(lib, m, d, seed, vel_scale=0.5, pos_scale=0.3)
  m.opt.disableflags = isl_on
  lib.mj_fwdPosition(m, d)
  if not lib.warnings():
    check_islands(lib, m, d, row_trees_sparse(m, d), 'sparse(initial state)', cliques)
  m.opt.disableflags = isl_off
  try:
    for _ in range(nsteps):
      lib.mj_step(m, d)
  except mj.MjError as e:
    # settling is only a way to reach states with contacts; a solver error on a (near-)singular generated model is not an
    # island-discovery question (islands are disabled during these steps)
    ck.discard('engine-error-while-settling: ' + str(e)[:40])
    return
  if not np.all(np.isfinite(d.qpos)) or lib.warnings():
    ck.discard('unstable-or-warning')
    return
  m.opt.disableflags = isl_on
  lib.mj_fwdPosition(m, d)
  if lib.warnings():
    ck.discard('warning')
    return
  rows = row_trees_sparse(m, d)
  label, k = check_islands(lib, m, d, rows, 'sparse', cliques)
  nefc = int(d.nefc)
  # ---- differential: dense Jacobian at the same state
  m2 = lib.copy_model(m)
  m2.opt.jacobian = E.mjJAC_DENSE
  d2 = lib.make_data(m2)
  full = (1 << E.mjNSTATE) - 1
  st_ = np.empty(lib.mj_stateSize(m, full))
  lib.mj_getState(m, d, st_, full)
  lib.mj_setState(m2, d2, st_, full)
  lib.mj_fwdPosition(m2, d2)
  labels = []
  # (i) the dense run judged directly: components of its own incidence (numeric for generic-scan rows)
  rows_do = dense_oracle_rows(lib, m, d, m2, d2, rows)
  if rows_do is None:
    labels.append('dense:rows-not-alignable')
  else:
    label_d, k_d = check_islands(lib, m2, d2, rows_do, 'dense(direct)', cliques)
    labels.append('dense:direct')
    if int(d2.nefc) != nefc:
      labels.append('dense:dropped-zero-rows')
    # (ii) differential: same rows and same incidence => same partition as the sparse run
    if int(d2.nefc) == nefc and rows_do == rows:
      if k_d != k or label_d != label:
        raise Violation('dense Jacobian run gives a different partition: %d %s, sparse %d %s' % (k_d, label_d, k, label),
                        bucket='model-dense-vs-sparse')
      labels.append('dense:compared')
    elif int(d2.nefc) == nefc:
      labels.append('dense:numeric-incidence-differs')
  # a constrained dof belongs to an island, an unconstrained one to none (statement), seen from the rows
  touched = set().union(*rows) if rows else set()
  ntrees_active = len(touched)
  big = max([label.count(i) for i in range(k)] or [0])
  kinds = sorted({int(t) for t in d.efc_type.tolist()})
  nt = k >= 3 or big >= 4
  ck.case(nontrivial=nt, key=(gm.xml, seed, nsteps),
          sample=dict(part='model', ntree=int(m.ntree), nefc=nefc, nisland=k, tree_island=label, efc_types=kinds, nsteps=nsteps,
                      xml=gm.xml if len(gm.xml) < 3000 else gm.xml[:3000]) if nt else None,
          labels=['model', 'nisland=%s' % (k if k < 4 else '>=4'), 'largest-island-trees=%s' % (big if big < 4 else '>=4'),
                  'unconstrained-trees' if ntrees_active < m.ntree else 'all-trees-constrained'] + labels +
                 ['efc-type:%d' % t for t in kinds] + [l for l in gm.labels() if l.startswith(('pile', 'adjacent', 'flex', 'eq', 'tendon', 'cone', 'solver'))])


# ------------------------------------------------------------------ main

def main(ck):
  lib = ck.lib('rel')
  ck.rule = ('(a) exhaustive merge sequences over forests of 3..6 trees (every prefix verified), random union-find histories with '
             'interleaved root queries, random symmetric graphs for mj_floodFill; (b) pile models (3..10 trees in a row on a plane with '
             'equalities/tendons between trees) and vf.modelgen models, settled 0..40 steps, sparse + dense Jacobian. '
             'non-trivial = >= 3 islands or a component built by >= 3 unions (>= 4 trees); distinct by (merge sequence) / (graph) / (xml, seed, steps)')
  ck.assumptions = ['flex coupling rule used by the oracle: a dim-2 flex with young > 0 and elastic2d in {stretch, bend, both} couples all its non-pinned vertex '
                    'trees whenever island discovery runs (nefc > 0), also when none of them carries a constraint row; elastic2d=none couples nothing',
                    'solver PGS is not generated: with a sparse Jacobian this tree raises "pre and post-count of Y_rownnz are not equal" in '
                    'mj_projectConstraint for tendon rows over simple (diagonal-inertia) dofs - a defect outside island discovery, reported separately',
                    'flexes: only dim-2 grid flexcomps with vertex dofs (no dim-3, no interpolated/trilinear flexes, no flex equalities)', 'sleeping disabled',
                    'the dense run is judged against the components of its own incidence: numerical non-zeros for generic-scan rows (tendon friction/limit, '
                    'joint/tendon equality), body trees (= structural sparse pattern at the same state) for shortcut rows']

  # ---- (a1) exhaustive union-find
  plan = [(3, 4), (4, 3), (5, 3), (6, 2)] if ck.quick else [(3, 5), (4, 4), (5, 3), (6, 3)]
  tot = 0
  for ntree, maxlen in plan:
    tot += exhaustive_dsu(ck, lib, ntree, maxlen)
  ck.extra['dsu_exhaustive_sequences'] = tot
  ck.exhaustive = True

  # ---- (a2) random union-find histories
  def test_dsu(case):
    ntree, nops, pstatic, seed = case
    rng = np.random.RandomState(seed)
    dofnum = rng.randint(0, 7, ntree).astype(np.int32)
    parent = np.full(ntree, -1, dtype=np.int32)
    ops = []
    # locality: merges mostly between nearby trees or inside a few clusters, so that many islands coexist
    for _ in range(nops):
      r = rng.rand()
      if r < 0.15 and ops:
        # root query in the middle of the history (path compression must not change anything)
        act = [t for t in range(ntree) if parent[t] != -1]
        if act:
          t = int(act[rng.randint(0, len(act))])
          root = lib.mj_dsuRoot(parent, t)
          if not (0 <= root <= t):
            raise Violation('mj_dsuRoot(%d)=%d is not a smaller-or-equal tree' % (t, root), bucket='dsu-root')
        continue
      a = int(rng.randint(0, ntree))
      b = int(np.clip(a + rng.randint(-3, 4), 0, ntree - 1)) if rng.rand() < 0.7 else int(rng.randint(0, ntree))
      if rng.rand() < pstatic:
        if rng.rand() < 0.5:
          a = -1
        else:
          b = -1
      lib.mj_dsuMerge(parent, a, b)
      ops.append((a, b))
    label, k = verify_dsu(lib, parent, ntree, ops, dofnum, 'dsu-random')
    big = max([label.count(i) for i in range(k)] or [0])
    ck.case(nontrivial=k >= 3 or big >= 4, key=('dsu-rnd', ntree, nops, seed),
            sample=dict(part='dsu-random', ntree=ntree, nops=len(ops), nisland=k, largest=big) if k >= 3 and once('dsu-random') else None, labels=['dsu-random'])
  ck.run_hypothesis(test_dsu, st.tuples(st.integers(1, 64), st.integers(0, 200), st.sampled_from([0.0, 0.1, 0.5]),
                                        st.integers(0, 2 ** 31 - 1)), ck.budget(600, 20000), name='dsu-random')

  # ---- (a3) flood fill
  def test_ff(case):
    nr, nedge, pself, gaps, seed = case
    rng = np.random.RandomState(seed)
    rowsl = [[] for _ in range(nr)]
    edges = []
    for _ in range(nedge):
      a = int(rng.randint(0, nr))
      b = a if rng.rand() < pself else (int(np.clip(a + rng.randint(-2, 3), 0, nr - 1)) if rng.rand() < 0.6 else int(rng.randint(0, nr)))
      mult = 1 + int(rng.rand() < 0.3) + int(rng.rand() < 0.1)       # duplicate entries
      for _ in range(mult):
        rowsl[a].append(b)
        if a != b:
          rowsl[b].append(a)
      edges.append((a, b))
    for r in rowsl:
      rng.shuffle(r)                                                 # unsorted columns
    rownnz = np.array([len(r) for r in rowsl], dtype=np.int32)
    pad = rng.randint(0, 4, nr) if gaps else np.zeros(nr, dtype=np.int64)
    rowadr = np.zeros(nr, dtype=np.int32)
    pos = 0
    for i in range(nr):
      pos += int(pad[i])
      rowadr[i] = pos
      pos += len(rowsl[i])
    colind = np.full(pos + 4, -12345, dtype=np.int32)                # gaps hold garbage that must never be read as a vertex
    for i in range(nr):
      colind[rowadr[i]:rowadr[i] + len(rowsl[i])] = rowsl[i]
    nnz = int(rownnz.sum())
    stack = np.full(nnz + 8, -999, dtype=np.int32)
    island = np.full(nr + 2, -77, dtype=np.int32)
    nis = lib.mj_floodFill(island, nr, rownnz, rowadr, colind, stack)
    label, k = components(nr, [(a, b) for a, b in edges])
    if nis != k or island[:nr].tolist() != label:
      raise Violation('mj_floodFill: nisland=%d island=%s, components: %d %s; rows=%s' % (nis, island[:nr].tolist(), k, label, rowsl),
                      bucket='floodfill')
    if not np.all(island[nr:] == -77) or not np.all(stack[nnz:] == -999):
      raise Violation('mj_floodFill wrote past island[nr] or stack[nnz] (documented sizes); rows=%s' % rowsl, bucket='floodfill-overrun')
    big = max([label.count(i) for i in range(k)] or [0])
    ck.case(nontrivial=k >= 3 or big >= 4, key=('ff', nr, nedge, seed),
            sample=dict(part='floodFill', nr=nr, rows=rowsl, island=label) if nr <= 8 and (k >= 3 or big >= 4) and once('ff') else None,
            labels=['floodfill', 'ff:gaps' if gaps else 'ff:compressed'] + (['ff:selfloop'] if any(a == b for a, b in edges) else []) +
                   (['ff:isolated-vertex'] if -1 in label else []))
  ck.run_hypothesis(test_ff, st.tuples(st.integers(1, 40), st.integers(0, 60), st.sampled_from([0.0, 0.1]), st.booleans(),
                                       st.integers(0, 2 ** 31 - 1)), ck.budget(800, 30000), name='floodfill')
  # exhaustive: all undirected graphs (with optional self loops on vertex 0) on <= 4 vertices
  for nr in range(1, 5):
    und = [(a, b) for a in range(nr) for b in range(a + 1, nr)] + [(0, 0)]
    for mask in range(1 << len(und)):
      es = [e for j, e in enumerate(und) if mask >> j & 1]
      rowsl = [[] for _ in range(nr)]
      for a, b in es:
        rowsl[a].append(b)
        if a != b:
          rowsl[b].append(a)
      rownnz = np.array([len(r) for r in rowsl], dtype=np.int32)
      rowadr = np.concatenate([[0], np.cumsum(rownnz)[:-1]]).astype(np.int32)
      colind = np.array([c for r in rowsl for c in r] + [0], dtype=np.int32)
      island = np.full(nr, -77, dtype=np.int32)
      nis = lib.mj_floodFill(island, nr, rownnz, rowadr, colind, np.zeros(len(colind) + 1, dtype=np.int32))
      label, k = components(nr, es)
      if nis != k or island.tolist() != label:
        raise Violation('mj_floodFill(exhaustive): edges %s -> %d %s, expected %d %s' % (es, nis, island.tolist(), k, label), bucket='floodfill')
      ck.evaluations += 1
  ck.label('floodfill-exhaustive<=4')

  # ---- (b) models
  def test_model(case):
    gm, seed, nsteps = case
    check_model(ck, lib, gm, seed, nsteps)
  gen = st.one_of(pile_models(), pile_models(), adjacent_models(), adjacent_models(), flex_models(),
                  mg.models(min_bodies=3, max_bodies=9, plane=True, spread=0.6, sensors=False, actuators=False,
                            joint_types=('free', 'hinge', 'slide'),     # no hinge+ball stacks (singular inertia)
                            opt_kwargs=dict(islands=False, jacobians=('sparse',), flags=False, integrators=('Euler', 'implicitfast'),
                                            solvers=('CG', 'Newton'))))
  ck.run_hypothesis(test_model, st.tuples(gen, mg.state_seed(), st.sampled_from([0, 1, 5, 20, 40])), ck.budget(250, 5000), name='models')


LEVEL = 'exploration'
TECHNIQUE = ('exhaustive enumeration of short merge histories + property-based testing (Hypothesis) of random union-find histories, random graphs '
             'and generated multi-tree models against an independent connected-components oracle; sparse/dense differential')
LEVEL_TEXT = '''The union-find core is driven directly with every merge sequence up to a small length over 3..6 trees (checked after every prefix)
and with random histories (64 trees x 200 operations, interleaved root queries); mj_floodFill with random and all tiny symmetric graphs. Generated
multi-tree models (contacts, connect/weld/joint/tendon equalities, tendon friction/limits, joint friction/limits) are settled and every island array of
mjData is compared with the connected components of the tree incidence of the sparse constraint Jacobian computed by own BFS code; the index maps are
checked to be mutually inverse, contiguous per island, with cumulative address arrays; the dense-Jacobian run must give the same partition.'''
LEVEL_NOTE = '''Flex coverage is limited to small dim-2 grid flexcomps (elastic2d none/stretch/bend/both); dim-3, interpolated (node-based) flexes and flex equality constraints are not generated. The order of dofs/rows inside an island segment is
not asserted (only contiguity and inverse maps), except island_dofadr == smallest dof of the island. The dense run is judged on its own numerical incidence (generic-scan rows) and
additionally against the sparse partition when both incidences coincide. Island discovery under sleeping is out of scope here (C18).'''
