"""C18 - Sleeping islands are frozen and wake on the documented events.

Domain : sleep-enabled scenes (free bodies resting on a plane, stacks, vertical sliders, hanging two-link arms, bodies
         initialised asleep in mid-air, trees joined by connect / weld / joint equalities, mocap bodies; sleep tolerance
         raised so that trees fall asleep within ~10-30 steps; Euler / implicit / implicitfast; Newton / CG / PGS) x
         operation lists: step*k, write qpos / qvel / qfrc_applied / xfrc_applied of a tree (values include -0.0, +0.0
         and a denormal), clear the applied forces, drop a free body onto another tree, move a mocap body into contact /
         away (mocap bodies may carry a jointless child body whose geom is the one pressed in), rotate a mocap body,
         toggle an equality.  The list is interpreted on the sleep-enabled model and on a twin compiled with sleep
         disabled.
Oracle : invariants over the history, checked after every single mj_step and after the mj_forward that follows every
         operation (written from doc/programming/simulation.rst "Sleeping islands" and doc/computation "Sleeping"):
         I1 tree_asleep decodes to disjoint closed index cycles (own decoder == mj_sleepCycle), awake values lie in
            [-(1+mjMINAWAKE), -1], derived arrays (tree_awake, body_awake, counters) agree with tree_asleep;
         I2 a newly formed cycle is exactly one constraint island of that step (or a single unconstrained tree);
         I3 a sleeping tree keeps bit-identical qpos and all-zero-bytes qvel until it is woken; cycles are only formed
            during state advancement (mj_step2 / end of mj_step), never in mj_step1 or mj_forward;
         I4 after a user write that changes a sleeping tree's qpos, or sets its qvel / qfrc_applied / xfrc_applied to a
            value whose bytes are non-zero (including -0.0), the next mj_forward reports the WHOLE cycle awake;
         I5 after mj_forward no contact joins a sleeping tree with an awake tree or a mocap body, and (independent
            sphere-sphere / sphere-box distance, right after any collision stage) no collidable geom of an awake tree or
            mocap body penetrates a geom of a sleeping tree; collidable = explicit <contact><pair> or bitmask match -
            a third of the free bodies are "ghosts" (contype=conaffinity=0) that collide only through explicit pairs;
         I6 after mj_forward no active connect/weld/joint equality joins a sleeping tree with an awake tree, a mocap
            body, or a sleeping tree of another cycle;
         I7 a cycle wakes as a whole, and only in the position/velocity stages (half of the histories step with
            mj_step1 + mj_step2 so that waking and sleeping are observed separately; with an unsplit mj_step a woken
            tree may legitimately be put to sleep again within the same step, in a new cycle that must satisfy I2);
         I8 trees with policy "never" are never asleep.
         I9 geoms welded below a mocap body sit where mocap_pos / mocap_quat put them (own forward kinematics).
         Differential: up to the first sleep event of the history qpos / qvel / qacc / time and the body / geom / site
         poses of the sleep-enabled run and of the sleep-disabled twin are bit-identical after every step and forward.
Non-trivial : the history contains a sleep event (a tree falling asleep during stepping, not sleep="init") followed at
         a later observation by a wake event.
"""
import numpy as np
from hypothesis import strategies as st

from vf import modelgen as mg
from vf.runner import Violation

num = mg.num


def fmt(x):
  if isinstance(x, (list, tuple)):
    return ' '.join(fmt(v) for v in x)
  return repr(float(x))


# ---------------------------------------------------------------- scene generator

@st.composite
def unit(draw, i):
  kind = draw(st.sampled_from(['free', 'free', 'stack', 'slider', 'arm', 'float_init', 'free']))
  u = dict(kind=kind, policy=draw(st.sampled_from([None, None, None, None, 'allowed', 'never'])))
  gt = draw(st.sampled_from(['box', 'sphere', 'capsule', 'cylinder', 'ellipsoid']))
  if kind in ('stack', 'slider'):
    gt = 'box'
  # "ghost" bodies: contype = conaffinity = 0, they collide ONLY through explicit <contact><pair> entries (with the
  # floor, with every other root geom and with the mocap geoms)
  u['ghost'] = kind in ('free', 'float_init') and draw(st.integers(0, 2)) == 0
  if u['ghost']:
    gt = draw(st.sampled_from(['sphere', 'sphere', 'box']))
  u['geom'] = gt
  if gt == 'box':
    u['size'] = [draw(num(0.08, 0.2)), draw(num(0.08, 0.2)), draw(num(0.05, 0.15))]
    u['hz'] = u['size'][2]
  elif gt == 'sphere':
    u['size'] = [draw(num(0.06, 0.15))]
    u['hz'] = u['size'][0]
  elif gt == 'capsule':
    u['size'] = [draw(num(0.05, 0.1)), draw(num(0.03, 0.1))]
    u['hz'] = u['size'][0] + u['size'][1]
  elif gt == 'cylinder':
    u['size'] = [draw(num(0.08, 0.15)), draw(num(0.03, 0.1))]
    u['hz'] = u['size'][1]
  else:
    u['size'] = [draw(num(0.08, 0.15)), draw(num(0.08, 0.15)), draw(num(0.05, 0.1))]
    u['hz'] = u['size'][2]
  if kind == 'stack':
    u['size2'] = [draw(num(0.04, 0.07)), draw(num(0.04, 0.07)), draw(num(0.03, 0.06))]
  if kind == 'float_init':
    u['policy'] = 'init'
  if kind == 'arm':
    u['policy'] = draw(st.sampled_from([None, None, 'never']))
  return u


@st.composite
def scene(draw):
  n = draw(st.integers(2, 5))
  units = [draw(unit(i)) for i in range(n)]
  nmocap = draw(st.integers(0, 2))
  # names of tree roots, in model order
  roots = []
  for i, u in enumerate(units):
    roots.append('t%d' % i)
    if u['kind'] == 'stack':
      roots.append('t%du' % i)
  eqs = []
  neq = draw(st.integers(0, 3))
  sliders = [i for i, u in enumerate(units) if u['kind'] == 'slider']
  for k in range(neq):
    kinds = ['connect', 'weld']
    if nmocap:
      kinds.append('mocapweld')
    if len(sliders) >= 2:
      kinds.append('joint')
    kind = draw(st.sampled_from(kinds))
    active = draw(st.integers(0, 3)) == 0
    if kind == 'joint':
      a, b = draw(st.lists(st.sampled_from(sliders), min_size=2, max_size=2, unique=True))
      eqs.append(dict(kind='joint', a='js%d' % a, b='js%d' % b, active=active))
    elif kind == 'mocapweld':
      a = draw(st.sampled_from(roots))
      eqs.append(dict(kind='weld', a=a, b='mc%d' % draw(st.integers(0, nmocap - 1)), active=False))
    else:
      if len(roots) < 2:
        continue
      a, b = draw(st.lists(st.sampled_from(roots), min_size=2, max_size=2, unique=True))
      eqs.append(dict(kind=kind, a=a, b=b, active=active))
  # an equality that is active from the start must not involve an init-asleep tree (documented: init needs whole islands)
  init_roots = {'t%d' % i for i, u in enumerate(units) if u['policy'] == 'init'}
  for e in eqs:
    if e['a'] in init_roots or e['b'] in init_roots:
      e['active'] = False
  opt = dict(timestep=draw(st.sampled_from([0.002, 0.005, 0.005, 0.01])),
             integrator=draw(st.sampled_from(['Euler', 'implicit', 'implicitfast'])),
             solver=draw(st.sampled_from(['Newton', 'Newton', 'CG', 'PGS'])),
             cone=draw(st.sampled_from(['pyramidal', 'elliptic'])),
             tol=draw(st.sampled_from([0.05, 0.2, 1.0])),
             warmstart=draw(st.integers(0, 5)) != 0)
  # mocap bodies may carry a jointless child body with a colliding geom 0.4 away (moves with mocap_pos / mocap_quat)
  mchild = [draw(st.booleans()) for _ in range(nmocap)]
  return dict(units=units, nmocap=nmocap, eqs=eqs, opt=opt, mchild=mchild)


def geom_xml(gt, size, extra=''):
  return '<geom type="%s" size="%s"%s/>' % (gt, fmt(size), extra)


def render(sc, sleep=True):
  o = sc['opt']
  flags = 'sleep="enable"' if sleep else ''
  if not o['warmstart']:
    flags += ' warmstart="disable"'
  xml = ('<mujoco><option timestep="%s" integrator="%s" solver="%s" cone="%s" sleep_tolerance="%s"><flag %s/></option>'
         '<worldbody><geom name="floor" type="plane" size="10 10 .1"/>' % (
             fmt(o['timestep']), o['integrator'], o['solver'], o['cone'], fmt(o['tol']), flags))
  named = []     # units whose root geom is named g<i> (pair targets)
  for i, u in enumerate(sc['units']):
    x = 0.8 * i
    pol = ' sleep="%s"' % u['policy'] if u['policy'] else ''
    gx = ' name="g%d"' % i + (' contype="0" conaffinity="0"' if u.get('ghost') else '')
    if u['kind'] in ('free', 'stack'):
      xml += '<body name="t%d" pos="%s 0 %s"%s><freejoint/>%s</body>' % (i, fmt(x), fmt(u['hz']), pol,
                                                                       geom_xml(u['geom'], u['size'], gx))
      named.append(i)
      if u['kind'] == 'stack':
        xml += '<body name="t%du" pos="%s 0 %s"><freejoint/>%s</body>' % (
            i, fmt(x), fmt(2 * u['hz'] + u['size2'][2]), geom_xml('box', u['size2']))
    elif u['kind'] == 'slider':
      xml += ('<body name="t%d" pos="%s 0 %s"%s><joint name="js%d" type="slide" axis="0 0 1" damping="1"/>%s</body>' % (
          i, fmt(x), fmt(u['hz']), pol, i, geom_xml('box', u['size'], gx)))
      named.append(i)
    elif u['kind'] == 'arm':
      xml += ('<body name="t%d" pos="%s 0 1.0"%s><joint type="hinge" axis="0 1 0" damping="0.2"/>'
              '<geom type="capsule" fromto="0 0 0 0 0 -0.2" size="0.03"/><body pos="0 0 -0.2">'
              '<joint type="hinge" axis="0 1 0" damping="0.2"/><geom type="capsule" fromto="0 0 0 0 0 -0.2" size="0.03"/>'
              '</body></body>' % (i, fmt(x), pol))
    else:   # float_init: asleep in mid-air from the start
      xml += '<body name="t%d" pos="%s 0.8 1.6"%s><freejoint/>%s</body>' % (i, fmt(x), pol,
                                                                           geom_xml(u['geom'], u['size'], gx))
      named.append(i)
  mchild = sc.get('mchild') or [False] * sc['nmocap']
  for k in range(sc['nmocap']):
    child = ('<body name="mc%dc" pos="0.4 0 0" euler="0 0 30"><geom name="gmc%d" type="sphere" size="0.1" pos="0 0 0"/>'
             '<site name="smc%d"/></body>' % (k, k, k)) if mchild[k] else ''
    xml += ('<body name="mc%d" mocap="true" pos="%s -3 3"><geom name="gm%d" type="sphere" size="0.1"/>%s</body>' % (
        k, fmt(-1.0 - k), k, child))
  xml += '</worldbody>'
  pairs = []
  ghosts = [i for i in named if sc['units'][i].get('ghost')]
  for i in ghosts:
    pairs.append(('floor', 'g%d' % i))
    for j in named:
      if j != i and not (j in ghosts and j < i):
        pairs.append(('g%d' % i, 'g%d' % j))
    for k in range(sc['nmocap']):
      pairs.append(('gm%d' % k, 'g%d' % i))
      if mchild[k]:
        pairs.append(('gmc%d' % k, 'g%d' % i))
  if pairs:
    xml += '<contact>%s</contact>' % ''.join('<pair geom1="%s" geom2="%s"/>' % pq for pq in pairs)
  if sc['eqs']:
    xml += '<equality>'
    for k, e in enumerate(sc['eqs']):
      act = 'true' if e['active'] else 'false'
      if e['kind'] == 'joint':
        xml += '<joint name="e%d" joint1="%s" joint2="%s" active="%s" solref="0.05 1"/>' % (k, e['a'], e['b'], act)
      elif e['kind'] == 'connect':
        xml += '<connect name="e%d" body1="%s" body2="%s" anchor="0 0 0" active="%s" solref="0.05 1"/>' % (
            k, e['a'], e['b'], act)
      else:
        xml += '<weld name="e%d" body1="%s" body2="%s" active="%s" solref="0.05 1"/>' % (k, e['a'], e['b'], act)
    xml += '</equality>'
  return xml + '</mujoco>'


VALS = [-0.0, 0.0, 5e-324, 0.05, -0.3, 1.0]     # -0.0 and the denormal have non-zero bytes: documented to wake


def ops_strategy(maxops):
  t = st.integers(0, 11)
  op = st.one_of(
      st.tuples(st.just('step'), st.integers(1, 30)),
      st.tuples(st.just('step'), st.integers(10, 40)),
      st.tuples(st.just('step'), st.integers(1, 30)),
      st.tuples(st.just('qpos'), t, st.integers(0, 11), st.sampled_from([0.02, -0.05, 0.1])),
      st.tuples(st.just('qvel'), t, st.integers(0, 11), st.sampled_from(VALS)),
      st.tuples(st.just('qfrc'), t, st.integers(0, 11), st.sampled_from(VALS)),
      st.tuples(st.just('xfrc'), t, st.integers(0, 5), st.sampled_from(VALS)),
      st.tuples(st.just('clear'), t),
      st.tuples(st.just('clear'), t),
      st.tuples(st.just('drop'), t, t),
      st.tuples(st.just('mocap'), st.integers(0, 1), t, st.sampled_from([True, True, False])),
      st.tuples(st.just('mquat'), st.integers(0, 1), st.integers(0, 3)),
      st.tuples(st.just('eq'), st.integers(0, 2), st.booleans()),
  )
  return st.integers(4, maxops).flatmap(lambda n: st.lists(op, min_size=n, max_size=n))


# ---------------------------------------------------------------- helpers

def bits(a):
  return np.ascontiguousarray(a, dtype=np.float64).view(np.uint64).copy()


def decode_cycles(ta, ntree, what):
  """Own decoder of the sleep array: returns {tree: tuple(sorted members)} for sleeping trees, raises on a non-cycle."""
  out = {}
  for i in range(ntree):
    if ta[i] < 0 or i in out:
      continue
    members = [i]
    cur = int(ta[i])
    while cur != i:
      if cur < 0 or cur >= ntree or ta[cur] < 0 or len(members) > ntree or cur in members:
        raise Violation('%s: tree_asleep=%s does not encode closed cycles (walk from tree %d reached %d after %s)' % (
            what, ta.tolist(), i, cur, members), bucket='I1-cycle')
      members.append(cur)
      cur = int(ta[cur])
    cyc = tuple(sorted(members))
    for j in members:
      if j in out:
        raise Violation('%s: tree %d belongs to two cycles, tree_asleep=%s' % (what, j, ta.tolist()), bucket='I1-cycle')
      out[j] = cyc
  return out


class Info:
  def __init__(self, lib, m):
    E = lib.enums
    self.ntree = int(m.ntree)
    self.body_tree = np.array(m.body_treeid, dtype=int)
    self.tree_qpos = [[] for _ in range(self.ntree)]
    for j in range(m.njnt):
      t = self.body_tree[int(m.jnt_bodyid[j])]
      a = int(m.jnt_qposadr[j])
      w = 7 if m.jnt_type[j] == E.mjJNT_FREE else 4 if m.jnt_type[j] == E.mjJNT_BALL else 1
      self.tree_qpos[t] += list(range(a, a + w))
    self.tree_qpos = [np.array(x, dtype=int) for x in self.tree_qpos]
    self.tree_dof = [np.arange(int(m.tree_dofadr[t]), int(m.tree_dofadr[t]) + int(m.tree_dofnum[t]))
                     for t in range(self.ntree)]
    self.tree_bodies = [np.arange(int(m.tree_bodyadr[t]), int(m.tree_bodyadr[t]) + int(m.tree_bodynum[t]))
                        for t in range(self.ntree)]
    self.root = [int(b[0]) for b in self.tree_bodies]
    self.is_free = [int(m.body_jntnum[r]) == 1 and int(m.jnt_type[int(m.body_jntadr[r])]) == E.mjJNT_FREE and
                    len(self.tree_bodies[t]) == 1 for t, r in enumerate(self.root)]
    # upright vertical half extent of the root geom of every tree
    self.hz = []
    for r in self.root:
      g = int(m.body_geomadr[r])
      ty, sz = int(m.geom_type[g]), m.geom_size[g]
      self.hz.append(float(sz[0] if ty == E.mjGEOM_SPHERE else sz[0] + sz[1] if ty == E.mjGEOM_CAPSULE else
                           sz[1] if ty == E.mjGEOM_CYLINDER else sz[2]))
    self.policy = np.array(m.tree_sleep_policy, dtype=int)
    self.never = {E.mjSLEEP_NEVER, E.mjSLEEP_AUTO_NEVER}
    self.geom_body = np.array(m.geom_bodyid, dtype=int)
    self.body_mocap = np.array(m.body_mocapid, dtype=int)
    self.body_root = np.array(m.body_rootid, dtype=int)
    self.minawake = int(E.mjMINAWAKE)
    self.E = E
    self.geom_type = np.array(m.geom_type, dtype=int)
    self.geom_size = np.array(m.geom_size, dtype=float)
    self.geom_mask = (np.array(m.geom_contype, dtype=int), np.array(m.geom_conaffinity, dtype=int))
    self.pairs = {frozenset((int(a), int(b))) for a, b in zip(m.pair_geom1, m.pair_geom2)}
    self.tree_geoms = [[g for g in range(int(m.ngeom)) if self.body_tree[self.geom_body[g]] == t]
                       for t in range(self.ntree)]
    self.mocap_geoms = [g for g in range(int(m.ngeom)) if self.body_tree[self.geom_body[g]] < 0 and
                        self.body_mocap[self.body_root[self.geom_body[g]]] >= 0]

    self.body_parent = np.array(m.body_parentid, dtype=int)
    self.body_pos = np.array(m.body_pos, dtype=float)
    self.body_quat = np.array(m.body_quat, dtype=float)
    self.geom_pos = np.array(m.geom_pos, dtype=float)
    self.mocap_child_geom = {}
    for g in self.mocap_geoms:
      b = self.geom_body[g]
      if self.body_mocap[b] < 0:
        self.mocap_child_geom[int(self.body_mocap[self.body_root[b]])] = g

  @staticmethod
  def rot(q, v):
    """rotate vector v by unit quaternion q = (w, x, y, z)"""
    w, u = q[0], np.array(q[1:])
    return v + 2 * np.cross(u, np.cross(u, v) + w * v)

  @staticmethod
  def qmul(a, b):
    return np.array([a[0] * b[0] - a[1:] @ b[1:], *(a[0] * b[1:] + b[0] * a[1:] + np.cross(a[1:], b[1:]))])

  def mocap_geom_pos(self, d, g):
    """own forward kinematics of a geom welded (through jointless bodies) below a mocap body"""
    chain = []
    b = int(self.geom_body[g])
    while self.body_mocap[b] < 0:
      chain.append(b)
      b = int(self.body_parent[b])
    mi = int(self.body_mocap[b])
    q = np.array(d.mocap_quat[mi], dtype=float)
    q = q / np.linalg.norm(q)
    p = np.array(d.mocap_pos[mi], dtype=float)
    for c in reversed(chain):
      p = p + self.rot(q, self.body_pos[c])
      q = self.qmul(q, self.body_quat[c])
    return p + self.rot(q, self.geom_pos[g])

  def gpos(self, d, g):
    """geom centre: own kinematics for mocap-driven geoms (independent of the engine's awake/static bookkeeping)"""
    return self.mocap_geom_pos(d, g) if g in self.mocap_geoms else np.array(d.geom_xpos[g])

  def collidable(self, g1, g2):
    """documented pair selection: an explicit <pair>, or compatible contype/conaffinity bitmasks"""
    if frozenset((g1, g2)) in self.pairs:
      return True
    ct, ca = self.geom_mask
    return bool((ct[g1] & ca[g2]) or (ct[g2] & ca[g1]))

  def distance(self, d, g1, g2):
    """independent signed distance for sphere-sphere and sphere-box (None for other type combinations)"""
    E = self.E
    t1, t2 = self.geom_type[g1], self.geom_type[g2]
    if t1 == E.mjGEOM_BOX and t2 == E.mjGEOM_SPHERE:
      g1, g2, t1, t2 = g2, g1, t2, t1
    if t1 != E.mjGEOM_SPHERE:
      return None
    c = self.gpos(d, g1)
    r = self.geom_size[g1][0]
    if t2 == E.mjGEOM_SPHERE:
      return float(np.linalg.norm(c - self.gpos(d, g2)) - r - self.geom_size[g2][0])
    if t2 == E.mjGEOM_BOX:
      R = np.array(d.geom_xmat[g2]).reshape(3, 3)
      loc = R.T @ (c - np.array(d.geom_xpos[g2]))
      h = self.geom_size[g2]
      q = np.abs(loc) - h
      if np.all(q <= 0):
        return float(np.max(q) - r)                      # centre inside the box
      return float(np.linalg.norm(np.maximum(q, 0)) - r)
    return None


def main(ck):
  lib = ck.lib('rel')
  E = lib.enums
  ck.rule = ('generated sleep-enabled scenes x operation lists (4..N ops); invariants after every step / forward; '
             'non-trivial = history contains a sleep event followed by a wake event; distinct by (scene xml, op list)')
  ck.assumptions = [
      'RK4 excluded (documented unsupported with sleeping); no actuators, tendons or flexes in the scenes; tendon '
      'equalities excluded (engine reports them as unsupported with sleeping)',
      'a qpos write counts as a change only if it moves a body (>= 0.02 in one joint coordinate); the engine detects '
      'qpos changes by comparing recomputed body poses',
      'sleep="init" only on isolated bodies (documented: whole islands must be initialised asleep)',
      'the differential with the sleep-disabled twin is evaluated up to the first sleep event of a history (afterwards '
      'the two runs legitimately diverge)',
      'I2 uses the engine\'s island arrays of the step in which the cycle was formed as the definition of "island"']

  def check_derived(m, d, info, ta, what):
    tw = np.array(d.tree_awake, dtype=int)
    if not np.array_equal(tw, (ta < 0).astype(int)):
      raise Violation('%s: tree_awake=%s inconsistent with tree_asleep=%s' % (what, tw.tolist(), ta.tolist()),
                      bucket='I1-derived')
    if int(d.ntree_awake) != int((ta < 0).sum()):
      raise Violation('%s: ntree_awake=%d, tree_asleep=%s' % (what, d.ntree_awake, ta.tolist()), bucket='I1-derived')
    ba = np.array(d.body_awake, dtype=int)
    nva = 0
    for t in range(info.ntree):
      want = E.mjS_AWAKE if ta[t] < 0 else E.mjS_ASLEEP
      if np.any(ba[info.tree_bodies[t]] != want):
        raise Violation('%s: body_awake of tree %d = %s, expected %d' % (what, t, ba[info.tree_bodies[t]].tolist(), want),
                        bucket='I1-derived')
      nva += len(info.tree_dof[t]) if ta[t] < 0 else 0
    if int(d.nv_awake) != nva:
      raise Violation('%s: nv_awake=%d, expected %d' % (what, d.nv_awake, nva), bucket='I1-derived')

  def run(case):
    sc, ops, split = case
    xml = render(sc, True)
    st_labels_split = 'stepping:' + ('step1+step2' if split else 'mj_step')
    m = lib.model_from_xml(xml)
    m2 = lib.model_from_xml(render(sc, False))
    d, d2 = lib.make_data(m), lib.make_data(m2)
    info = Info(lib, m)
    nt = info.ntree
    st_ = dict(prev=None, snap={}, ever_slept=False, slept=False, wake_after_sleep=False, labels=set(), nsleep=0,
               nwake=0, had_sleep_before=False)
    labels = st_['labels']
    labels.add(st_labels_split)

    def compare_twin(what):
      if st_['ever_slept']:
        return
      # poses are compared once a forward pass has run (mj_makeData precomputes static poses only when sleep is enabled)
      for f in ('qpos', 'qvel', 'qacc') + (('xpos', 'xquat', 'geom_xpos', 'site_xpos') if what != 'initial' else ()):
        if not np.array_equal(bits(getattr(d, f)), bits(getattr(d2, f))):
          a, b = np.asarray(getattr(d, f)).ravel(), np.asarray(getattr(d2, f)).ravel()
          k = int(np.flatnonzero(bits(a) != bits(b))[0])
          raise Violation('%s: no tree has slept yet, but %s[%d] differs between sleep enabled (%r) and disabled (%r)' % (
              what, f, k, float(a[k]), float(b[k])), bucket='differential')
      if d.time != d2.time:
        raise Violation('%s: time differs between sleep enabled/disabled' % what, bucket='differential')
      labels.add('differential-compared')

    def observe(what, full=False, expect_awake=(), reason=None, phase='wake'):
      ta = np.array(d.tree_asleep, dtype=int).copy()
      # I1
      if np.any(ta < -(1 + info.minawake)):
        raise Violation('%s: tree_asleep=%s below -(1+mjMINAWAKE)' % (what, ta.tolist()), bucket='I1-range')
      cyc = decode_cycles(ta, nt, what)
      for i, c in cyc.items():
        r = lib.mj_sleepCycle(np.ascontiguousarray(ta, dtype=np.int32), nt, i)
        if r != c[0]:
          raise Violation('%s: mj_sleepCycle(%d)=%d, own decoder says cycle %s' % (what, i, r, c), bucket='I1-cycle')
      for i in range(nt):
        if ta[i] < 0 and lib.mj_sleepCycle(np.ascontiguousarray(ta, dtype=np.int32), nt, i) != -1:
          raise Violation('%s: mj_sleepCycle(%d) on an awake tree did not return -1' % (what, i), bucket='I1-cycle')
      check_derived(m, d, info, ta, what)
      # I8
      for i in cyc:
        if info.policy[i] in info.never:
          raise Violation('%s: tree %d has sleep policy never but is asleep' % (what, i), bucket='I8-never')
      prev = st_['prev']
      qb, vb = bits(d.qpos), np.asarray(d.qvel)
      pset = set(prev.values()) if prev is not None else set()
      changed = {c for c in set(cyc.values()) if c not in pset}       # cycles formed since the last observation
      gone = {c for c in pset if c not in set(cyc.values())}          # cycles woken since the last observation
      if prev is not None and phase == 'wake' and changed:
        raise Violation('%s: cycle(s) %s formed outside state advancement (position/velocity stage or mj_forward)' % (
            what, sorted(changed)), bucket='I3-cycle-changed')
      if prev is not None and phase == 'sleep' and gone:
        raise Violation('%s: cycle(s) %s woke during mj_step2 (waking is documented for the position stage)' % (
            what, sorted(gone)), bucket='I7-wake-phase')
      # I2: cycles formed in this step are islands of this step.  With an unsplit mj_step a sleeping tree may be woken by a
      # contact with a tree that is ready to sleep and be put to sleep again in the same step (it inherits the countdown
      # of the waking tree); the re-formed cycle must then be an island of this step like any other new cycle.
      if changed and prev is not None:
        tisl = np.array(d.tree_island, dtype=int) if int(d.nisland) > 0 else -np.ones(nt, dtype=int)
        for c in changed:
          isl = {int(tisl[i]) for i in c}
          if len(isl) != 1 or (isl == {-1} and len(c) != 1) or (
              isl != {-1} and set(np.flatnonzero(tisl == next(iter(isl))).tolist()) != set(c)):
            raise Violation('%s: new sleep cycle %s is not one island of this step (tree_island=%s, previous cycles %s)' % (
                what, c, tisl.tolist(), sorted(pset)), bucket='I2-island')
          labels.add('cycle-size:%d' % min(len(c), 3))
          if any(i in prev for i in c):
            labels.add('wake+resleep-in-one-step')
      for c in changed:
        for i in c:
          st_['snap'][i] = qb[info.tree_qpos[i]].copy()
      if changed:
        st_['slept'] = True
        st_['ever_slept'] = True
        st_['nsleep'] += 1
        labels.add('sleep-event' if prev is not None else 'sleep:init')
      # I7: a cycle wakes as a whole (exact in the split-step mode, where waking and sleeping are observed separately)
      if gone:
        for c in gone:
          still = [j for j in c if j in cyc]
          if still and phase != 'both':
            raise Violation('%s: cycle %s woke only partially, trees %s still asleep (tree_asleep=%s)' % (
                what, c, still, ta.tolist()), bucket='I7-partial-wake')
          for i in c:
            if i not in cyc:
              st_['snap'].pop(i, None)
        st_['nwake'] += 1
        if st_['had_sleep_before']:        # a tree fell asleep during stepping at an EARLIER observation
          st_['wake_after_sleep'] = True
        labels.add('wake:' + (reason or 'during-step'))
      if changed and prev is not None:
        st_['slept_dyn'] = True
      st_['had_sleep_before'] = st_.get('slept_dyn', False)
      for i in cyc:
        if i in expect_awake:
          continue
        if not np.array_equal(qb[info.tree_qpos[i]], st_['snap'][i]):
          raise Violation('%s: qpos of sleeping tree %d changed since it fell asleep' % (what, i), bucket='I3-qpos')
        v = vb[info.tree_dof[i]]
        if v.size and np.any(np.ascontiguousarray(v).view(np.uint64) != 0):
          raise Violation('%s: qvel of sleeping tree %d is not all-zero: %s' % (what, i, v.tolist()), bucket='I3-qvel')
      # I4
      for i in expect_awake:
        if i in cyc:
          raise Violation('%s: tree %d (cycle %s before the write) is still asleep after mj_forward; tree_asleep=%s' % (
              what, i, prev.get(i) if prev else None, ta.tolist()), bucket='I4-user-wake')
      if (full or phase == 'wake') and cyc and prev is not None:
        # I5b (geometric, independent of the engine's contact list): right after the collision stage no collidable geom
        # of an awake tree / mocap body may clearly penetrate a geom of a sleeping tree - touching wakes the cycle.
        # Collidable = explicit <contact><pair> or compatible contype/conaffinity. Own sphere-sphere / sphere-box distance.
        awake_geoms = [g for t in range(nt) if t not in cyc for g in info.tree_geoms[t]] + info.mocap_geoms
        for t in cyc:
          for g1 in info.tree_geoms[t]:
            for g2 in awake_geoms:
              if not info.collidable(g1, g2):
                continue
              dist = info.distance(d, g1, g2)
              if dist is None:
                continue
              labels.add('I5b:checked' + (':explicit-pair' if frozenset((g1, g2)) in info.pairs else ''))
              if dist < -1e-3:
                raise Violation('%s: geom %d of an awake tree / mocap body penetrates geom %d of sleeping tree %d by %.4g '
                                '(%s) but the tree was not woken; tree_asleep=%s ncon=%d' % (
                                    what, g2, g1, t, -dist, 'explicit <pair>' if frozenset((g1, g2)) in info.pairs else
                                    'contype/conaffinity', ta.tolist(), int(d.ncon)), bucket='I5-penetration')
      if full:
        # I9: bodies welded below a mocap body follow mocap_pos / mocap_quat (they count as awake: the user can move them
        # at any time) - engine pose vs own forward kinematics
        for g in info.mocap_geoms:
          own = info.mocap_geom_pos(d, g)
          if np.max(np.abs(np.array(d.geom_xpos[g]) - own)) > 1e-12 * (1 + np.max(np.abs(own))):
            raise Violation('%s: geom %d below a mocap body is at %s, mocap pose puts it at %s (stale pose)' % (
                what, g, np.array(d.geom_xpos[g]).tolist(), own.tolist()), bucket='I9-mocap-descendant')
        # I5
        con = d.contact
        for k in range(int(d.ncon)):
          g1, g2 = int(con['geom'][k][0]), int(con['geom'][k][1])
          if g1 < 0 or g2 < 0:
            continue
          b1, b2 = info.geom_body[g1], info.geom_body[g2]
          t1, t2 = info.body_tree[b1], info.body_tree[b2]
          s1 = 'asleep' if t1 >= 0 and t1 in cyc else 'awake' if t1 >= 0 else (
              'mocap' if info.body_mocap[info.body_root[b1]] >= 0 else 'static')
          s2 = 'asleep' if t2 >= 0 and t2 in cyc else 'awake' if t2 >= 0 else (
              'mocap' if info.body_mocap[info.body_root[b2]] >= 0 else 'static')
          if 'asleep' in (s1, s2) and ({s1, s2} & {'awake', 'mocap'}):
            raise Violation('%s: contact %d joins %s body %d and %s body %d after mj_forward (tree_asleep=%s)' % (
                what, k, s1, b1, s2, b2, ta.tolist()), bucket='I5-contact')
          if s1 == s2 == 'asleep' and cyc[t1] != cyc[t2]:
            raise Violation('%s: contact between sleeping trees %d and %d of different cycles' % (what, t1, t2),
                            bucket='I5-contact')
        # I6
        for e in range(int(m.neq)):
          if not d.eq_active[e]:
            continue
          ty = int(m.eq_type[e])
          if ty in (E.mjEQ_CONNECT, E.mjEQ_WELD):
            b1, b2 = int(m.eq_obj1id[e]), int(m.eq_obj2id[e])
          elif ty == E.mjEQ_JOINT:
            b1 = int(m.jnt_bodyid[int(m.eq_obj1id[e])])
            b2 = int(m.jnt_bodyid[int(m.eq_obj2id[e])]) if m.eq_obj2id[e] >= 0 else 0
          else:
            continue
          ss = []
          for b in (b1, b2):
            t = info.body_tree[b]
            ss.append(('asleep', t) if t >= 0 and t in cyc else ('awake', t) if t >= 0 else (
                ('mocap', -1) if info.body_mocap[info.body_root[b]] >= 0 else ('static', -1)))
          kinds = {ss[0][0], ss[1][0]}
          if 'static' in kinds:
            continue
          if 'asleep' in kinds and (kinds & {'awake', 'mocap'}):
            raise Violation('%s: active equality %d joins %s and %s after mj_forward (tree_asleep=%s)' % (
                what, e, ss[0], ss[1], ta.tolist()), bucket='I6-equality')
          if kinds == {'asleep'} and ss[0][1] != ss[1][1] and cyc[ss[0][1]] != cyc[ss[1][1]]:
            raise Violation('%s: active equality %d joins sleeping trees of different cycles' % (what, e),
                            bucket='I6-equality')
      st_['prev'] = cyc
      compare_twin(what)

    observe('initial', full=False)
    lib.mj_forward(m, d)
    lib.mj_forward(m2, d2)
    observe('initial forward', full=True)
    nsteps = 0
    for k, op in enumerate(ops):
      kind = op[0]
      what = 'op %d %r' % (k, op)
      expect = set()
      reason = None
      prev = st_['prev']

      def both(fn):
        fn(m, d)
        fn(m2, d2)

      asleep_now = sorted(prev)

      def pick(t):
        """tree selector 0..11: the upper half prefers a currently sleeping tree (model-directed generation)"""
        if t >= 6 and asleep_now:
          return asleep_now[t % len(asleep_now)]
        return t % nt

      if kind == 'step':
        for s in range(op[1]):
          nsteps += 1
          # a diverging simulation makes the engine reset mjData (documented auto-reset): such histories are discarded
          if split:
            lib.mj_step1(m, d)
            lib.mj_step1(m2, d2)
            if lib.warnings():
              ck.discard('engine-warning')
              return None
            observe('%s step %d (after mj_step1)' % (what, s), reason='during-step', phase='wake')
            lib.mj_step2(m, d)
            lib.mj_step2(m2, d2)
            if lib.warnings():
              ck.discard('engine-warning')
              return None
            observe('%s step %d (after mj_step2)' % (what, s), reason='during-step', phase='sleep')
          else:
            lib.mj_step(m, d)
            lib.mj_step(m2, d2)
            if lib.warnings():
              ck.discard('engine-warning')
              return None
            observe('%s step %d' % (what, s), reason='during-step', phase='both')
        w = lib.warnings()
        if w:
          ck.discard('engine-warning')
          return None
      elif kind in ('qpos', 'qvel', 'qfrc'):
        t = pick(op[1])
        dof = int(info.tree_dof[t][op[2] % len(info.tree_dof[t])])
        val = op[3]
        if kind == 'qpos':
          dq = np.zeros(m.nv)
          dq[dof] = val

          idx = info.tree_qpos[t]

          def fn(mm, dd):
            # write ONLY the target tree's coordinates: mj_integratePos re-normalises every quaternion of the vector,
            # which would make the harness itself modify (by an ulp) the qpos of other, possibly sleeping, trees
            q = np.array(dd.qpos)
            lib.mj_integratePos(mm, q, dq, 1.0)
            dd.qpos[idx] = q[idx]
          both(fn)
          wakes = True
        else:
          arr = 'qvel' if kind == 'qvel' else 'qfrc_applied'
          both(lambda mm, dd: getattr(dd, arr).__setitem__(dof, val))
          wakes = np.float64(val).view(np.uint64) != 0
          if val == 0 and wakes:
            labels.add('write:-0.0')
        if t in prev and wakes:
          expect = set(prev[t])
          reason = 'user-' + kind + (':-0.0' if (kind != 'qpos' and val == 0) else ':denormal' if val == 5e-324 else '')
      elif kind == 'xfrc':
        t = pick(op[1])
        body = int(info.tree_bodies[t][op[2] % len(info.tree_bodies[t])])
        comp, val = op[2] % 6, op[3]
        both(lambda mm, dd: dd.xfrc_applied.__setitem__((body, comp), val))
        if t in prev and np.float64(val).view(np.uint64) != 0:
          expect = set(prev[t])
          reason = 'user-xfrc' + (':-0.0' if val == 0 else '')
      elif kind == 'clear':
        t = pick(op[1])

        def fn(mm, dd):
          dd.qfrc_applied[info.tree_dof[t]] = 0.0
          dd.xfrc_applied[info.tree_bodies[t]] = 0.0
        both(fn)
      elif kind == 'drop':
        tb = pick(op[2])
        free = [t for t in range(nt) if info.is_free[t] and t != tb and (t not in prev or tb not in prev[t])]
        awake_free = [t for t in free if t not in prev]
        if not free:
          continue
        ta_ = (awake_free or free)[op[1] % len(awake_free or free)]
        # land on top of tb's root geom: surfaces 5 mm apart (upright extents of the root geoms)
        top = np.array(d.geom_xpos[int(m.body_geomadr[info.root[tb]])]) + np.array(
            [0, 0, info.hz[tb] + info.hz[ta_] + 0.005])
        adr = info.tree_qpos[ta_]

        def fn(mm, dd):
          dd.qpos[adr[:3]] = top
          dd.qpos[adr[3:]] = [1, 0, 0, 0]
          dd.qvel[info.tree_dof[ta_]] = 0.0
        oldq = np.array(d.qpos[adr])
        both(fn)
        # the write counts as a change only if it really moves the body (a sleeping body dropped twice onto the same
        # sleeping target is written with identical values)
        moved = np.max(np.abs(oldq[:3] - top)) > 1e-6 or np.max(np.abs(oldq[3:] - np.array([1.0, 0, 0, 0]))) > 1e-6
        if ta_ in prev and moved:
          expect = set(prev[ta_])
          reason = 'user-qpos'
        labels.add('drop')
      elif kind == 'mocap':
        if not m.nmocap:
          continue
        mi, t, touch = op[1] % int(m.nmocap), pick(op[2]), op[3]
        if touch:
          g = int(m.body_geomadr[info.root[t]])
          # mocap sphere (r=0.1) pressed 0.05 into the top of the root geom; if the mocap body has a welded child body the
          # CHILD's sphere is pressed in (the mocap body itself then sits 0.4 to the side)
          pos = np.array(d.geom_xpos[g]) + np.array([0, 0, info.hz[t] + 0.05])
          if mi in info.mocap_child_geom:
            gc = info.mocap_child_geom[mi]
            pos = pos - (info.mocap_geom_pos(d, gc) - np.array(d.mocap_pos[mi]))
            labels.add('mocap:touch-with-child-body')
        else:
          pos = np.array([-1.0 - mi, -3, 3])
        both(lambda mm, dd: dd.mocap_pos.__setitem__(mi, pos))
        reason = 'mocap-contact'
        labels.add('mocap:' + ('touch' if touch else 'away'))
      elif kind == 'mquat':
        if not m.nmocap:
          continue
        mi, ang = op[1] % int(m.nmocap), op[2] * np.pi / 2
        quat = np.array([np.cos(ang / 2), 0, 0, np.sin(ang / 2)])
        both(lambda mm, dd: dd.mocap_quat.__setitem__(mi, quat))
        reason = 'mocap-contact'
        labels.add('mocap:rotate')
      elif kind == 'eq':
        if not m.neq:
          continue
        e, on = op[1] % int(m.neq), op[2]
        both(lambda mm, dd: dd.eq_active.__setitem__(e, 1 if on else 0))
        reason = 'equality'
        labels.add('eq:' + ('on' if on else 'off'))
      lib.mj_forward(m, d)
      lib.mj_forward(m2, d2)
      if lib.warnings():
        ck.discard('engine-warning')
        return None
      observe(what + ' +forward', full=True, expect_awake=expect, reason=reason)
    return st_, xml, nsteps

  def test(case):
    r = run(case)
    if r is None:
      return
    st_, xml, nsteps = r
    nt = st_['wake_after_sleep']
    ck.case(nontrivial=nt, key=(xml, case[1], case[2]), sample=dict(xml=xml, ops=case[1], split=case[2], sleep_events=st_['nsleep'],
                                                          wake_events=st_['nwake'], steps=nsteps),
            labels=sorted(st_['labels']) + (['nt:sleep-then-wake'] if nt else []))

  ck.run_hypothesis(test, st.tuples(scene(), ops_strategy(ck.budget(40, 60)), st.booleans()), ck.budget(500, 8000),
                    name='sleep-history')



def replay(ck, body):
  """./verif <ID> --replay <violation file>: run exactly the recorded case through the same test function."""
  from vf import mj
  rec = body.get('case') or {}
  if 'case' not in rec or 'check' not in rec:
    raise NotImplementedError('replay file carries no generated case (bucket %s)' % body.get('bucket'))

  def run_one(test, strategy, max_examples, name='main', **kw):
    if name != rec['check']:
      return True
    try:
      test(rec['case'])
      return True
    except (Violation, AssertionError, mj.MjError) as e:
      ck.violation('%s: %s' % (type(e).__name__, e), rec, bucket=getattr(e, 'bucket', None) or name)
      return False
  ck.run_hypothesis = run_one
  main(ck)


LEVEL = 'exploration'
TECHNIQUE = ('stateful property-based testing: Hypothesis-generated scenes and operation histories (steps and user '
             'perturbations) with invariants checked after every step, plus a differential run against a sleep-disabled twin')
LEVEL_TEXT = '''Generated sleep-enabled scenes (resting free bodies, stacks, sliders, hanging arms, bodies initialised asleep,
equalities, mocap bodies) are driven by generated histories of steps, state/force writes (including -0.0), drops, mocap moves and
equality toggles. After every single step and after the forward pass following every operation the sleep array is decoded and
checked (closed cycles, cycle == island when formed, frozen qpos / zero qvel, whole-cycle wake after user writes, no contact or
active equality between sleeping and awake/mocap trees); until the first sleep event the run is bit-compared with a twin that has
sleeping disabled.'''
LEVEL_NOTE = '''Sampled scenes and histories, not exhaustive. Not covered: actuated trees, tendon-induced waking, flexes, RK4
(documented unsupported), wake-ups inside multi-threaded stepping, keyframe resets. The island used in I2 is the engine's own island
labelling of that step (its correctness is C17's subject). The differential stops at the first sleep event of a history.
Trusted: ctypes binding and X-macro reflection, the verification build.'''
