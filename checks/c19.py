"""C19 - Internal stack and arena allocation is memory-safe.

Domain : (seq) generated well-nested op lists - mj_markStack / mj_freeStack / mj_stackAllocByte|Info|Num|Int /
         mj_arenaAllocByte, sizes absolute, "what is left minus k" (exact and near-exact fits), "more than is left",
         alignments 2^0..2^8 (arena 2^0..2^6), plus batches of concurrent reservations through mju_dispatch on a real
         thread pool (threadlock branch) - on an mjData of a tiny model with generated <size memory>;
         (pipe) every public (m, d) pipeline function and selected others on generated models, with and without an
         outstanding user frame that holds a pattern-filled block.
Oracle : Python interval model of live blocks (alignment, containment in the newly reserved part of the arena,
         pairwise disjointness incl. frame records and concurrently reserved blocks, byte patterns of live blocks intact,
         mj_freeStack restores the marked pstack/pbase, exhaustion = MjError (stack) / NULL (arena) exactly when the
         request cannot fit, no pointer moves on failure); engine calls return with the pstack/pbase they started with
         and do not touch live user blocks.  Run against the release build (byte-exact arithmetic, no red zones) and
         the ASan build (MuJoCo's own poisoning / red zones / mark-free pairing; helper writes are instrumented).
Workers are supervised processes (vf/asanproc.py): a sanitizer report or process death is a violation with the
journaled case.
"""
import threading

from vf import asanproc

KNOWN_FD = 'C19:mjd_stepFD-autoreset-inside-open-stack-frame'
KNOWN_TRN = 'C19:mj_transmission-moment-overrun-on-nonfinite-state'


def main(ck):
  ck.rule = ('seq: Hypothesis op lists (4-40 ops) x memory 1.2K-50K x alignments 2^0..2^8 on both build variants; '
             'non-trivial = (>=3 nested frames and >=1 allocation that fails) or a concurrent batch served by >=2 '
             'pool threads. pipe: generated models x state x optional user frame; non-trivial = >=20 engine calls '
             'probed and the engine used its stack. distinct by full case')
  ck.assumptions = [
      'concurrent reservations (threadlock branch) are exercised on the release build only: in ASan builds mju_dispatch '
      'itself fails MuJoCo\'s mark/free pairing check (see LEVEL_NOTE), interleavings are those the OS scheduler produces '
      '(rendezvous barrier inside the task function), not an exhaustive schedule enumeration',
      'arena alignments are limited to <= 64 (the documented alignment of the arena base)',
      '"no spurious exhaustion" allows 64 bytes of red-zone bookkeeping per stack block in the ASan build']
  nseq_rel, nseq_asan, npipe = ck.budget(750, 40000), ck.budget(300, 6000), ck.budget(24, 480)
  shards = 3 if ck.quick else 14
  jobs_rel, jobs_asan = [], []
  for s in range(shards):
    jobs_rel.append(dict(family='seq', variant='rel', tier=ck.tier, seed=ck.seed, shard=s, n=nseq_rel // shards))
    jobs_asan.append(dict(family='seq', variant='asan', tier=ck.tier, seed=ck.seed, shard=s, n=nseq_asan // shards))
  pshards = 1 if ck.quick else 8
  for s in range(pshards):
    jobs_rel.append(dict(family='pipe', variant='rel', tier=ck.tier, seed=ck.seed, shard=s, n=npipe // pshards))
    jobs_asan.append(dict(family='pipe', variant='asan', tier=ck.tier, seed=ck.seed, shard=s, n=npipe // pshards))
  # build both variants (and the helper) once, before the workers race for the build lock
  from vf import build as vb, nativeso
  for v in ('rel', 'asan'):
    nativeso.build_so('c19_helper', [vb.NATIVE + '/C19/c19_helper.c'], v)
  out = {}

  def go(key, jobs, asan):
    out[key] = asanproc.run_jobs('checks.c19_worker', jobs, nproc=(6 if ck.quick else 8), asan=asan, tag='C19' + key,
                                 timeout=(600 if ck.quick else 3000), stall=(150 if ck.quick else 400))
  ths = [threading.Thread(target=go, args=('rel', jobs_rel, False)),
         threading.Thread(target=go, args=('asan', jobs_asan, True))]
  for t in ths:
    t.start()
  for t in ths:
    t.join()
  for key, jobs in (('rel', jobs_rel), ('asan', jobs_asan)):
    for job, res in zip(jobs, out[key]):
      if res['ok']:
        asanproc.merge(ck, res['result'])
        for k, v in res['result'].get('extra', {}).items():
          ck.extra[k] = v
      elif res.get('harness'):
        raise RuntimeError('worker setup failed (%s): %s' % (job, res['stderr'][-1500:]))
      elif asanproc.is_asan_compile_loop(res):
        # ASan-build-only endless loop in mjCModel::Compile (see LEVEL_NOTE): the shard is abandoned, not judged
        ck.discard('shard aborted: ASan-build compile loop (instrumentation artefact)')
        ck.extra['asan_compile_loop_model'] = ((res.get('journal') or {}).get('xml') or '')[:2000]
      else:
        fp = None
        if job['family'] == 'pipe' and 'mjd_stepFD' in (res['report'] or '') and res['kind'] == 'use-after-poison':
          fp = KNOWN_FD
          ck.case(nontrivial=True, key=('pipe-fd-crash', job['variant'], job['shard']), labels=['pipe:fd-reset-inside-frame'])
        if job['family'] == 'pipe' and ' in mj_transmission ' in (res['report'] or '') and \
            res['kind'] in ('use-after-poison', 'heap-buffer-overflow'):
          fp = KNOWN_TRN       # the model went unstable: pipeline call on a non-finite state
          ck.case(nontrivial=True, key=('pipe-trn-crash', job['variant'], job['shard']), labels=['pipe:transmission-overrun'])
        ck.violation('worker process died (%s, rc=%s) in %s @ %s\n%s' % (
            res['kind'], res['rc'], job['family'], res['frame'], (res['report'] or res['stderr'])[:3000]),
            dict(job=job, journal=res.get('journal'), report=res['report'][:6000]),
            bucket='%s:%s:%s' % (job['family'], res['kind'], res['frame']), fingerprint=fp)


LEVEL = 'exploration'
TECHNIQUE = ('property-based testing: generated allocator op lists judged by an interval model of live blocks, on the '
             'release and ASan builds (MuJoCo arena poisoning/red zones), incl. real thread-pool reservation batches; '
             'pstack/pbase probe around every public pipeline call on generated models')
LEVEL_TEXT = '''Generated well-nested sequences of marks, frees, stack allocations (all four entry points, alignments 2^0..2^8,
sizes incl. exact fits and over-asks) and arena allocations are executed on real mjData objects and every returned block,
pointer move and failure is compared with a Python interval model; concurrent reservations run on a real mju_threadpool.
Every public (m,d) pipeline function (+ derivative/ray/Jacobian helpers) is wrapped by a stack-pointer probe with a live user
block. Sampled, not exhaustive.'''
LEVEL_NOTE = '''Trusted: the verification build, ctypes/reflection layer, native helper native/C19/c19_helper.c.
Not covered: exhaustive interleavings of concurrent reservations (OS-scheduled threads with a rendezvous only); the threadlock
branch under ASan - in the ASan build mju_dispatch (engine_thread.cc, C++) always fails MuJoCo's own "mj_markStack has no
corresponding mj_freeStack" check because the always_inline wrappers of mjsan.h symbolize as "mj_markStack(mjData_*)" in C++
translation units and are not recognised by the ignore list in engine_crossplatform.cc (reported as a finding, instrumentation
only); arena alignments > 64 (base alignment of the arena). A second ASan-build-only artefact: when a model fails to compile with an
engine error while a stack frame is open, mjCModel::Compile loops forever (mj_deleteData's dangling-frame check raises inside the catch
block and the compiler's handler longjmps back into the try block); a stalled worker with that backtrace is abandoned, not judged.'''
