"""C19 worker: runs one shard (family x variant) of the C19 check inside a supervised process.

Families
  seq   : generated well-nested op lists (mark / free / stackAllocByte|Info|Num|Int / arenaAllocByte / dispatch batch)
          on an mjData of a tiny model with generated <size memory>, judged by a Python interval model of live blocks.
  pipe  : every public (m, d) pipeline function + selected others on generated models, wrapped by a pstack/pbase
          probe, optionally with an outstanding user frame holding a pattern-filled block.
Variants: 'asan' (MuJoCo's own poisoning/red zones/mark-free pairing active, helper writes go through instrumented
code) and 'rel' (no red zones: overlap and exact-fit arithmetic are observable at byte granularity; real thread pool).
"""
import ctypes as C
import re
import sys

import numpy as np
from hypothesis import strategies as st

from vf import asanproc
from vf import build as vb
from vf import mj
from vf import modelgen as mg
from vf import nativeso
from vf.runner import Violation

FRAME_BYTES = 2 * C.sizeof(C.c_size_t) + C.sizeof(C.c_void_p)   # mjStackFrame {size_t, size_t, void*}
OPCODE = dict(mark=0, free=1, byte=2, num=3, int=4, arena=5, info=6)
# astronomically large requests (bytes): around the address range of the arena (2^47), 2^48, 2^62, 2^63 and "negative" sizes
# 2^64-k (what an overflowed int count turns into); expected: error (stack) / NULL (arena), no pointer moved
HUGE = [2 ** 47 - 4096, 2 ** 47, 2 ** 47 + 12345, 2 ** 48, 2 ** 48 + 8, 2 ** 56, 2 ** 62, 2 ** 63 - 8, 2 ** 63, 2 ** 63 + 64,
        2 ** 64 - 1, 2 ** 64 - 8, 2 ** 64 - 64, 2 ** 64 - 4096, 2 ** 64 - 2 ** 20]
# element counts for mj_stackAllocNum / mj_stackAllocInt whose byte size is huge or overflows size_t
HUGE_COUNT = [2 ** 44, 2 ** 45, 2 ** 59, 2 ** 60, 2 ** 61 - 2, 2 ** 61 - 1, 2 ** 61, 2 ** 61 + 1, 2 ** 62 - 1, 2 ** 62, 2 ** 62 + 3,
              2 ** 63, 2 ** 64 - 1, 2 ** 64 - 2]
REM = [0, 1, 2, 3, 7, 8, 9, 15, 16, 23, 24, 25, 31, 32, 33, 63, 64, 65, 87, 88, 89, 95, 96, 127, 128, 129, 255, 256]


class Res(C.Structure):
  _fields_ = [(n, C.c_ulonglong) for n in ('ptr', 'pstack', 'pbase', 'parena', 'maxuse_stack', 'maxuse_arena')] + \
             [('err', C.c_int)]


def load_helper(variant):
  so = nativeso.build_so('c19_helper', [vb.NATIVE + '/C19/c19_helper.c'], variant)
  h = C.CDLL(so)
  h.c19_op.argtypes = [C.c_void_p, C.c_int, C.c_size_t, C.c_size_t, C.POINTER(Res)]
  h.c19_fill.argtypes = [C.c_void_p, C.c_size_t, C.c_int]
  h.c19_verify.argtypes = [C.c_void_p, C.c_size_t, C.c_int]
  h.c19_verify.restype = C.c_long
  h.c19_dispatch.argtypes = [C.c_void_p] * 2 + [C.c_int] * 2 + [C.c_void_p] * 5 + [C.c_int] * 2 + [C.POINTER(Res)]
  h.c19_threadlock.argtypes = [C.c_void_p]
  return h


# ------------------------------------------------------------------------------------------- generators

def sizespec():
  return st.one_of(
      st.tuples(st.just('abs'), st.integers(0, 64)),
      st.tuples(st.just('abs'), st.integers(0, 300)),
      st.tuples(st.just('abs'), st.integers(0, 300)),
      st.tuples(st.just('abs'), st.integers(0, 300)),
      st.tuples(st.just('abs'), st.integers(300, 6000)),
      st.tuples(st.just('rem'), st.sampled_from(REM)),
      st.tuples(st.just('rem'), st.sampled_from(REM)),            # avail - k   (fits exactly / nearly)
      st.tuples(st.just('over'), st.sampled_from([1, 2, 8, 64, 1000])),   # avail + k   (cannot fit)
      st.tuples(st.just('frac'), st.integers(1, 7)),              # avail * j / 8
      st.tuples(st.just('huge'), st.integers(0, 10 ** 6)),        # index into HUGE / HUGE_COUNT
  )


@st.composite
def sequences(draw, allow_dispatch):
  memory = draw(st.one_of(st.sampled_from([1500, 2048, 4096, 8000, 16384, 40000]), st.integers(1200, 50000),
                          st.integers(4000, 50000)))
  nthread = draw(st.integers(1, 4)) if (allow_dispatch and draw(st.integers(0, 2)) > 0) else 0
  nops = draw(st.integers(4, 40))
  kinds = ['mark', 'mark', 'mark', 'free', 'free', 'byte', 'byte', 'byte', 'info', 'num', 'int', 'arena', 'arena']
  if nthread:
    kinds += ['dispatch', 'dispatch']
  ops = []
  depth = 0
  for _ in range(nops):
    k = draw(st.sampled_from(kinds))
    if k == 'free' and depth == 0:
      k = 'mark'
    if k == 'mark':
      depth += 1
      ops.append(['mark'])
    elif k == 'free':
      depth -= 1
      ops.append(['free'])
    elif k in ('byte', 'info'):
      ops.append([k, list(draw(sizespec())), draw(st.integers(0, 8))])
    elif k == 'arena':
      ops.append([k, list(draw(sizespec())), draw(st.integers(0, 6))])
    elif k in ('num', 'int'):
      ops.append([k, list(draw(sizespec()))])
    else:
      ntask = draw(st.integers(2, 12))
      nalloc = draw(st.integers(1, 3))
      big = draw(st.integers(0, 3)) == 0
      allocs = [[draw(st.integers(1, 2000 if big else 200)), draw(st.integers(0, 8))] for _ in range(ntask * nalloc)]
      ops.append(['dispatch', ntask, nalloc, allocs, draw(st.sampled_from([0, 50, 2000]))])
  return dict(memory=memory, nthread=nthread, ops=ops)


# ------------------------------------------------------------------------------------------- interval model

class Machine:
  def __init__(self, lib, h, variant, ck):
    self.lib, self.h, self.variant, self.ck = lib, h, variant, ck
    # bytes of bookkeeping the allocator may add around a stack block; only used for the "no spurious exhaustion"
    # direction of the oracle (0 in release builds, two 32-byte red zones in MuJoCo's ASan mode, see engine_memory.c)
    self.slack = 64 if variant == 'asan' else 0

  def fail(self, msg, bucket):
    raise Violation('%s [variant=%s]' % (msg, self.variant), bucket=bucket)

  def run(self, case):
    lib, h = self.lib, self.h
    xml = ('<mujoco><size memory="%d"/><worldbody><body><joint type="slide"/><geom size=".1"/></body></worldbody>'
           '</mujoco>' % case['memory'])
    try:
      m = lib.model_from_xml(xml)
    except mj.MjError:
      self.ck.discard('compile(memory too small)')
      return None
    d = lib.make_data(m)
    if case['nthread']:
      lib.mju_threadpool(d, case['nthread'])
    try:
      return self.run_ops(m, d, case)
    finally:
      self.cleanup(d)

  def cleanup(self, d):
    # unwind whatever is left so that mj_deleteData's dangling-frame check (ASan mode) has nothing to complain about
    r = Res()
    for _ in range(200):
      if not d.pbase:
        break
      if self.h.c19_op(d.ptr, OPCODE['free'], 0, 0, C.byref(r)):
        break
    try:
      self.lib.mju_threadpool(d, 0)
      self.lib.mj_deleteData(d)
    except mj.MjError:
      pass
    object.__setattr__(d, '_own', False)

  def run_ops(self, m, d, case):
    lib, h = self.lib, self.h
    arena = int(d.arena)
    narena = int(d.narena)
    bottom = arena + narena
    if d.pstack or d.pbase or d.parena:
      self.fail('fresh mjData has pstack=%d pbase=%d parena=%d' % (d.pstack, d.pbase, d.parena), 'fresh')
    live = []          # dicts lo, hi, tag, kind ('stack'|'arena'|'frame'), depth
    frames = []        # (pstack_before, pbase_before)
    labels = set()
    stats = dict(maxdepth=0, fails=0, nulls=0, threads=0, exact=0, allocs=0)
    r = Res()
    tagc = [0]

    def newtag():
      tagc[0] = tagc[0] % 250 + 1
      return tagc[0]

    def verify_live(when):
      for b in live:
        if b['kind'] == 'frame' or b['hi'] == b['lo']:
          continue
        bad = h.c19_verify(b['lo'], b['hi'] - b['lo'], b['tag'])
        if bad >= 0:
          self.fail('live %s block [%#x,%#x) corrupted at byte %d %s' % (b['kind'], b['lo'], b['hi'], bad, when),
                    'corruption')

    def check_disjoint(lo, hi, what):
      for b in live:
        if lo < b['hi'] and b['lo'] < hi:
          self.fail('%s block [%#x,%#x) overlaps live %s block [%#x,%#x)' % (what, lo, hi, b['kind'], b['lo'], b['hi']),
                    'overlap')

    def unwind(reason):
      while frames:
        do_free(reason)

    def do_free(why=''):
      ps0, pb0 = frames.pop()
      depth = len(frames) + 1
      verify_live('before mj_freeStack')
      if h.c19_op(d.ptr, OPCODE['free'], 0, 0, C.byref(r)):
        self.fail('mj_freeStack raised: %s' % lib.raw.vf_last_error().decode(errors='replace')[:300], 'free-error')
      if (r.pstack, r.pbase) != (ps0, pb0):
        self.fail('mj_freeStack%s restored (pstack,pbase)=(%d,%#x), marked values were (%d,%#x)' % (
            why, r.pstack, r.pbase, ps0, pb0), 'free-restore')
      live[:] = [b for b in live if not (b['kind'] in ('stack', 'frame') and b['depth'] >= depth)]

    for op in case['ops']:
      kind = op[0]
      ps0, pb0, pa0 = int(d.pstack), int(d.pbase), int(d.parena)
      avail = narena - pa0 - ps0
      if ps0 + pa0 > narena:
        self.fail('pstack+parena=%d exceeds narena=%d' % (ps0 + pa0, narena), 'bounds')
      if kind == 'mark':
        rc = h.c19_op(d.ptr, 0, 0, 0, C.byref(r))
        if rc:
          stats['fails'] += 1
          labels.add('fail:mark')
          if FRAME_BYTES + 7 + self.slack <= avail:
            self.fail('mj_markStack reported exhaustion with %d bytes available' % avail, 'spurious-exhaustion')
          if (r.pstack, r.pbase, r.parena) != (ps0, pb0, pa0):
            self.fail('failed mj_markStack changed the pointers', 'error-state')
          verify_live('after failed mj_markStack')
          unwind(' (after failed mark)')
          break
        frames.append((ps0, pb0))
        stats['maxdepth'] = max(stats['maxdepth'], len(frames))
        if r.pstack < ps0 + FRAME_BYTES or r.pstack + pa0 > narena:
          self.fail('mj_markStack: pstack %d -> %d (narena %d, parena %d)' % (ps0, r.pstack, narena, pa0), 'bounds')
        fb = int(r.pbase)
        if bottom - int(r.pstack) <= fb and fb + FRAME_BYTES <= bottom - ps0:
          # the frame record lives in the stack (address published in pbase): treat it as a live block
          check_disjoint(fb, fb + FRAME_BYTES, 'frame record')
          live.append(dict(lo=fb, hi=fb + FRAME_BYTES, tag=0, kind='frame', depth=len(frames)))
        verify_live('after mj_markStack')
      elif kind == 'free':
        do_free()
      elif kind in ('byte', 'info', 'num', 'int', 'arena'):
        spec = op[1]
        if spec[0] == 'abs':
          size = spec[1]
        elif spec[0] == 'rem':
          size = max(0, avail - self.slack - spec[1])
        elif spec[0] == 'over':
          size = avail + spec[1]
        elif spec[0] == 'huge':
          size = HUGE[spec[1] % len(HUGE)]
          labels.add('huge-request')
        else:
          size = avail * spec[1] // 8
        if kind in ('num', 'int') and spec[0] == 'huge':
          n = HUGE_COUNT[spec[1] % len(HUGE_COUNT)]
          align = 8 if kind == 'num' else 4
          size = n * align          # true (unwrapped) byte size
          a, b = n, 0
          labels.add('huge-count')
        elif kind == 'num':
          n, size, align = size // 8, (size // 8) * 8, 8
          a, b = n, 0
        elif kind == 'int':
          n, size, align = size // 4, (size // 4) * 4, 4
          a, b = n, 0
        else:
          align = 1 << op[2]
          a, b = size, align
        # (sizes whose arithmetic wrapped used to abort the ASan runtime; repaired by fix fc2bb68af, so they are judged in both builds)
        rc = h.c19_op(d.ptr, OPCODE[kind], a, b, C.byref(r))
        ps1, pb1, pa1, p = int(r.pstack), int(r.pbase), int(r.parena), int(r.ptr)
        labels.add('align=%d' % align)
        if kind == 'arena':
          pad = (-pa0) % align
          if rc:
            self.fail('mj_arenaAllocByte raised an error: %s' % lib.raw.vf_last_error().decode(errors='replace')[:200],
                      'arena-error')
          if (ps1, pb1) != (ps0, pb0):
            self.fail('mj_arenaAllocByte changed pstack/pbase', 'arena-state')
          if not p:
            stats['nulls'] += 1
            labels.add('arena-null')
            if size and size + (align - 1) <= avail:
              self.fail('mj_arenaAllocByte(%d, %d) returned NULL with %d bytes available' % (size, align, avail),
                        'spurious-exhaustion')
            if size == 0 and pa1 != pa0:
              self.fail('zero-size arena allocation failed and moved parena', 'arena-state')
            if pa1 != pa0:
              self.fail('failed mj_arenaAllocByte moved parena %d -> %d' % (pa0, pa1), 'arena-state')
            verify_live('after failed mj_arenaAllocByte')
            continue
          if size > avail:
            msg = 'mj_arenaAllocByte(%d) succeeded with only %d bytes available (parena %d)' % (size, avail, pa0)
            if pa0 + pad + size >= 2 ** 64:
              # known finding (same root cause as the stack case): parena + padding + bytes wraps below bytes_available
              self.ck.violation(msg + ' [variant=%s]' % self.variant, dict(memory=case['memory'], op=op, parena=pa0),
                                bucket='huge-size-wrap-arena', fingerprint=KNOWN_WRAP)
              labels.add('known:huge-size-wrap-arena')
              stats['nulls'] += 1
              unwind(' (after wrapped huge arena request)')
              break
            self.fail(msg, 'missed-exhaustion')
          if p % align:
            self.fail('mj_arenaAllocByte(%d, align %d) returned misaligned %#x' % (size, align, p), 'alignment')
          if p < arena + pa0 or p + size > arena + pa1 or pa1 + ps0 > narena:
            self.fail('arena block [%#x,+%d) outside [arena+%d, arena+%d) (narena %d, pstack %d)' % (
                p, size, pa0, pa1, narena, ps0), 'bounds')
          check_disjoint(p, p + size, 'arena')
          if size:
            tag = newtag()
            h.c19_fill(p, size, tag)
            live.append(dict(lo=p, hi=p + size, tag=tag, kind='arena', depth=0))
          stats['allocs'] += 1
          if size and size + pad == avail:
            stats['exact'] += 1
            labels.add('exact-fit:arena')
          verify_live('after mj_arenaAllocByte')
          continue
        # ---- stack allocation
        if rc:
          stats['fails'] += 1
          labels.add('fail:' + kind)
          msg = lib.raw.vf_last_error().decode(errors='replace')
          if 'stack overflow' not in msg and not (kind in ('num', 'int') and 'too large' in msg and size >= 2 ** 63):
            self.fail('unexpected error from stack allocation: %s' % msg[:300], 'stack-error')
          if size + (align - 1) + self.slack <= avail:
            self.fail('mj_stackAlloc(%d, align %d) reported exhaustion with %d bytes available' % (size, align, avail),
                      'spurious-exhaustion')
          if (ps1, pb1, pa1) != (ps0, pb0, pa0):
            self.fail('failed stack allocation changed the pointers', 'error-state')
          verify_live('after failed stack allocation')
          unwind(' (after overflow error)')
          break
        if pa1 != pa0 or pb1 != pb0:
          self.fail('stack allocation changed parena/pbase', 'stack-state')
        if size == 0:
          labels.add('zero-size')
          if p or ps1 != ps0:
            self.fail('zero-size stack allocation returned %#x / moved pstack' % p, 'zero-size')
          continue
        if not p:
          self.fail('stack allocation of %d bytes returned NULL without error' % size, 'null')
        if size > avail:
          msg = 'stack allocation of %d bytes (align %d) succeeded with only %d available' % (size, align, avail)
          if kind in ('byte', 'info') and 0 < 2 ** 64 - size < align:
            # known finding: start_ptr = top - size wraps above the stack top and the alignment round-down brings it back
            self.ck.violation(msg + ' [variant=%s]' % self.variant, dict(memory=case['memory'], op=op, pstack=ps0),
                              bucket='huge-size-wrap', fingerprint=KNOWN_WRAP)
            labels.add('known:huge-size-wrap')
            stats['fails'] += 1
            unwind(' (after wrapped huge request)')
            break
          self.fail(msg, 'missed-exhaustion')
        if p % align:
          self.fail('mj_stackAlloc(%d, align %d) returned misaligned %#x' % (size, align, p), 'alignment')
        if ps1 < ps0 + size or ps1 + pa0 > narena:
          self.fail('pstack %d -> %d after allocating %d (narena %d, parena %d)' % (ps0, ps1, size, narena, pa0),
                    'bounds')
        if p < bottom - ps1 or p + size > bottom - ps0:
          self.fail('stack block [%#x,+%d) outside the newly reserved range [%#x,%#x)' % (
              p, size, bottom - ps1, bottom - ps0), 'bounds')
        check_disjoint(p, p + size, 'stack')
        tag = newtag()
        h.c19_fill(p, size, tag)
        live.append(dict(lo=p, hi=p + size, tag=tag, kind='stack', depth=len(frames)))
        stats['allocs'] += 1
        if self.variant == 'rel' and ps1 + pa0 == narena:
          stats['exact'] += 1
          labels.add('exact-fit:stack')
        verify_live('after stack allocation')
      elif kind == 'dispatch':
        if not self.dispatch(m, d, op, live, stats, labels, (ps0, pb0, pa0), arena, narena):
          verify_live('after failed dispatch')
          unwind(' (after dispatch with failures)')
          break
        verify_live('after mju_dispatch')
    unwind(' (final unwind)')
    verify_live('at end')
    unframed = sum(1 for b in live if b['kind'] == 'stack')
    if d.pbase or (d.pstack and not unframed):
      self.fail('after freeing every frame pstack=%d pbase=%#x (%d unframed blocks)' % (d.pstack, d.pbase, unframed),
                'free-restore')
    if stats['maxdepth'] >= 3:
      labels.add('depth>=3')
    return stats, labels

  def dispatch(self, m, d, op, live, stats, labels, before, arena, narena):
    lib, h = self.lib, self.h
    ps0, pb0, pa0 = before
    _, ntask, nalloc, allocs, spin = op
    n = ntask * nalloc
    size = np.array([a[0] for a in allocs], dtype=np.uint64)
    align = np.array([1 << a[1] for a in allocs], dtype=np.uint64)
    ptr = np.zeros(n, dtype=np.uint64)
    err = np.zeros(n, dtype=np.int32)
    th = np.full(ntask, -1, dtype=np.int32)
    r = Res()
    nth = lib.mju_numThread(d)
    rc = h.c19_dispatch(m.ptr, d.ptr, ntask, nalloc, size.ctypes.data, align.ctypes.data, ptr.ctypes.data,
                        err.ctypes.data, th.ctypes.data, spin, min(ntask, nth), C.byref(r))
    if rc:
      msg = lib.raw.vf_last_error().decode(errors='replace')
      avail0 = narena - pa0 - ps0
      if 'stack overflow' in msg and FRAME_BYTES + 7 + self.slack > avail0 and \
          (int(r.pstack), int(r.pbase), int(r.parena)) == (ps0, pb0, pa0) and not h.c19_threadlock(d.ptr):
        # no room for mju_dispatch's own frame record: legitimate exhaustion, nothing may have changed
        stats['fails'] += 1
        labels.add('fail:dispatch-mark')
        return False
      self.fail('mju_dispatch raised: %s' % msg[:300], 'dispatch-error')
    if (int(r.pstack), int(r.pbase), int(r.parena)) != (ps0, pb0, pa0):
      self.fail('mju_dispatch returned with (pstack,pbase,parena)=(%d,%#x,%d), entered with (%d,%#x,%d)' % (
          r.pstack, r.pbase, r.parena, ps0, pb0, pa0), 'dispatch-restore')
    if h.c19_threadlock(d.ptr):
      self.fail('mjData still thread-locked after mju_dispatch', 'dispatch-restore')
    bottom = arena + narena
    avail = narena - pa0 - ps0
    worst = FRAME_BYTES + 7 + self.slack + sum(int(size[i]) + int(align[i]) - 1 + self.slack for i in range(n))
    nerr = int(err.sum())
    used = sorted(set(int(t) for t in th))
    if -1 in used:
      self.fail('mju_dispatch did not run every task (threads %s)' % th.tolist(), 'dispatch-tasks')
    stats['threads'] = max(stats['threads'], len(used))
    labels.add('dispatch:threads=%d' % len(used))
    if nerr:
      stats['fails'] += nerr
      labels.add('fail:dispatch')
      if worst <= avail:
        self.fail('concurrent reservations reported exhaustion: worst-case need %d <= available %d' % (worst, avail),
                  'spurious-exhaustion')
    blocks = []
    for i in range(n):
      if err[i]:
        continue
      p, s, a = int(ptr[i]), int(size[i]), int(align[i])
      if not p:
        self.fail('concurrent allocation %d returned NULL without error' % i, 'null')
      if p % a:
        self.fail('concurrent allocation (size %d, align %d) misaligned: %#x' % (s, a, p), 'alignment')
      if p < arena + pa0 or p + s > bottom - ps0:
        self.fail('concurrent block [%#x,+%d) outside free range [%#x,%#x)' % (p, s, arena + pa0, bottom - ps0), 'bounds')
      for b in live:
        if p < b['hi'] and b['lo'] < p + s:
          self.fail('concurrent block [%#x,+%d) overlaps live %s block' % (p, s, b['kind']), 'overlap')
      blocks.append((p, p + s, i))
    blocks.sort()
    for (l0, h0, i0), (l1, h1, i1) in zip(blocks, blocks[1:]):
      if l1 < h0:
        self.fail('concurrent blocks overlap: #%d [%#x,%#x) (thread %d) and #%d [%#x,%#x) (thread %d)' % (
            i0, l0, h0, th[i0 // nalloc], i1, l1, h1, th[i1 // nalloc]), 'overlap-concurrent')
    # contents written by the tasks (read without instrumented code: the region is freed/poisoned again by now)
    for lo, hi, i in blocks:
      a = np.frombuffer((C.c_char * (hi - lo)).from_address(lo), dtype=np.uint8)
      if not np.all(a == 1 + (i % 250)):
        self.fail('concurrent block #%d was overwritten by another task' % i, 'overlap-concurrent')
    stats['allocs'] += len(blocks)
    return nerr == 0


# ------------------------------------------------------------------------------------------- pipeline probe

KNOWN_FD = 'C19:mjd_stepFD-autoreset-inside-open-stack-frame'
KNOWN_WRAP = 'C19:stack-alloc-size-near-2^64-wraps'


def warn_numbers(lib, d):
  off = lib.layout['mjData']['fields']['warning']['off']
  n = lib.enums.mjNWARNING
  buf = (C.c_char * (8 * n)).from_address(d.ptr + off)
  return np.frombuffer(buf, dtype=np.int32).reshape(n, 2)[:, 1]


PIPE_EXCLUDE = {'mj_resetData', 'mj_resetCtrl', 'mj_checkPos', 'mj_checkVel', 'mj_checkAcc'}


def public_md_functions():
  hdr = open(vb.REPO + '/include/mujoco/mujoco.h').read()
  names = re.findall(r'MJAPI\s+void\s+(\w+)\s*\(\s*const mjModel\*\s*m,\s*mjData\*\s*d\s*\)', hdr)
  return [n for n in names if n not in PIPE_EXCLUDE]


def run_pipe(lib, h, variant, ck, case, fns):
  gm, seed, frame, order_seed = case
  try:
    m = lib.model_from_xml(gm.xml)
  except mj.MjError:
    ck.discard('compile')
    return None
  d = lib.make_data(m)
  r = Res()
  rng = mg.apply_state(lib, m, d, seed)
  own = None
  try:
    lib.mj_forward(m, d)
    if d.pstack or d.pbase:
      raise Violation('mj_forward returned with pstack=%d pbase=%#x' % (d.pstack, d.pbase), bucket='pipe:mj_forward')
    if frame:
      # outstanding user frame with a pattern-filled block: engine calls must neither move nor overwrite it
      h.c19_op(d.ptr, 0, 0, 0, C.byref(r))
      size, al = frame
      if h.c19_op(d.ptr, 2, size, 1 << al, C.byref(r)) == 0 and r.ptr:
        own = (int(r.ptr), size, 0xA7)
        h.c19_fill(own[0], size, own[2])
    orng = np.random.RandomState(order_seed)
    nv, nu, na = m.nv, m.nu, m.na
    calls = [(fn, (m, d)) for fn in fns]
    if nv:
      M = np.zeros((nv, nv)); v = orng.randn(nv); out = np.zeros(nv)
      calls += [('mj_mulM', (m, d, out, v)), ('mj_solveM', (m, d, out, v, 1)), ('mj_rne', (m, d, 1, out)),
                ('mj_fullM', (m, d, M)),
                ('mj_applyFT', (m, d, orng.randn(3), orng.randn(3), orng.randn(3), int(orng.randint(m.nbody)), out))]
      nbody = m.nbody
      jp, jr = np.zeros((3, nv)), np.zeros((3, nv))
      calls += [('mj_jacBody', (m, d, jp, jr, int(orng.randint(nbody)))),
                ('mj_jacSubtreeCom', (m, d, jp, int(orng.randint(nbody)))),
                ('mj_angmomMat', (m, d, jp, int(orng.randint(nbody))))]
      ndx = 2 * nv + na
      if not m.nhistory:
        A, B = np.zeros((ndx, ndx)), np.zeros((ndx, max(nu, 1)))
        calls += [('mjd_transitionFD', (m, d, 1e-6, 1, A, B if nu else None, None, None))]
      dq = np.zeros((nv, nv)); dv = np.zeros((nv, nv)); da = np.zeros((nv, nv))
      calls += [('mjd_inverseFD', (m, d, 1e-6, 0, dq, dv, da, None, None, None, None))]
    if m.ngeom >= 2:
      ft = np.zeros(6)
      calls += [('mj_geomDistance', (m, d, 0, m.ngeom - 1, 1.0, ft))]
      gid = np.zeros(1, dtype=np.int32)
      calls += [('mj_ray', (m, d, np.array([0., 0, 2]), np.array([0., 0, -1]), None, 1, -1, gid, None))]
      nray = 5
      calls += [('mj_multiRay', (m, d, np.array([0., 0, 2]), orng.randn(nray, 3), None, 1, -1,
                                 np.zeros(nray, dtype=np.int32), np.zeros(nray), None, nray, 100.0))]
    # stage functions are only valid in pipeline order (doc/computation "Stages"): run them in that order after a
    # full mj_forward; self-contained entry points and helpers follow in generated order, each group after mj_forward
    STAGES = ['mj_fwdKinematics', 'mj_kinematics', 'mj_comPos', 'mj_camlight', 'mj_flex', 'mj_tendon', 'mj_crb', 'mj_makeM',
              'mj_factorM', 'mj_collision', 'mj_makeConstraint', 'mj_island', 'mj_projectConstraint', 'mj_transmission',
              'mj_sensorPos', 'mj_energyPos', 'mj_fwdVelocity', 'mj_comVel', 'mj_passive', 'mj_referenceConstraint',
              'mj_sensorVel', 'mj_energyVel', 'mj_subtreeVel', 'mj_fwdActuation', 'mj_fwdAcceleration',
              'mj_fwdConstraint', 'mj_sensorAcc', 'mj_rnePostConstraint']
    GROUPS = [['mj_step'], ['mj_step1', 'mj_step2'], ['mj_forward'], ['mj_inverse'],
              ['mj_forward', 'mj_invPosition', 'mj_invVelocity', 'mj_invConstraint'], ['mj_forward', 'mj_Euler'],
              ['mj_forward', 'mj_implicit'], ['mj_forward', 'mj_compareFwdInv'],
              ['mj_fwdPosition', 'mj_fwdVelocity', 'mj_fwdActuation', 'mj_fwdAcceleration', 'mj_fwdConstraint']]
    known = set(STAGES) | set(g for G in GROUPS for g in G)
    for fn in fns:
      if fn not in known:
        ck.label('pipe:unplaced:' + fn)
    orng.shuffle(calls)
    extras = [c for c in calls if c[0] not in fns]
    groups = list(GROUPS)
    orng.shuffle(groups)
    calls = [('mj_forward', (m, d))] + [(fn, (m, d)) for fn in STAGES if fn in fns]
    for G in groups:
      calls += [(fn, (m, d)) for fn in G]
    calls += [('mj_forward', (m, d))] + extras
    ncalls = 0
    E = lib.enums
    for name, args in calls:
      if name not in lib.sigs:
        continue
      if name == 'mj_implicit' and int(m.opt.integrator) not in (E.mjINT_IMPLICIT, E.mjINT_IMPLICITFAST):
        continue    # documented precondition (raises "integrator must be implicit or implicitfast")
      if name.startswith('mjd_') and int(m.opt.integrator) == E.mjINT_RK4:
        continue    # documented: "RK4 integrator is not supported" by the finite-difference derivatives
      if len(args) != len(lib.sigs[name]['params']):
        ck.label('pipe:sig-mismatch:' + name)
        continue
      ps0, pb0 = int(d.pstack), int(d.pbase)
      asanproc.journal(dict(family='pipe', xml=gm.xml, seed=seed, frame=frame, call=name))
      try:
        getattr(lib, name)(*args)
      except mj.MjError as e:
        if name.startswith('mjd_') and 'not supported' in str(e):
          ck.label('pipe:unsupported:' + name)     # documented precondition rejected up front
          if (int(d.pstack), int(d.pbase)) != (ps0, pb0):
            break
          continue
        raise
      ncalls += 1
      if (int(d.pstack), int(d.pbase)) != (ps0, pb0):
        nreset = int(warn_numbers(lib, d)[[E.mjWARN_BADQPOS, E.mjWARN_BADQVEL, E.mjWARN_BADQACC]].sum())
        if nreset and name in ('mj_step', 'mj_step1', 'mj_step2') and int(d.pstack) == 0:
          # documented exception (programming/simulation, "mjData stack"): mj_resetData sets pstack = 0 and is called
          # internally when an instability is detected in mj_step, mj_step1 and mj_step2
          ck.label('pipe:documented-reset-in-' + name)
          own = None
          frame = None
          break
        msg = '%s returned with (pstack,pbase)=(%d,%#x), entered with (%d,%#x) [variant=%s]' % (
            name, d.pstack, d.pbase, ps0, pb0, variant)
        if nreset and name.startswith('mjd_'):
          # known finding: the finite-difference derivatives step the model inside their own open stack frame; an
          # automatic reset in there zeroes pstack under them
          ck.violation(msg, dict(xml=gm.xml, seed=seed, frame=frame, call=name), bucket='pipe-fd-reset',
                       fingerprint=KNOWN_FD)
          ck.label('pipe:fd-reset-inside-frame')
          own = None
          frame = None
          break
        raise Violation(msg, bucket='pipe:' + name)
      if own:
        bad = h.c19_verify(own[0], own[1], own[2])
        if bad >= 0:
          raise Violation('%s overwrote byte %d of a live user stack block [variant=%s]' % (name, bad, variant),
                          bucket='pipe-clobber:' + name)
    if frame:
      h.c19_op(d.ptr, 1, 0, 0, C.byref(r))
      if r.pstack or r.pbase:
        raise Violation('after freeing the user frame pstack=%d pbase=%#x' % (r.pstack, r.pbase), bucket='pipe:free')
    return ncalls, int(d.maxuse_stack), int(d.ncon), int(d.nefc)
  finally:
    for _ in range(50):
      if not d.pbase:
        break
      if h.c19_op(d.ptr, 1, 0, 0, C.byref(r)):
        break
    try:
      lib.mj_deleteData(d)
    except mj.MjError:
      pass
    object.__setattr__(d, '_own', False)


# ------------------------------------------------------------------------------------------- worker entry

def handler(job):
  import time
  t0 = time.time()
  out = handler1(job)
  out['extra']['wall_%s_%s_%d' % (job['family'], job['variant'], job['shard'])] = round(time.time() - t0, 1)
  return out


def handler1(job):
  variant = job['variant']
  lib = mj.load(variant)
  h = load_helper(variant)
  ck = asanproc.WorkerCheck('C19', job['tier'], job['seed'])
  name = '%s-%s-%d' % (job['family'], variant, job['shard'])
  if job['family'] == 'seq':
    mach = Machine(lib, h, variant, ck)

    def test(case):
      asanproc.journal(dict(family='seq', variant=variant, case=case))
      out = mach.run(case)
      if out is None:
        return
      stats, labels = out
      conc = stats['threads'] >= 2
      failed = stats['fails'] + stats['nulls'] > 0
      nt = (stats['maxdepth'] >= 3 and failed) or conc
      labels = sorted(labels) + ['variant=' + variant]
      ck.case(nontrivial=nt, key=('seq', variant, case),
              sample=dict(variant=variant, memory=case['memory'], nthread=case['nthread'], nops=len(case['ops']),
                          first_ops=case['ops'][:6], stats=stats) if nt else None, labels=labels)
    ck.run_hypothesis(test, sequences(allow_dispatch=(variant == 'rel')), job['n'], name=name)
  else:
    fns = public_md_functions()
    ck.extra['pipe_functions'] = len(fns)

    def test(case):
      out = run_pipe(lib, h, variant, ck, case, fns)
      if out is None:
        return
      ncalls, maxuse, ncon, nefc = out
      gm, seed, frame, _ = case
      nt = ncalls >= 20 and maxuse > 0
      ck.case(nontrivial=nt, key=('pipe', variant, gm.xml, seed, frame),
              sample=dict(variant=variant, calls=ncalls, maxuse_stack=maxuse, ncon=ncon, nefc=nefc, user_frame=frame,
                          xml=gm.xml[:400]) if nt else None,
              labels=['pipe', 'pipe:variant=' + variant, 'pipe:userframe' if frame else 'pipe:noframe',
                      'pipe:contacts' if ncon else 'pipe:nocontact'])
    strat = st.tuples(mg.models(max_bodies=4, sensors=True, plane=None), mg.state_seed(),
                      st.one_of(st.none(), st.tuples(st.integers(1, 600), st.integers(0, 8))), st.integers(0, 2 ** 31 - 1))
    ck.run_hypothesis(test, strat, job['n'], name=name)
  return ck.export()


if __name__ == '__main__':
  asanproc.worker_main(handler)
