"""C20 - Exhausted arena memory is handled gracefully.

Domain : generated contact-rich scenes (piles of 3-14 free bodies of 5 geom types on a plane, optional articulated chain
         with joint limits / friction loss / connect / limited tendon; all solvers, cones, Jacobian modes, islands on/off,
         noslip, multiccd) x memory sizes: the memory need of 3 steps is found by binary search (smallest <size memory>
         whose run is warning-free and identical to the unbounded run), likewise the smallest size that still compiles;
         then sizes below the need are swept (quick: 40 evenly spaced + every 64 bytes in the 4 KB above the compile
         minimum + need-1/need/need+64; thorough: every 64 bytes).
Oracle : per (scene, size) in a supervised ASan worker (and the release build for half of the scenes): mj_step completes or
         raises a catchable mju_error - never a sanitizer report / process death; when it completes: counts and pointers
         consistent (0 <= ncon, nefc; contact.efc_address in [-1, nefc); efc arrays non-NULL inside the arena; parena,
         maxuse_arena <= narena; pstack = 0), state and efc_force finite; for the first steps (same pre-state as the
         unbounded run): contacts are a subset of the unbounded run's contacts, a smaller ncon/nefc implies
         CONTACTFULL/CNSTRFULL was raised in that step, and without a warning ncon, nefc, qpos, qvel are bit-identical to
         the unbounded run.
"""
from hypothesis import strategies as st

from vf import asanproc
from vf import gen_contact as gc


def main(ck):
  ck.rule = ('Hypothesis scenes (collected in the parent, executed in workers) x swept memory sizes; one evaluation = one '
             '(scene, memory size, build variant) run of up to 3 steps; non-trivial = an allocation site failed: a '
             'CONTACTFULL/CNSTRFULL warning or a catchable mju_error was observed; distinct by (scene, size, variant)')
  ck.assumptions = ['"warning iff smaller set" is asserted as: smaller set => warning, and no warning => identical result; '
                    'a warning with an unchanged ncon/nefc is legal (island arrays failing only disables islands)',
                    'the need is searched by bisection, assuming clean runs are monotone in memory up to alignment effects; '
                    'need and need+64 are re-checked to be clean']
  nmodels = ck.budget(8, 200)
  scenes = []

  def collect(case):
    scenes.append(case)
  ck.run_hypothesis(collect, st.tuples(gc.scenes(max_objects=14 if ck.quick else 24), st.integers(0, 2 ** 31 - 1)),
                    nmodels, name='scenes')
  scenes[:] = scenes[:nmodels]
  jobs = []
  for i, (scene, seed) in enumerate(scenes):
    base = dict(scene=scene, seed=seed, nsteps=3, coarse=40, dense_step=64, dense_span=4096,
                every=None if ck.quick else 64)
    jobs.append(dict(base, variant='asan'))
  jobs_rel = [dict(j, variant='rel') for j in jobs[::2]]
  from vf import build as vb
  for v in ('rel', 'asan'):
    vb.build(v)
  import threading
  out = {}

  def go(key, js, asan, nproc):
    out[key] = asanproc.run_jobs('checks.c20_worker', js, nproc=nproc, asan=asan, tag='C20' + key,
                                 timeout=(600 if ck.quick else 5400))
  ths = [threading.Thread(target=go, args=('asan', jobs, True, 6 if ck.quick else 12)),
         threading.Thread(target=go, args=('rel', jobs_rel, False, 2 if ck.quick else 4))]
  for t in ths:
    t.start()
  for t in ths:
    t.join()
  needs = []
  for key, js in (('asan', jobs), ('rel', jobs_rel)):
    for job, res in zip(js, out[key]):
      scene = job['scene']
      if not res['ok']:
        if res.get('harness'):
          raise RuntimeError('worker setup failed: %s' % res['stderr'][-1500:])
        j = res.get('journal') or {}
        ck.violation('memory=%s step=%s [%s build]: worker process died (%s, rc=%s) @ %s\n%s' % (
            j.get('memory'), j.get('step'), key, res['kind'], res['rc'], res['frame'],
            (res['report'] or res['stderr'])[:3000]),
            dict(xml=gc.render(scene, j.get('memory')), seed=job['seed'], memory=j.get('memory'), step=j.get('step'),
                 variant=key, report=res['report'][:6000]),
            bucket='%s:%s' % (res['kind'], res['frame']))
        ck.case(nontrivial=True, key=('death', key, scene['body'], j.get('memory')), labels=['process-death:' + key])
        continue
      r = res['result']
      for v in r['violations']:
        ck.violation('%s [%s build]' % (v['msg'], key), dict(xml=gc.render(scene), seed=job['seed'], variant=key),
                     bucket=v['bucket'])
      if r['need'] is not None:
        needs.append(dict(variant=key, nobj=scene['nobj'], need=r['need'], min_compile=r['min_compile'],
                          maxuse_unbounded=r.get('maxuse_unbounded'), ref=r['ref']))
      for o in r['outcomes']:
        nt = o['kind'] == 'error' or (o['kind'] == 'ok' and bool(o['warn']))
        labels = ['variant=' + key, 'outcome:' + o['kind']] + scene['labels']
        if o['kind'] == 'error':
          labels.append('error@' + str(o['site']))
        for wn in o.get('warn', []):
          labels.append('warn:' + wn)
        if o['kind'] == 'ok' and not o['warn']:
          labels.append('outcome:clean')
        ck.case(nontrivial=nt, key=(key, scene['body'], job['seed'], o['S']),
                sample=dict(variant=key, nobj=scene['nobj'], memory=o['S'], need=r['need'], outcome=o['kind'],
                            warnings=o.get('warn'), error_site=o.get('site'), steps_completed=o.get('steps'),
                            unbounded_ncon_nefc=r['ref']) if nt else None,
                labels=labels)
  ck.extra['needs'] = needs[:12]
  ck.extra['scenes'] = len(scenes)


LEVEL = 'exploration'
TECHNIQUE = ('fault injection by resource exhaustion: generated contact-rich scenes x swept <size memory> below the bisected '
             'need, ASan build (MuJoCo arena poisoning) and release build in supervised worker processes; differential '
             'oracle against the unbounded run + structural invariants')
LEVEL_TEXT = '''Generated scenes are stepped with every swept arena size between the smallest size that compiles and the bisected need of
the run; each run must end in a completed step with consistent, truncated constraint data and the matching warning, or in a
catchable mju_error - a sanitizer report or a dead process is a violation with the (scene, size, step) journal. Sampled scenes,
dense but not exhaustive size sweep in the quick tier.'''
LEVEL_NOTE = '''Trusted: verification build and shims, reflection layer, process supervision (vf/asanproc.py). Not covered: flex/SDF
collision paths, plugin sensors, multi-threaded collision (mju_dispatch) under tiny memory.'''
