"""C20 - Exhausted arena memory is handled gracefully.

Domain : generated contact-rich scenes (piles or margin-clusters of 3-10 (thorough: 24) free bodies of 5 geom types on a
         plane, optional articulated chain with joint limits / friction loss / connect / limited tendon; all solvers, cones,
         Jacobian modes, islands on/off, noslip, multiccd) + 3 fixed scenes (dual-solver sparse/dense, 14-sphere cluster) x
         memory sizes from 0 up to the need: the need of the run is bisected around mjData.maxuse_arena of the unbounded
         run (smallest arena whose run is warning-free and identical to the unbounded run), then sizes are swept (quick:
         ~150 evenly spaced + every 32 bytes below 4 KB + need-1/need/need+64; thorough: every 64 bytes (at most 1500 sizes per scene), every 8 below
         8 KB).  The arena size is applied as mjModel.narena on the model compiled with ample memory.
Oracle : per (scene, size) in a supervised ASan worker (and the release build for half of the scenes): mj_makeData/mj_step
         complete or raise a catchable mju_error - never a sanitizer report / process death; when a step completes: counts
         and pointers consistent (0 <= ncon, nefc; contact.efc_address in [-1, nefc); efc arrays non-NULL inside the arena;
         parena, maxuse_arena <= narena; pstack = pbase = 0), state and efc_force finite; for the first steps (same
         pre-state as the unbounded run): contacts are a subset of the unbounded run's contacts, a smaller ncon/nefc
         implies CONTACTFULL/CNSTRFULL was raised in that step, and without a warning ncon, nefc, qpos, qvel are
         bit-identical to the unbounded run.
"""
import json
import os
import re
import shutil
import subprocess
import sys
import threading
import time

import numpy as np
from hypothesis import strategies as st

from vf import asanproc
from vf import gen_contact as gc


KNOWN_ISLAND = 'C20:clearIsland-zeroes-nefc-keeps-contact-efc_address'
KNOWN_PAIR = 'C20:pushPairArena-null-deref'


def postmortem(job, S):
  """Re-run one (scene, size) of a dead release-build worker under gdb: innermost frame + fault address."""
  if S is None or not shutil.which('gdb'):
    return ''
  d = os.path.join(asanproc.WORK, 'proc', 'C20pm')
  os.makedirs(d, exist_ok=True)
  jf = os.path.join(d, 'pm%d.jobs.json' % os.getpid())
  with open(jf, 'w') as f:
    json.dump([[0, dict(job, need=1 << 20, chunk=0, nchunk=1, min_size=0, only=[S])]], f)
  try:
    p = subprocess.run(['gdb', '-batch', '-ex', 'run', '-ex', 'bt 8', '-ex', 'p $_siginfo._sifields._sigfault', '--args',
                        sys.executable, '-m', 'checks.c20_worker', jf, jf + '.out'], cwd=asanproc.runner.VERIF,
                       env=asanproc.plain_env(), capture_output=True, text=True, errors='replace', timeout=300)
    out = p.stdout[-4000:]
  except Exception as e:
    out = 'postmortem failed: %r' % e
  for f in (jf, jf + '.out', jf + '.out.journal'):
    try:
      os.unlink(f)
    except OSError:
      pass
  keep = [l for l in out.split('\n') if l.startswith('#') or 'SIG' in l or 'si_addr' in l]
  return '\n'.join(keep)[:3000]


def sizes_for(need, quick, low_only=False):
  sizes = set([need - 1, need, need + 64, 0, 1, 8, 63, 64])
  if low_only:
    return sorted(sizes | set(range(0, min(need, 8192), 32 if quick else 8)))
  if quick:
    # ~150 sizes per scene: every failure window wider than need/150 (>= 64 bytes) is hit at least once
    sizes |= set(range(0, need, max(64, (need // 150) // 8 * 8)))
    sizes |= set(range(0, min(need, 4096), 32))
  else:
    sizes |= set(range(0, need, 64))
    sizes |= set(range(0, min(need, 8192), 8))
  return sorted(x for x in sizes if x >= 0)


def main(ck):
  ck.rule = ('Hypothesis scenes (collected in the parent, executed in workers) x swept memory sizes; one evaluation = one '
             '(scene, memory size, build variant) run of up to 3 steps (2 in the quick tier); non-trivial = an allocation site failed: a '
             'CONTACTFULL/CNSTRFULL warning or a catchable mju_error was observed (or the run violated the property); '
             'distinct by (scene, size, variant)')
  ck.assumptions = ['"warning iff smaller set" is asserted as: smaller set => warning, and no warning => identical result; '
                    'a warning with an unchanged ncon/nefc is legal (island arrays failing only disables islands)',
                    'the need is searched by bisection, assuming clean runs are monotone in memory up to alignment effects; '
                    'need and need+64 are re-checked to be clean',
                    'the arena size is applied as mjModel.narena on the model compiled with ample memory (that is what '
                    '<size memory> compiles to); sizes too small for the compiler itself are thereby also covered',
                    'a release-build worker death carries no report: it is attributed to the known pushPairArena finding only if '
                    'the ASan sweep of the same scene died in pushPairArena as well']
  nmodels = ck.budget(6, 20)
  scenes = []

  def collect(case):
    scenes.append(case)
  ck.run_hypothesis(collect, st.tuples(gc.scenes(max_objects=10 if ck.quick else 24), st.integers(0, 2 ** 31 - 1)),
                    nmodels, name='scenes')
  scenes[:] = scenes[:nmodels]
  # fixed regression scene (found by this check): 14 spheres whose margins make every pair pass the broadphase, so that
  # the arena need of the pair list exceeds the stack need of the broadphase (window of sizes with a failing pair push)
  balls = ''.join('<body pos="%g %g %g"><freejoint/><geom type="sphere" size="0.1" margin="0.6"/></body>' % (
      (i % 4) * 0.26, ((i // 4) % 4) * 0.26, 0.098) for i in range(14))
  scenes.append((dict(body='<worldbody><geom type="plane" size="5 5 .1"/>%s</worldbody>' % balls,
                      labels=['layout:cluster', 'regression-scene', 'pair-window'], nobj=14), 0))
  # two fixed scenes that guarantee the dual-solver paths (efc_Y / efc_AR arena arrays), sparse and dense
  boxes = ''.join('<body pos="%g %g %g"><freejoint/><geom type="box" size=".1 .08 .06" condim="%d"/></body>' % (
      (i % 2) * 0.17, ((i // 2) % 2) * 0.15, 0.058 + (i // 4) * 0.115, (3, 4, 6, 1)[i % 4]) for i in range(8))
  for jac, extra in (('sparse', ''), ('dense', ' noslip_iterations="2"')):
    scenes.append((dict(body='<option solver="%s" jacobian="%s" cone="elliptic"%s/><worldbody><geom type="plane" size="5 5 .1"/>'
                             '%s</worldbody>' % ('PGS' if jac == 'sparse' else 'CG', jac, extra, boxes),
                        labels=['layout:pile', 'regression-scene', 'dual:' + jac], nobj=8), 1))
  from vf import build as vb
  for v in ('rel', 'asan'):
    vb.build(v)
  tmo = 600 if ck.quick else 5400
  npa, npr = (8, 2) if ck.quick else (12, 4)
  base = [dict(scene=sc, seed=seed, nsteps=(2 if ck.quick else 3), variant='asan', sid=i) for i, (sc, seed) in enumerate(scenes)]
  base += [dict(b, variant='rel') for b in base[::2]]

  def run_wave(jobs):
    """run asan and rel jobs concurrently -> results aligned with jobs"""
    res = [None] * len(jobs)
    ia = [i for i, j in enumerate(jobs) if j['variant'] == 'asan']
    ir = [i for i, j in enumerate(jobs) if j['variant'] == 'rel']

    def go(idx, asan, nproc, tag):
      if idx:
        out = asanproc.run_jobs('checks.c20_worker', [jobs[i] for i in idx], nproc=nproc, asan=asan, tag=tag, timeout=tmo, stall=300)
        for i, o in zip(idx, out):
          res[i] = o
    ths = [threading.Thread(target=go, args=(ia, True, npa, 'C20asan')),
           threading.Thread(target=go, args=(ir, False, npr, 'C20rel'))]
    t0 = time.time()
    for t in ths:
      t.start()
    for t in ths:
      t.join()
    waves.append((len(ia), len(ir), round(time.time() - t0, 1)))
    return res

  waves = []
  ck.extra['waves(asan_jobs,rel_jobs,seconds)'] = waves
  asan_pair_death = set()     # scene ids whose ASan sweep died in pushPairArena
  deaths = []                 # deferred: (job, res) of worker deaths, reported after all waves (rel attribution)

  def note_death(job, res):
    j = res.get('journal') or {}
    if job['variant'] == 'asan' and 'pushPairArena' in (res.get('frame') or '') + (res.get('report') or '')[:3000]:
      asan_pair_death.add(job['sid'])
    deaths.append((job, res))
    ck.case(nontrivial=True, key=('death', job['variant'], job['scene']['body'], j.get('memory')),
            sample=dict(variant=job['variant'], nobj=job['scene']['nobj'], memory=j.get('memory'), step=j.get('step'),
                        outcome='process death: %s @ %s' % (res['kind'], res['frame'])),
            labels=['variant=' + job['variant'], 'outcome:process-death'] + job['scene']['labels'])
    return j.get('memory')

  # ---- waves: each job bisects the need of its scene and sweeps its share of the sizes; after a worker death the job
  # is resubmitted to continue behind the fatal size (sizes right above it are skipped: same failing window)
  info = {}
  nchunk = 3 if ck.quick else 8
  pending = [dict(b, quick=ck.quick, chunk=c, nchunk=nchunk, avoid=[], min_size=0) for b in base for c in range(nchunk)]
  needs = []
  seen_sig = set()
  ck.max_samples = 8
  for attempt in range(10):
    if not pending:
      break
    out = run_wave(pending)
    nxt = []
    for job, res in zip(pending, out):
      scene, key = job['scene'], job['variant']
      if not res['ok']:
        if res.get('harness'):
          raise RuntimeError('worker setup failed: %s' % res['stderr'][-1500:])
        S = note_death(job, res)
        j = res.get('journal') or {}
        if S is None:
          continue
        if j.get('phase') == 'bisect':
          nxt.append(dict(job, avoid=job['avoid'] + [S]))
        else:
          ck.discard('sizes within 256 bytes above a fatal size (not executed)')
          nxt.append(dict(job, min_size=S + 257))
        continue
      r = res['result']
      if r.get('discard'):
        ck.discard('scene unstable with ample memory' if 'raised' in r['discard'] else 'scene too large for the sweep budget')
        continue
      need = r['need']
      if need is not None:
        info[(job['sid'], key)] = r
      for v in r['violations']:
        fp = KNOWN_ISLAND if v['bucket'] == 'efc_address:island-failure' else None
        ck.violation('%s [%s build]' % (v['msg'], key),
                     dict(xml=gc.render(scene, v.get('memory')), seed=job['seed'], variant=key, memory=v.get('memory'),
                          note='arena size applied as mjModel.narena on the model compiled with default memory'),
                     bucket=v['bucket'], fingerprint=fp)
      for o in r['outcomes']:
        nt = o['kind'] in ('error', 'violation') or (o['kind'] == 'ok' and bool(o['warn']))
        labels = ['variant=' + key, 'outcome:' + o['kind']] + scene['labels']
        if o['kind'] == 'error':
          labels.append('error@' + str(o['site']))
        for wn in o.get('warn', []):
          labels.append('warn:' + wn)
        if o['kind'] == 'ok' and not o['warn']:
          labels.append('outcome:clean')
        sig = (o['kind'], tuple(o.get('warn', [])), (o.get('site') or '').split('(')[0].split(':')[0])
        fresh = nt and sig not in seen_sig and (o['kind'] != 'error' or sum(1 for x in seen_sig if x[0] == 'error') < 2)
        if fresh:
          seen_sig.add(sig)
        ck.case(nontrivial=nt, key=(key, scene['body'], job['seed'], o['S']),
                sample=dict(variant=key, nobj=scene['nobj'], memory=o['S'], need=need, outcome=o['kind'],
                            warnings=o.get('warn'), error_site=o.get('site'), steps_completed=o.get('steps'),
                            unbounded_ncon_nefc=r['ref']) if fresh else None,
                labels=labels)
    pending = nxt
  for (sid, variant), r in sorted(info.items()):
    needs.append(dict(scene=sid, variant=variant, nobj=scenes[sid][0]['nobj'], need=r['need'],
                      maxuse_unbounded=r.get('maxuse_unbounded'), ref=r['ref']))
  # ---- report worker deaths
  pm_cache = {}
  for job, res in deaths:
    j = res.get('journal') or {}
    key = job['variant']
    fp = None
    blob = (res.get('frame') or '') + (res.get('report') or '')[:3000]
    if key == 'asan' and 'pushPairArena' in blob:
      fp = KNOWN_PAIR
    if key == 'rel' and res['rc'] == -11:
      if job['sid'] not in pm_cache:
        pm_cache[job['sid']] = postmortem(job, j.get('memory'))
      pm = pm_cache[job['sid']]
      res['report'] = pm
      if re.search(r'#0\s+\S+ in (mj_collision|pushPairArena|pushGeomGeom) ', pm) and re.search(r'si_addr = (0x0|0x[0-9a-f]{1,3})\b', pm):
        fp = KNOWN_PAIR        # write through the NULL page inside the broadphase pair push
    ck.violation('memory=%s step=%s [%s build]: worker process died (%s, rc=%s) @ %s\n%s' % (
        j.get('memory'), j.get('step'), key, res['kind'], res['rc'], res['frame'],
        (res['report'] or res['stderr'])[:3000]),
        dict(xml=gc.render(job['scene'], j.get('memory')), seed=job['seed'], memory=j.get('memory'), step=j.get('step'),
             variant=key, report=(res['report'] or '')[:6000],
             note='arena size applied as mjModel.narena on the model compiled with default memory'),
        bucket='%s:%s:%s' % (key, res['kind'], res['frame']), fingerprint=fp)
  ck.extra['needs'] = needs[:12]
  ck.extra['scenes'] = len(scenes)
  ck.extra['worker_deaths'] = len(deaths)


LEVEL = 'exploration'
TECHNIQUE = ('fault injection by resource exhaustion: generated contact-rich scenes x swept <size memory> below the bisected '
             'need, ASan build (MuJoCo arena poisoning) and release build in supervised worker processes; differential '
             'oracle against the unbounded run + structural invariants')
LEVEL_TEXT = '''Generated scenes are stepped with every swept arena size between the smallest size that compiles and the bisected need of
the run; each run must end in a completed step with consistent, truncated constraint data and the matching warning, or in a
catchable mju_error - a sanitizer report or a dead process is a violation with the (scene, size, step) journal. Sampled scenes,
dense but not exhaustive size sweep in the quick tier.'''
LEVEL_NOTE = '''Trusted: verification build and shims, reflection layer, process supervision (vf/asanproc.py). Not covered: flex/SDF
collision paths, plugin sensors, multi-threaded collision (mju_dispatch) under tiny memory.'''
