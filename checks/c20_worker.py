"""C20 worker (ASan or release build): memory sweep of one contact-rich scene per job. See checks/c20.py.

job = dict(scene={body, labels, nobj}, seed, nsteps, coarse, dense_step, dense_span, variant, every)
returns dict(need, min_compile, outcomes=[...], violations=[...], labels={...})
A sanitizer report kills the process; the parent then reports the journaled (scene, memory, step).
"""
import ctypes as C
import re

import numpy as np

from vf import asanproc
from vf import gen_contact as gc
from vf import mj

_lib = {}


def lib_for(variant):
  if variant not in _lib:
    _lib[variant] = mj.load(variant)
  return _lib[variant]


def warn_view(lib, d):
  off = lib.layout['mjData']['fields']['warning']['off']
  n = lib.enums.mjNWARNING
  buf = (C.c_char * (8 * n)).from_address(d.ptr + off)
  return np.frombuffer(buf, dtype=np.int32).reshape(n, 2)


def delete(lib, d):
  try:
    lib.mj_deleteData(d)     # ASan build: raises if the error unwound open stack frames (dangling-frame check)
  except mj.MjError:
    pass
  object.__setattr__(d, '_own', False)


def contact_keys(d):
  c = d.contact
  n = int(d.ncon)
  keys = set()
  for i in range(n):
    keys.add((int(c['geom'][i][0]), int(c['geom'][i][1]), c['pos'][i].tobytes(), c['dist'][i].tobytes(), int(c['dim'][i])))
  return keys


class Viol(Exception):
  def __init__(self, msg, bucket):
    Exception.__init__(self, msg)
    self.bucket = bucket


def invariants(lib, m, d, S, step):
  try:
    _invariants(lib, m, d, S, step)
  except Viol as e:
    raise Viol('memory=%d step %d: %s' % (S, step, e), e.bucket)


def _invariants(lib, m, d, S, step):
  E = lib.enums
  narena = int(d.narena)
  ncon, nefc = int(d.ncon), int(d.nefc)
  if ncon < 0 or nefc < 0:
    raise Viol('ncon=%d nefc=%d' % (ncon, nefc), 'counts')
  if int(d.pstack) != 0 or int(d.pbase) != 0:
    raise Viol('mj_step returned with pstack=%d pbase=%#x' % (d.pstack, d.pbase), 'stack-pointer')
  if int(d.parena) > narena or int(d.maxuse_arena) > narena:
    raise Viol('parena=%d maxuse_arena=%d exceed narena=%d' % (d.parena, d.maxuse_arena, narena), 'arena-bounds')
  if ncon * lib.layout['mjContact']['size'] > narena:
    raise Viol('ncon=%d does not fit the arena (%d bytes)' % (ncon, narena), 'arena-bounds')
  if ncon:
    c = d.contact
    ea = np.asarray(c['efc_address'][:ncon])
    dim = np.asarray(c['dim'][:ncon])
    bad = (ea < -1) | (ea >= nefc)
    if np.any(bad):
      raise Viol('contact efc_address %s outside [-1, nefc=%d)' % (ea[bad][:4], nefc), 'efc_address')
    if np.any(~np.isin(dim, [1, 3, 4, 6])):
      raise Viol('contact dim %s' % dim[:6], 'contact-dim')
    g = np.asarray(c['geom'][:ncon])
    if np.any(g < -1) or np.any(g >= m.ngeom):
      raise Viol('contact geom ids out of range', 'contact-geom')
    if not np.all(np.isfinite(np.asarray(c['dist'][:ncon]))) or not np.all(np.isfinite(np.asarray(c['pos'][:ncon]))):
      raise Viol('non-finite contact geometry', 'contact-geometry')
  if nefc:
    for f in ('efc_type', 'efc_id', 'efc_force', 'efc_D', 'efc_aref', 'efc_J'):
      p = lib.data_field(m, d, f)[0]
      if not p:
        raise Viol('nefc=%d but %s is NULL' % (nefc, f), 'efc-null')
      if not (int(d.arena) <= p < int(d.arena) + narena):
        raise Viol('%s points outside the arena' % f, 'efc-outside-arena')
    t = np.asarray(d.efc_type)
    if np.any(t < 0) or np.any(t > E.mjCNSTR_CONTACT_ELLIPTIC):
      raise Viol('efc_type out of range %s' % t[:8], 'efc-type')
    if not np.all(np.isfinite(np.asarray(d.efc_force))):
      raise Viol('efc_force not finite', 'efc-force')
  for f in ('qpos', 'qvel', 'qacc'):
    if not np.all(np.isfinite(np.asarray(getattr(d, f)))):
      raise Viol('%s not finite after a truncated step' % f, 'nonfinite')


_models = {}


def model_for(lib, scene):
  """The scene compiled once with the default (ample) memory; the arena size of the compiled model is then set per
  run (mjModel.narena is what <size memory> compiles to and what mj_makeData allocates).  Compiling with a tiny
  memory is not used: the compiler itself needs stack, and in ASan builds a compile-time stack overflow loops forever
  in mjCModel::Compile (mj_deleteData's dangling-frame check longjmps back into the try block)."""
  key = (id(lib), scene['body'])
  if key not in _models:
    _models.clear()
    m = lib.model_from_xml(gc.render(scene))
    _models[key] = (m, int(m.narena))
  return _models[key][0]


def default_narena(lib, scene):
  model_for(lib, scene)
  return _models[(id(lib), scene['body'])][1]


def run_size(lib, scene, seed, S, nsteps, ref, journal_base):
  """-> outcome dict; raises Viol."""
  E = lib.enums
  m = model_for(lib, scene)
  m.narena = S
  if journal_base is not None:
    asanproc.journal(dict(journal_base, memory=S, step=-1))
  try:
    d = lib.make_data(m)
  except mj.MjError as e:
    return dict(S=S, kind='error', site='mj_makeData', msg=str(e)[:80], warn=[], steps=0)
  out = dict(S=S, kind='ok', warn=[], steps=0, sync=True, site=None)
  try:
    rng = np.random.RandomState(seed)
    d.qvel[:] = rng.uniform(-0.5, 0.5, m.nv)
    in_sync = ref is not None
    for k in range(nsteps):
      if journal_base is not None:
        asanproc.journal(dict(journal_base, memory=S, step=k))
      w0 = warn_view(lib, d)[:, 1].copy()
      try:
        lib.mj_step(m, d)
      except mj.MjError as e:
        msg = str(e)
        site = re.search(r' at (\w+), line (\d+)', msg)
        out['kind'] = 'error'
        req = re.search(r'requested = (\d+)', msg)
        out['site'] = ('%s:%s' % (site.group(1), site.group(2))) if site else \
            ('mj_stackAllocByte(requested=%s)' % req.group(1) if req else msg[:40])
        out['msg'] = msg[:160].replace('\n', ' ')
        out['steps'] = k
        return out
      out['steps'] = k + 1
      w = warn_view(lib, d)[:, 1]
      cf = int(w[E.mjWARN_CONTACTFULL] - w0[E.mjWARN_CONTACTFULL])
      nf = int(w[E.mjWARN_CNSTRFULL] - w0[E.mjWARN_CNSTRFULL])
      if cf:
        out['warn'].append('CONTACTFULL')
      if nf:
        out['warn'].append('CNSTRFULL')
      try:
        invariants(lib, m, d, S, k)
      except Viol as e:
        if e.bucket == 'efc_address' and int(d.nefc) == 0 and nf and not (int(m.opt.disableflags) & E.mjDSBL_ISLAND):
          # island arrays did not fit: clearIsland() zeroes nefc but leaves contact[].efc_address (known finding)
          raise Viol(str(e), 'efc_address:island-failure')
        raise
      if in_sync:
        r = ref[k]
        ncon, nefc = int(d.ncon), int(d.nefc)
        # Rule: d->ncon / d->contact after mj_step are those of the LAST pipeline evaluation of the step. With RK4 that is the
        # 4th sub-stage, evaluated at a state that depends on the forces of the earlier sub-stages; once a sub-stage was
        # truncated (CONTACTFULL/CNSTRFULL raised in this step) that state differs from the unbounded run's, so contact
        # count and identity are comparable with the unbounded run only when nothing was truncated (or not RK4).
        rk4 = int(m.opt.integrator) == E.mjINT_RK4
        comparable = not (rk4 and (cf or nf))
        if ncon > r['ncon'] and comparable:
          raise Viol('memory=%d step %d: ncon=%d exceeds the unbounded run (ncon=%d nefc=%d), warnings contactfull=%d '
                     'cnstrfull=%d' % (S, k, ncon, r['ncon'], r['nefc'], cf, nf), 'more-contacts-than-unbounded')
        if not cf and not nf and (ncon != r['ncon'] or nefc != r['nefc']):
          raise Viol('memory=%d step %d: ncon=%d nefc=%d vs unbounded run ncon=%d nefc=%d without any warning' % (
              S, k, ncon, nefc, r['ncon'], r['nefc']), 'truncation-without-warning')
        if (ncon < r['ncon'] or nefc < r['nefc']) and not (cf or nf):
          raise Viol('memory=%d step %d: constraint set shrank (ncon %d<%d / nefc %d<%d) without CONTACTFULL/CNSTRFULL'
                     % (S, k, ncon, r['ncon'], nefc, r['nefc']), 'truncation-without-warning')
        keys = contact_keys(d)
        if not keys <= r['keys'] and comparable:
          raise Viol('memory=%d step %d: %d contacts of the truncated set are not contacts of the unbounded run' % (
              S, k, len(keys - r['keys'])), 'contact-not-in-reference')
        if cf or nf:
          in_sync = False
          out['sync'] = False
        else:
          same = np.array_equal(np.asarray(d.qpos).view(np.uint64), r['qpos']) and \
              np.array_equal(np.asarray(d.qvel).view(np.uint64), r['qvel'])
          if not same:
            raise Viol('memory=%d step %d: no warning, same ncon/nefc, but qpos/qvel differ from the unbounded run' % (S, k),
                       'result-depends-on-memory')
    return out
  finally:
    delete(lib, d)


def reference(lib, scene, seed, nsteps):
  """The unbounded run: default memory, enlarged (x8, up to 2 GB) until no CONTACTFULL/CNSTRFULL is raised."""
  E = lib.enums
  m = model_for(lib, scene)
  narena = default_narena(lib, scene)
  while True:
    m.narena = narena
    d = lib.make_data(m)
    try:
      rng = np.random.RandomState(seed)
      d.qvel[:] = rng.uniform(-0.5, 0.5, m.nv)
      ref = []
      for k in range(nsteps):
        try:
          lib.mj_step(m, d)
        except mj.MjError as e:
          raise Viol('unbounded run (memory %d) raised: %s' % (narena, str(e)[:300]), 'reference-error')
        ref.append(dict(ncon=int(d.ncon), nefc=int(d.nefc), keys=contact_keys(d),
                        qpos=np.asarray(d.qpos).view(np.uint64).copy(), qvel=np.asarray(d.qvel).view(np.uint64).copy()))
      wv = warn_view(lib, d)[:, 1]
      full = bool(wv[E.mjWARN_CONTACTFULL] or wv[E.mjWARN_CNSTRFULL])
      mx = int(d.maxuse_arena)
    finally:
      delete(lib, d)
    if not full:
      _models[(id(lib), scene['body'])] = (m, narena)     # the unbounded size of this scene
      return ref, mx
    narena *= 8
    if narena > (1 << 31):
      raise Viol('scene does not fit 2 GB of arena', 'reference-error')


def clean(o, nsteps):
  return o['kind'] == 'ok' and not o['warn'] and o['steps'] == nsteps


def run_size_nv(lib, scene, seed, S, nsteps, ref, jb):
  """run_size for the bisection: a violating size counts as 'not clean' (it is judged again in the sweep)."""
  try:
    return run_size(lib, scene, seed, S, nsteps, ref, jb)
  except Viol:
    return dict(S=S, kind='violation', warn=[], steps=0)


def sizes_for(need, quick, low_only=False):
  sizes = set([need - 1, need, need + 64, 0, 1, 8, 63, 64])
  if low_only:
    return sorted(sizes | set(range(0, min(need, 8192), 32 if quick else 8)))
  if quick:
    # ~150 sizes per scene: every failure window wider than need/150 (>= 64 bytes) is hit at least once
    sizes |= set(range(0, need, max(64, (need // 150) // 8 * 8)))
    sizes |= set(range(0, min(need, 4096), 32))
  else:
    # every 64 bytes up to 1500 sizes per scene (scenes needing more than 96 KB are swept proportionally coarser)
    sizes |= set(range(0, need, max(64, (need // 1500) // 8 * 8)))
    sizes |= set(range(0, min(need, 8192), 8))
  return sorted(x for x in sizes if x >= 0)


def handler(job):
  """One chunk of one scene: bisect the need (sizes in job['avoid'] killed an earlier worker: not executed, not clean),
  then run this chunk's share of the swept sizes (those >= job['min_size'])."""
  variant = job['variant']
  lib = lib_for(variant)
  scene, seed, nsteps = job['scene'], job['seed'], job['nsteps']
  jb = dict(scene_body=scene['body'], seed=seed, variant=variant)
  res = dict(outcomes=[], violations=[], need=None, ref=None)
  try:
    ref, maxuse = reference(lib, scene, seed, nsteps)
    res['ref'] = [(r['ncon'], r['nefc']) for r in ref]
    res['maxuse_unbounded'] = maxuse
    if maxuse > (4 << 20):
      res['discard'] = 'scene needs %d bytes: beyond the per-scene sweep budget (4 MB)' % maxuse
      return res
    need = job.get('need')
    if need is None:
      avoid = set(job.get('avoid', []))
      jb['phase'] = 'bisect'

      def is_clean(S):
        if S in avoid:
          return False
        return clean(run_size_nv(lib, scene, seed, S, nsteps, ref, jb), nsteps)
      # mjData.maxuse_arena of the unbounded run is documented as the sizing hint: bracket the need around it first
      hi = maxuse + 1024
      while not is_clean(hi):
        hi = 2 * hi + 4096
        if hi > (1 << 28):
          raise Viol('no memory size up to 256MB gives a clean run', 'need-search')
      lo = max(0, maxuse - 64)
      if hi > maxuse + 1024 or is_clean(lo):
        lo = 0
      while hi - lo > 16:
        mid = (lo + hi) // 2
        if is_clean(mid):
          hi = mid
        else:
          lo = mid
      need = hi
    res['need'] = need
    jb['phase'] = 'sweep'
    sizes = sizes_for(need, job['quick'], low_only=job['quick'] and 'pair-window' in scene['labels'])
    sizes = [x for x in sizes[job['chunk']::job['nchunk']] if x >= job.get('min_size', 0)]
    if job.get('only'):
      sizes = job['only']
    for S in sizes:
      try:
        o = run_size(lib, scene, seed, S, nsteps, ref, jb)
      except Viol as e:
        if not any(v['bucket'] == e.bucket for v in res['violations']):
          res['violations'].append(dict(bucket=e.bucket, msg=str(e), memory=S))
        res['outcomes'].append(dict(S=S, kind='violation', warn=[], steps=0, site=e.bucket))
        continue
      if S in (need, need + 64) and not clean(o, nsteps):
        raise Viol('memory=%d (need=%d) but the run is not clean: %s' % (S, need, o), 'non-monotone-need')
      res['outcomes'].append(o)
  except Viol as e:
    if e.bucket == 'reference-error':
      res['discard'] = str(e)[:200]       # the scene blows up on its own with ample memory: not a memory question
    else:
      res['violations'].append(dict(bucket=e.bucket, msg=str(e)))
  return res


if __name__ == '__main__':
  asanproc.worker_main(handler)
