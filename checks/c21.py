"""C21 - Allocation failure never causes undefined behaviour.

Domain : API scenarios driven through the C API in supervised worker processes (ASan build; release build for a subset):
           lifecycle : mj_parseXMLString -> mj_compile -> mj_makeData -> mj_step x3 -> mj_copyModel (new, existing) ->
                       mj_copyData (new, existing) -> mjv_copyData -> mj_saveModel(buffer) -> mj_loadModelBuffer ->
                       mj_saveXMLString -> mj_resetData/forward/inverse -> delete all
           file      : mj_loadXML(file) -> mj_makeData -> mj_forward -> mj_saveLastXML -> mj_printModel -> delete, mj_freeLastXML
           spec      : parse -> mj_copySpec -> mjs_add{Body,Geom,Joint} -> mj_compile -> mj_makeData -> step -> edit ->
                       mj_recompile -> step -> delete
           vfs       : mj_defaultVFS -> mj_addBufferVFS x3 -> mj_loadXML with <include> through the VFS -> mj_deleteVFS
           visual    : parse/compile/makeData/forward -> mjv_makeScene -> mjv_updateScene -> mjv_freeScene -> delete
         x models (a minimal one, a feature-rich one with mesh/hfield/texture/tendon/muscle length range/keyframe, and
         Hypothesis-generated ones) x faults: the allocations N of the fault-free run are counted through the public
         mju_user_malloc hook, then EVERY k = 1..N+1 is executed with the k-th allocation failing (single faults), plus
         seeded pseudo-random multi-fault masks (each allocation fails with probability 1/den).
Oracle : the worker survives (no signal, no sanitizer report); the call in which the fault fired reports it (NULL / error
         code with message / mju_error through the log channel) - it never "succeeds"; after the scenario's own cleanup no
         block handed out by the hook during the run is still live (tracking allocator native/C21/c21_alloc.c keeps
         the allocation index of every live block) and the hook never sees a free of a pointer it does not own (double
         free); a fault-free run (k = N+1) leaves nothing behind; after all faults a clean run still succeeds.
"""
import re
import threading
import time

from hypothesis import strategies as st

from vf import asanproc
from vf import modelgen as mg

KNOWN_LEAK = 'C21:partial-object-leaked-when-later-allocation-fails'

SIMPLE = ('<mujoco><worldbody><geom type="plane" size="1 1 .1"/><body pos="0 0 .3"><freejoint/><geom size=".1"/></body>'
          '</worldbody></mujoco>')
RICH = '''<mujoco><compiler autolimits="true"><lengthrange inttotal="2" interval="1" timestep="0.01"/></compiler><size memory="1M"/>
<asset><texture name="t" type="2d" builtin="checker" width="16" height="16" rgb1="1 0 0" rgb2="0 1 0"/><material name="mat" texture="t"/>
<mesh name="tet" vertex="0 0 0 .2 0 0 0 .2 0 0 0 .2"/><hfield name="hf" nrow="3" ncol="3" size="1 1 .2 .1" elevation="0 .1 0 .1 .2 .1 0 .1 0"/></asset>
<worldbody><geom type="hfield" hfield="hf" pos="0 0 -1"/><geom type="plane" size="2 2 .1" material="mat"/><site name="s1" pos="0 0 1"/>
<body name="a" pos="0 0 .5"><freejoint/><geom type="mesh" mesh="tet"/></body>
<body name="b" pos=".5 0 .5"><joint name="h" type="hinge" axis="0 1 0" range="-1 1"/><geom size=".1" pos=".2 0 0"/><site name="s2" pos=".2 0 0"/>
<body pos=".3 0 0"><joint name="h2" type="slide" range="-1 1"/><geom type="capsule" size=".05 .1"/></body></body></worldbody>
<tendon><spatial name="tn"><site site="s1"/><site site="s2"/></spatial></tendon>
<actuator><muscle name="mu" tendon="tn"/><position joint="h" kp="10"/><general joint="h2" dyntype="filter" dynprm="0.1"/></actuator>
<sensor><jointpos joint="h"/><touch site="s2"/></sensor>
<keyframe><key name="k" qpos="0 0 .5 1 0 0 0 .1 .1"/></keyframe></mujoco>'''
RICH_SERIAL = RICH.replace('<compiler autolimits="true">', '<compiler autolimits="true" usethread="false">')
SCENARIOS = ('lifecycle', 'file', 'spec', 'vfs', 'visual')
KNOWN_THREAD = 'C21:compile-pool-thread-longjmp-through-uninitialised-jmp_buf'


def judge(ck, job, r, final=False):
  """Oracle for one executed run r (dict from the worker)."""
  sc, variant, mname = job['scenario'], job['variant'], job['model_name']
  what = 'k=%s' % r['k'] if 'k' in r else ('multi=%s' % r.get('multi') if 'multi' in r else 'clean')
  case = dict(scenario=sc, model_name=mname, model=job['model'], variant=variant, k=r.get('k'), multi=r.get('multi'),
              events=[e for e in r['events'] if e[1] != 'ok'], failed_allocations=r['failed'], leaked_allocations=r['leaked'])
  fired = bool(r['failed'])
  bad = [e for e in r['events'] if e[1] != 'ok']
  labels = ['variant=' + variant, 'scenario=' + sc, 'model=' + mname]
  if r['badfree']:
    ck.violation('%s/%s %s: %d frees of pointers the allocator does not own (double free / foreign pointer)' % (
        sc, mname, what, r['badfree']), case, bucket='bad-free:' + sc)
  if r.get('overflow'):
    raise RuntimeError('tracking table overflow')
  if not fired:
    if bad or r['leaked']:
      ck.violation('%s/%s %s: no allocation failed, yet events=%s leaked=%s' % (sc, mname, what, bad, r['leaked']), case,
                   bucket=('state-corrupted-after-faults:' if final else 'fault-free-run:') + sc)
    ck.case(nontrivial=False, key=(sc, mname, variant, what), labels=labels + ['fault:none'])
    return
  for api, c0 in r['fault_api']:
    labels.append('fault-in:' + api)
  if not bad:
    ck.violation('%s/%s %s: allocation %s failed inside %s but every call reported success' % (
        sc, mname, what, r['failed'], [a for a, _ in r['fault_api']]), case, bucket='fault-swallowed:' + sc)
  else:
    labels.append('surfaced-as:%s:%s' % (bad[0][0], bad[0][1]))
  if r['leaked']:
    # known finding: mju_malloc raises mju_error itself, so the "free what was built so far" branches of the
    # constructors are unreachable: the 1-2 blocks allocated immediately before the failing allocation stay behind
    pattern = all(any(f - 2 <= i < f for f in r['failed']) for i in r['leaked'])
    if pattern:
      labels.append('leak:partial-object(%d blocks)' % len(r['leaked']))
      ck.violation('%s/%s %s: allocation %s failed in %s; blocks %s (%d bytes) allocated just before it were never freed' % (
          sc, mname, what, r['failed'], [a for a, _ in r['fault_api']], r['leaked'], r['leaked_bytes']), case,
          bucket='leak-partial-object', fingerprint=KNOWN_LEAK)
      ck.extra['known_leak_runs'] = ck.extra.get('known_leak_runs', 0) + 1
    else:
      ck.violation('%s/%s %s: allocation %s failed; blocks %s (%d bytes) are still live after cleanup (not the 1-2 blocks '
                   'preceding the failed allocation)' % (sc, mname, what, r['failed'], r['leaked'], r['leaked_bytes']), case,
                   bucket='leak:' + sc)
  else:
    labels.append('leak:none')
  ck.case(nontrivial=True, key=(sc, mname, variant, what),
          sample=dict(scenario=sc, model=mname, variant=variant, fault=what, N=job.get('N'), failed_allocations=r['failed'],
                      fault_in=[a for a, _ in r['fault_api']], surfaced=bad[:2], leaked_allocations=r['leaked'])
          if (r.get('k', 0) % 5 == 3 or 'multi' in r) else None, labels=labels)


def main(ck):
  ck.rule = ('scenarios x models x every single fault k=1..N+1 (N counted on the fault-free run through the allocator hook) '
             '+ seeded multi-fault masks; one evaluation = one executed (scenario, model, fault, build) run; non-trivial = '
             'at least one allocation actually failed during the run; distinct by (scenario, model, fault, build)')
  ck.assumptions = ['only allocations routed through mju_malloc/mju_user_malloc are faulted (the statement); C++ new/STL '
                    'allocations of the compiler and parser are out of scope',
                    'leaks are judged after the scenario deleted every handle it obtained and called mj_freeLastXML; an '
                    'mjData that an mju_error unwound is reset (mj_resetData) and deleted']
  models = [('simple', SIMPLE), ('rich', RICH_SERIAL), ('rich-threaded', RICH)]
  gen = []
  ck.run_hypothesis(lambda gm: gen.append(gm), mg.models(max_bodies=4, sensors=True, mocap=True, keyframes=True),
                    ck.budget(1, 40), name="models")
  for i, gm in enumerate(gen[:ck.budget(1, 40)]):
    models.append(('gen%d' % i, gm.xml))
  from vf import build as vb, nativeso
  for v in ('rel', 'asan'):
    nativeso.build_so('c21_alloc', [vb.NATIVE + '/C21/c21_alloc.c'], v)
  base = []
  for mname, xml in models:
    for sc in SCENARIOS:
      if mname == 'rich-threaded' and sc != 'lifecycle':
        continue      # multi-threaded mesh/texture compilation: one scenario is enough to exhibit the known crash
      base.append(dict(scenario=sc, model=xml, model_name=mname, variant='asan'))
      if mname in ('simple', 'rich'):
        base.append(dict(scenario=sc, model=xml, model_name=mname, variant='rel'))
  tmo = 600 if ck.quick else 3600
  npa, npr = (6, 2) if ck.quick else (12, 4)

  def run_wave(jobs):
    res = [None] * len(jobs)
    ia = [i for i, j in enumerate(jobs) if j['variant'] == 'asan']
    ir = [i for i, j in enumerate(jobs) if j['variant'] == 'rel']

    def go(idx, asan, nproc, tag):
      if idx:
        out = asanproc.run_jobs('checks.c21_worker', [jobs[i] for i in idx], nproc=nproc, asan=asan, tag=tag, timeout=tmo, stall=300)
        for i, o in zip(idx, out):
          res[i] = o
    ths = [threading.Thread(target=go, args=(ia, True, npa, 'C21asan')),
           threading.Thread(target=go, args=(ir, False, npr, 'C21rel'))]
    t0 = time.time()
    for t in ths:
      t.start()
    for t in ths:
      t.join()
    waves.append((len(ia), len(ir), round(time.time() - t0, 1)))
    return res

  waves = []
  ck.extra['waves(asan_jobs,rel_jobs,seconds)'] = waves

  def death(job, res):
    j = res.get('journal') or {}
    fp = None
    rep = (res['report'] or '') + (res['stderr'] or '')
    if job['model_name'] == 'rich-threaded' and res['kind'].startswith('SEGV') and re.search(r' T[1-9]\d*\)', rep) \
        and j.get('phase') == 'single-fault':
      fp = KNOWN_THREAD     # crash on a compile pool thread (not T0) while an allocation fault is armed
    ck.violation('%s/%s [%s build] %s: worker process died (%s, rc=%s) @ %s\n%s' % (
        job['scenario'], job['model_name'], job['variant'], {k: j.get(k) for k in ('phase', 'k', 'seed', 'den')},
        res['kind'], res['rc'], res['frame'], (res['report'] or res['stderr'])[:3000]),
        dict(job={k: v for k, v in job.items() if k != 'ks'}, journal=j, report=(res['report'] or '')[:6000]),
        bucket='death:%s:%s' % (res['kind'], res['frame']), fingerprint=fp)
    ck.case(nontrivial=True, key=('death', job['scenario'], job['model_name'], job['variant'], j.get('k'), j.get('seed')),
            labels=['variant=' + job['variant'], 'outcome:process-death'])
    return j

  # ---- one job per (scenario, model, build): count, enumerate, clean run; after a worker death continue behind the
  # fatal fault position
  nmulti = 6 if ck.quick else 40
  todo = []
  for b in base:
    multi = [[1000 * ck.seed + 17 * i + 1, [2, 3, 5, 8][i % 4]] for i in range(nmulti)]
    job = dict(b, multi=multi)
    if b['model_name'] == 'rich-threaded':
      # every fault inside the threaded asset compilation kills the process (known finding): first position only
      job.update(max_k=1, multi=[])
    todo.append(job)
  counts = {}
  ck.extra['allocations_per_scenario'] = counts
  for attempt in range(10):
    if not todo:
      break
    out = run_wave(todo)
    nxt = []
    for job, res in zip(todo, out):
      name = '%s/%s/%s' % (job['scenario'], job['model_name'], job['variant'])
      if not res['ok']:
        if res.get('harness'):
          raise RuntimeError('worker setup failed: %s' % res['stderr'][-1500:])
        j = death(job, res)
        if j.get('phase') == 'single-fault' and j.get('k') is not None:
          N = job.get('N_hint')
          ks = job.get('ks') or list(range(1, 200))
          rest = [k for k in ks if k > j['k']]
          if job.get('max_k'):
            rest = [k for k in rest if k <= job['max_k']] + [10 ** 6]     # 10**6: beyond N = the fault-free run
          nxt.append(dict(job, ks=rest))
        elif j.get('phase') == 'multi-fault':
          rest = [m for m in job['multi'] if m[0] > j.get('seed', 1 << 60)]
          nxt.append(dict(job, ks=[], multi=rest))
        continue
      r = res['result']
      cr = r['count_run']
      bad = [e for e in cr['events'] if e[1] != 'ok']
      if bad:
        ck.discard('scenario does not run fault-free on this model (%s)' % bad[0][0])
        continue
      if r['N'] != r['N2'] or cr['leaked'] or cr['badfree']:
        ck.violation('%s fault-free: N=%d then %d, leaked=%s badfree=%d' % (name, r['N'], r['N2'], cr['leaked'], cr['badfree']),
                     dict(job={k: v for k, v in job.items() if k != 'ks'}), bucket='fault-free-run:' + job['scenario'])
        continue
      counts[name] = r['N']
      job['N'] = r['N']
      for run in r['runs']:
        if run.get('k', 0) > r['N'] + 1:
          continue       # placeholder positions of a resubmitted job that lie beyond N+1
        judge(ck, job, run)
      judge(ck, job, r['final'], final=True)
    todo = nxt
  ck.extra['single_faults_enumerated'] = sum(v + 1 for v in counts.values())
  ck.exhaustive = False


LEVEL = 'fault_enumeration'
TECHNIQUE = ('fault injection through the public mju_user_malloc hook with a tracking allocator: complete enumeration of '
             'single allocation faults per (API scenario, model) + seeded multi-fault masks, executed in supervised ASan '
             '(and release) worker processes')
LEVEL_TEXT = '''For each API scenario and model the allocations made through MuJoCo's allocator are counted, then every single-fault
position k=1..N (and N+1 = none) is executed, plus pseudo-random multi-fault masks. Each run must surface the failure through a
NULL/error return or the error channel, leave no block of the tracking allocator live after cleanup, never free a foreign pointer,
and the worker must survive (ASan: no report). Exhaustive in k for the listed scenarios and models; scenarios and models are a
sample.'''
LEVEL_NOTE = '''Trusted: the verification build, the tinyxml2/qhull/lodepng shims (third-party error paths are not faulted: their
allocations do not go through mju_malloc), native/C21/c21_alloc.c, process supervision. Not covered: C++ new/STL allocation
failure (not routed through MuJoCo's allocator), plugin-owned allocations, LeakSanitizer (leaks are decided by the tracking allocator
instead; LSan is unreliable under LD_PRELOAD in this sandbox), multi-threaded allocation.'''
