"""C21 worker: executes API scenarios with the k-th allocation through mju_user_malloc failing. See checks/c21.py.

job = dict(scenario=name, model=xml, mode='count') -> dict(N=..., calls=[...])
job = dict(scenario=name, model=xml, mode='faults', ks=[...], multi=[[seed, den], ...]) -> dict(runs=[...])
The allocation hooks of native/vf_support.cc stay installed for the whole life of the worker so that no object crosses
a hook boundary; vf_fault_enable(k, seed, den) re-arms them (and zeroes the live counter) between runs, when no
object of the scenario is alive.
"""
import ctypes as C
import os

import numpy as np

from vf import asanproc
from vf import mj
from vf.runner import VERIF

_lib = {}
WORKDIR = os.path.join(VERIF, 'work', 'C21')


_hooks = {}


def lib_for(variant):
  if variant not in _lib:
    lib = mj.load(variant)
    from vf import build as vb, nativeso
    h = C.CDLL(nativeso.build_so('c21_alloc', [vb.NATIVE + '/C21/c21_alloc.c'], variant))
    for n in ('c21_count', 'c21_nfailed', 'c21_badfree', 'c21_overflow', 'c21_nlive'):
      getattr(h, n).restype = C.c_long
    h.c21_gen.restype = C.c_long
    for n in ('c21_failed_idx', 'c21_live_idx', 'c21_live_size', 'c21_live_gen'):
      getattr(h, n).restype = C.c_long
      getattr(h, n).argtypes = [C.c_long]
    h.c21_arm.argtypes = [C.c_long, C.c_long, C.c_long]
    h.c21_install()
    h.c21_arm(-1, 0, 0)
    _hooks[variant] = h
    _lib[variant] = lib
  return _lib[variant]


class Ctx:
  """One scenario execution: guarded calls, handle table, event log."""

  def __init__(self, lib):
    self.lib = lib
    self.events = []       # (api, outcome, detail)   outcome: ok | null | errcode | mju_error
    self.unwound = []      # apis that ended in an mju_error unwind (longjmp through the call)
    self.stop = False
    self.err = C.create_string_buffer(1000)
    self.hooks = None
    self.fault_api = []    # (api, allocation count before the call) for calls during which an allocation failed

  def call(self, api, *args, expect=None):
    """-> return value or None; sets self.stop when the call failed."""
    lib = self.lib
    self.err.value = b''
    h = self.hooks
    c0, f0 = h.c21_count(), h.c21_nfailed()
    try:
      try:
        r = getattr(lib, api)(*args)
      finally:
        if h.c21_nfailed() > f0:
          self.fault_api.append((api, int(c0)))
    except mj.MjError as e:
      self.events.append((api, 'mju_error', str(e)[:120]))
      self.unwound.append(api)
      self.stop = True
      return None
    if expect == 'ptr' and not r:
      self.events.append((api, 'null', self.err.value.decode(errors='replace')[:120]))
      self.stop = True
      return None
    if expect == 'zero' and r != 0:
      self.events.append((api, 'errcode', '%r %s' % (r, self.err.value.decode(errors='replace')[:120])))
      self.stop = True
      return None
    self.events.append((api, 'ok', ''))
    return r


def write_tmp(name, text):
  os.makedirs(WORKDIR, exist_ok=True)
  p = os.path.join(WORKDIR, '%s_%d.xml' % (name, os.getpid()))
  with open(p, 'w') as f:
    f.write(text)
  return p


def _delete_data(lib, c, m, d, unwound_data):
  if not d:
    return
  if unwound_data and m:
    # an unwound mjData may hold open stack frames; mj_resetData is the documented way to clear pstack
    # (ASan builds refuse to delete an mjData with a dangling frame)
    try:
      lib.mj_resetData(m, d)
    except mj.MjError:
      pass
  try:
    lib.mj_deleteData(d)
  except mj.MjError as e:
    c.events.append(('mj_deleteData', 'mju_error', str(e)[:120]))


def sc_lifecycle(lib, c, xml):
  """parse string -> compile -> makeData -> step x3 -> copies -> save/load buffer -> saveXMLString -> delete"""
  spec = m = d = m2 = d2 = m3 = None
  bad_d = bad_d2 = False
  try:
    spec = c.call('mj_parseXMLString', xml.encode(), None, c.err, 1000, expect='ptr')
    if c.stop:
      return
    m = c.call('mj_compile', spec, None, expect='ptr')
    if c.stop:
      c.events[-1] = ('mj_compile', c.events[-1][1], (lib.mjs_getError(spec) or '')[:120])
      return
    mm = mj.Model(lib, m, own=False)
    d = c.call('mj_makeData', mm, expect='ptr')
    if c.stop:
      return
    dd = mj.Data(lib, mm, d, own=False)
    for _ in range(3):
      c.call('mj_step', mm, dd)
      if c.stop:
        bad_d = True
        return
    m2 = c.call('mj_copyModel', None, mm, expect='ptr')
    if c.stop:
      return
    c.call('mj_copyModel', m2, mm, expect='ptr')
    if c.stop:
      return
    d2 = c.call('mj_copyData', None, mm, dd, expect='ptr')
    if c.stop:
      return
    c.call('mj_copyData', d2, mm, dd, expect='ptr')
    if c.stop:
      bad_d2 = True
      return
    c.call('mjv_copyData', d2, mm, dd, expect='ptr')
    if c.stop:
      bad_d2 = True
      return
    sz = c.call('mj_sizeModel', mm)
    if c.stop:
      return
    buf = C.create_string_buffer(int(sz))
    c.call('mj_saveModel', mm, None, buf, int(sz))
    if c.stop:
      return
    m3 = c.call('mj_loadModelBuffer', buf, int(sz), expect='ptr')
    if c.stop:
      return
    out = C.create_string_buffer(200000)
    c.call('mj_saveXMLString', spec, out, 200000, c.err, 1000, expect='zero')
    if c.stop:
      return
    c.call('mj_resetData', mm, dd)
    if c.stop:
      bad_d = True
      return
    c.call('mj_forward', mm, dd)
    if c.stop:
      bad_d = True
      return
    c.call('mj_inverse', mm, dd)
    if c.stop:
      bad_d = True
  finally:
    _delete_data(lib, c, m, d2, bad_d2)
    _delete_data(lib, c, m, d, bad_d)
    for h in (m3, m2, m):
      if h:
        lib.mj_deleteModel(h)
    if spec:
      lib.mj_deleteSpec(spec)


def sc_file(lib, c, xml):
  """mj_loadXML(file) -> makeData -> forward -> mj_saveLastXML -> mj_printModel -> delete"""
  path = write_tmp('file', xml)
  m = d = None
  bad = False
  try:
    m = c.call('mj_loadXML', path.encode(), None, c.err, 1000, expect='ptr')
    if c.stop:
      return
    mm = mj.Model(lib, m, own=False)
    d = c.call('mj_makeData', mm, expect='ptr')
    if c.stop:
      return
    dd = mj.Data(lib, mm, d, own=False)
    c.call('mj_forward', mm, dd)
    if c.stop:
      bad = True
      return
    c.call('mj_saveLastXML', (path + '.saved').encode(), mm, c.err, 1000, expect=None)
    if c.stop:
      return
    c.call('mj_printModel', mm, (path + '.txt').encode())
  finally:
    _delete_data(lib, c, m, d, bad)
    if m:
      lib.mj_deleteModel(m)
    lib.mj_freeLastXML()      # mj_loadXML keeps the parsed spec in a global for mj_saveLastXML
    for ext in ('', '.saved', '.txt'):
      try:
        os.unlink(path + ext)
      except OSError:
        pass


def sc_spec(lib, c, xml):
  """parse -> copySpec -> add body/geom/joint -> compile -> makeData -> edit -> mj_recompile -> step -> delete"""
  spec = s2 = m = d = None
  bad = False
  try:
    spec = c.call('mj_parseXMLString', xml.encode(), None, c.err, 1000, expect='ptr')
    if c.stop:
      return
    s2 = c.call('mj_copySpec', spec, expect='ptr')
    if c.stop:
      return
    world = c.call('mjs_findBody', s2, b'world', expect='ptr')
    if c.stop:
      return
    b = c.call('mjs_addBody', world, None, expect='ptr')
    if c.stop:
      return
    g = c.call('mjs_addGeom', b, None, expect='ptr')
    if c.stop:
      return
    gs = lib.layout.get('mjsGeom')
    if gs and 'size' in gs['fields']:
      off = gs['fields']['size']['off']
      (C.c_double * 3).from_address(g + off)[0:3] = [0.1, 0.1, 0.1]
    j = c.call('mjs_addJoint', b, None, expect='ptr')
    if c.stop:
      return
    m = c.call('mj_compile', s2, None, expect='ptr')
    if c.stop:
      c.events[-1] = ('mj_compile', c.events[-1][1], (lib.mjs_getError(s2) or '')[:120])
      return
    mm = mj.Model(lib, m, own=False)
    d = c.call('mj_makeData', mm, expect='ptr')
    if c.stop:
      return
    dd = mj.Data(lib, mm, d, own=False)
    c.call('mj_step', mm, dd)
    if c.stop:
      bad = True
      return
    b2 = c.call('mjs_addBody', world, None, expect='ptr')
    if c.stop:
      return
    g2 = c.call('mjs_addGeom', b2, None, expect='ptr')
    if c.stop:
      return
    if gs and 'size' in gs['fields']:
      (C.c_double * 3).from_address(g2 + gs['fields']['size']['off'])[0:3] = [0.05, 0.05, 0.05]
    rc = c.call('mj_recompile', s2, None, mm, dd, expect='zero')
    if c.stop:
      if c.events[-1][1] == 'mju_error':
        # the error escaped mj_recompile through the log channel (raised while re-making the mjData in place, outside
        # the compiler's own handler): the caller still owns both objects; the half-made mjData can only be deleted
        bad = False
        return
      c.events[-1] = ('mj_recompile', c.events[-1][1], (lib.mjs_getError(s2) or '')[:120])
      m = d = None    # documented: "In the case of failure, the given mjModel and mjData instances will be deleted"
      return
    c.call('mj_step', mm, dd)
    if c.stop:
      bad = True
  finally:
    _delete_data(lib, c, m, d, bad)
    if m:
      lib.mj_deleteModel(m)
    for s in (s2, spec):
      if s:
        lib.mj_deleteSpec(s)


def sc_vfs(lib, c, xml):
  """defaultVFS -> addBufferVFS (model + included file) -> loadXML through the VFS -> deleteVFS"""
  vfs = C.create_string_buffer(64)
  m = None
  inited = False
  try:
    c.call('mj_defaultVFS', vfs)
    if c.stop:
      return
    inited = True
    data = xml.encode()
    c.call('mj_addBufferVFS', vfs, b'model.xml', data, len(data), expect='zero')
    if c.stop:
      return
    inc = b'<mujoco><worldbody><geom name="incl" size="0.05" pos="1 1 1"/></worldbody></mujoco>'
    c.call('mj_addBufferVFS', vfs, b'inc.xml', inc, len(inc), expect='zero')
    if c.stop:
      return
    top = b'<mujoco><include file="model.xml"/><include file="inc.xml"/></mujoco>'
    c.call('mj_addBufferVFS', vfs, b'top.xml', top, len(top), expect='zero')
    if c.stop:
      return
    m = c.call('mj_loadXML', b'top.xml', vfs, c.err, 1000, expect='ptr')
  finally:
    if m:
      lib.mj_deleteModel(m)
    lib.mj_freeLastXML()
    if inited:
      try:
        lib.mj_deleteVFS(vfs)
      except mj.MjError as e:
        c.events.append(('mj_deleteVFS', 'mju_error', str(e)[:100]))


def sc_visual(lib, c, xml):
  """loadXML(string) -> makeData -> forward -> mjv_makeScene -> mjv_updateScene -> mjv_copyData -> mjv_freeScene"""
  spec = m = d = None
  scn = lib.new_struct('mjvScene')
  opt = lib.new_struct('mjvOption')
  cam = lib.new_struct('mjvCamera')
  made = False
  bad = False
  try:
    spec = c.call('mj_parseXMLString', xml.encode(), None, c.err, 1000, expect='ptr')
    if c.stop:
      return
    m = c.call('mj_compile', spec, None, expect='ptr')
    if c.stop:
      return
    mm = mj.Model(lib, m, own=False)
    d = c.call('mj_makeData', mm, expect='ptr')
    if c.stop:
      return
    dd = mj.Data(lib, mm, d, own=False)
    c.call('mj_forward', mm, dd)
    if c.stop:
      bad = True
      return
    lib.mjv_defaultScene(scn)
    lib.mjv_defaultOption(opt)
    lib.mjv_defaultCamera(cam)
    made = True
    c.call('mjv_makeScene', mm, scn, 200)
    if c.stop:
      return
    c.call('mjv_updateScene', mm, dd, opt, None, cam, 7, scn)
  finally:
    if made:
      try:
        lib.mjv_freeScene(scn)
      except mj.MjError as e:
        c.events.append(('mjv_freeScene', 'mju_error', str(e)[:100]))
    _delete_data(lib, c, m, d, bad)
    if m:
      lib.mj_deleteModel(m)
    if spec:
      lib.mj_deleteSpec(spec)


SCENARIOS = dict(lifecycle=sc_lifecycle, file=sc_file, spec=sc_spec, vfs=sc_vfs, visual=sc_visual)


def execute(lib, variant, scenario, xml, k, seed, den):
  """-> dict(count, failed=[alloc indices], leaked=[alloc indices of blocks still live after cleanup], badfree, events..)"""
  h = _hooks[variant]
  h.c21_arm(k, seed, den)
  c = Ctx(lib)
  c.hooks = h
  SCENARIOS[scenario](lib, c, xml)
  nf = h.c21_nfailed()
  gen = h.c21_gen()
  mine = [i for i in range(h.c21_nlive()) if h.c21_live_gen(i) == gen]     # blocks allocated by this run, still live
  out = dict(count=int(h.c21_count()), failed=[int(h.c21_failed_idx(i)) for i in range(min(nf, 256))],
             leaked=sorted(int(h.c21_live_idx(i)) for i in mine),
             leaked_bytes=sum(int(h.c21_live_size(i)) for i in mine),
             badfree=int(h.c21_badfree()), overflow=int(h.c21_overflow()), events=c.events, unwound=c.unwound,
             fault_api=c.fault_api)
  h.c21_arm(-1, 0, 0)
  lib.warnings()
  return out


def handler(job):
  """Counts the allocations N of the fault-free scenario, then executes every single fault in job['ks'] (default
  1..N+1) and the multi-fault masks, then a clean run."""
  lib = lib_for(job['variant'])
  sc, xml = job['scenario'], job['model']
  base = dict(scenario=sc, model_name=job.get('model_name'), variant=job['variant'])
  asanproc.journal(dict(base, k=None, phase='count'))
  execute(lib, job['variant'], sc, xml, -1, 0, 0)          # warm-up: lazily initialised globals (plugin tables, caches)
  r = execute(lib, job['variant'], sc, xml, -1, 0, 0)
  r2 = execute(lib, job['variant'], sc, xml, -1, 0, 0)
  out = dict(N=r['count'], N2=r2['count'], count_run=r, runs=[], final=None)
  if [e for e in r['events'] if e[1] != 'ok'] or r['count'] != r2['count'] or r['leaked'] or r['badfree']:
    return out
  N = r['count']
  ks = job.get('ks')
  if ks is None:
    ks = list(range(1, N + 2))
    if job.get('max_k'):
      ks = [k for k in ks if k <= job['max_k']] + [N + 1]
  for k in ks:
    asanproc.journal(dict(base, k=k, phase='single-fault', model=xml))
    r = execute(lib, job['variant'], sc, xml, k, 0, 0)
    r['k'] = k
    out['runs'].append(r)
  for seed, den in job.get('multi', []):
    asanproc.journal(dict(base, seed=seed, den=den, phase='multi-fault', model=xml))
    r = execute(lib, job['variant'], sc, xml, -1, seed, den)
    r['multi'] = [seed, den]
    out['runs'].append(r)
  # the process must still be fully functional afterwards
  asanproc.journal(dict(base, k=None, phase='clean-run-after-faults'))
  out['final'] = execute(lib, job['variant'], sc, xml, -1, 0, 0)
  return out


if __name__ == '__main__':
  asanproc.worker_main(handler)
