"""C22 - Sorting and selection utilities are correct and stable.

Domain : (a) the tree's mjSORT / mjPARTIAL_SORT macros (src/engine/engine_sort.h), instantiated by native/C22/sort_harness.c
             for a {int key; int tag} element and key-only comparators (sign-valued, magnitude-valued, descending, and
             through a context table).  The macro text is instantiated with the shipped run size (32) and, because the run
             size is a macro expanded at instantiation, also with run sizes 2, 3 and 5 so that short arrays reach the
             run-boundary / merge / buffer ping-pong logic.
             Exhaustive: every array of length 0..9 over keys {0,1,2} x 4 run sizes x 4 comparators; every array of length
             0..8 over {0,1,2} x every k in 0..n for the partial sort.
             Random (Hypothesis): lengths up to 5000 (quick) concentrated on 2^k +-1 and multiples of the run size +-1,
             patterns random-with-heavy-ties / wide / sorted / reversed / sawtooth / organ-pipe / constant / blocks.
         (b) mju_insertionSort (doubles incl. +-0, +-inf, subnormals, duplicates; no NaN) and mju_insertionSortInt.
Oracle : literal statement of the property, computed with numpy: output keys non-decreasing under the comparator's order,
         output multiset == input multiset ((key, tag) pairs; bit patterns for doubles), tags increasing within equal keys
         (stability, mjSORT only); second, equality with numpy's stable argsort (unique answer of a stable sort).
         Partial sort: first k output keys == first k keys of the sorted input, and the first k outputs are distinct
         elements of the input (tag distinct, key matching the tag's input key).
         Guard words after the array and after the scratch buffer (size n resp. k as documented) must stay intact.
Non-trivial : length >= 3 and at least one tie between keys.
"""
import ctypes
import hashlib
import itertools
import os
import subprocess

import numpy as np
from hypothesis import strategies as st

from vf import build as vb
from vf.runner import Violation

GUARD = 16           # guard elements after arrays / buffers
SENT = -0x5A5A5A5A


def build_harness():
  src = os.path.join(vb.NATIVE, 'C22', 'sort_harness.c')
  hdr = os.path.join(vb.REPO, 'src', 'engine', 'engine_sort.h')
  flags = ['-O2', '-fPIC', '-shared', '-std=gnu11', '-w', '-I' + os.path.join(vb.REPO, 'src'),
           '-I' + os.path.join(vb.REPO, 'include')]
  h = hashlib.sha256()
  for p in (src, hdr):
    with open(p, 'rb') as f:
      h.update(f.read())
    h.update(b'\0')
  h.update(' '.join(flags).replace(vb.REPO, '<REPO>').encode())
  d = os.path.join(vb.CACHE, 'native')
  os.makedirs(d, exist_ok=True)
  so = os.path.join(d, 'c22_sort_%s.so' % h.hexdigest()[:16])
  if not os.path.exists(so):
    tmp = so + '.tmp%d' % os.getpid()
    p = subprocess.run([vb.CLANG] + flags + ['-o', tmp, src], capture_output=True, text=True)
    if p.returncode != 0:
      raise vb.BuildError('C22 harness does not compile against %s:\n%s' % (hdr, p.stderr[-3000:]))
    os.replace(tmp, so)
  h = ctypes.CDLL(so)
  vp = ctypes.c_void_p
  h.vf_sort_batch.argtypes = [ctypes.c_int, vp, vp, ctypes.c_int, ctypes.c_int, ctypes.c_int, vp]
  h.vf_sort_batch.restype = ctypes.c_long
  h.vf_psort_batch.argtypes = [vp, vp, ctypes.c_int, ctypes.c_int, ctypes.c_int, ctypes.c_int, vp]
  h.vf_psort_batch.restype = ctypes.c_long
  h.vf_runsize_default.restype = ctypes.c_int
  return h


def order_key(keys, mode, rank):
  """The total preorder the comparator of `mode` induces, as integers (smaller = earlier)."""
  if mode in (0, 1):
    return keys
  if mode == 2:
    return -keys
  return rank[keys]


def make_elems(keys):
  """keys: (count, n) int array -> flat int32 buffer with guard, view (count, n, 2)."""
  count, n = keys.shape
  flat = np.full((count * n + GUARD) * 2, SENT, dtype=np.int32)
  v = flat[:count * n * 2].reshape(count, n, 2)
  v[:, :, 0] = keys
  v[:, :, 1] = np.arange(n, dtype=np.int32)[None, :]
  return flat, v


def run_sort(h, runsize, keys, mode, rank):
  count, n = keys.shape
  flat, v = make_elems(keys)
  buf = np.full((n + GUARD) * 2, SENT, dtype=np.int32)
  rk = np.ascontiguousarray(rank, dtype=np.int32)
  ncmp = h.vf_sort_batch(runsize, flat.ctypes.data, buf.ctypes.data, count, n, mode, rk.ctypes.data)
  if not np.all(flat[count * n * 2:] == SENT):
    raise Violation('mjSORT(run=%d) wrote past the end of the array (n=%d)' % (runsize, n), bucket='sort-overrun')
  if not np.all(buf[n * 2:] == SENT):
    raise Violation('mjSORT(run=%d) wrote past buf[n] (n=%d)' % (runsize, n), bucket='sort-buf-overrun')
  return v, ncmp


def verify_sort(keys, out, mode, rank, what):
  """keys (count,n) input; out (count,n,2) result. Literal property + agreement with numpy's stable sort."""
  count, n = keys.shape
  if n == 0:
    return
  ok_, ot = out[:, :, 0].astype(np.int64), out[:, :, 1].astype(np.int64)
  # permutation: tags are a permutation of 0..n-1 and each carries its own input key
  st_ = np.sort(ot, axis=1)
  if not np.array_equal(st_, np.broadcast_to(np.arange(n), (count, n))):
    i = int(np.flatnonzero((st_ != np.arange(n)[None, :]).any(axis=1))[0])
    raise Violation('%s: output is not a permutation of the input (tags %s) for keys %s' % (
        what, ot[i].tolist()[:40], keys[i].tolist()[:40]), bucket='sort-permutation')
  if not np.array_equal(np.take_along_axis(keys.astype(np.int64), ot, axis=1), ok_):
    i = int(np.flatnonzero((np.take_along_axis(keys.astype(np.int64), ot, axis=1) != ok_).any(axis=1))[0])
    raise Violation('%s: an output element has a key that differs from the input element with the same tag; keys %s' % (
        what, keys[i].tolist()[:40]), bucket='sort-permutation')
  o = order_key(ok_, mode, rank)
  if n > 1:
    d = np.diff(o, axis=1)
    if (d < 0).any():
      i = int(np.flatnonzero((d < 0).any(axis=1))[0])
      raise Violation('%s: output not in non-decreasing order: in keys %s -> out keys %s' % (
          what, keys[i].tolist()[:60], ok_[i].tolist()[:60]), bucket='sort-order')
    bad = (d == 0) & (np.diff(ot, axis=1) < 0)
    if bad.any():
      i = int(np.flatnonzero(bad.any(axis=1))[0])
      raise Violation('%s: not stable: equal keys out of input order: in keys %s -> out (key,tag) %s' % (
          what, keys[i].tolist()[:60], out[i].tolist()[:60]), bucket='sort-stability')
  ref = np.argsort(order_key(keys.astype(np.int64), mode, rank), axis=1, kind='stable')
  if not np.array_equal(ref, ot):
    raise Violation('%s: differs from numpy stable argsort' % what, bucket='sort-reference')


def run_psort(h, keys, k, mode, rank):
  count, n = keys.shape
  flat, v = make_elems(keys)
  buf = np.full((max(k, 0) + GUARD) * 2, SENT, dtype=np.int32)
  rk = np.ascontiguousarray(rank, dtype=np.int32)
  h.vf_psort_batch(flat.ctypes.data, buf.ctypes.data, count, n, k, mode, rk.ctypes.data)
  if not np.all(flat[count * n * 2:] == SENT):
    raise Violation('mjPARTIAL_SORT wrote past the end of the array (n=%d k=%d)' % (n, k), bucket='psort-overrun')
  if not np.all(buf[max(k, 0) * 2:] == SENT):
    raise Violation('mjPARTIAL_SORT wrote past buf[k] (n=%d k=%d)' % (n, k), bucket='psort-buf-overrun')
  return v


def verify_psort(keys, out, k, mode, rank, what):
  count, n = keys.shape
  if k <= 0:
    # nothing to select: the array must still hold its input (0 smallest elements of anything)
    if not (np.array_equal(out[:, :, 0], keys) and np.array_equal(out[:, :, 1], np.broadcast_to(np.arange(n), (count, n)))):
      raise Violation('%s: k=%d modified the array' % (what, k), bucket='psort-k0')
    return
  k64 = keys.astype(np.int64)
  pk, pt = out[:, :k, 0].astype(np.int64), out[:, :k, 1].astype(np.int64)
  if ((pt < 0) | (pt >= n)).any():
    raise Violation('%s: prefix holds an element that is not in the input (tag out of range)' % what, bucket='psort-member')
  if not np.array_equal(np.take_along_axis(k64, pt, axis=1), pk):
    raise Violation('%s: prefix holds an element that is not in the input (key/tag mismatch)' % what, bucket='psort-member')
  if k > 1 and (np.diff(np.sort(pt, axis=1), axis=1) == 0).any():
    i = int(np.flatnonzero((np.diff(np.sort(pt, axis=1), axis=1) == 0).any(axis=1))[0])
    raise Violation('%s: the same input element appears twice among the k smallest: keys %s k=%d -> %s' % (
        what, keys[i].tolist()[:60], k, out[i, :k].tolist()[:60]), bucket='psort-duplicate')
  want = np.sort(order_key(k64, mode, rank), axis=1)[:, :k]
  got = order_key(pk, mode, rank)
  if not np.array_equal(want, got):
    i = int(np.flatnonzero((want != got).any(axis=1))[0])
    raise Violation('%s: first k=%d keys are not the k smallest in sorted order: keys %s -> prefix keys %s' % (
        what, k, keys[i].tolist()[:60], pk[i].tolist()[:60]), bucket='psort-order')


def all_arrays(n, nkeys):
  if n == 0:
    return np.zeros((1, 0), dtype=np.int32)
  return np.array(list(itertools.product(range(nkeys), repeat=n)), dtype=np.int32)


PATTERNS = ('ties2', 'ties4', 'ties16', 'wide', 'sorted', 'reversed', 'sawtooth', 'organ', 'constant', 'blocks',
            'nearly_sorted', 'two_runs')


def gen_keys(rng, n, pattern):
  if n == 0:
    return np.zeros(0, dtype=np.int32)
  if pattern == 'ties2':
    return rng.randint(0, 2, n)
  if pattern == 'ties4':
    return rng.randint(0, 4, n)
  if pattern == 'ties16':
    return rng.randint(0, 16, n)
  if pattern == 'wide':
    return rng.randint(0, 1 << 20, n)
  if pattern == 'sorted':
    return np.sort(rng.randint(0, max(2, n // 3), n))
  if pattern == 'reversed':
    return np.sort(rng.randint(0, max(2, n // 3), n))[::-1].copy()
  if pattern == 'sawtooth':
    p = int(rng.randint(2, 70))
    return np.arange(n) % p
  if pattern == 'organ':
    a = np.arange(n)
    return np.minimum(a, n - 1 - a)
  if pattern == 'constant':
    return np.full(n, int(rng.randint(0, 5)))
  if pattern == 'blocks':
    b = int(rng.randint(1, 40))
    return rng.randint(0, 6, n // b + 1).repeat(b)[:n]
  if pattern == 'nearly_sorted':
    a = np.sort(rng.randint(0, max(2, n // 2), n))
    for _ in range(max(1, n // 20)):
      i, j = rng.randint(0, n, 2)
      a[i], a[j] = a[j], a[i]
    return a
  # two sorted runs whose boundary is at a random place (merge tails)
  c = int(rng.randint(0, n + 1))
  return np.concatenate([np.sort(rng.randint(0, 50, c)), np.sort(rng.randint(0, 50, n - c))])


def special_lengths(maxn, run):
  s = set(range(0, 12))
  for p in range(1, 14):
    for d in (-1, 0, 1):
      s.add((1 << p) + d)
  for mult in (1, 2, 3, 4, 5, 6, 7, 8, 9, 15, 16, 17, 31, 33, 63, 64, 65):
    for d in (-1, 0, 1):
      s.add(run * mult + d)
  return sorted(x for x in s if 0 <= x <= maxn)


def main(ck):
  h = build_harness()
  lib = ck.lib('rel')
  RUN = h.vf_runsize_default()
  ck.extra['shipped_runsize'] = RUN
  ck.rule = ('exhaustive: all arrays over keys {0,1,2} of length 0..9 (mjSORT at run sizes 2,3,5 and the shipped one, 4 comparator '
             'styles) and length 0..8 x all k (mjPARTIAL_SORT); random: Hypothesis-drawn (length, pattern, comparator, seed) with '
             'lengths up to 5000/20000 biased to 2^k+-1 and run-size multiples +-1; mju_insertionSort[Int] on random arrays. '
             'non-trivial = length >= 3 and at least one tie; distinct by (routine, run size, comparator, k, key sequence)')
  ck.assumptions = ['comparators are consistent total preorders (key-only); NaN is not passed to mju_insertionSort',
                    'run sizes 2/3/5 are instantiations of the same macro text with _mjRUNSIZE redefined (the shipped value is '
                    'exercised by the random part, lengths > run size)']
  ident = np.arange(64, dtype=np.int32)

  # ------------------------------------------------------------ (1) exhaustive small domain
  rank3 = np.array([1, 2, 0], dtype=np.int32)   # mode 3: order 2 < 0 < 1
  n_ex = 0
  maxn = 9
  for n in range(0, maxn + 1):
    keys = all_arrays(n, 3)
    tie = np.array([len(set(r)) < len(r) for r in keys.tolist()]) if n else np.zeros(1, bool)
    for runsize in (2, 3, 5, RUN):
      for mode in (0, 1, 2, 3):
        rank = rank3 if mode == 3 else ident
        out, _ = run_sort(h, runsize, keys, mode, rank)
        verify_sort(keys, out, mode, rank, 'mjSORT(run=%d,cmp=%d,n=%d)' % (runsize, mode, n))
        n_ex += len(keys)
        ck.label('exh:sort:run=%d' % runsize)
    # evidence: one ck.case per distinct array for the run=2/sign-comparator instantiation, bulk-count the others
    for i, r in enumerate(keys.tolist()):
      nt = n >= 3 and bool(tie[i])
      ck.case(nontrivial=nt, key=('sort', 2, 0, r),
              sample=dict(routine='mjSORT', runsize=2, cmp='sign', keys=r) if nt and n == 9 and i in (4008, 12010) else None)
    ck.evaluations += len(keys) * 15
  ck.extra['exhaustive_sort_arrays'] = n_ex
  n_px = 0
  for n in range(0, 9):
    keys = all_arrays(n, 3)
    for k in range(0, n + 1):
      for mode in ((0, 1, 2, 3) if n <= 7 else (0, 3)):
        rank = rank3 if mode == 3 else ident
        out = run_psort(h, keys, k, mode, rank)
        verify_psort(keys, out, k, mode, rank, 'mjPARTIAL_SORT(cmp=%d,n=%d,k=%d)' % (mode, n, k))
        n_px += len(keys)
      ck.label('exh:psort:k=%s' % ('0' if k == 0 else 'n' if k == n else 'mid'))
    if n >= 3:
      for i, r in enumerate(keys.tolist()):
        if len(set(r)) < n:
          ck.case(nontrivial=True, key=('psort', r), sample=dict(routine='mjPARTIAL_SORT', keys=r, k='all 0..n')
                  if n == 8 and i == 3006 else None)
  ck.evaluations += n_px
  ck.extra['exhaustive_psort_cases'] = n_px
  ck.exhaustive = True

  # ------------------------------------------------------------ (2) random arrays
  maxlen = 5000 if ck.quick else 20000
  lens = special_lengths(maxlen, RUN)

  def test(case):
    n, pattern, mode, seed, runsize = case
    rng = np.random.RandomState(seed)
    keys = np.ascontiguousarray(gen_keys(rng, n, pattern), dtype=np.int32).reshape(1, n)
    nk = int(keys.max()) + 1 if n else 1
    rank = rng.permutation(nk).astype(np.int32) if mode == 3 else ident
    rs = RUN if runsize == 0 else runsize
    out, ncmp = run_sort(h, rs, keys, mode, rank)
    verify_sort(keys, out, mode, rank, 'mjSORT(run=%d,cmp=%d,n=%d,%s)' % (rs, mode, n, pattern))
    tie = n >= 3 and len(np.unique(keys)) < n
    # partial sort, a few k
    ks = sorted({0, 1, 2, n // 2, n - 1, n, int(rng.randint(0, n + 1))} & set(range(0, n + 1)))
    if n > 600:
      ks = [k for k in ks if k <= 300] + [ks[-1]] if pattern in ('sorted', 'constant') else [k for k in ks if k <= 300]
    for k in ks:
      outp = run_psort(h, keys, k, mode, rank)
      verify_psort(keys, outp, k, mode, rank, 'mjPARTIAL_SORT(cmp=%d,n=%d,k=%d,%s)' % (mode, n, k, pattern))
    ck.case(nontrivial=tie, key=('rnd', n, pattern, mode, seed, rs),
            sample=dict(routine='mjSORT+mjPARTIAL_SORT', n=n, pattern=pattern, cmp=mode, runsize=rs, ks=ks,
                        keys_head=keys[0, :12].tolist()) if n > RUN else None,
            labels=['pat:' + pattern, 'cmp:%d' % mode, 'run:%d' % rs,
                    'n:' + ('<=run' if n <= RUN else '<=2run' if n <= 2 * RUN else '<=8run' if n <= 8 * RUN else '>8run')])

  strat = st.tuples(st.one_of(st.sampled_from(lens), st.integers(0, maxlen), st.integers(RUN, 6 * RUN + 2)),
                    st.sampled_from(PATTERNS), st.sampled_from([0, 0, 1, 2, 3]), st.integers(0, 2 ** 31 - 1),
                    st.sampled_from([0, 0, 0, 2, 3, 5]))
  ck.run_hypothesis(test, strat, ck.budget(2000, 60000), name='random-sort')

  # ------------------------------------------------------------ (3) mju_insertionSort / mju_insertionSortInt
  specials = np.array([0.0, -0.0, np.inf, -np.inf, 5e-324, -5e-324, 2.2250738585072014e-308, 1.0, -1.0,
                       1.0 + 2.0 ** -52, 1.7976931348623157e308, -1.7976931348623157e308])

  def test_ins(case):
    n, kind, seed = case
    rng = np.random.RandomState(seed)
    # doubles
    if kind == 'special':
      x = specials[rng.randint(0, len(specials), n)]
    elif kind == 'ties':
      x = rng.randint(-3, 4, n).astype(np.float64)
    elif kind == 'sorted':
      x = np.sort(rng.normal(size=n))
    elif kind == 'reversed':
      x = np.sort(rng.normal(size=n))[::-1].copy()
    else:
      x = rng.normal(size=n) * 10.0 ** rng.randint(-300, 300)
    buf = np.full(n + 4, 12345.678)
    buf[:n] = x
    lib.mju_insertionSort(buf, n)
    y = buf[:n]
    if not np.all(buf[n:] == 12345.678):
      raise Violation('mju_insertionSort wrote past list[n]', bucket='ins-overrun')
    if n > 1 and not np.all(y[:-1] <= y[1:]):
      raise Violation('mju_insertionSort output not non-decreasing: %s -> %s' % (x.tolist()[:30], y.tolist()[:30]), bucket='ins-order')
    if not np.array_equal(np.sort(x.view(np.int64)), np.sort(y.view(np.int64))):
      raise Violation('mju_insertionSort output is not a permutation (bit patterns) of %s: %s' % (x.tolist()[:30], y.tolist()[:30]),
                      bucket='ins-permutation')
    # ints
    if kind == 'special':
      xi = np.array([0, -1, 1, 2 ** 31 - 1, -2 ** 31, 7], dtype=np.int64)[rng.randint(0, 6, n)].astype(np.int32)
    elif kind == 'ties':
      xi = rng.randint(-3, 4, n).astype(np.int32)
    elif kind == 'sorted':
      xi = np.sort(rng.randint(-1000, 1000, n)).astype(np.int32)
    elif kind == 'reversed':
      xi = np.sort(rng.randint(-1000, 1000, n))[::-1].astype(np.int32)
    else:
      xi = rng.randint(-2 ** 31, 2 ** 31 - 1, n).astype(np.int32)
    bi = np.full(n + 4, 424242, dtype=np.int32)
    bi[:n] = xi
    lib.mju_insertionSortInt(bi, n)
    if not np.all(bi[n:] == 424242):
      raise Violation('mju_insertionSortInt wrote past list[n]', bucket='ins-overrun')
    if not np.array_equal(bi[:n], np.sort(xi)):
      raise Violation('mju_insertionSortInt(%s) = %s' % (xi.tolist()[:30], bi[:n].tolist()[:30]), bucket='insint')
    tie = n >= 3 and (len(np.unique(x)) < n or len(np.unique(xi)) < n)
    ck.case(nontrivial=tie, key=('ins', n, kind, seed), sample=dict(routine='mju_insertionSort[Int]', n=n, kind=kind,
                                                                    head=x[:6].tolist()) if kind == 'special' else None,
            labels=['ins:' + kind])

  ck.run_hypothesis(test_ins, st.tuples(st.one_of(st.integers(0, 40), st.integers(0, 400)),
                                        st.sampled_from(['special', 'ties', 'sorted', 'reversed', 'random']),
                                        st.integers(0, 2 ** 31 - 1)), ck.budget(1500, 30000), name='insertion-sort')
  # exhaustive tiny domain for the insertion helpers: all arrays over {-1,0,1} up to length 7
  for n in range(0, 8):
    for r in itertools.product((-1.0, 0.0, 1.0), repeat=n):
      a = np.array(r + (9.0,), dtype=np.float64)
      lib.mju_insertionSort(a, n)
      ai = np.array([int(v) for v in r] + [9], dtype=np.int32)
      lib.mju_insertionSortInt(ai, n)
      if a[:n].tolist() != sorted(r) or ai[:n].tolist() != sorted(int(v) for v in r) or a[n] != 9.0 or ai[n] != 9:
        raise Violation('insertion sort wrong on %s: %s / %s' % (list(r), a.tolist(), ai.tolist()), bucket='ins-exhaustive')
      ck.evaluations += 1
  ck.label('exh:insertion')


LEVEL = 'exploration'
TECHNIQUE = ('exhaustive enumeration of a small domain (all arrays over 3 keys up to length 9, all k) + property-based testing '
             '(Hypothesis) of random/structured long arrays against the literal sortedness/permutation/stability property and numpy stable sort')
LEVEL_TEXT = '''The macros of engine_sort.h are instantiated unchanged from the tree by a small native harness and driven with every array
over three keys up to length 9 (at run sizes 2, 3, 5 and the shipped 32; four comparator styles incl. magnitude-valued and context-dependent),
every k for the partial sort, and Hypothesis-generated long arrays (lengths around powers of two and run-size multiples, heavy ties, sorted,
reversed, sawtooth, two-run inputs). Each output is checked for order, multiset equality, stability (tags) and against numpy's stable argsort;
guard words detect writes beyond the array / scratch buffer. mju_insertionSort and mju_insertionSortInt are checked the same way.'''
LEVEL_NOTE = '''Exhaustive only over 3 keys and length <= 9 (<= 8 for the partial sort); beyond that sampled. The engine's own comparators
(contactcompare, SAPcmp, ...) are not exercised here, only the generic macros with key-only comparators. NaN inputs to mju_insertionSort are
excluded (no total order). Trusted: clang, numpy sort.'''
