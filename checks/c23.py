"""C23 - Linear algebra routines agree with their definitions.

Domain : direct calls of the dense (engine_util_blas.c), factorisation / QP (engine_util_solve.c) and sparse (engine_util_sparse.c)
         utilities.  Sizes cross the AVX width (0..9, 15..17, 31..33, 40) and arrays start at unaligned offsets; matrices with
         condition numbers up to 1e10 (labelled, judged by backward-error criteria that do not depend on conditioning);
         sparsity patterns with empty rows, full rows, random duplicate-free sorted columns, in compressed layout, in the
         "uncompressed" layout (rowadr = r*nc) and with gaps; band-dense (arrowhead) matrices with nband 1..n, ndense 0..n.
Oracle : numpy / scipy dense counterparts.  Elementwise kernels bit-exactly (one or two IEEE operations per element);
         reductions within K eps sum|terms|; factorisations by reconstruction and residual (backward error) bounds; rank-one
         updates against refactorisation (scaled by the condition number; skipped above 1e8); format conversions by exact round
         trips; mju_eig3 by orthonormality, reconstruction, ordering and quaternion consistency; mju_boxQP and the QCQP helpers
         by their KKT conditions (feasibility, sign of the gradient on active bounds / multiplier of the quadratic constraint).
         Differential: the AVX build ("rel") against the scalar build ("noavx") on the same inputs - bit-exact for elementwise
         kernels, within 4 eps sum|terms| for reductions; the scalar build runs in a worker process on the same seeded inputs
         (both tiers; that build is cached after its first compilation).
Non-trivial : a size that is not a multiple of 4, or a sparsity pattern with an empty row.
"""
import ctypes

import numpy as np
import scipy.linalg
from hypothesis import strategies as st

from vf.runner import Violation

EPS = 2.0 ** -52
K_RED = 32        # reductions: |err| <= K eps sum |terms|   (worst observed recorded in evidence)
K_FACT = 64       # factorisations: backward error <= K n eps * magnitude
SIZES = [0, 1, 2, 3, 4, 5, 6, 7, 8, 9, 11, 12, 13, 15, 16, 17, 23, 24, 31, 32, 33, 40]
GUARD = 7.25e77


class Cx:
  def __init__(self, ck, lib, lib2, data):
    self.ck, self.lib, self.lib2, self.d = ck, lib, lib2, data
    self.worst = {}
    self.bitequal = [0, 0]      # (identical, total) rel vs noavx on reductions
    self.counters = {}

  def note(self, name, ratio):
    r = float(ratio)
    if r > self.worst.get(name, 0.0):
      self.worst[name] = r

  def close(self, name, got, want, tol, what):
    got = np.asarray(got, dtype=np.float64)
    want = np.asarray(want, dtype=np.float64)
    tol = np.broadcast_to(np.asarray(tol, dtype=np.float64), got.shape) + 1e-300
    if not np.all(np.isfinite(got)):
      raise Violation('%s: non-finite output; %s' % (name, what()), bucket=name)
    err = np.abs(got - want)
    if err.size:
      self.note(name, np.max(err / tol))
      if np.any(err > tol):
        i = int(np.argmax(err / tol))
        raise Violation('%s: element %d is %r, expected %r (tolerance %.3g); %s' % (
            name, i, float(got.ravel()[i]), float(want.ravel()[i]), float(tol.ravel()[i]), what()), bucket=name)

  def exact(self, name, got, want, what):
    got = np.ascontiguousarray(got)
    want = np.ascontiguousarray(want)
    if got.shape != want.shape or got.tobytes() != want.tobytes():
      if got.shape == want.shape and got.dtype.kind == 'f' and np.array_equal(got, want):
        return            # +0/-0 differences only
      raise Violation('%s: result differs from the reference (bit-exact comparison): got %s want %s; %s' % (
          name, np.asarray(got).ravel()[:12].tolist(), np.asarray(want).ravel()[:12].tolist(), what()), bucket=name)


def vec(rng, n, off=None, scale=1.0, zeros=0.0):
  """Unaligned (offset) contiguous vector with a guard behind it: returns (view, whole buffer)."""
  off = int(rng.randint(0, 4)) if off is None else off
  buf = np.full(off + n + 4, GUARD)
  v = buf[off:off + n]
  v[:] = rng.normal(size=n) * scale
  if zeros:
    v[rng.rand(n) < zeros] = 0.0
  return v, buf


def out(rng, n, off=None):
  off = int(rng.randint(0, 4)) if off is None else off
  buf = np.full(off + n + 4, GUARD)
  return buf[off:off + n], buf, off


def guard_ok(buf, off, n):
  return np.all(buf[:off] == GUARD) and np.all(buf[off + n:] == GUARD)


def ivec(a):
  return np.ascontiguousarray(a, dtype=np.int32)


# ------------------------------------------------------------------------------------------------ dense kernels

def fam_blas(cx, rng, n, cls):
  L, L2 = cx.lib, cx.lib2
  a, _ = vec(rng, n, scale=10.0 ** rng.uniform(-3, 3))
  b, _ = vec(rng, n, scale=10.0 ** rng.uniform(-3, 3))
  s = float(rng.normal() * 10.0 ** rng.uniform(-2, 2))
  w = lambda: 'n=%d a[:6]=%s b[:6]=%s s=%r' % (n, a[:6].tolist(), b[:6].tolist(), s)
  # elementwise kernels: bit-exact against numpy, and AVX == scalar build
  specs = [('mju_scl', lambda Lb, r: Lb.mju_scl(r, a, s, n), lambda: a * s, None),
           ('mju_add', lambda Lb, r: Lb.mju_add(r, a, b, n), lambda: a + b, None),
           ('mju_sub', lambda Lb, r: Lb.mju_sub(r, a, b, n), lambda: a - b, None),
           ('mju_addScl', lambda Lb, r: Lb.mju_addScl(r, a, b, s, n), lambda: a + b * s, None),
           ('mju_addTo', lambda Lb, r: Lb.mju_addTo(r, b, n), lambda: a + b, a),
           ('mju_subFrom', lambda Lb, r: Lb.mju_subFrom(r, b, n), lambda: a - b, a),
           ('mju_addToScl', lambda Lb, r: Lb.mju_addToScl(r, b, s, n), lambda: a + b * s, a),
           ('mju_copy', lambda Lb, r: Lb.mju_copy(r, a, n), lambda: a.copy(), None)]
  for name, call, ref, init in specs:
    res = []
    for Lb in (L, L2):
      if Lb is None:
        continue
      r, buf, off = out(rng, n)
      if init is not None:
        r[:] = init
      call(Lb, r)
      if not guard_ok(buf, off, n):
        raise Violation('%s wrote outside res[0..n) (n=%d)' % (name, n), bucket=name + '-overrun')
      res.append(r.copy())
    cx.exact(name, res[0], ref(), w)
    if len(res) == 2:
      cx.exact(name + '-avx-vs-scalar', res[0], res[1], w)
  # fills
  r, buf, off = out(rng, n)
  L.mju_zero(r, n)
  cx.exact('mju_zero', r, np.zeros(n), w)
  L.mju_fill(r, s, n)
  cx.exact('mju_fill', r, np.full(n, s), w)
  if not guard_ok(buf, off, n):
    raise Violation('mju_zero/mju_fill wrote outside res (n=%d)' % n, bucket='fill-overrun')
  # reductions
  terms = float(np.sum(np.abs(a * b)))
  for name, fn, ref, sc in (('mju_dot', lambda Lb: Lb.mju_dot(a, b, n), float(np.dot(a, b)), terms),
                            ('mju_sum', lambda Lb: Lb.mju_sum(a, n), float(np.sum(a)), float(np.sum(np.abs(a)))),
                            ('mju_L1', lambda Lb: Lb.mju_L1(a, n), float(np.sum(np.abs(a))), float(np.sum(np.abs(a)))),
                            ('mju_norm', lambda Lb: Lb.mju_norm(a, n), float(np.linalg.norm(a)), float(np.linalg.norm(a)))):
    g = fn(L)
    cx.close(name, g, ref, K_RED * EPS * sc, w)
    if L2 is not None:
      g2 = fn(L2)
      cx.close(name + '-avx-vs-scalar', g, g2, 4 * EPS * sc, w)
      cx.bitequal[1] += 1
      cx.bitequal[0] += int(g == g2)
  if n:
    c = a.copy()
    nrm = L.mju_normalize(c, n)
    cx.close('mju_normalize', np.concatenate([c, [nrm]]), np.concatenate([a / np.linalg.norm(a), [np.linalg.norm(a)]]),
             K_RED * EPS * np.concatenate([np.ones(n), [np.linalg.norm(a)]]), w)
  # gather / scatter
  m = int(rng.randint(0, n + 1)) if n else 0
  ind = ivec(rng.permutation(n)[:m])
  r, buf, off = out(rng, m)
  L.mju_gather(r, a, ind, m)
  cx.exact('mju_gather', r, a[ind], w)
  full = np.full(n + 2, GUARD)
  src, _ = vec(rng, m)
  L.mju_scatter(full, src, ind, m)
  ref = np.full(n + 2, GUARD)
  ref[ind] = src
  cx.exact('mju_scatter', full, ref, w)
  ai = ivec(rng.randint(-100, 100, n))
  ri = np.full(m + 2, -7, dtype=np.int32)
  L.mju_gatherInt(ri, ai, ind, m)
  cx.exact('mju_gatherInt', ri, np.concatenate([ai[ind], [-7, -7]]).astype(np.int32), w)
  fi = np.full(n + 2, -7, dtype=np.int32)
  si = ivec(rng.randint(-100, 100, m))
  L.mju_scatterInt(fi, si, ind, m)
  refi = np.full(n + 2, -7, dtype=np.int32)
  refi[ind] = si
  cx.exact('mju_scatterInt', fi, refi, w)
  # dense matrix products (row-major)
  nr, nc, n3 = n, int(rng.choice(SIZES[:14])), int(rng.choice(SIZES[1:10]))
  A = np.ascontiguousarray(rng.normal(size=(nr, nc)))
  x, _ = vec(rng, nc)
  y, _ = vec(rng, nr)
  wm = lambda: 'A %dx%d' % (nr, nc)
  absA = np.abs(A)
  r, buf, off = out(rng, nr)
  L.mju_mulMatVec(r, A, x, nr, nc)
  cx.close('mju_mulMatVec', r, A @ x, K_RED * EPS * (absA @ np.abs(x)), wm)
  if not guard_ok(buf, off, nr):
    raise Violation('mju_mulMatVec wrote outside res', bucket='mulMatVec-overrun')
  if L2 is not None:
    r2 = np.empty(nr)
    L2.mju_mulMatVec(r2, A, x, nr, nc)
    cx.close('mju_mulMatVec-avx-vs-scalar', r, r2, 4 * EPS * (absA @ np.abs(x)), wm)
  r, buf, off = out(rng, nc)
  L.mju_mulMatTVec(r, A, y, nr, nc)
  cx.close('mju_mulMatTVec', r, A.T @ y, K_RED * EPS * (absA.T @ np.abs(y)), wm)
  if not guard_ok(buf, off, nc):
    raise Violation('mju_mulMatTVec wrote outside res', bucket='mulMatTVec-overrun')
  B = np.ascontiguousarray(rng.normal(size=(nc, n3)))
  R = np.full((nr, n3), GUARD)
  L.mju_mulMatMat(R, A, B, nr, nc, n3)
  cx.close('mju_mulMatMat', R, A @ B, K_RED * EPS * (absA @ np.abs(B)), wm)
  Bt = np.ascontiguousarray(rng.normal(size=(n3, nc)))
  R = np.full((nr, n3), GUARD)
  L.mju_mulMatMatT(R, A, Bt, nr, nc, n3)
  cx.close('mju_mulMatMatT', R, A @ Bt.T, K_RED * EPS * (absA @ np.abs(Bt.T)), wm)
  C = np.ascontiguousarray(rng.normal(size=(nr, n3)))
  R = np.full((nc, n3), GUARD)
  L.mju_mulMatTMat(R, A, C, nr, nc, n3)
  cx.close('mju_mulMatTMat', R, A.T @ C, K_RED * EPS * (absA.T @ np.abs(C)), wm)
  R = np.full((nc, nr), GUARD)
  L.mju_transpose(R, A, nr, nc)
  cx.exact('mju_transpose', R, np.ascontiguousarray(A.T), wm)
  dg = rng.uniform(0.1, 2, nr) if rng.rand() < 0.7 else None
  R = np.full((nc, nc), GUARD)
  L.mju_sqrMatTD(R, A, dg, nr, nc)
  refm = A.T @ (A * (dg[:, None] if dg is not None else 1.0))
  cx.close('mju_sqrMatTD', R, refm, K_RED * EPS * (absA.T @ (absA * (dg[:, None] if dg is not None else 1.0))), wm)
  if nr:
    S = np.ascontiguousarray(rng.normal(size=(nr, nr)))
    R = np.full((nr, nr), GUARD)
    L.mju_symmetrize(R, S, nr)
    cx.exact('mju_symmetrize', R, 0.5 * (S + S.T), wm)
    R = np.full((nr, nr), GUARD)
    L.mju_eye(R, nr)
    cx.exact('mju_eye', R, np.eye(nr), wm)
    q = L.mju_mulVecMatVec(y, S, y, nr)
    cx.close('mju_mulVecMatVec', q, y @ S @ y, K_RED * EPS * (np.abs(y) @ np.abs(S) @ np.abs(y)), wm)
  return dict(n=n, nc=nc), n % 4 != 0, []


# ------------------------------------------------------------------------------------------------ dense factorisations

def spd(rng, n, cond):
  Q = scipy.linalg.qr(rng.normal(size=(n, n)))[0] if n > 1 else np.eye(n)
  ev = 10.0 ** np.linspace(0, -np.log10(cond), n) if n > 1 else np.ones(n)
  ev *= 10.0 ** rng.uniform(-2, 2)
  A = (Q * ev) @ Q.T
  return 0.5 * (A + A.T)


def fam_chol(cx, rng, n, cls):
  L = cx.lib
  n = max(n, 1)
  cond = {'well': 10.0, 'mid': 1e5, 'ill': 1e10}[cls]
  A = spd(rng, n, cond)
  w = lambda: 'n=%d cond~%g A=%s' % (n, cond, [float(x).hex() for x in A.ravel()[:16]])
  M = np.ascontiguousarray(A.copy())
  # poison the strict upper triangle: only the lower triangle may be read
  M[np.triu_indices(n, 1)] = 1e300
  rank = L.mju_cholFactor(M, n, 1e-300)
  if rank != n:
    raise Violation('mju_cholFactor: rank %d for an SPD matrix of size %d; %s' % (rank, n, w()), bucket='cholFactor-rank')
  Lf = np.tril(M)
  absL = np.abs(Lf)
  cx.close('cholFactor-reconstruct', np.tril(Lf @ Lf.T), np.tril(A), K_FACT * (n + 1) * EPS * np.tril(absL @ absL.T), w)
  b, _ = vec(rng, n)
  x, buf, off = out(rng, n)
  L.mju_cholSolve(x, M, b, n)
  if not guard_ok(buf, off, n):
    raise Violation('mju_cholSolve wrote outside res', bucket='cholSolve-overrun')
  # backward-stable triangular solves: |A x - b| <= c n eps |L||L'||x|
  cx.close('cholSolve-residual', A @ x, b, K_FACT * (n + 1) * EPS * (absL @ (absL.T @ np.abs(x))) + 4 * EPS * np.abs(b), w)
  xin = b.copy()
  L.mju_cholSolve(xin, M, xin, n)               # documented: res may alias vec (copy skipped)
  cx.exact('cholSolve-inplace', xin, x.copy(), w)
  labels = ['cond:' + cls]
  # rank-one update / downdate against refactorisation
  if cond <= 1e6:
    u, _ = vec(rng, n, zeros=0.3, scale=float(np.sqrt(np.max(np.diag(A)))))
    Mu = M.copy()
    xu = u.copy()
    r = L.mju_cholUpdate(Mu, xu, n, 1)
    Lu = np.tril(Mu)
    tgt = A + np.outer(u, u)
    if r != n:
      raise Violation('mju_cholUpdate(+) reports rank %d; %s' % (r, w()), bucket='cholUpdate-rank')
    cx.close('cholUpdate(+)-vs-refactor', np.tril(Lu @ Lu.T), np.tril(tgt), K_FACT * (n + 1) * EPS * cond * np.max(np.abs(tgt)), w)
    # downdate back to A
    xd = u.copy()
    r = L.mju_cholUpdate(Mu, xd, n, 0)
    Ld = np.tril(Mu)
    if r != n:
      raise Violation('mju_cholUpdate(-) reports rank %d although the result is SPD; %s' % (r, w()), bucket='cholUpdate-rank')
    cx.close('cholUpdate(-)-vs-refactor', np.tril(Ld @ Ld.T), np.tril(A), 16 * K_FACT * (n + 1) * EPS * cond * np.max(np.abs(tgt)), w)
    labels.append('update')
  # rank deficiency: A = B B' with rank r < n, mindiag well above rounding: the deficient pivots are replaced
  if n >= 2:
    # leading block well conditioned (cond 10), the rest linearly dependent on it: the first rk pivots are O(1) and the
    # Schur complement of the remaining block is exactly zero up to rounding ~1e-14 (far below mindiag)
    rk = int(rng.randint(1, n))
    S_ = spd(rng, rk, 10.0)
    S_ /= np.max(np.abs(S_))
    C_ = rng.normal(size=(rk, n - rk))
    P = np.ascontiguousarray(np.block([[S_, S_ @ C_], [C_.T @ S_, C_.T @ S_ @ C_]]))
    md = 1e-8
    r = L.mju_cholFactor(P, n, md)
    if r != rk:
      raise Violation('mju_cholFactor: returned rank %d for a rank-%d PSD matrix (n=%d, mindiag=%g)' % (r, rk, n, md), bucket='cholFactor-rank')
    labels.append('rank-deficient')
  return dict(n=n, cond=cond), n % 4 != 0, labels


def fam_lu(cx, rng, n, cls):
  L = cx.lib
  n = max(n, 1)
  cond = {'well': 10.0, 'mid': 1e5, 'ill': 1e10}[cls]
  U_, _, Vt = np.linalg.svd(rng.normal(size=(n, n)))
  sv = 10.0 ** np.linspace(0, -np.log10(cond), n) if n > 1 else np.ones(1)
  A = np.ascontiguousarray((U_ * sv) @ Vt) * 10.0 ** rng.uniform(-2, 2)
  if rng.rand() < 0.3 and n > 1:
    A[0, 0] = 0.0                      # forces pivoting
  w = lambda: 'n=%d cond~%g A=%s' % (n, cond, [float(x).hex() for x in A.ravel()[:16]])
  LU = A.copy()
  piv = np.full(n + 1, -5, dtype=np.int32)
  ok = L.mju_factorLU(LU, n, piv)
  if ok != 1:
    raise Violation('mju_factorLU reports singular for cond~%g; %s' % (cond, w()), bucket='factorLU-singular')
  # pivot is a sequence of row swaps (k <-> pivot[k], pivot[k] >= k), as consumed by mju_solveLU
  if piv[n] != -5 or any(not (k <= piv[k] < n) for k in range(n)):
    raise Violation('mju_factorLU pivot is not a valid swap sequence: %s' % piv.tolist(), bucket='factorLU-pivot')
  PA = A.copy()
  for k in range(n):
    if piv[k] != k:
      PA[[k, piv[k]]] = PA[[piv[k], k]]
  Lm0, Um0 = np.tril(LU, -1) + np.eye(n), np.triu(LU)
  cx.close('factorLU: P A == L U', Lm0 @ Um0, PA, K_FACT * (n + 1) * EPS * (np.abs(Lm0) @ np.abs(Um0)), w)
  if np.max(np.abs(np.tril(LU, -1))) > 1 + 1e-12 if n > 1 else False:
    raise Violation('mju_factorLU: a multiplier exceeds 1 (partial pivoting not applied); %s' % w(), bucket='factorLU-pivot')
  b, _ = vec(rng, n)
  x, buf, off = out(rng, n)
  L.mju_solveLU(x, LU, b, piv, n)
  if not guard_ok(buf, off, n):
    raise Violation('mju_solveLU wrote outside x', bucket='solveLU-overrun')
  Lm, Um = np.tril(LU, -1) + np.eye(n), np.triu(LU)
  growth = np.abs(Lm) @ np.abs(Um)
  cx.close('solveLU-residual', A @ x, b, K_FACT * (n + 1) * EPS * (growth @ np.abs(x)).max() * np.ones(n) + 4 * EPS * np.abs(b), w)
  # exactly singular input must be reported
  Z = A.copy()
  Z[int(rng.randint(0, n))] = 0.0
  if L.mju_factorLU(Z, n, piv.copy()) != 0:
    raise Violation('mju_factorLU accepted a matrix with a zero row; %s' % w(), bucket='factorLU-singular')
  labels = ['cond:' + cls]
  if n == 6:
    LU6 = A.copy()
    p6 = np.zeros(6, dtype=np.int32)
    ok6 = L.mju_factorLU6(LU6, p6)
    cx.exact('factorLU6-identical', np.concatenate([LU6.ravel(), p6, [ok6]]), np.concatenate([LU.ravel(), piv[:6], [ok]]), w)
    x6 = np.empty(6)
    L.mju_solveLU6(x6, LU6, b.copy(), p6)
    cx.exact('solveLU6-identical', x6, x.copy(), w)
    labels.append('lu6')
  return dict(n=n, cond=cond), n % 4 != 0, labels


# ------------------------------------------------------------------------------------------------ band-dense

def fam_band(cx, rng, n, cls):
  L = cx.lib
  nt = max(n, 1)
  ndense = int(rng.choice([0, 0, 1, 2, nt])) if nt > 1 else int(rng.choice([0, 1]))
  ndense = min(ndense, nt)
  nband = int(rng.randint(1, nt + 1)) if rng.rand() < 0.8 else 1
  nsp = nt - ndense
  # SPD arrowhead matrix: mask of the representable lower-triangular entries
  mask = np.zeros((nt, nt), dtype=bool)
  for i in range(nt):
    for j in range(i + 1):
      mask[i, j] = (i >= nsp) or (i - j < nband)
  G = rng.normal(size=(nt, nt)) * mask
  A = G + G.T
  A[np.diag_indices(nt)] = np.abs(A).sum(axis=1) + rng.uniform(0.1, 2, nt)       # diagonally dominant -> SPD
  w = lambda: 'ntotal=%d nband=%d ndense=%d' % (nt, nband, ndense)
  size = nsp * nband + ndense * nt
  Bm = np.full(size + 3, GUARD)
  L.mju_dense2Band(Bm, np.ascontiguousarray(A), nt, nband, ndense)
  if not np.all(Bm[size:] == GUARD):
    raise Violation('mju_dense2Band wrote past the documented size; %s' % w(), bucket='band-overrun')
  untouched = Bm[:size] == GUARD                        # documented: some elements are never touched
  Bm[:size][untouched] = 0.0
  D = np.full((nt, nt), GUARD)
  L.mju_band2Dense(D, Bm, nt, nband, ndense, 1)
  cx.exact('band2Dense(dense2Band(A))', D, A, w)
  L.mju_band2Dense(D, Bm, nt, nband, ndense, 0)
  cx.exact('band2Dense-lower', D, np.tril(A), w)
  for i in range(nt):
    k = L.mju_bandDiag(i, nt, nband, ndense)
    if not (0 <= k < size) or Bm[k] != A[i, i]:
      raise Violation('mju_bandDiag(%d) = %d does not address the diagonal element; %s' % (i, k, w()), bucket='bandDiag')
  nvec = int(rng.randint(1, 4))
  X = np.ascontiguousarray(rng.normal(size=(nvec, nt)))
  for sym in (1, 0):
    R = np.full((nvec, nt), GUARD)
    L.mju_bandMulMatVec(R, Bm, X, nt, nband, ndense, nvec, sym)
    Aref = A if sym else np.tril(A)
    cx.close('bandMulMatVec(sym=%d)' % sym, R, X @ Aref.T, K_RED * EPS * (np.abs(X) @ np.abs(Aref).T), w)
  # factor with diagonal modification
  da, dm = (0.0, 0.0) if rng.rand() < 0.5 else (float(rng.uniform(0, 1)), float(rng.uniform(0, 0.5)))
  F = Bm[:size].copy()
  mind = L.mju_cholFactorBand(F, nt, nband, ndense, da, dm)
  Amod = A + np.diag(da + dm * np.diag(A))
  if not mind > 0:
    raise Violation('mju_cholFactorBand returned %r for an SPD matrix; %s' % (mind, w()), bucket='cholFactorBand-ret')
  Ld = np.full((nt, nt), GUARD)
  L.mju_band2Dense(Ld, F, nt, nband, ndense, 0)
  absL = np.abs(Ld)
  cx.close('cholFactorBand-reconstruct', np.tril(Ld @ Ld.T), np.tril(Amod), K_FACT * (nt + 1) * EPS * np.tril(absL @ absL.T), w)
  dmin = float(np.min(np.diag(Ld)))
  if not (abs(mind - dmin) <= 1e-12 * dmin or abs(mind - dmin * dmin) <= 1e-12 * dmin * dmin):
    raise Violation('mju_cholFactorBand returned %r, the minimum of the factorised diagonal is %r (squared %r); %s' % (
        mind, dmin, dmin * dmin, w()), bucket='cholFactorBand-ret')
  b, _ = vec(rng, nt)
  x, buf, off = out(rng, nt)
  L.mju_cholSolveBand(x, F, b, nt, nband, ndense)
  if not guard_ok(buf, off, nt):
    raise Violation('mju_cholSolveBand wrote outside res', bucket='band-overrun')
  cx.close('cholSolveBand-residual', Amod @ x, b, K_FACT * (nt + 1) * EPS * (absL @ (absL.T @ np.abs(x))) + 4 * EPS * np.abs(b), w)
  # rank deficient: zero matrix
  Zm = np.zeros(size)
  if L.mju_cholFactorBand(Zm, nt, nband, ndense, 0.0, 0.0) != 0:
    raise Violation('mju_cholFactorBand did not return 0 for the zero matrix; %s' % w(), bucket='cholFactorBand-ret')
  return dict(ntotal=nt, nband=nband, ndense=ndense), nt % 4 != 0, ['band:ndense=%s' % ('0' if ndense == 0 else 'all' if ndense == nt else 'some'),
                                                                    'band:nband=%s' % ('1' if nband == 1 else 'n' if nband == nt else 'mid')]


# ------------------------------------------------------------------------------------------------ sparse

def sparse_dense(rng, nr, nc, kind=None):
  """Dense matrix with an engineered zero pattern (sorted unique columns by construction of CSR from it)."""
  kind = kind or rng.choice(['random', 'random', 'empty_rows', 'full_rows', 'diag', 'very_sparse', 'dense'])
  p = {'random': rng.uniform(0.1, 0.7), 'empty_rows': 0.4, 'full_rows': 0.3, 'diag': 0.0, 'very_sparse': 0.05, 'dense': 1.0}[kind]
  P = rng.rand(nr, nc) < p
  if kind == 'diag':
    for i in range(min(nr, nc)):
      P[i, i] = True
  if kind == 'empty_rows' and nr:
    P[rng.rand(nr) < 0.4] = False
    P[int(rng.randint(0, nr))] = False
  if kind == 'full_rows' and nr:
    P[rng.rand(nr) < 0.4] = True
  if nr and nc and rng.rand() < 0.3:
    # runs of identical consecutive patterns (supernodes), also in the columns
    r0 = int(rng.randint(0, nr))
    P[r0:r0 + int(rng.randint(2, 5))] = P[r0]
    c0 = int(rng.randint(0, nc))
    for c in range(c0, min(nc, c0 + int(rng.randint(2, 5)))):
      P[:, c] = P[:, c0]
  A = rng.normal(size=(nr, nc)) * P
  if nr and nc and rng.rand() < 0.4:
    # stored entries that are exactly 0 or exactly +-0.3 (the thresholds used with mju_compressSparse)
    Z = P & (rng.rand(nr, nc) < 0.2)
    A[Z] = rng.choice([0.0, 0.3, -0.3], size=int(Z.sum()))
  return A, P


def csr(rng, A, P, layout):
  """CSR arrays of the pattern P (values from A). layout: compressed / uncompressed (rowadr = r*nc) / gaps."""
  nr, nc = A.shape
  rownnz = P.sum(axis=1).astype(np.int32)
  if layout == 'uncompressed':
    rowadr = (np.arange(nr) * nc).astype(np.int32)
    total = nr * nc
  elif layout == 'gaps':
    pad = rng.randint(0, 3, nr)
    rowadr = np.zeros(nr, dtype=np.int32)
    pos = 0
    for r in range(nr):
      pos += int(pad[r])
      rowadr[r] = pos
      pos += int(rownnz[r])
    total = pos + 2
  else:
    rowadr = np.concatenate([[0], np.cumsum(rownnz)[:-1]]).astype(np.int32) if nr else np.zeros(0, dtype=np.int32)
    total = int(rownnz.sum())
  val = np.full(total + 4, GUARD)
  col = np.full(total + 4, -99999, dtype=np.int32)
  for r in range(nr):
    cs = np.flatnonzero(P[r])
    a = int(rowadr[r])
    col[a:a + len(cs)] = cs
    val[a:a + len(cs)] = A[r, cs]
  return val, rownnz, rowadr, col, total


def super_ref(P):
  nr = P.shape[0]
  s = np.zeros(nr, dtype=np.int32)
  for r in range(nr - 2, -1, -1):
    if np.array_equal(P[r], P[r + 1]):
      s[r] = s[r + 1] + 1
  return s


def fam_sparse(cx, rng, n, cls):
  L, L2 = cx.lib, cx.lib2
  nr = n
  nc = int(rng.choice(SIZES[1:18]))
  A, P = sparse_dense(rng, nr, nc)
  layout = str(rng.choice(['compressed', 'uncompressed', 'gaps']))
  val, rownnz, rowadr, col, total = csr(rng, A, P, layout)
  w = lambda: 'nr=%d nc=%d layout=%s pattern=%s' % (nr, nc, layout, [''.join('x' if v else '.' for v in row) for row in P[:12]])
  labels = ['layout:' + layout]
  empty_row = bool(nr and (rownnz == 0).any())
  if empty_row:
    labels.append('empty-row')
  # sparse -> dense
  D = np.full((nr, nc), GUARD)
  L.mju_sparse2dense(D, val, nr, nc, rownnz, rowadr, col)
  cx.exact('sparse2dense', D, A * P, w)
  # dense -> sparse (zero VALUES are dropped: build from A*P)
  nnz = int(np.count_nonzero(A * P))
  rv, rn, ra, rc = np.full(nnz + 3, GUARD), np.full(nr + 1, -7, dtype=np.int32), np.full(nr + 1, -7, dtype=np.int32), np.full(nnz + 3, -7, dtype=np.int32)
  rcode = L.mju_dense2sparse(rv, np.ascontiguousarray(A * P), nr, nc, rn, ra, rc, nnz)
  if nnz == 0:
    if rcode != 1:
      raise Violation('mju_dense2sparse with nnz=0 buffer did not report "too small"', bucket='dense2sparse')
  else:
    if rcode != 0 or not np.all(rv[nnz:] == GUARD) or not np.all(rc[nnz:] == -7):
      raise Violation('mju_dense2sparse: return %d / overrun with an exactly fitting buffer; %s' % (rcode, w()), bucket='dense2sparse')
    D2 = np.zeros((nr, nc))
    L.mju_sparse2dense(D2, rv, nr, nc, rn, ra, rc)
    cx.exact('dense2sparse-roundtrip', D2, A * P, w)
    if nnz > 1 and L.mju_dense2sparse(np.empty(nnz), np.ascontiguousarray(A * P), nr, nc, rn, ra, rc, nnz - 1) != 1:
      raise Violation('mju_dense2sparse did not report a too small buffer; %s' % w(), bucket='dense2sparse')
  # products
  x, _ = vec(rng, nc, zeros=0.2)
  y, _ = vec(rng, nr, zeros=0.2)
  absA = np.abs(A * P)
  sup = np.full(nr + 1, -7, dtype=np.int32)
  if nr:
    L.mju_superSparse(nr, sup, rownnz, rowadr, col)
    cx.exact('superSparse', sup[:nr], super_ref(P), w)
  for rs, tag in ((None, 'nosuper'), (sup, 'super')):
    if nr == 0:
      continue
    r, buf, off = out(rng, nr)
    L.mju_mulMatVecSparse(r, val, x, nr, rownnz, rowadr, col, rs)
    cx.close('mulMatVecSparse(%s)' % tag, r, (A * P) @ x, K_RED * EPS * (absA @ np.abs(x)), w)
    if not guard_ok(buf, off, nr):
      raise Violation('mju_mulMatVecSparse wrote outside res', bucket='mulMatVecSparse-overrun')
    if L2 is not None:
      r2 = np.empty(nr)
      L2.mju_mulMatVecSparse(r2, val, x, nr, rownnz, rowadr, col, rs)
      cx.close('mulMatVecSparse(%s)-avx-vs-scalar' % tag, r, r2, 4 * EPS * (absA @ np.abs(x)), w)
  r, buf, off = out(rng, nc)
  L.mju_mulMatTVecSparse(r, val, y, nr, nc, rownnz, rowadr, col)
  cx.close('mulMatTVecSparse', r, (A * P).T @ y, K_RED * EPS * (absA.T @ np.abs(y)), w)
  if not guard_ok(buf, off, nc):
    raise Violation('mju_mulMatTVecSparse wrote outside res', bucket='mulMatTVecSparse-overrun')
  # sparse-sparse dot of two rows
  if nr >= 2:
    i, j = int(rng.randint(0, nr)), int(rng.randint(0, nr))
    g = L.mju_dotSparse2(val[rowadr[i]:], col[rowadr[i]:], int(rownnz[i]), val[rowadr[j]:], col[rowadr[j]:], int(rownnz[j]))
    cx.close('dotSparse2', g, np.dot(A[i] * P[i], A[j] * P[j]), K_RED * EPS * np.sum(np.abs(A[i] * P[i] * A[j] * P[j])), w)
    cnt = L.mju_combineSparseCount(int(rownnz[i]), int(rownnz[j]), col[rowadr[i]:], col[rowadr[j]:])
    if cnt != int(np.count_nonzero(P[i] | P[j])):
      raise Violation('mju_combineSparseCount = %d, union has %d; %s' % (cnt, int(np.count_nonzero(P[i] | P[j])), w()), bucket='combineSparseCount')
  # transpose (+ supernodes of the transpose)
  if nr and nc:
    nz = int(rownnz.sum())
    tv, tn, ta, tc, ts = np.full(nz + 3, GUARD), np.full(nc + 1, -7, dtype=np.int32), np.full(nc + 1, -7, dtype=np.int32), \
        np.full(nz + 3, -7, dtype=np.int32), np.full(nc + 1, -7, dtype=np.int32)
    if layout == 'compressed':
      L.mju_transposeSparse(tv, val, nr, nc, tn, ta, tc, ts, rownnz, rowadr, col)
      DT = np.zeros((nc, nr))
      L.mju_sparse2dense(DT, tv, nc, nr, tn, ta, tc)
      cx.exact('transposeSparse', DT, (A * P).T, w)
      if not np.all(tv[nz:] == GUARD) or tn[nc] != -7:
        raise Violation('mju_transposeSparse overrun; %s' % w(), bucket='transposeSparse-overrun')
      for c in range(nc):
        seg = tc[ta[c]:ta[c] + tn[c]]
        if np.any(np.diff(seg) <= 0):
          raise Violation('mju_transposeSparse: columns of row %d not sorted/unique: %s' % (c, seg.tolist()), bucket='transposeSparse')
      cx.exact('transposeSparse-rowsuper', ts[:nc], super_ref(P.T), w)
      labels.append('transpose')
  # compress (removes small values, squeezes the layout)
  cv, cn, ca, cc = val.copy(), rownnz.copy(), rowadr.copy(), col.copy()
  thr = float(rng.choice([-1.0, 0.0, 0.3]))
  if nr:
    tot = L.mju_compressSparse(cv, nr, nc, cn, ca, cc, thr)
    keep = P & (np.abs(A) > thr) if thr >= 0 else P
    if tot != int(keep.sum()) or cn.tolist() != keep.sum(axis=1).tolist() or \
        ca.tolist() != np.concatenate([[0], np.cumsum(keep.sum(axis=1))[:-1]]).tolist():
      raise Violation('mju_compressSparse(minval=%g): nnz/rowadr wrong: total %d rownnz %s rowadr %s; %s' % (
          thr, tot, cn.tolist(), ca.tolist(), w()), bucket='compressSparse')
    Dc = np.zeros((nr, nc))
    L.mju_sparse2dense(Dc, cv, nr, nc, cn, ca, cc)
    cx.exact('compressSparse', Dc, A * keep, w)
  # add sparse to sparse (destination has room: uncompressed)
  if nr:
    A2, P2 = sparse_dense(rng, nr, nc)
    dv, dn, da_, dc, _ = csr(rng, A, P, 'uncompressed')
    sv, sn, sa, sc_, _ = csr(rng, A2, P2, str(rng.choice(['compressed', 'gaps'])))
    L.mju_addToMatSparse(dv, dn, da_, dc, nr, sv, sn, sa, sc_)
    Dd = np.zeros((nr, nc))
    L.mju_sparse2dense(Dd, dv, nr, nc, dn, da_, dc)
    cx.exact('addToMatSparse', Dd, A * P + A2 * P2, w)
    if dn.tolist() != (P | P2).sum(axis=1).tolist():
      raise Violation('mju_addToMatSparse: rownnz %s, union pattern has %s' % (dn.tolist(), (P | P2).sum(axis=1).tolist()), bucket='addToMatSparse')
  return dict(nr=nr, nc=nc, layout=layout), (nr % 4 != 0 or nc % 4 != 0 or empty_row), labels


def fam_symsparse(cx, rng, n, cls):
  """Lower-triangular symmetric CSR: sym2dense, mulSymVecSparse, addToSymSparse, J'DJ pipeline, reverse Cholesky."""
  L = cx.lib
  d = cx.d
  nv = max(n, 1)
  nr = int(rng.choice([1, 2, 3, 5, 8, 13, 20]))
  J, PJ = sparse_dense(rng, nr, nv, kind=str(rng.choice(['random', 'very_sparse', 'empty_rows', 'full_rows'])))
  w = lambda: 'J %dx%d pattern=%s' % (nr, nv, [''.join('x' if v else '.' for v in row) for row in PJ[:12]])
  labels = []
  jv, jn, ja, jc, _ = csr(rng, J, PJ, 'compressed')
  nz = int(jn.sum())
  tv, tn, ta, tc, ts = np.full(nz + 1, GUARD), np.zeros(nv, dtype=np.int32), np.zeros(nv, dtype=np.int32), \
      np.zeros(nz + 1, dtype=np.int32), np.zeros(nv, dtype=np.int32)
  L.mju_transposeSparse(tv, jv, nr, nv, tn, ta, tc, ts, jn, ja, jc)
  Dg = rng.uniform(0.1, 3, nr)
  if rng.rand() < 0.3:
    Dg[rng.rand(nr) < 0.3] = 0.0
  Hn, Ha = np.full(nv + 1, -7, dtype=np.int32), np.full(nv + 1, -7, dtype=np.int32)
  nH = L.mju_sqrMatTDSparseSymbolic(Hn, Ha, None, None, nr, nv, jn, ja, jc, tn, ta, tc, ts, d)
  # structural pattern of the lower triangle of J'J (diagonal only for non-empty columns)
  S = (PJ.T.astype(int) @ PJ.astype(int)) > 0
  Slow = np.tril(S)
  if nH != int(Slow.sum()) or Hn[:nv].tolist() != Slow.sum(axis=1).tolist():
    raise Violation('sqrMatTDSparseSymbolic(count): nnz %d rownnz %s, structural lower triangle of J\'J has %d %s; %s' % (
        nH, Hn[:nv].tolist(), int(Slow.sum()), Slow.sum(axis=1).tolist(), w()), bucket='sqrMatTD-symbolic')
  Hc = np.full(nH + 2, -7, dtype=np.int32)
  Hv = np.full(nH + 2, GUARD)
  L.mju_sqrMatTDSparseSymbolic(Hn, Ha, Hc, None, nr, nv, jn, ja, jc, tn, ta, tc, ts, d)
  for r in range(nv):
    if Hc[Ha[r]:Ha[r] + Hn[r]].tolist() != np.flatnonzero(Slow[r]).tolist():
      raise Violation('sqrMatTDSparseSymbolic(fill): row %d columns %s, expected %s; %s' % (
          r, Hc[Ha[r]:Ha[r] + Hn[r]].tolist(), np.flatnonzero(Slow[r]).tolist(), w()), bucket='sqrMatTD-symbolic')
  L.mju_sqrMatTDSparseNumeric(Hv, nv, Hn, Ha, Hc, None, jv, jn, ja, jc, tv, tn, ta, tc, ts, Dg, d)
  if Hv[nH] != GUARD or Hc[nH] != -7:
    raise Violation('sqrMatTDSparse overrun; %s' % w(), bucket='sqrMatTD-overrun')
  JP = J * PJ
  Href = JP.T @ (JP * Dg[:, None])
  Habs = np.abs(JP).T @ (np.abs(JP) * Dg[:, None])
  Hd = np.full((nv, nv), GUARD)
  L.mju_sym2dense(Hd, Hv, nv, Hn, Ha, Hc)
  cx.close('sqrMatTDSparse(Symbolic+Numeric)', Hd, Href, K_RED * EPS * Habs, w)
  # one-shot variants: lower triangle only (diagind = NULL) or full symmetric matrix (diagind given, rows sized with flg_upper = 1);
  # row addresses from the count routine (compressed) or the uncompressed initialiser.
  # The pair (mju_sqrMatTDSparseCount, mju_sqrMatTDSparse) is inconsistent on matrices with an empty column (known finding
  # 'C23:sqrMatTD-count-empty-column', decided by the dedicated probe in probe_count_empty_column()): in this stream that pair is
  # therefore fed a copy of J whose empty columns received one entry (construction, counted in the evidence); the uncompressed
  # variant, the row-based variant (consistent with the count routine) and the Symbolic/Numeric pipeline above see J unchanged,
  # empty columns included.
  has_empty_col = bool((PJ.sum(axis=0) == 0).any())
  base = (J, PJ, jv, jn, ja, jc, tv, tn, ta, tc, ts)
  patched = None
  if has_empty_col:
    P2, J2 = PJ.copy(), J.copy()
    for c_ in np.flatnonzero(PJ.sum(axis=0) == 0):
      r_ = int(rng.randint(0, nr))
      P2[r_, c_] = True
      J2[r_, c_] = rng.normal()
    jv2, jn2, ja2, jc2, _ = csr(rng, J2, P2, 'compressed')
    nz2 = int(jn2.sum())
    tv2, tn2, ta2, tc2, ts2 = np.full(nz2 + 1, GUARD), np.zeros(nv, dtype=np.int32), np.zeros(nv, dtype=np.int32), \
        np.zeros(nz2 + 1, dtype=np.int32), np.zeros(nv, dtype=np.int32)
    L.mju_transposeSparse(tv2, jv2, nr, nv, tn2, ta2, tc2, ts2, jn2, ja2, jc2)
    patched = (J2, P2, jv2, jn2, ja2, jc2, tv2, tn2, ta2, tc2, ts2)
    cx.counters['count+oneshot pair: empty columns filled by construction'] = \
        cx.counters.get('count+oneshot pair: empty columns filled by construction', 0) + 1
    labels.append('count+oneshot:empty-columns-filled')
  for variant in ('count', 'uncompressed', 'row'):
    for full in (0, 1):
      Jx, Px, xv, xn, xa, xc, yv, yn, ya, yc, ys = patched if (patched is not None and variant == 'count') else base
      JPx = Jx * Px
      rn2, ra2 = np.full(nv, -7, dtype=np.int32), np.full(nv, -7, dtype=np.int32)
      if variant == 'uncompressed':
        L.mju_sqrMatTDUncompressedInit(ra2, nv)
        tot = nv * nv
      else:
        tot = L.mju_sqrMatTDSparseCount(rn2, ra2, nv, xn, xa, xc, yn, ya, yc, ys, d, full)
      rv2, rc2 = np.full(tot + nv + 8, GUARD), np.full(tot + nv + 8, -7, dtype=np.int32)
      dgi = np.full(nv, -7, dtype=np.int32)
      use_d = Dg if rng.rand() < 0.7 else None
      fn = L.mju_sqrMatTDSparse_row if variant == 'row' else L.mju_sqrMatTDSparse
      fn(rv2, xv, yv, use_d, nr, nv, rn2, ra2, rc2, xn, xa, xc, None, yn, ya, yc, ys, d, dgi if full else None)
      if not (np.all(rv2[tot:] == GUARD) and np.all(rc2[tot:] == -7)):
        raise Violation('sqrMatTDSparse(%s, full=%d) wrote past the counted size; %s' % (variant, full, w()), bucket='sqrMatTD-overrun')
      H2 = np.zeros((nv, nv))
      L.mju_sparse2dense(H2, rv2, nv, nv, rn2, ra2, rc2)
      ref2 = JPx.T @ (JPx * Dg[:, None]) if use_d is not None else JPx.T @ JPx
      abs2 = np.abs(JPx).T @ (np.abs(JPx) * Dg[:, None]) if use_d is not None else np.abs(JPx).T @ np.abs(JPx)
      cx.close('sqrMatTDSparse(%s,full=%d)' % (variant, full), H2, ref2 if full else np.tril(ref2), K_RED * EPS * abs2, w)
      if full:
        for r in range(nv):
          if rn2[r] and not (ra2[r] <= dgi[r] < ra2[r] + rn2[r] and rc2[dgi[r]] == r):
            raise Violation('sqrMatTDSparse: diagind[%d]=%d does not address the diagonal; %s' % (r, dgi[r], w()), bucket='sqrMatTD-diagind')
  # symmetric helpers on H + M with M diagonal-dominant lower-triangular (=> SPD)
  Mlow = np.tril(rng.normal(size=(nv, nv)) * (rng.rand(nv, nv) < 0.3), -1)
  Mfull = Mlow + Mlow.T + np.diag(np.abs(Mlow + Mlow.T).sum(axis=1) + rng.uniform(0.5, 2, nv))
  PM = np.tril(Mfull != 0)
  mv, mn, ma, mc, _ = csr(rng, np.tril(Mfull), PM, str(rng.choice(['compressed', 'gaps'])))
  Md = np.full((nv, nv), GUARD)
  L.mju_sym2dense(Md, mv, nv, mn, ma, mc)
  cx.exact('sym2dense', Md, Mfull, w)
  x, _ = vec(rng, nv)
  r, buf, off = out(rng, nv)
  L.mju_mulSymVecSparse(r, mv, x, nv, mn, ma, mc)
  cx.close('mulSymVecSparse', r, Mfull @ x, K_RED * EPS * (np.abs(Mfull) @ np.abs(x)), w)
  for fu in (0, 1):
    Dd = np.ascontiguousarray(rng.normal(size=(nv, nv)))
    D0 = Dd.copy()
    L.mju_addToSymSparse(Dd, mv, nv, mn, ma, mc, fu)
    cx.exact('addToSymSparse(upper=%d)' % fu, Dd, D0 + (Mfull if fu else np.tril(Mfull)), w)
  # H <- H + M in sparse form (needs room: copy H into an uncompressed buffer), then reverse Cholesky H = L'L
  Ht = np.tril(Href) + np.tril(Mfull)
  Pt = Slow | PM
  hv, hn, ha, hc, _ = csr(rng, np.tril(Href), Slow, 'uncompressed')
  L.mju_addToMatSparse(hv, hn, ha, hc, nv, mv, mn, ma, mc)
  # symbolic + numeric reverse Cholesky
  nzh = int(hn.sum())
  htn, hta, htc = np.zeros(nv, dtype=np.int32), np.zeros(nv, dtype=np.int32), np.zeros(nzh + 1, dtype=np.int32)
  # compressed copy of H (transpose needs compressed input)
  cv_, cn_, ca_, cc_ = hv.copy(), hn.copy(), ha.copy(), hc.copy()
  L.mju_compressSparse(cv_, nv, nv, cn_, ca_, cc_, -1.0)
  L.mju_transposeSparse(None, None, nv, nv, htn, hta, htc, None, cn_, ca_, cc_)
  Ln, La, LTn, LTa = (np.zeros(nv, dtype=np.int32) for _ in range(4))
  nL = L.mju_cholFactorSymbolic(None, Ln, La, None, LTn, LTa, None, htn, hta, htc, nv, d if rng.rand() < 0.5 else None)
  Lc, LTc, LTm = np.full(nL + 1, -7, dtype=np.int32), np.full(nL + 1, -7, dtype=np.int32), np.full(nL + 1, -7, dtype=np.int32)
  L.mju_cholFactorSymbolic(Lc, Ln, La, LTc, LTn, LTa, LTm, htn, hta, htc, nv, d)
  Lv = np.full(nL + 1, GUARD)
  rank = L.mju_cholFactorNumeric(Lv, nv, 1e-300, Ln, La, Lc, LTn, LTa, LTc, LTm, cv_, cn_, ca_, cc_, d)
  Hfull = Href + Mfull
  if rank != nv:
    raise Violation('mju_cholFactorNumeric: rank %d < %d for an SPD matrix; %s' % (rank, nv, w()), bucket='cholSparse-rank')
  if Lv[nL] != GUARD or Lc[nL] != -7:
    raise Violation('cholFactorSymbolic/Numeric overrun', bucket='cholSparse-overrun')
  Ld = np.zeros((nv, nv))
  L.mju_sparse2dense(Ld, Lv, nv, nv, Ln, La, Lc)
  if np.any(np.triu(Ld, 1) != 0):
    raise Violation('sparse Cholesky factor is not lower triangular', bucket='cholSparse-structure')
  absL = np.abs(Ld)
  cx.close('cholFactorNumeric: L\'L == H', Ld.T @ Ld, Hfull, K_FACT * (nv + 1) * EPS * (absL.T @ absL) + K_RED * EPS * (Habs + np.abs(Mfull)), w)
  # in-place variant with room for fill-in (uncompressed lower-triangular rows, diagonal last)
  fv, fn_, fa, fc, _ = csr(rng, np.tril(Hfull), np.tril(Hfull != 0), 'uncompressed')
  rank2 = L.mju_cholFactorSparse(fv, nv, 1e-300, fn_, fa, fc, d)
  Ld2 = np.zeros((nv, nv))
  L.mju_sparse2dense(Ld2, fv, nv, nv, fn_, fa, fc)
  if rank2 != nv:
    raise Violation('mju_cholFactorSparse: rank %d < %d; %s' % (rank2, nv, w()), bucket='cholSparse-rank')
  cx.close('cholFactorSparse: L\'L == H', Ld2.T @ Ld2, Hfull, K_FACT * (nv + 1) * EPS * (np.abs(Ld2).T @ np.abs(Ld2)) + K_RED * EPS * (Habs + np.abs(Mfull)), w)
  # solve with the factor (mju_cholSolveSparse is not MJAPI but exported; called unguarded)
  b, _ = vec(rng, nv, zeros=0.2)
  xs, buf, off = out(rng, nv)
  raw = cx.lib.raw.mju_cholSolveSparse
  raw.argtypes = [ctypes.c_void_p] * 3 + [ctypes.c_int] + [ctypes.c_void_p] * 3
  raw.restype = None
  raw(xs.ctypes.data, Lv.ctypes.data, b.ctypes.data, nv, Ln.ctypes.data, La.ctypes.data, Lc.ctypes.data)
  if not guard_ok(buf, off, nv):
    raise Violation('mju_cholSolveSparse wrote outside res', bucket='cholSparse-overrun')
  cx.close('cholSolveSparse-residual', Hfull @ xs, b, K_FACT * (nv + 1) * EPS * (absL.T @ (absL @ np.abs(xs))) + 4 * EPS * np.abs(b), w)
  # rank-one update of the sparse factor with a sparse x whose pattern keeps the sparsity (x = scaled row of L)
  if nv >= 2:
    k = int(rng.randint(0, nv))
    xi = np.flatnonzero(Ld[k])
    xval = np.ascontiguousarray(Ld[k, xi] * rng.uniform(0.2, 0.9))
    Lu = Lv.copy()
    r_up = L.mju_cholUpdateSparse(Lu, xval, nv, 1, Ln, La, Lc, len(xi), ivec(xi), d)
    xd = np.zeros(nv)
    xd[xi] = xval
    Lud = np.zeros((nv, nv))
    L.mju_sparse2dense(Lud, Lu, nv, nv, Ln, La, Lc)
    cnd = float(np.linalg.cond(Hfull))
    if cnd < 1e8:
      cx.close('cholUpdateSparse(+)', Lud.T @ Lud, Hfull + np.outer(xd, xd), K_FACT * (nv + 1) * EPS * cnd * np.max(np.abs(Hfull)), w)
      r_dn = L.mju_cholUpdateSparse(Lu, xval, nv, 0, Ln, La, Lc, len(xi), ivec(xi), d)
      L.mju_sparse2dense(Lud, Lu, nv, nv, Ln, La, Lc)
      cx.close('cholUpdateSparse(-)', Lud.T @ Lud, Hfull, 16 * K_FACT * (nv + 1) * EPS * cnd * np.max(np.abs(Hfull)), w)
      if r_up != nv or r_dn != nv:
        raise Violation('mju_cholUpdateSparse rank %d/%d on SPD data' % (r_up, r_dn), bucket='cholSparse-rank')
      labels.append('sparse-update')
  empty_col = bool((PJ.sum(axis=0) == 0).any())
  if empty_col:
    labels.append('empty-column')
  return dict(nr=nr, nv=nv), (nv % 4 != 0 or empty_col), labels


# ------------------------------------------------------------------------------------------------ eig3 / QP

def fam_eig3(cx, rng, n, cls):
  L = cx.lib
  kind = str(rng.choice(['generic', 'repeated2', 'repeated3', 'diagonal', 'nearly_diag', 'inertia']))
  Q = scipy.linalg.qr(rng.normal(size=(3, 3)))[0]
  if kind == 'generic':
    ev = rng.normal(size=3)
  elif kind == 'repeated2':
    a, b = rng.normal(size=2)
    ev = np.array([a, a, b])
  elif kind == 'repeated3':
    ev = np.full(3, rng.normal())
  elif kind == 'inertia':
    ev = np.sort(rng.uniform(0.1, 2, 3))
  else:
    ev = rng.normal(size=3)
  if kind == 'diagonal':
    Q = np.eye(3)[:, rng.permutation(3)]
  scale = 10.0 ** rng.uniform(-4, 6)
  A = (Q * ev) @ Q.T * scale
  if kind == 'nearly_diag':
    A = np.diag(ev) * scale + rng.normal(size=(3, 3)) * scale * 1e-9
  A = np.ascontiguousarray(0.5 * (A + A.T))
  w = lambda: 'kind=%s mat=%s' % (kind, [float(x).hex() for x in A.ravel()])
  eigval, eigvec, quat = np.full(3, GUARD), np.full(9, GUARD), np.full(4, GUARD)
  it = L.mju_eig3(eigval, eigvec, quat, A.reshape(9))
  V = eigvec.reshape(3, 3)
  S = float(np.max(np.abs(A)))
  # stopping rules of the Jacobi iteration: |off-diagonal| < 1e-12 (absolute) or cos(rotation) > 1 - 1e-12, i.e. a remaining
  # rotation of up to sqrt(2e-12) = 1.4e-6 rad: eigenvectors are accurate to ~1.4e-6, eigenvalues to second order in that
  tol = 64 * 1e-12 + 2e-5 * S
  tolv = 64 * 1e-12 + 1e-10 * S
  cx.close('eig3-orthonormal', V.T @ V, np.eye(3), 512 * EPS, w)
  cx.close('eig3-det', np.linalg.det(V), 1.0, 512 * EPS, w)
  cx.close('eig3-reconstruct', (V * eigval) @ V.T, A, tol, w)
  Rq = np.empty(9)
  L.mju_quat2Mat(Rq, quat)
  cx.exact('eig3-eigvec==quat2Mat(quat)', Rq, eigvec, w)
  cx.close('eig3-eigenvalues', np.sort(eigval)[::-1], np.sort(np.linalg.eigvalsh(A))[::-1], tolv, w)
  if not (eigval[0] >= eigval[1] - tolv and eigval[1] >= eigval[2] - tolv):
    raise Violation('mju_eig3 eigenvalues not in decreasing order: %s; %s' % (eigval.tolist(), w()), bucket='eig3-order')
  # the return value is the iteration count; with (nearly) repeated eigenvalues at |A| > ~1e4 rounding noise stays above the absolute
  # threshold and all 500 sweeps are used although the decomposition is accurate: recorded, not judged
  return dict(kind=kind), True, ['eig3:' + kind] + (['eig3:500-iterations'] if it >= 500 else [])


def reference_boxqp(H, g, lower, upper):
  """Exact optimum of the box QP by enumerating active sets (n <= 7), used only to quantify a reported defect."""
  import itertools
  n = len(g)
  if n > 7:
    return None
  lo = np.full(n, -np.inf) if lower is None else lower
  up = np.full(n, np.inf) if upper is None else upper
  best, bestf = None, np.inf
  for act in itertools.product((0, 1, 2), repeat=n):
    act = np.array(act)
    if np.any((act == 1) & ~np.isfinite(lo)) or np.any((act == 2) & ~np.isfinite(up)):
      continue
    x = np.where(act == 1, lo, np.where(act == 2, up, 0.0))
    x = np.where(np.isfinite(x), x, 0.0)
    fr = act == 0
    if fr.any():
      x[fr] = np.linalg.solve(H[np.ix_(fr, fr)], -(g[fr] + H[np.ix_(fr, ~fr)] @ x[~fr]))
    if np.all(x >= lo - 1e-12) and np.all(x <= up + 1e-12):
      f = 0.5 * x @ H @ x + g @ x
      if f < bestf:
        best, bestf = x, f
  return best


def fam_boxqp(cx, rng, n, cls):
  L = cx.lib
  n = int(rng.choice([1, 2, 3, 4, 5, 6, 7, 9, 12]))
  cond = {'well': 10.0, 'mid': 1e3, 'ill': 1e5}[cls]
  H = spd(rng, n, cond)
  H /= np.max(np.abs(H))
  g = rng.normal(size=n) * 10.0 ** rng.uniform(-1, 1)
  xs = -np.linalg.solve(H, g)
  mode = str(rng.choice(['around_optimum', 'random', 'tight', 'one_sided', 'inactive']))
  if mode == 'around_optimum':
    lo = xs + rng.uniform(-1, 0.5, n)
    up = lo + rng.uniform(0.1, 2, n)
  elif mode == 'tight':
    lo = rng.normal(size=n)
    up = lo + 10.0 ** rng.uniform(-6, -1, n)
  elif mode == 'inactive':
    lo, up = xs - rng.uniform(1, 5, n) * (1 + np.abs(xs)), xs + rng.uniform(1, 5, n) * (1 + np.abs(xs))
  else:
    lo = rng.normal(size=n) * 2
    up = lo + rng.uniform(0.1, 4, n)
  lower = np.ascontiguousarray(lo)
  upper = np.ascontiguousarray(up)
  if mode == 'one_sided':
    lower, upper = (lower, None) if rng.rand() < 0.5 else (None, upper)
  res = np.ascontiguousarray(rng.normal(size=n) * 3)              # warm start, possibly infeasible (documented: clamped)
  warm = res.copy()
  Hin = np.ascontiguousarray(H.copy())
  Hin[np.triu_indices(n, 1)] = 1e300 if rng.rand() < 0.5 else H[np.triu_indices(n, 1)]     # documented: only the lower triangle is read
  R = np.full(n * (n + 7) + 2, GUARD)
  index = np.full(n + 1, -7, dtype=np.int32)
  w = lambda: 'n=%d mode=%s H=%s g=%s lower=%s upper=%s warmstart=%s' % (
      n, mode, H.tolist(), g.tolist(), None if lower is None else lower.tolist(), None if upper is None else upper.tolist(), warm.tolist())
  gin = np.ascontiguousarray(g)
  nfree = L.mju_boxQP(res, R, index if rng.rand() < 0.8 else None, Hin, gin, n, lower, upper)
  if R[n * (n + 7)] != GUARD or index[n] != -7:
    raise Violation('mju_boxQP wrote past the documented allocation sizes; %s' % w(), bucket='boxQP-overrun')
  if nfree < 0:
    raise Violation('mju_boxQP failed (-1) on a well-posed problem (cond %g); %s' % (cond, w()), bucket='boxQP-failed')
  # KKT: feasibility exact, projected gradient zero
  if (lower is not None and np.any(res < lower)) or (upper is not None and np.any(res > upper)):
    raise Violation('mju_boxQP result violates its bounds: %s; %s' % (res.tolist(), w()), bucket='boxQP-bounds')
  G = H @ res + g
  sc = np.abs(H) @ np.abs(res) + np.abs(g)
  tol = 1e-6 * (1 + sc)
  # Bound activity up to rounding: an iterate is formed as x + step*search and then clamped, so a coordinate that belongs on a
  # bound may sit a few ulps inside it.  A coordinate within BOUND_ULPS * eps * (|bound| + |x_warm| + 1) of a bound counts as "at
  # the bound" (the scale covers the magnitudes that were added to form it); the objective changes by < |G| * that distance.
  BOUND_ULPS = 64
  bscale = BOUND_ULPS * EPS * (1 + np.abs(warm) + np.abs(res))
  atlo = (res - lower <= bscale + BOUND_ULPS * EPS * np.abs(lower)) if lower is not None else np.zeros(n, dtype=bool)
  atup = (upper - res <= bscale + BOUND_ULPS * EPS * np.abs(upper)) if upper is not None else np.zeros(n, dtype=bool)
  both = atlo & atup                       # bounds closer together than the tolerance: either sign of the gradient is fine
  strict_in = ~(atlo | atup)
  bad = (strict_in & (np.abs(G) > tol)) | (atlo & ~both & (G < -tol)) | (atup & ~both & (G > tol))
  viol = np.where(strict_in, np.abs(G), np.where(both, 0.0, np.where(atlo, -G, G)))
  if np.any(bad):
    i = int(np.flatnonzero(bad)[0])
    msg = 'mju_boxQP returned %d (success) but the result is not a KKT point: worst coordinate x[%d]=%r (lower %r upper %r) gradient %r, ' \
          'gradient on strictly interior coordinates %s; %s' % (
              nfree, i, float(res[i]), None if lower is None else float(lower[i]), None if upper is None else float(upper[i]), float(G[i]),
              G[strict_in].tolist(), w())
    # classify with the routine's own diagnostics (same inputs, same options as mju_boxQP, plus a log buffer)
    r2, R2 = warm.copy(), np.zeros(n * (n + 7))
    log = ctypes.create_string_buffer(1 << 16)
    nf2 = L.mju_boxQPoption(r2, R2, None, Hin, gin, n, lower, upper, 100, 1e-16, 0.5, 1e-22, 0.1, log, 1 << 16)
    status = log.value.decode(errors='replace').strip().split('BOXQP:')[-1][:60]
    stalled = nf2 == nfree and np.array_equal(r2, res) and 'line-search iterations exceeded' in status
    # Zeno signature: a coordinate hovering strictly inside a bound (not on it) whose Newton step points far outside
    near = np.zeros(n, dtype=bool)
    if lower is not None:
      near |= (res > lower) & (res - lower <= 1e-9 * (1 + np.abs(lower))) & (G > 0)
    if upper is not None:
      near |= (res < upper) & (upper - res <= 1e-9 * (1 + np.abs(upper))) & (G < 0)
    # the class has only been observed on ill-conditioned Hessians (cond 1e5: 5 per 10 000 cases; none in 30 000 cases with cond <= 1e3):
    # at lower condition numbers the same symptom is judged as an ordinary violation
    if stalled and near.any() and cond >= 1e4:
      xo = reference_boxqp(H, g, lower, upper)
      gap = float(0.5 * res @ H @ res + g @ res - (0.5 * xo @ H @ xo + g @ xo)) if xo is not None else None
      cx.ck.violation('mju_boxQP stalls ("Maximum line-search iterations exceeded") with a coordinate hovering just inside its bound and still '
                      'returns nfree >= 0 instead of -1: objective is %s above the optimum. %s' % (gap, msg),
                      dict(check='linalg', family='boxqp', n=n, mode=mode, cond=cond, H=H.tolist(), g=g.tolist(),
                           lower=None if lower is None else lower.tolist(), upper=None if upper is None else upper.tolist(),
                           warmstart=warm.tolist(), result=res.tolist(), nfree=int(nfree), status=status, objective_gap=gap),
                      bucket='boxQP-stall', fingerprint='C23:boxQP-linesearch-stall-returns-nfree')
      cx.counters['boxQP line-search stall (known-finding class)'] = cx.counters.get('boxQP line-search stall (known-finding class)', 0) + 1
      return dict(n=n, mode=mode, nfree=int(nfree)), n % 4 != 0, ['boxqp:' + mode, 'boxqp:linesearch-stall']
    raise Violation(msg + ' [status: %s]' % status, bucket='boxQP-kkt')
  cx.note('boxQP-kkt', float(np.max(viol / tol)))
  # returned rank = number of free dimensions (clamped = at a bound with the gradient pushing outward)
  nclear = int(np.sum((atlo | atup) & ~both & (np.abs(G) > tol)))            # unambiguously clamped
  if not (n - int(np.sum(atlo | atup)) <= nfree <= n - nclear):
    raise Violation('mju_boxQP returned nfree=%d but %d dimensions are strictly inside and %d are clamped with a non-zero multiplier; %s' % (
        nfree, int(np.sum(strict_in)), nclear, w()), bucket='boxQP-nfree')
  return dict(n=n, mode=mode, nfree=int(nfree)), n % 4 != 0, ['boxqp:' + mode, 'boxqp:nfree=%s' % ('0' if nfree == 0 else 'n' if nfree == n else 'some')]


def fam_qcqp(cx, rng, n, cls):
  L = cx.lib
  n = int(rng.choice([2, 3, 4, 5]))
  A = spd(rng, n, float(rng.choice([2.0, 10.0, 100.0])))
  A = A / np.max(np.abs(A)) * rng.uniform(0.5, 5)
  b = rng.normal(size=n) * 10.0 ** rng.uniform(-1, 1)
  d = rng.uniform(0.2, 3, n)
  xs = -np.linalg.solve(A, b)
  inside = rng.rand() < 0.3
  rs = float(np.sqrt(np.sum((xs / d) ** 2)))
  r = rs * rng.uniform(1.2, 3) if inside else rs * rng.uniform(0.05, 0.9)
  res = np.full(n + 1, GUARD)
  w = lambda: 'n=%d A=%s b=%s d=%s r=%r' % (n, A.tolist(), b.tolist(), d.tolist(), r)
  Ac, bc, dc = np.ascontiguousarray(A), np.ascontiguousarray(b), np.ascontiguousarray(d)
  if n == 2:
    flag = L.mju_QCQP2(res, Ac, bc, dc, r)
  elif n == 3:
    flag = L.mju_QCQP3(res, Ac, bc, dc, r)
  else:
    raw = L.raw.mju_QCQP
    raw.argtypes = [ctypes.c_void_p] * 4 + [ctypes.c_double, ctypes.c_int]
    raw.restype = ctypes.c_int
    flag = raw(res.ctypes.data, Ac.ctypes.data, bc.ctypes.data, dc.ctypes.data, r, n)
  if res[n] != GUARD:
    raise Violation('mju_QCQP%d wrote past res[n]' % n, bucket='qcqp-overrun')
  x = res[:n]
  tol = 1e-6
  gq = float(np.sum((x / d) ** 2))
  if gq > r * r * (1 + tol) + tol:
    raise Violation('QCQP result infeasible: sum (x/d)^2 = %r > r^2 = %r; %s' % (gq, r * r, w()), bucket='qcqp-feasible')
  G = A @ x + b
  sc = float(np.max(np.abs(A) @ np.abs(x) + np.abs(b)))
  if inside:
    if flag != 0:
      raise Violation('QCQP reports an active constraint although the unconstrained optimum is strictly inside; %s' % w(), bucket='qcqp-flag')
    cx.close('qcqp-unconstrained', x, xs, tol * (1 + np.abs(xs)), w)
  else:
    if flag != 1:
      raise Violation('QCQP reports "unconstrained" although the unconstrained optimum is outside the ellipsoid; %s' % w(), bucket='qcqp-flag')
    cx.close('qcqp-on-boundary', gq, r * r, tol * (1 + r * r), w)
    # stationarity: A x + b = -lambda * x / d^2 with lambda >= 0
    nrm = x / (d * d)
    lam = -float(np.dot(G, nrm) / np.dot(nrm, nrm))
    if lam < -tol * sc:
      raise Violation('QCQP multiplier negative (%r); %s' % (lam, w()), bucket='qcqp-kkt')
    cx.close('qcqp-stationarity', G + lam * nrm, np.zeros(n), 10 * tol * (sc + abs(lam) * np.max(np.abs(nrm))), w)
  return dict(n=n, inside=bool(inside)), True, ['qcqp:n=%d' % n, 'qcqp:inside' if inside else 'qcqp:active']


# ------------------------------------------------------------------------------------------------ AVX vs scalar build

def diff_cases(seed, count):
  rng = np.random.RandomState(seed)
  cases = [(n, int(rng.randint(0, 2 ** 31 - 1))) for n in SIZES for _ in range(3)]
  while len(cases) < count:
    cases.append((int(rng.choice(SIZES)), int(rng.randint(0, 2 ** 31 - 1))))
  return cases


def diff_compute(lib, cases):
  """Outputs of the SIMD-sensitive kernels for deterministic inputs: list of dicts name -> (array, scale or None)."""
  outl = []
  for n, seed in cases:
    rng = np.random.RandomState(seed)
    a, _ = vec(rng, n, scale=10.0 ** rng.uniform(-3, 3))
    b, _ = vec(rng, n, scale=10.0 ** rng.uniform(-3, 3))
    s = float(rng.normal())
    o = {}

    def ew(name, call, init=None):
      r, buf, off = out(rng, n)
      if init is not None:
        r[:] = init
      call(r)
      o[name] = (r.copy(), None, bool(guard_ok(buf, off, n)))
    ew('mju_scl', lambda r: lib.mju_scl(r, a, s, n))
    ew('mju_add', lambda r: lib.mju_add(r, a, b, n))
    ew('mju_sub', lambda r: lib.mju_sub(r, a, b, n))
    ew('mju_addScl', lambda r: lib.mju_addScl(r, a, b, s, n))
    ew('mju_addTo', lambda r: lib.mju_addTo(r, b, n), a)
    ew('mju_subFrom', lambda r: lib.mju_subFrom(r, b, n), a)
    ew('mju_addToScl', lambda r: lib.mju_addToScl(r, b, s, n), a)
    o['mju_dot'] = (np.array([lib.mju_dot(a, b, n)]), float(np.sum(np.abs(a * b))), True)
    o['mju_norm'] = (np.array([lib.mju_norm(a, n)]), float(np.linalg.norm(a)), True)
    # dense and sparse matrix-vector products, Cholesky (uses mju_dot), band product
    nc = int(rng.choice(SIZES[1:16]))
    A, P = sparse_dense(rng, n, nc)
    x, _ = vec(rng, nc)
    r = np.zeros(n)
    lib.mju_mulMatVec(r, np.ascontiguousarray(A * P), x, n, nc)
    o['mju_mulMatVec'] = (r.copy(), np.abs(A * P) @ np.abs(x), True)
    y, _ = vec(rng, n)
    r = np.zeros(nc)
    lib.mju_mulMatTVec(r, np.ascontiguousarray(A * P), y, n, nc)
    o['mju_mulMatTVec'] = (r.copy(), np.abs(A * P).T @ np.abs(y), True)
    if n:
      val, rownnz, rowadr, col, _ = csr(rng, A, P, str(rng.choice(['compressed', 'uncompressed', 'gaps'])))
      sup = np.zeros(n, dtype=np.int32)
      lib.mju_superSparse(n, sup, rownnz, rowadr, col)
      for rs, tag in ((None, 'nosuper'), (sup, 'super')):
        r = np.zeros(n)
        lib.mju_mulMatVecSparse(r, val, x, n, rownnz, rowadr, col, rs)
        o['mju_mulMatVecSparse(%s)' % tag] = (r.copy(), np.abs(A * P) @ np.abs(x), True)
      S = spd(rng, n, 100.0)
      M = np.ascontiguousarray(S.copy())
      lib.mju_cholFactor(M, n, 1e-300)
      Lf = np.tril(M)
      o['mju_cholFactor'] = (Lf.copy(), 64 * n * (np.abs(Lf) + 1e-300), True)
    outl.append(o)
  return outl


def avx_differential(ck, cx):
  """Run the same deterministic inputs through the scalar ("noavx") build in a separate process and compare."""
  import os
  import pickle
  import subprocess
  import sys
  import tempfile
  from vf import build as vb
  cases = diff_cases(ck.seed, ck.budget(150, 3000))
  mine = diff_compute(cx.lib, cases)
  fd, path = tempfile.mkstemp(prefix='c23_', suffix='.pkl', dir=os.path.join(vb.VERIF, 'work'))
  os.close(fd)
  try:
    env = dict(os.environ, PYTHONPATH=vb.VERIF)
    with open(path, 'wb') as f:
      pickle.dump(cases, f)
    p = subprocess.run([sys.executable, '-m', 'checks.c23', path], cwd=vb.VERIF, env=env, capture_output=True, text=True)
    if p.returncode != 0:
      raise RuntimeError('scalar-build worker failed: ' + p.stderr[-1500:])
    with open(path, 'rb') as f:
      theirs = pickle.load(f)
  finally:
    os.unlink(path)
  for (n, seed), a, b in zip(cases, mine, theirs):
    for name in a:
      ra, sc, ga = a[name]
      rb, _, gb = b[name]
      w = lambda: 'n=%d seed=%d' % (n, seed)
      if not (ga and gb):
        raise Violation('%s wrote outside its output (n=%d, %s build)' % (name, n, 'AVX' if not ga else 'scalar'), bucket=name + '-overrun')
      if sc is None:
        cx.exact(name + '-avx-vs-scalar', ra, rb, w)
      else:
        cx.close(name + '-avx-vs-scalar', ra, rb, 4 * EPS * np.asarray(sc), w)
        cx.bitequal[1] += 1
        cx.bitequal[0] += int(ra.tobytes() == rb.tobytes())
    ck.case(nontrivial=n % 4 != 0, key=('avxdiff', n, seed), labels=['avx-vs-scalar'])


# ------------------------------------------------------------------------------------------------ dedicated probe (known finding)

def probe_count_empty_column(ck, cx):
  """mju_sqrMatTDSparseCount + mju_sqrMatTDSparse on matrices WITH an empty column (in scope: "any sparsity pattern").
  Output buffers are allocated far beyond the counted size and filled with guard words, so a write past the counted size lands
  in memory owned by these arrays (no heap corruption) and is detected.  Reports through the fingerprint
  'C23:sqrMatTD-count-empty-column' (listed in known_findings.json while the defect is unrepaired)."""
  L, d = cx.lib, cx.d
  SLACK = 256
  mats = [('1x1 empty', np.zeros((1, 1)), np.zeros((1, 1), dtype=bool)),
          ('1x2, column 0 empty', np.array([[0.0, 1.5]]), np.array([[False, True]])),
          ('3x4, column 2 empty', np.array([[1.0, 0, 0, 2.0], [0, 3.0, 0, 0], [0.5, 0, 0, -1.0]]),
           np.array([[1, 0, 0, 1], [0, 1, 0, 0], [1, 0, 0, 1]], dtype=bool))]
  rng = np.random.RandomState(0)
  findings = []
  for name, J, P in mats:
    nr, nc = J.shape
    jv, jn, ja, jc, _ = csr(rng, J, P, 'compressed')
    nz = int(jn.sum())
    tv, tn, ta, tc, ts = np.full(nz + SLACK, GUARD), np.zeros(nc + SLACK, dtype=np.int32), np.zeros(nc + SLACK, dtype=np.int32), \
        np.zeros(nz + SLACK, dtype=np.int32), np.zeros(nc + SLACK, dtype=np.int32)
    L.mju_transposeSparse(tv, jv, nr, nc, tn, ta, tc, ts, jn, ja, jc)
    for fname in ('mju_sqrMatTDSparse', 'mju_sqrMatTDSparse_row'):
      rn, ra = np.full(nc + SLACK, -7, dtype=np.int32), np.full(nc + SLACK, -7, dtype=np.int32)
      tot = L.mju_sqrMatTDSparseCount(rn, ra, nc, jn, ja, jc, tn, ta, tc, ts, d, 0)
      rv, rc = np.full(tot + nc * nc + SLACK, GUARD), np.full(tot + nc * nc + SLACK, -7, dtype=np.int32)
      getattr(L, fname)(rv, jv, tv, None, nr, nc, rn, ra, rc, jn, ja, jc, None, tn, ta, tc, ts, d, None)
      over_v = np.flatnonzero(rv[tot:] != GUARD)
      over_c = np.flatnonzero(rc[tot:] != -7)
      H = np.zeros((nc, nc))
      ok_layout = all(0 <= ra[r] and ra[r] + rn[r] <= tot + nc * nc for r in range(nc))
      if ok_layout:
        L.mju_sparse2dense(H, rv, nc, nc, rn, ra, rc)
      wrong = not ok_layout or not np.allclose(H, np.tril((J * P).T @ (J * P)), rtol=1e-12, atol=0)
      if len(over_v) or len(over_c) or wrong:
        findings.append(dict(matrix=name, routine=fname, counted_nnz=int(tot), rownnz_after=rn[:nc].tolist(), rowadr=ra[:nc].tolist(),
                             writes_past_counted_size=sorted(set(over_v.tolist()) | set(over_c.tolist())), wrong_result=bool(wrong)))
      ck.case(nontrivial=True, key=('probe-empty-column', name, fname), labels=['probe:count+oneshot-empty-column'])
  ck.extra['probe_count_empty_column'] = findings if findings else 'consistent (no overrun, correct result)'
  if findings:
    ck.violation('mju_sqrMatTDSparseCount reserves no slot for the diagonal of an EMPTY column, but mju_sqrMatTDSparse (column-based one-shot routine) writes that '
                 'diagonal unconditionally: with row addresses from the count routine it writes past the counted size / into the next row '
                 '(%d of %d probe calls affected; first: %s)' % (len(findings), 2 * len(mats), findings[0]),
                 dict(probe='count+oneshot on matrices with an empty column', findings=findings),
                 bucket='sqrMatTD-count-empty-column', fingerprint='C23:sqrMatTD-count-empty-column')


def probe_boxqp_stall(ck, cx):
  """Deterministic reproducer of known finding 'C23:boxQP-linesearch-stall-returns-nfree' (run in both tiers).
  Reports only if the routine still claims success (return >= 0) with a result that is not a KKT point; a repaired routine
  (returns -1, or returns the optimum) makes the KNOWN-FINDING line disappear."""
  L = cx.lib
  H = np.array([[1.0, 0.3874992428514351, 0.4848370264568361],
                [0.3874992428514351, 0.15201454932219916, 0.18570047676925283],
                [0.4848370264568361, 0.18570047676925283, 0.23765353560001684]])
  g = np.array([-0.3201231255970611, -0.3078318093429999, -0.18015059175633402])
  lower = np.array([1.483152989437997, -1.0555667435212879, -2.051096255335706])
  warm = np.array([2.990086655850101, 2.2583141825851976, 2.1175399567431423])
  n = 3
  res = warm.copy()
  R = np.full(n * (n + 7) + 2, GUARD)
  nfree = L.mju_boxQP(res, R, None, np.ascontiguousarray(H), g, n, lower, None)
  if R[n * (n + 7)] != GUARD:
    raise Violation('mju_boxQP wrote past the documented size of R (probe)', bucket='boxQP-overrun')
  xo = reference_boxqp(H, g, lower, None)
  fo = float(0.5 * xo @ H @ xo + g @ xo)
  G = H @ res + g
  tol = 1e-6 * (1 + np.abs(H) @ np.abs(res) + np.abs(g))
  atlo = res - lower <= 64 * EPS * (1 + np.abs(warm) + np.abs(res) + np.abs(lower))
  feasible = bool(np.all(res >= lower))
  kkt = feasible and not np.any((~atlo & (np.abs(G) > tol)) | (atlo & (G < -tol)))
  gap = float(0.5 * res @ H @ res + g @ res) - fo
  rec = dict(returned=int(nfree), result=res.tolist(), gradient=G.tolist(), kkt=bool(kkt), objective_gap=gap, optimum=xo.tolist())
  ck.extra['probe_boxqp_stall'] = rec
  ck.case(nontrivial=True, key=('probe-boxqp-stall',), labels=['probe:boxqp-stall'])
  if nfree >= 0 and not kkt:
    ck.violation('mju_boxQP returns %d (success) on the n=3 reproducer although the result is not a KKT point: gradient %s at x=%s with only x[0] on its '
                 'bound, objective %.6g above the optimum %s (the projected line search stalls with x[0] hovering just inside its bound; '
                 'MAX_LS_ITER is not mapped to -1)' % (nfree, G.tolist(), res.tolist(), gap, xo.tolist()),
                 dict(probe='boxQP stall reproducer', H=H.tolist(), g=g.tolist(), lower=lower.tolist(), upper=None, warmstart=warm.tolist(), **rec),
                 bucket='boxQP-stall', fingerprint='C23:boxQP-linesearch-stall-returns-nfree')
  elif nfree < 0:
    ck.label('probe:boxqp-stall:now-reports-failure')
  else:
    ck.label('probe:boxqp-stall:now-optimal')


FAMILIES = dict(blas=fam_blas, chol=fam_chol, lu=fam_lu, band=fam_band, sparse=fam_sparse, symsparse=fam_symsparse, eig3=fam_eig3,
                boxqp=fam_boxqp, qcqp=fam_qcqp)


def main(ck):
  from vf import mj
  lib = ck.lib('rel')
  lib2 = None      # the scalar build cannot share a process with the AVX build (same global symbols): see avx_differential()
  m = lib.model_from_xml('<mujoco><size memory="64M"/><worldbody><body><joint/><geom size="1"/></body></worldbody></mujoco>')
  d = lib.make_data(m)
  cx = Cx(ck, lib, lib2, d)
  ck.rule = ('Hypothesis draws (family, size from %s, conditioning class, seed); inputs are built by a numpy RandomState: unaligned vectors, SPD / general '
             'matrices with prescribed condition number, arrowhead matrices, CSR patterns (random / empty rows / full rows / diagonal / very sparse / dense, '
             'repeated consecutive patterns; compressed, uncompressed and gapped layouts). non-trivial = a dimension that is not a multiple of 4 or a '
             'pattern with an empty row/column; distinct by (family, size, class, seed)' % SIZES)
  ck.assumptions = ['sparse inputs have sorted, duplicate-free column indices (the documented CSR convention of the engine)',
                    'mju_boxQP / QCQP are judged on moderately scaled SPD problems (the routines use absolute thresholds 1e-10..1e-16)',
                    'mju_eig3 accuracy is judged against its own stopping rules (off-diagonal < 1e-12 absolute, or rotation cosine > 1 - 1e-12 which leaves up to 1.4e-6 rad): reconstruction within 2e-5 |A|, eigenvalues within 1e-10 |A|',
                    'mju_cholSolveSparse and mju_QCQP (n>3) are exported but not MJAPI: called through the unguarded symbol']
  fams = ['blas'] * 4 + ['sparse'] * 4 + ['symsparse'] * 3 + ['chol'] * 2 + ['lu'] * 2 + ['band'] * 3 + ['eig3'] * 2 + ['boxqp'] * 3 + ['qcqp'] * 2

  def test(case):
    fam, n, cls, seed = case
    rng = np.random.RandomState(seed)
    sample, nontrivial, labels = FAMILIES[fam](cx, rng, n, cls)
    ck.case(nontrivial=bool(nontrivial), key=(fam, n, cls, seed), sample=dict(family=fam, size=n, cls=cls, **sample) if seed % 7 == 0 else None,
            labels=['fam:' + fam] + labels + (['n%4!=0'] if n % 4 else ['n%4==0']))
  strat = st.tuples(st.sampled_from(fams), st.sampled_from(SIZES), st.sampled_from(['well', 'well', 'mid', 'ill']), st.integers(0, 2 ** 31 - 1))
  ck.run_hypothesis(test, strat, ck.budget(2500, 150000), name='linalg')
  probe_count_empty_column(ck, cx)
  probe_boxqp_stall(ck, cx)
  avx_differential(ck, cx)
  ck.extra['constructions'] = dict(cx.counters)
  ck.extra['worst_ratio'] = {k: float('%.3g' % v) for k, v in sorted(cx.worst.items())}
  ck.extra['avx_vs_scalar_reductions_bit_identical'] = '%d of %d' % tuple(cx.bitequal)
  ck.extra['tolerances'] = dict(K_RED=K_RED, K_FACT=K_FACT)


LEVEL = 'exploration'
TECHNIQUE = ('property-based testing (Hypothesis-seeded matrices, sparsity patterns and layouts) against numpy/scipy dense references, backward-error and KKT '
             'certificates, and an AVX-vs-scalar build differential')
LEVEL_TEXT = '''Every dense kernel, factor/solve pair, rank-one update, band and sparse conversion/product/addition/compression/transpose routine, the sparse J'DJ and
reverse-Cholesky pipelines, mju_eig3, mju_boxQP and the QCQP helpers are called directly on generated inputs whose sizes straddle the SIMD width and whose sparsity
patterns contain empty and full rows in compressed, uncompressed and gapped layouts. Results are compared with dense numpy counterparts (bit-exactly for elementwise
kernels and format conversions, within eps-scaled bounds for reductions), by reconstruction / residual (backward error) for factorisations, by the optimality (KKT)
conditions for the QPs, and between the AVX and the scalar build of the tree.'''
LEVEL_NOTE = '''Known finding C23:sqrMatTD-count-empty-column: for a matrix with an empty column the compressed sizes returned by mju_sqrMatTDSparseCount have no slot for
that column's diagonal, but mju_sqrMatTDSparse writes the (zero) diagonal unconditionally and overruns the counted buffer / overwrites the next row's first entry
(1x1 empty matrix suffices; the row-based mju_sqrMatTDSparse_row is consistent). It is
decided by a dedicated probe (generous guarded buffers) and reported through that fingerprint; in the random stream this pair receives matrices whose empty columns were filled by
construction (count in evidence: constructions), while the uncompressed variant, the row-based variant and the Symbolic/Numeric pipeline the engine uses are checked on all patterns.
Known finding C23:boxQP-linesearch-stall-returns-nfree: on ill-conditioned Hessians (cond 1e5; ~5 per 10 000 cases) the projected line search of mju_boxQP stalls with a
coordinate hovering just inside its bound and the routine returns nfree >= 0 at a non-optimal point (MAX_LS_ITER is not mapped to -1); a deterministic n=3 probe reports it every run, and in
the random stream only results with that exact signature (status 'line-search iterations exceeded' + hovering coordinate + cond >= 1e4) go to the fingerprint, everything else is a boxQP-kkt violation.
Bound activity is judged up to 64 eps (1+|bound|+|x_warm|+|x|).
Not covered: mju_blockDiag / mju_blockDiagSparse, mju_factorLUSparse / mju_solveLUSparse (tree-topology LU, needs a kinematic tree: exercised through C06),
mju_cholFactor with a non-trivial mindiag only through the rank count. Rank-one downdates are compared with a tolerance proportional to the condition number and skipped
above 1e6. QP tolerances are 1e-7..1e-6 relative because the routines stop on absolute thresholds. Trusted: numpy/scipy LAPACK.'''


if __name__ == '__main__':
  # worker: evaluate diff_compute with the scalar build and write the results back to the given file
  import pickle
  import sys
  from vf import mj as _mj
  with open(sys.argv[1], 'rb') as _f:
    _cases = pickle.load(_f)
  _res = diff_compute(_mj.load('noavx'), _cases)
  with open(sys.argv[1], 'wb') as _f:
    pickle.dump(_res, _f)
