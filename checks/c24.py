"""C24 - Rotation and pose utilities implement the group operations.

Domain : direct calls of the utilities in src/engine/engine_util_spatial.c and mjd_subQuat / mjd_quatIntegrate.
         Rotation angles are drawn by class: 0, tiny (1e-150..1e-7), small, generic, pi-eps / pi+eps (eps 1e-15..1e-6),
         exactly pi, (pi, 2pi), 2pi, several turns; axes random, coordinate axes, nearly aligned; unit quaternions and,
         where the law is algebraic or the function is a normaliser, non-unit ones; all 216 three-letter Euler sequences
         over xyzXYZ (pure intrinsic, pure extrinsic and mixed case); random poses.
Oracle : numpy reference algebra written from the definitions (vf/oracle/quat.py: Hamilton product, q v q*, Rodrigues,
         exp/log), round trips up to quaternion sign, homomorphism R(q1 q2) = R(q1) R(q2), norm preservation,
         mju_subQuat(mju_quatIntegrate(q, v, h), q) = wrap(v h), "qb * quat(res) = qa", pose inverse laws, and 4th-order
         central finite differences on the manifold (perturbations q (x) exp(delta), differences through log) for the two
         analytic derivative routines.
Non-trivial : angle within 1e-6 of 0 or pi (but not exactly generic), or a non-unit quaternion input.
"""
import itertools
import math

import numpy as np
from hypothesis import strategies as st

from vf.oracle import quat as Q
from vf.runner import Violation

EPS = 2.0 ** -52
PI = math.pi

# tolerance constants: |err| <= K * EPS * scale.  Calibrated on the unchanged tree (seeds 1-5, thorough): the worst
# observed err/(EPS*scale) is recorded in the evidence ("worst_ratio"); K is >= ~50x that worst case (see LEVEL_NOTE).
K_ALG = 128       # a handful of multiplications/additions of O(1) numbers
K_TRIG = 1024     # includes sin/cos/atan2/sqrt and a normalisation
TOL_FD = 2e-10    # 5-point stencil, step 1e-3: truncation ~1e-12 * |f^(5)|, round-off ~1e-13
FD_H = 1e-3

ANGLE_CLASSES = ('zero', 'tiny', 'small', 'generic', 'near_pi', 'pi', 'gt_pi', 'two_pi', 'multi')


def draw_angle(rng, cls):
  if cls == 'zero':
    return 0.0
  if cls == 'tiny':
    lo = -150 if rng.rand() < 0.4 else -20     # most of the mass where the angle still changes results at double precision
    return float(10.0 ** rng.uniform(lo, -7)) * (1 if rng.rand() < 0.8 else -1)
  if cls == 'small':
    return float(10.0 ** rng.uniform(-7, -1)) * (1 if rng.rand() < 0.8 else -1)
  if cls == 'generic':
    return float(rng.uniform(-3.0, 3.0))
  if cls == 'near_pi':
    e = float(10.0 ** rng.uniform(-15.5, -6))
    return (PI - e if rng.rand() < 0.5 else PI + e) * (1 if rng.rand() < 0.8 else -1)
  if cls == 'pi':
    return PI if rng.rand() < 0.8 else -PI
  if cls == 'gt_pi':
    return float(rng.uniform(PI + 1e-3, 2 * PI - 1e-3))
  if cls == 'two_pi':
    return 2 * PI
  return float(rng.uniform(2 * PI, 20.0)) * (1 if rng.rand() < 0.5 else -1)


def draw_axis(rng):
  k = rng.randint(0, 6)
  if k == 0:      # coordinate axis
    a = np.zeros(3)
    a[rng.randint(0, 3)] = 1 if rng.rand() < 0.5 else -1
    return a
  if k == 1:      # in a coordinate plane (one exact zero), sometimes with two equal components (ties in mat2Quat branches)
    a = rng.normal(size=3)
    if rng.rand() < 0.5:
      a[:] = [1, 1, 1]
    a[rng.randint(0, 3)] = 0
    return a / np.linalg.norm(a)
  if k == 2:      # nearly aligned with a coordinate axis
    a = rng.normal(size=3) * 10.0 ** rng.uniform(-12, -3)
    a[rng.randint(0, 3)] = 1
    return a / np.linalg.norm(a)
  a = rng.normal(size=3)
  return a / np.linalg.norm(a)


def unit_quat(rng, cls):
  ax, ang = draw_axis(rng), draw_angle(rng, cls)
  q = Q.qexp(ax * ang)
  if rng.rand() < 0.3:
    q = -q
  return np.ascontiguousarray(q), ax, ang


def is_special(ang):
  a = abs(ang)
  return a <= 1e-6 or abs(a - PI) <= 1e-6


def hexs(*arrs):
  return ' '.join('[' + ', '.join(float(x).hex() for x in np.ravel(a)) + ']' for a in arrs)


def fd5(f, step):
  """4th-order central difference of a function of one scalar."""
  return (8 * (f(step) - f(-step)) - (f(2 * step) - f(-2 * step))) / (12 * step)


class Ctx:
  def __init__(self, ck, lib):
    self.ck = ck
    self.lib = lib
    self.worst = {}

  def chk(self, name, err, tol, what):
    err = float(np.max(np.abs(err))) if np.size(err) else 0.0
    if not (err == err):
      raise Violation('%s: NaN in result; %s' % (name, what()), bucket=name)
    r = err / tol if tol > 0 else (0.0 if err == 0 else float('inf'))
    if r > self.worst.get(name, 0.0):
      self.worst[name] = r
    if err > tol:
      raise Violation('%s: error %.3g > tolerance %.3g; %s' % (name, err, tol, what()), bucket=name)

  # thin engine wrappers -------------------------------------------------
  def quat2Mat(self, q):
    r = np.empty(9)
    self.lib.mju_quat2Mat(r, np.ascontiguousarray(q, dtype=np.float64))
    return r.reshape(3, 3)

  def mat2Quat(self, R):
    q = np.empty(4)
    self.lib.mju_mat2Quat(q, np.ascontiguousarray(R, dtype=np.float64).reshape(9))
    return q

  def mulQuat(self, a, b):
    r = np.empty(4)
    self.lib.mju_mulQuat(r, np.ascontiguousarray(a, dtype=np.float64), np.ascontiguousarray(b, dtype=np.float64))
    return r

  def negQuat(self, q):
    r = np.empty(4)
    self.lib.mju_negQuat(r, np.ascontiguousarray(q, dtype=np.float64))
    return r

  def rotVecQuat(self, v, q):
    r = np.empty(3)
    self.lib.mju_rotVecQuat(r, np.ascontiguousarray(v, dtype=np.float64), np.ascontiguousarray(q, dtype=np.float64))
    return r

  def axisAngle2Quat(self, ax, ang):
    r = np.empty(4)
    self.lib.mju_axisAngle2Quat(r, np.ascontiguousarray(ax, dtype=np.float64), float(ang))
    return r

  def quat2Vel(self, q, dt):
    r = np.empty(3)
    self.lib.mju_quat2Vel(r, np.ascontiguousarray(q, dtype=np.float64), float(dt))
    return r

  def subQuat(self, qa, qb):
    r = np.empty(3)
    self.lib.mju_subQuat(r, np.ascontiguousarray(qa, dtype=np.float64), np.ascontiguousarray(qb, dtype=np.float64))
    return r

  def quatIntegrate(self, q, v, h):
    r = np.array(q, dtype=np.float64)
    self.lib.mju_quatIntegrate(r, np.ascontiguousarray(v, dtype=np.float64), float(h))
    return r


# ------------------------------------------------------------------------------------------------ families

def fam_convert(cx, rng, cls, nonunit):
  q, ax, ang = unit_quat(rng, cls)
  w = lambda: 'axis=%s angle=%s q=%s' % (hexs(ax), float(ang).hex(), hexs(q))
  R = cx.quat2Mat(q)
  cx.chk('quat2Mat-vs-qvq*', R - Q.rotmat(q), K_ALG * EPS, w)
  cx.chk('quat2Mat-vs-rodrigues', R - Q.rodrigues(ax, ang), K_TRIG * EPS * (1 + abs(ang)), w)
  cx.chk('quat2Mat-orthonormal', R.T @ R - np.eye(3), K_ALG * EPS, w)
  cx.chk('quat2Mat-det', np.linalg.det(R) - 1, K_ALG * EPS, w)
  q2 = cx.mat2Quat(R)
  cx.chk('mat2Quat(quat2Mat(q))==+-q', Q.same_rotation(q2, q), K_TRIG * EPS, w)
  Rr = Q.rodrigues(ax, ang)
  q3 = cx.mat2Quat(Rr)
  cx.chk('mat2Quat(rodrigues)-unit', np.linalg.norm(q3) - 1, K_ALG * EPS, w)
  cx.chk('quat2Mat(mat2Quat(R))==R', cx.quat2Mat(q3) - Rr, K_TRIG * EPS * (1 + abs(ang)), w)
  # axis-angle
  qa = cx.axisAngle2Quat(ax, ang)
  cx.chk('axisAngle2Quat-vs-exp', qa - Q.qexp(ax * ang), K_TRIG * EPS * (1 + abs(ang)), w)
  # quat2Vel: principal rotation vector / dt
  dt = float(10.0 ** rng.uniform(-3, 1))
  vel = cx.quat2Vel(q, dt)
  ref = Q.qlog(q)
  near_pi = abs(abs(math.remainder(ang, 2 * PI)) - PI) < 1e-9   # principal value flips sign across pi: compare as rotations
  if not near_pi:
    cx.chk('quat2Vel-vs-log', vel * dt - ref, K_TRIG * EPS * (1 + PI), lambda: w() + ' dt=%r' % dt)
  cx.chk('exp(quat2Vel)==+-q', Q.same_rotation(Q.qexp(vel * dt), q), K_TRIG * EPS * (1 + PI), lambda: w() + ' dt=%r' % dt)
  cx.chk('quat2Vel-principal', max(0.0, np.linalg.norm(vel * dt) - PI), K_TRIG * EPS * PI, w)
  labels = []
  if nonunit:
    # quat2Mat of s*q is s^2 R(q) (algebraic), mat2Quat normalises its result
    s = float(rng.uniform(0.3, 3))
    Rs = cx.quat2Mat(q * s)
    cx.chk('quat2Mat(s q)==s^2 R', Rs - s * s * Q.rotmat(q), K_ALG * EPS * s * s, lambda: w() + ' s=%r' % s)
    labels.append('nonunit')
  return dict(angle=ang, axis=ax.tolist()), labels


def fam_product(cx, rng, cls, nonunit):
  q1, ax1, a1 = unit_quat(rng, cls)
  q2, ax2, a2 = unit_quat(rng, rng.choice(ANGLE_CLASSES))
  s1 = s2 = 1.0
  if nonunit:
    s1, s2 = float(10.0 ** rng.uniform(-3, 3)), float(rng.uniform(0.1, 10))
  p1, p2 = q1 * s1, q2 * s2
  w = lambda: 'q1=%s q2=%s' % (hexs(p1), hexs(p2))
  sc = s1 * s2
  p = cx.mulQuat(p1, p2)
  cx.chk('mulQuat-vs-hamilton', p - Q.qmul(p1, p2), K_ALG * EPS * sc, w)
  cx.chk('R(q1 q2)==R(q1)R(q2)', cx.quat2Mat(p) - cx.quat2Mat(p1) @ cx.quat2Mat(p2), K_ALG * EPS * sc * sc, w)
  n = cx.negQuat(p1)
  e = cx.mulQuat(p1, n)
  cx.chk('q*neg(q)==|q|^2', e - np.array([s1 * s1 * np.dot(q1, q1), 0, 0, 0]), K_ALG * EPS * s1 * s1, w)
  # in-place product (res aliases an input) must equal the out-of-place product
  a = p1.copy()
  cx.lib.mju_mulQuat(a, a, np.ascontiguousarray(p2))
  b = p2.copy()
  cx.lib.mju_mulQuat(b, np.ascontiguousarray(p1), b)
  if not (np.array_equal(a, p) and np.array_equal(b, p)):
    raise Violation('mju_mulQuat with res aliasing an input differs from the out-of-place product; ' + w(), bucket='mulQuat-alias')
  # associativity with a third
  q3 = unit_quat(rng, 'generic')[0]
  cx.chk('mulQuat-assoc', cx.mulQuat(cx.mulQuat(p1, p2), q3) - cx.mulQuat(p1, cx.mulQuat(p2, q3)), K_ALG * EPS * sc, w)
  # quaternion times pure axis
  axis = rng.normal(size=3) * (0 if rng.rand() < 0.05 else 1)
  r = np.empty(4)
  cx.lib.mju_mulQuatAxis(r, np.ascontiguousarray(p1), np.ascontiguousarray(axis))
  cx.chk('mulQuatAxis', r - Q.qmul(p1, np.concatenate([[0.0], axis])), K_ALG * EPS * s1 * (1 + np.linalg.norm(axis)), w)
  # rotation of vectors (unit quaternion only)
  v = rng.normal(size=3) * 10.0 ** rng.uniform(-3, 3)
  if rng.rand() < 0.05:
    v[:] = 0
  vn = np.linalg.norm(v)
  rv = cx.rotVecQuat(v, q1)
  wv = lambda: 'q=%s v=%s' % (hexs(q1), hexs(v))
  cx.chk('rotVecQuat-vs-R(q)v', rv - Q.rotmat(q1) @ v, K_ALG * EPS * vn, wv)
  cx.chk('rotVecQuat-vs-quat2Mat', rv - cx.quat2Mat(q1) @ v, K_ALG * EPS * vn, wv)
  cx.chk('rotVecQuat-norm', np.linalg.norm(rv) - vn, K_ALG * EPS * vn, wv)
  cx.chk('rotVecQuat-inverse', cx.rotVecQuat(rv, cx.negQuat(q1)) - v, K_ALG * EPS * vn, wv)
  ident = np.array([1.0, 0, 0, 0])
  if not np.array_equal(cx.rotVecQuat(v, ident), v):
    raise Violation('rotVecQuat(v, identity) != v; ' + wv(), bucket='rotVecQuat-identity')
  cx.chk('mulQuat-identity', cx.mulQuat(p1, ident) - p1, 0.0, w)
  # cross product
  a3, b3 = rng.normal(size=3), rng.normal(size=3)
  c3 = np.empty(3)
  cx.lib.mju_cross(c3, a3, b3)
  cx.chk('cross', c3 - np.cross(a3, b3), K_ALG * EPS * np.linalg.norm(a3) * np.linalg.norm(b3), lambda: hexs(a3, b3))
  return dict(angle=a1, scale=[s1, s2]), (['nonunit'] if nonunit else [])


def wrap_rotvec(s):
  """Rotation vector equivalent to s with norm in [0, pi]."""
  n = np.linalg.norm(s)
  if n <= PI:
    return s
  m = math.remainder(n, 2 * PI)   # in [-pi, pi]
  return s / n * m


def fam_integrate(cx, rng, cls, nonunit):
  q, _, _ = unit_quat(rng, rng.choice(ANGLE_CLASSES))
  ax, x = draw_axis(rng), abs(draw_angle(rng, cls))
  h = float(10.0 ** rng.uniform(-3, 1)) if rng.rand() < 0.8 else 1.0
  v = ax * (x / h)
  s = v * h
  x = float(np.linalg.norm(s))
  sq = float(rng.uniform(0.3, 3)) if nonunit else 1.0
  qin = q * sq
  w = lambda: 'q=%s v=%s h=%s' % (hexs(qin), hexs(v), float(h).hex())
  minval = cx.lib.enums.mjMINVAL
  slack = h * minval * 2 if np.linalg.norm(v) < minval else 0.0    # |v| below the engine's documented denominator floor
  out = cx.quatIntegrate(qin, v, h)
  cx.chk('quatIntegrate-unit', np.linalg.norm(out) - 1, K_TRIG * EPS, w)
  cx.chk('quatIntegrate-vs-q*exp(vh)', out - Q.qmul(q / np.linalg.norm(q), Q.qexp(s)), K_TRIG * EPS * (1 + x) + slack, w)
  out1 = cx.quatIntegrate(qin, s, 1.0)
  cx.chk('quatIntegrate(q,v,h)==(q,vh,1)', out - out1, K_TRIG * EPS * (1 + x) + slack, w)
  d = cx.subQuat(out, q)
  if abs(x - PI) > 1e-6:
    cx.chk('subQuat(quatIntegrate(q,v,h),q)==wrap(vh)', d - wrap_rotvec(s), K_TRIG * EPS * (1 + x) + slack, w)
  cx.chk('exp(subQuat)==exp(vh)', Q.same_rotation(Q.qexp(d), Q.qexp(s)), K_TRIG * EPS * (1 + x) + slack, w)
  cx.chk('subQuat-principal', max(0.0, np.linalg.norm(d) - PI), K_TRIG * EPS * PI, w)
  # definition: qb * quat(res) = qa, for an independent pair
  qa, _, _ = unit_quat(rng, rng.choice(ANGLE_CLASSES))
  r = cx.subQuat(qa, q)
  cx.chk('qb*quat(subQuat(qa,qb))==+-qa', Q.same_rotation(Q.qmul(q, Q.qexp(r)), qa), K_TRIG * EPS * (1 + PI),
         lambda: 'qa=%s qb=%s' % (hexs(qa), hexs(q)))
  cx.chk('subQuat(q,q)==0', cx.subQuat(q, q), K_TRIG * EPS, w)
  # derivQuat(q, w): time derivative of the quaternion for an angular velocity w expressed in the *fixed* frame (this is how the
  # engine's weld constraint uses it; the API text does not name the frame): d/dt [exp(w t) (x) q] = 1/2 (0,w) (x) q.
  # Link with quatIntegrate, whose velocity is in the moving frame: derivQuat(q, R(q) v) = d/dt quatIntegrate(q, v, t) = 1/2 q (x) (0,v).
  vn = float(np.linalg.norm(v))
  dq = np.empty(4)
  cx.lib.mju_derivQuat(dq, np.ascontiguousarray(q), np.ascontiguousarray(cx.rotVecQuat(v, q)))
  cx.chk('derivQuat(q,R(q)v)==half-q*v', dq - 0.5 * Q.qmul(q, np.concatenate([[0.0], v])), K_ALG * EPS * (vn + 1e-300), w)
  if 1e-3 < vn < 1e3:
    e = 1e-4 / vn
    fd = fd5(lambda t: cx.quatIntegrate(q, v, t), e)
    cx.chk('derivQuat(q,R(q)v)-vs-FD(quatIntegrate)', dq - fd, 1e-9 * vn, w)
    dq2 = np.empty(4)
    cx.lib.mju_derivQuat(dq2, np.ascontiguousarray(q), np.ascontiguousarray(v))
    fd2 = fd5(lambda t: Q.qmul(Q.qexp(v * t), q), e)
    cx.chk('derivQuat-vs-FD(exp(wt)*q)', dq2 - fd2, 1e-9 * vn, w)
  return dict(x=x, h=h), (['nonunit'] if nonunit else [])


SEQS = [''.join(p) for p in itertools.product('xyzXYZ', repeat=3)]


def fam_euler(cx, rng, cls, nonunit, seq=None):
  seq = seq or SEQS[rng.randint(0, len(SEQS))]
  e = np.array([draw_angle(rng, cls), draw_angle(rng, rng.choice(ANGLE_CLASSES)), draw_angle(rng, rng.choice(ANGLE_CLASSES))])
  rng.shuffle(e)
  w = lambda: 'seq=%s euler=%s' % (seq, hexs(e))
  q = np.empty(4)
  cx.lib.mju_euler2Quat(q, e, seq)
  # documented semantics: lower case = intrinsic (about the moving axes), upper case = extrinsic (about the fixed axes)
  R = np.eye(3)
  for ch, a in zip(seq, e):
    Ri = Q.elem_rot('xyz'.index(ch.lower()), a)
    R = R @ Ri if ch.islower() else Ri @ R
  tol = K_TRIG * EPS * (1 + np.sum(np.abs(e)))
  cx.chk('euler2Quat-unit', np.linalg.norm(q) - 1, K_TRIG * EPS, w)
  cx.chk('euler2Quat-vs-matrix-product', Q.rotmat(q) - R, tol, w)
  if seq.islower() or seq.isupper():
    # closed forms: intrinsic abc = Ra Rb Rc ; extrinsic ABC = Rc Rb Ra
    Rs = [Q.elem_rot('xyz'.index(ch.lower()), a) for ch, a in zip(seq, e)]
    Rc = Rs[0] @ Rs[1] @ Rs[2] if seq.islower() else Rs[2] @ Rs[1] @ Rs[0]
    cx.chk('euler2Quat-closed-form', Q.rotmat(q) - Rc, tol, w)
    # metamorphic: extrinsic ABC(e) == intrinsic cba(reversed e)
    q2 = np.empty(4)
    cx.lib.mju_euler2Quat(q2, np.ascontiguousarray(e[::-1]), seq[::-1].swapcase())
    cx.chk('euler-extrinsic==reversed-intrinsic', Q.same_rotation(q, q2), tol, w)
  return dict(seq=seq, euler=e.tolist()), ['seq:' + ('intrinsic' if seq.islower() else 'extrinsic' if seq.isupper() else 'mixed')]


def fam_pose(cx, rng, cls, nonunit):
  q1, _, a1 = unit_quat(rng, cls)
  q2, _, _ = unit_quat(rng, rng.choice(ANGLE_CLASSES))
  p1 = rng.normal(size=3) * 10.0 ** rng.uniform(-2, 2)
  p2 = rng.normal(size=3) * 10.0 ** rng.uniform(-2, 2)
  v = rng.normal(size=3) * 10.0 ** rng.uniform(-2, 2)
  sc = 1 + np.linalg.norm(p1) + np.linalg.norm(p2) + np.linalg.norm(v)
  w = lambda: 'pose1=%s pose2=%s v=%s' % (hexs(p1, q1), hexs(p2, q2), hexs(v))
  L = cx.lib

  def trn(p, q, x):
    r = np.empty(3)
    L.mju_trnVecPose(r, np.ascontiguousarray(p), np.ascontiguousarray(q), np.ascontiguousarray(x))
    return r
  t = trn(p1, q1, v)
  cx.chk('trnVecPose-vs-Rv+p', t - (Q.rotmat(q1) @ v + p1), K_ALG * EPS * sc, w)
  pr, qr = np.empty(3), np.empty(4)
  L.mju_mulPose(pr, qr, p1, q1, p2, q2)
  cx.chk('mulPose-quat', Q.same_rotation(qr, Q.qmul(q1, q2)), K_ALG * EPS, w)
  cx.chk('mulPose-pos', pr - (Q.rotmat(q1) @ p2 + p1), K_ALG * EPS * sc, w)
  cx.chk('mulPose-composes-trn', trn(pr, qr, v) - trn(p1, q1, trn(p2, q2, v)), K_ALG * EPS * sc, w)
  pn, qn = np.empty(3), np.empty(4)
  L.mju_negPose(pn, qn, p1, q1)
  cx.chk('negPose-undoes-trn', trn(pn, qn, t) - v, K_ALG * EPS * sc, w)
  pi, qi = np.empty(3), np.empty(4)
  L.mju_mulPose(pi, qi, p1, q1, pn, qn)
  cx.chk('pose*negPose==id(pos)', pi, K_ALG * EPS * sc, w)
  cx.chk('pose*negPose==id(quat)', Q.same_rotation(qi, np.array([1.0, 0, 0, 0])), K_ALG * EPS, w)
  L.mju_mulPose(pi, qi, pn, qn, p1, q1)
  cx.chk('negPose*pose==id(pos)', pi, K_ALG * EPS * sc, w)
  cx.chk('negPose*pose==id(quat)', Q.same_rotation(qi, np.array([1.0, 0, 0, 0])), K_ALG * EPS, w)
  labels = []
  if nonunit:
    # mulPose normalises the quaternion product
    s = float(rng.uniform(0.3, 3))
    L.mju_mulPose(pr, qr, p1, q1, p2, np.ascontiguousarray(q2 * s))
    cx.chk('mulPose-normalises', Q.same_rotation(qr, Q.qmul(q1, q2)), K_ALG * EPS, w)
    labels.append('nonunit')
  # spatial transform: power f.v is frame invariant, and the transform is inverted by the opposite transform
  mot, frc = rng.normal(size=6), rng.normal(size=6)
  newpos, oldpos = rng.normal(size=3), rng.normal(size=3)
  R = np.ascontiguousarray(Q.rotmat(q1)).reshape(9)
  m2, f2 = np.empty(6), np.empty(6)
  L.mju_transformSpatial(m2, mot, 0, newpos, oldpos, R)
  L.mju_transformSpatial(f2, frc, 1, newpos, oldpos, R)
  sc2 = (1 + np.linalg.norm(newpos - oldpos)) ** 2 * np.linalg.norm(mot) * np.linalg.norm(frc)
  cx.chk('transformSpatial-power-invariant', np.dot(m2, f2) - np.dot(mot, frc), K_ALG * 4 * EPS * sc2, w)
  # back: new frame -> old frame: positions expressed in the new frame, rotation transposed
  Rm = Q.rotmat(q1)
  back_new = Rm.T @ (oldpos - newpos)
  m3 = np.empty(6)
  L.mju_transformSpatial(m3, m2, 0, np.ascontiguousarray(back_new), np.zeros(3), np.ascontiguousarray(Rm.T).reshape(9))
  cx.chk('transformSpatial-roundtrip', m3 - mot, K_ALG * 4 * EPS * sc2 / max(np.linalg.norm(frc), 1e-300), w)
  return dict(angle=a1), labels


def fam_deriv_sub(cx, rng, cls, nonunit):
  qb, _, _ = unit_quat(rng, rng.choice(ANGLE_CLASSES))
  ax, ang = draw_axis(rng), draw_angle(rng, cls)
  ang = math.remainder(ang, 2 * PI)
  qa = Q.qmul(qb, Q.qexp(ax * ang))
  if rng.rand() < 0.3:
    qa = -qa
  qa = np.ascontiguousarray(qa)
  w = lambda: 'qa=%s qb=%s (relative angle %r)' % (hexs(qa), hexs(qb), ang)
  Da, Db = np.empty(9), np.empty(9)
  cx.lib.mjd_subQuat(qa, qb, Da, Db)
  Da, Db = Da.reshape(3, 3).copy(), Db.reshape(3, 3).copy()
  # nullable outputs give the same numbers
  D1 = np.empty(9)
  cx.lib.mjd_subQuat(qa, qb, D1, None)
  D2 = np.empty(9)
  cx.lib.mjd_subQuat(qa, qb, None, D2)
  cx.lib.mjd_subQuat(qa, qb, None, None)
  if not (np.array_equal(D1.reshape(3, 3), Da) and np.array_equal(D2.reshape(3, 3), Db)):
    raise Violation('mjd_subQuat with a NULL output changes the other output; ' + w(), bucket='mjd_subQuat-nullable')
  labels = []
  if abs(ang) < PI - 0.01:
    FDa, FDb = np.empty((3, 3)), np.empty((3, 3))
    for i in range(3):
      e = np.zeros(3)
      e[i] = 1
      FDa[:, i] = fd5(lambda t: cx.subQuat(Q.qmul(qa, Q.qexp(e * t)), qb), FD_H)
      FDb[:, i] = fd5(lambda t: cx.subQuat(qa, Q.qmul(qb, Q.qexp(e * t))), FD_H)
    cx.chk('mjd_subQuat-Da-vs-FD', Da - FDa, TOL_FD, w)
    cx.chk('mjd_subQuat-Db-vs-FD', Db - FDb, TOL_FD, w)
    labels.append('fd')
  else:
    # the principal value jumps at pi: finite differences are not meaningful there; structural relation only
    labels.append('fd-skipped-near-pi')
  cx.chk('mjd_subQuat-Db==-Da^T', Db + Da.T, 0.0, w)
  return dict(rel_angle=ang), labels


def fam_deriv_int(cx, rng, cls, nonunit):
  q, _, _ = unit_quat(rng, rng.choice(ANGLE_CLASSES))
  ax = draw_axis(rng)
  if cls == 'threshold':        # the analytic routine switches to a Taylor expansion at |s| = 1/32
    x = 1.0 / 32 + (0 if rng.rand() < 0.2 else float(rng.choice([-1, 1]) * 10.0 ** rng.uniform(-16, -2)))
  else:
    x = abs(draw_angle(rng, cls))
  h = float(10.0 ** rng.uniform(-2, 1)) if rng.rand() < 0.8 else 1.0
  v = ax * (x / h)
  w = lambda: 'q=%s v=%s h=%s |vh|=%r' % (hexs(q), hexs(v), float(h).hex(), x)
  Dq, Dv, Dh = np.empty(9), np.empty(9), np.empty(3)
  cx.lib.mjd_quatIntegrate(np.ascontiguousarray(v), h, Dq, Dv, Dh)
  Dq, Dv = Dq.reshape(3, 3).copy(), Dv.reshape(3, 3).copy()
  a, b, c = np.empty(9), np.empty(9), np.empty(3)
  cx.lib.mjd_quatIntegrate(np.ascontiguousarray(v), h, a, None, None)
  cx.lib.mjd_quatIntegrate(np.ascontiguousarray(v), h, None, b, None)
  cx.lib.mjd_quatIntegrate(np.ascontiguousarray(v), h, None, None, c)
  if not (np.array_equal(a.reshape(3, 3), Dq) and np.array_equal(b.reshape(3, 3), Dv) and np.array_equal(c, Dh)):
    raise Violation('mjd_quatIntegrate with NULL outputs changes the remaining output; ' + w(), bucket='mjd_quatIntegrate-nullable')
  y = cx.quatIntegrate(q, v, h)
  yc = Q.qconj(y)

  def tangent(y2):
    return Q.qlog(Q.qmul(yc, y2))
  FDq, FDv = np.empty((3, 3)), np.empty((3, 3))
  for i in range(3):
    e = np.zeros(3)
    e[i] = 1
    FDq[:, i] = fd5(lambda t: tangent(cx.quatIntegrate(Q.qmul(q, Q.qexp(e * t)), v, h)), FD_H)
    # velocity perturbation of size t/h so that the scaled velocity moves by t
    FDv[:, i] = fd5(lambda t: tangent(cx.quatIntegrate(q, v + e * (t / h), h)), FD_H)
  vn = float(np.linalg.norm(v))
  FDh = fd5(lambda t: tangent(cx.quatIntegrate(q, v, h + t * h)), FD_H) / h
  sc = 1 + x * x
  cx.chk('mjd_quatIntegrate-Dquat-vs-FD', Dq - FDq, TOL_FD * sc, w)
  # NOTE: the tree's Dvel is the derivative with respect to the *scaled* velocity s = h v (source comment of
  # mjd_quatIntegrate; "derivatives depend only on s"), i.e. d q / d v = h * Dvel.  FDv above is d q / d s.
  cx.chk('mjd_quatIntegrate-Dvel-vs-FD(scaled velocity)', Dv - FDv, TOL_FD * sc, w)
  cx.chk('mjd_quatIntegrate-Dscale-vs-FD', Dh - FDh, TOL_FD * sc * (1 + vn), w)
  return dict(x=x, h=h), ['thr' if cls == 'threshold' else 'x:' + cls]


def fam_z2vec(cx, rng, cls, nonunit):
  kind = rng.choice(['random', 'plus_z', 'minus_z', 'near_plus', 'near_minus', 'tiny', 'in_plane'])
  if kind == 'random':
    vec = rng.normal(size=3)
  elif kind == 'plus_z':
    vec = np.array([0, 0, 1.0])
  elif kind == 'minus_z':
    vec = np.array([0, 0, -1.0])
  elif kind in ('near_plus', 'near_minus'):
    d = 10.0 ** rng.uniform(-18, -3)
    phi = rng.uniform(0, 2 * PI)
    vec = np.array([d * math.cos(phi), d * math.sin(phi), 1.0 if kind == 'near_plus' else -1.0])
  elif kind == 'tiny':
    vec = rng.normal(size=3) * 1e-17
  else:
    vec = np.array([rng.normal(), rng.normal(), 0.0])
  scale = 1.0 if kind == 'tiny' else float(10.0 ** rng.uniform(-8, 8))
  vec = np.ascontiguousarray(vec * scale)
  w = lambda: 'vec=%s' % hexs(vec)
  q = np.full(4, 7.0)
  cx.lib.mju_quatZ2Vec(q, vec)
  n = np.linalg.norm(vec)
  cx.chk('quatZ2Vec-unit', np.linalg.norm(q) - 1, K_TRIG * EPS, w)
  if n < cx.lib.enums.mjMINVAL:
    cx.chk('quatZ2Vec-tiny==identity', q - np.array([1.0, 0, 0, 0]), 0.0, w)
  else:
    z = Q.rotmat(q) @ np.array([0, 0, 1.0])
    cx.chk('quatZ2Vec-maps-z-to-vec', z - vec / n, K_TRIG * EPS, w)
    cx.chk('quatZ2Vec-axis-in-xy-plane', q[3], K_TRIG * EPS, w)
  return dict(kind=str(kind)), ['z2vec:' + str(kind)]


def fam_mat2rot(cx, rng, cls, nonunit):
  import scipy.linalg
  q, _, ang = unit_quat(rng, 'generic')
  R = Q.rotmat(q)
  # symmetric positive definite stretch with condition number <= 3
  U = scipy.linalg.qr(rng.normal(size=(3, 3)))[0]
  S = U @ np.diag(rng.uniform(0.6, 1.8, 3)) @ U.T
  M = R @ S
  # initial guess within 1 rad of the answer
  q0 = Q.qmul(q, Q.qexp(draw_axis(rng) * rng.uniform(0, 1.0)))
  qq = np.ascontiguousarray(q0)
  it = cx.lib.mju_mat2Rot(qq, np.ascontiguousarray(M).reshape(9))
  w = lambda: 'mat=%s quat0=%s' % (hexs(M), hexs(q0))
  Rp = scipy.linalg.polar(M)[0]
  cx.chk('mat2Rot-unit', np.linalg.norm(qq) - 1, K_TRIG * EPS, w)
  cx.chk('mat2Rot-vs-polar', Q.rotmat(qq) - Rp, 1e-7, w)
  if it >= 500:
    raise Violation('mju_mat2Rot did not converge in 500 iterations on a well-conditioned input; ' + w(), bucket='mat2Rot-iter')
  return dict(iters=int(it)), ['mat2rot']


FAMILIES = dict(convert=fam_convert, product=fam_product, integrate=fam_integrate, euler=fam_euler, pose=fam_pose,
                deriv_sub=fam_deriv_sub, deriv_int=fam_deriv_int, z2vec=fam_z2vec, mat2rot=fam_mat2rot)
# relative weights (cheap algebra more often, finite differences fewer) and cases per Hypothesis example
WEIGHTS = dict(convert=4, product=4, integrate=4, euler=4, pose=3, deriv_sub=2, deriv_int=2, z2vec=2, mat2rot=1)
BATCH = 20


def main(ck):
  from vf import mj
  lib = ck.lib('rel')
  cx = Ctx(ck, lib)
  ck.rule = ('Hypothesis draws (family, angle class, unit/non-unit, seed); each example runs %d instances drawn from a numpy '
             'RandomState seeded by it. Angle classes: %s (+ "threshold" |vh| = 1/32 +- 1e-16..1e-2 for mjd_quatIntegrate). '
             'non-trivial = the governing angle is within 1e-6 of 0 or pi, or the input quaternion is non-unit; distinct by '
             '(family, class, seed, index)' % (BATCH, ', '.join(ANGLE_CLASSES)))
  ck.assumptions = ['exact laws are only asserted for unit quaternions; non-unit inputs only for algebraic identities (mulQuat, quat2Mat '
                    'homomorphism, negQuat) and for the routines that normalise (mat2Quat, quatIntegrate, mulPose)',
                    'finite differences of mju_subQuat are skipped within 0.01 rad of pi where its principal value jumps',
                    'mjd_quatIntegrate.Dvel is compared with the derivative w.r.t. the scaled velocity s = h v, as the source comment defines it']

  # ---- all Euler sequences once, exhaustively in the sequence dimension, + invalid sequences
  rng0 = np.random.RandomState(ck.seed)
  for seq in SEQS:
    for cls in ('generic', 'pi', 'zero', 'near_pi'):
      sample, labels = fam_euler(cx, rng0, cls, False, seq=seq)
      ck.case(nontrivial=cls != 'generic', key=('euler-all', seq, cls), labels=['euler-all'] + labels)
  for bad in ('', 'x', 'xy', 'xyzx', 'xyw', 'abc', 'XY1', 'xyzxyz'):
    try:
      lib.mju_euler2Quat(np.empty(4), np.zeros(3), bad)
    except mj.MjError:
      ck.label('euler-invalid-rejected')
      continue
    raise Violation('mju_euler2Quat accepted the invalid sequence %r (documented: exactly 3 characters from xyzXYZ)' % bad,
                    bucket='euler-invalid')

  fams = [f for f, wt in WEIGHTS.items() for _ in range(wt)]

  def test(case):
    fam, cls, nonunit, seed = case
    if fam == 'deriv_int' and seed % 4 == 0:
      cls = 'threshold'
    rng = np.random.RandomState(seed)
    for i in range(BATCH):
      sample, labels = FAMILIES[fam](cx, rng, cls, nonunit)
      special = cls in ('zero', 'tiny', 'near_pi', 'pi') or 'nonunit' in labels
      if fam in ('z2vec',):
        special = sample['kind'] != 'random'
      if fam == 'mat2rot':
        special = False
      ck.case(nontrivial=special, key=(fam, cls, nonunit, seed, i),
              sample=dict(family=fam, angle_class=cls, nonunit=bool(nonunit), **sample) if i == 0 else None,
              labels=['fam:' + fam, 'cls:' + cls] + labels)

  strat = st.tuples(st.sampled_from(fams), st.sampled_from(ANGLE_CLASSES), st.booleans(), st.integers(0, 2 ** 31 - 1))
  ck.run_hypothesis(test, strat, ck.budget(1000, 25000), name='rotations')
  ck.extra['worst_ratio'] = {k: float('%.3g' % v) for k, v in sorted(cx.worst.items())}
  ck.extra['tolerances'] = dict(K_ALG=K_ALG, K_TRIG=K_TRIG, TOL_FD=TOL_FD, FD_H=FD_H)


LEVEL = 'exploration'
TECHNIQUE = ('property-based testing (Hypothesis-seeded numeric generators with explicit angle classes) against a numpy reference algebra, '
             'round-trip / homomorphism / inverse laws and 4th-order finite differences on the rotation manifold')
LEVEL_TEXT = '''Direct calls of every quaternion / rotation-matrix / axis-angle / Euler / pose utility of engine_util_spatial.c and of mjd_subQuat,
mjd_quatIntegrate on inputs drawn by angle class (0, tiny, pi +- 1e-15..1e-6, pi, > pi, 2 pi, several turns; coordinate and nearly aligned axes; unit and
non-unit quaternions; all 216 Euler sequences). Results are compared with an independent numpy algebra (Hamilton product, q v q*, Rodrigues, exp/log), with
round-trip, homomorphism, norm-preservation and inverse laws, and with 4th-order central differences on the manifold for the analytic derivatives.'''
LEVEL_NOTE = '''Tolerances: K*eps*scale with K=128 (pure algebra) / 1024 (trig, angle reduction, normalisation), finite differences 2e-10*scale; the worst observed error/tolerance
ratios are written to the evidence (worst_ratio). Not covered: mju_subQuat finite differences within 0.01 rad of pi (principal-value jump; only Db = -Da^T there);
mju_mat2Rot only on well-conditioned inputs (cond <= 3, start within 1 rad); mju_mulInertVec / crossMotion / crossForce (spatial algebra, not part of the
statement). mjd_quatIntegrate's Dvel is checked as d/d(h v) (what the source documents), which differs from the API text "D_v = dq/dv" by the factor h.'''
