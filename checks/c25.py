"""C25 - Analytic derivatives match finite differences.

Domain : generated contact-free models with joint/tendon/actuator damping (polynomial), actuators with velocity
         dependence (velocity/position kv/damper/affine bias and gain, stateful with actearly), fluid media (density,
         viscosity, wind; inertia-box and ellipsoid models), all joint types; states with |qvel| <= 5.
Oracle : (a) qDeriv from mjd_smooth_vel (with and without the RNE term) == own central finite differences of
         qfrc_passive + qfrc_actuator - qfrc_bias w.r.t. qvel on D's sparsity pattern (documented restriction), and ==
         the tree's own mjd_smooth_velFD; mjd_freeBias_vel == FD of the bias force of a standalone free body;
         (b) mjd_transitionFD A,B,C,D == own perturbation of mj_step on copies (manifold perturbation/differences),
         forward vs centred agree to differencing accuracy; (c) mjd_inverseFD Jacobians == own perturbation of
         mj_inverse, DfDa == M, DmDq == FD of the sparse M; (d) the input state (all mjtState components, and
         qacc for the inverse) is bit-identical before/after; RK4 is rejected as documented.
Non-trivial: >= 2 of {damping, velocity-dependent actuator, fluid, ball/free joint with |omega| > 1}.
"""
import xml.etree.ElementTree as ET

import numpy as np
from hypothesis import strategies as st

from vf import gen_smooth as gs
from vf import mj
from vf import modelgen as mg
from vf.runner import Violation

EPS = np.finfo(np.float64).eps
H = 1e-6             # own finite-difference step (same as the eps passed to the engine's FD routines)
# (a) central FD of forces that are at most mildly non-polynomial in qvel: round-off ~ eps*|f|/H ~ 1e-9*scale,
#     truncation ~ H^2 f''' ~ 1e-12.  TOL_A = 2e-8 relative to the force scale is ~100x the worst observed (1e-10).
TOL_A = 2e-8         # only used for labelling thresholds; the assertion uses the per-entry error model below
K_T = 10             # multiple of the Richardson truncation estimate |fd(2H) - fd(H)| (= 3x the truncation error of fd(H))
K_R = 3000.0         # multiple of eps*|f_row|/H; worst observed on the unchanged tree ~50 (seeds 1-5 quick), i.e. ~60x margin
# (b)/(c) same perturbations, same eps: the engine's routine and the re-implementation differ by round-off
#     amplified by 1/eps (~1e-9*scale*cond); TOL_B ~100x the worst observed.
TOL_B = 2e-8
TOL_FC = 2e-3        # forward vs centred differences: O(eps * |second derivative|) with eps = 1e-6, generous constant
COND_MAX = 1e6


@st.composite
def model_strategy(draw, quick):
  integ = draw(st.sampled_from(['Euler', 'implicit', 'implicitfast']))
  medium = ''
  fluid = draw(st.integers(0, 2)) > 0
  if fluid:
    medium = ' density="%s" viscosity="%s"' % (mg.fmt(draw(mg.num(0, 1000, 0))), mg.fmt(draw(mg.num(0, 1, 3))))
    if draw(st.booleans()):
      medium += ' wind="%s"' % mg.fmt([draw(mg.num(-2, 2, 1)) for _ in range(3)])
  fl = {'contact': 'disable'}
  for f in ('damper', 'spring', 'actuation', 'warmstart'):
    if draw(st.integers(0, 9)) == 0:
      fl[f] = 'disable'
  opt = '<option timestep="%s" integrator="%s"%s><flag%s/></option>' % (
      mg.fmt(draw(mg.num(0.001, 0.01, 3))), integ, medium, ''.join(' %s="%s"' % kv for kv in fl.items()))
  gm = draw(gs.smooth_models(max_bodies=4 if quick else 7, max_joints=2, tendons=True, actuators=True, opt=opt,
                             sensors=draw(st.booleans()), stateful_actuators=True,
                             joint_kwargs=dict(frictionloss=False, limits=draw(st.integers(0, 3)) == 0)))
  labels = set(gm.info['labels'])
  if fluid:
    labels.add('fluid')
    if draw(st.booleans()):
      root = ET.fromstring(gm.xml)
      for g in root.iter('geom'):
        if draw(st.booleans()):
          g.set('fluidshape', 'ellipsoid')
          labels.add('fluid:ellipsoid')
          if draw(st.booleans()):
            g.set('fluidcoef', mg.fmt([draw(mg.num(0.1, 1.0)), draw(mg.num(0.1, 0.5)), draw(mg.num(0.5, 2.0)),
                                       draw(mg.num(0.2, 1.5)), draw(mg.num(0.2, 1.5))]))
      gm.xml = ET.tostring(root, encoding='unicode')
  # reach: muscles (FLV gain, activation state) optionally declared after a multi-output orientation servo on a ball joint
  hs = list(gm.info.get('hs_joints', []))
  balls = [n for (n, t, _) in gm.info.get('joints', []) if t == 'ball']
  if hs and draw(st.integers(0, 2)) == 0:
    root = ET.fromstring(gm.xml)
    act = root.find('actuator')
    if act is None:
      act = ET.SubElement(root, 'actuator')
    new = []
    if balls and draw(st.integers(0, 3)) > 0:
      new.append(ET.Element('orientation', name='so3', joint=draw(st.sampled_from(balls)), kp=mg.fmt(draw(mg.num(0.5, 10, 1))),
                            kv=mg.fmt(draw(mg.num(0, 1, 1)))))
      labels.add('act:orientation')
    for k_ in range(draw(st.integers(1, 2))):
      lo = draw(mg.num(-1.5, -0.3, 1))
      new.append(ET.Element('muscle', name='mus%d' % k_, joint=draw(st.sampled_from(hs)), lengthrange='%s %s' % (mg.fmt(lo), mg.fmt(lo + draw(mg.num(1.0, 3.0, 1)))),
                            force=mg.fmt(draw(mg.num(5, 50, 0))), vmax=mg.fmt(draw(mg.num(0.8, 3, 1))), fvmax=mg.fmt(draw(mg.num(1.1, 1.6, 1))),
                            gear=mg.fmt(draw(mg.num(0.5, 2, 1)))))
      labels.add('act:muscle')
    if draw(st.booleans()):
      for e_ in reversed(new):       # declared first: output addresses of every later actuator are shifted
        act.insert(0, e_)
    else:
      for e_ in new:
        act.append(e_)
    if 'act:orientation' in labels:
      labels.add('orientation-before-muscle')
    gm.xml = ET.tostring(root, encoding='unicode')
  gm.info['labels'] = sorted(labels)
  integ_name = integ
  gm.info['flags'] = fl
  return gm


def dense_from(m, vals):
  nv = m.nv
  D = np.zeros((nv, nv))
  nnz, adr, col = np.array(m.D_rownnz), np.array(m.D_rowadr), np.array(m.D_colind)
  P = np.zeros((nv, nv), dtype=bool)
  for i in range(nv):
    D[i, col[adr[i]:adr[i] + nnz[i]]] = vals[adr[i]:adr[i] + nnz[i]]
    P[i, col[adr[i]:adr[i] + nnz[i]]] = True
  return D, P


F7_XML = ('<mujoco><option gravity="0 0 0"/><worldbody><site name="w" pos="0 0 1"/><body><joint type="hinge" axis="0 1 0"/><geom size="0.1" pos="0.5 0 0"/>'
          '<site name="s" pos="0.5 0 0"/></body></worldbody><tendon><spatial armature="1"><site site="w"/><site site="s"/></spatial></tendon></mujoco>')
F8_XML = ('<mujoco><option timestep="0.01"/><worldbody><body><joint type="hinge" axis="0 1 0" damping="0.1 0 1"/><geom size="0.1" pos="0.2 0 0"/></body>'
          '</worldbody></mujoco>')
F9_XML = ('<mujoco><option timestep="0.01" integrator="implicit"/><worldbody><body><joint name="j" type="hinge" axis="0 1 0"/><geom size="0.1" pos="0.2 0 0"/>'
          '</body></worldbody><actuator><damper joint="j" kv="1" ctrlrange="0 1"/></actuator></mujoco>')


F11_XML = ('<mujoco><option density="86"/><worldbody><body><joint type="hinge" axis="0 0 1"/><joint type="hinge" axis="0 1 0"/>'
           '<geom type="capsule" size="0.03 0.03" pos="0 0.01 -0.01" fluidshape="ellipsoid"/></body></worldbody></mujoco>')


def probes(ck, lib):
  """Deterministic probes for the reported derivative deviations (classes excluded from the generated stream)."""
  h = 1e-6
  # F11: ellipsoid fluid model in the mjMINVAL-clamped regime (3 cm capsule moving at 4.8 cm/s, not along a principal axis)
  m = lib.model_from_xml(F11_XML)
  d = lib.make_data(m)
  d.qpos[:] = [1.0, 0.7]
  d.qvel[:] = [4.6, -1.2]
  lib.mj_forward(m, d)

  def fpass(vel):
    dd = lib.copy_data(m, d)
    dd.qvel[:] = vel
    lib.mj_fwdVelocity(m, dd)
    return np.array(dd.qfrc_passive)
  v0_ = np.array(d.qvel)
  fd1, fd2 = np.zeros((2, 2)), np.zeros((2, 2))
  for i in range(2):
    e = np.zeros(2)
    e[i] = 1e-5
    fd1[:, i] = (fpass(v0_ + e) - fpass(v0_ - e)) / 2e-5
    fd2[:, i] = (fpass(v0_ + 2 * e) - fpass(v0_ - 2 * e)) / 4e-5
  lib.mjd_smooth_vel(m, d, 0)
  Dq = np.array(d.qDeriv).reshape(2, 2)
  dev = float(np.abs(Dq - fd1).max())
  bound = 10 * float(np.abs(fd2 - fd1).max()) + 3000 * EPS / 1e-5 * float(np.abs(fpass(v0_)).max())   # same error model as the stream
  if dev > bound:
    ck.violation('ellipsoid fluid model, capsule 0.03/0.03 at local speed 0.048 m/s: qDeriv %s vs central differences of qfrc_passive %s '
                 '(max |diff| %.3g = %.2g relative, FD error bound %.2g): force and derivative code clamp different sub-expressions with '
                 'mjMINVAL' % (Dq.tolist(), fd1.tolist(), dev, dev / np.abs(fd1).max(), bound), dict(xml=F11_XML, qpos=[1.0, 0.7], qvel=[4.6, -1.2]),
                 bucket='probe-ellipsoid-minval', fingerprint='C25:ellipsoid-fluid-minval-clamp')
  ck.label('probe:F11')

  def step_state(m, d, dv=None, du=None):
    dd = lib.copy_data(m, d)
    if dv is not None:
      dd.qvel[:] = np.array(dd.qvel) + dv
    if du is not None:
      dd.ctrl[:] = np.array(dd.ctrl) + du
    lib.mj_step(m, dd)
    return np.concatenate([np.array(dd.qpos), np.array(dd.qvel)])
  # F7: qDeriv vs d(-qfrc_bias)/dv with tendon armature
  m = lib.model_from_xml(F7_XML)
  d = lib.make_data(m)
  d.qpos[:] = [0.3]
  d.qvel[:] = [2.0]
  lib.mj_forward(m, d)

  def bias(v):
    dd = lib.copy_data(m, d)
    dd.qvel[:] = [v]
    lib.mj_fwdVelocity(m, dd)
    return float(dd.qfrc_bias[0])
  fd = -(bias(2 + h) - bias(2 - h)) / (2 * h)
  lib.mjd_smooth_vel(m, d, 1)
  if abs(float(d.qDeriv[0]) - fd) > 1e-5:
    ck.violation('qDeriv = %.9g but d(-qfrc_bias)/dqvel = %.9g by central differences (tendon-armature bias term not differentiated)' % (
        d.qDeriv[0], fd), dict(xml=F7_XML, qpos=[0.3], qvel=[2.0]), bucket='probe-qderiv-tendon-bias', fingerprint='C25:qderiv-tendon-armature-bias')
  ck.label('probe:F7')
  # F8: velocity column of A under Euler with polynomial joint damping
  m = lib.model_from_xml(F8_XML)
  d = lib.make_data(m)
  d.qvel[:] = [3.0]
  lib.mj_forward(m, d)
  A = np.zeros((2, 2))
  dd = lib.copy_data(m, d)
  lib.mjd_transitionFD(m, dd, h, 1, A, None, None, None)
  own = (step_state(m, d, dv=np.array([h])) - step_state(m, d, dv=np.array([-h]))) / (2 * h)
  if np.abs(A[:, 1] - own).max() > 1e-5:
    ck.violation('mjd_transitionFD A[:,qvel] = %s but central differences of mj_step give %s (Euler implicit damping factor re-used although '
                 'polynomial damping makes it velocity dependent)' % (A[:, 1].tolist(), own.tolist()), dict(xml=F8_XML, qvel=[3.0]),
                 bucket='probe-transitionfd-polydamping', fingerprint='C25:transitionfd-poly-damping-euler')
  ck.label('probe:F8')
  # F9: qDeriv with ctrl above ctrlrange (force uses the clamped control)
  m = lib.model_from_xml(F9_XML)
  d = lib.make_data(m)
  d.qvel[:] = [3.0]
  d.ctrl[:] = [10.0]
  lib.mj_forward(m, d)

  def frc(v):
    dd = lib.copy_data(m, d)
    dd.qvel[:] = [v]
    lib.mj_fwdVelocity(m, dd)
    lib.mj_fwdActuation(m, dd)
    return float(dd.qfrc_actuator[0] + dd.qfrc_passive[0] - dd.qfrc_bias[0])
  fd = (frc(3 + h) - frc(3 - h)) / (2 * h)
  lib.mjd_smooth_vel(m, d, 1)
  if abs(float(d.qDeriv[0]) - fd) > 1e-5:
    ck.violation('ctrl = 10 with ctrlrange [0,1]: qDeriv = %.9g but d(smooth force)/dqvel = %.9g (velocity gain multiplied with the unclamped '
                 'control)' % (d.qDeriv[0], fd), dict(xml=F9_XML, qvel=[3.0], ctrl=[10.0]), bucket='probe-qderiv-unclamped-ctrl',
                 fingerprint='C25:qderiv-unclamped-ctrl')
  ck.label('probe:F9')
  # F10: ctrl column of B under the implicit integrator with a velocity-dependent gain, ctrl inside its range
  d = lib.make_data(m)
  d.qvel[:] = [3.0]
  d.ctrl[:] = [0.5]
  lib.mj_forward(m, d)
  B = np.zeros((2, 1))
  dd = lib.copy_data(m, d)
  lib.mjd_transitionFD(m, dd, h, 1, None, B, None, None)
  own = (step_state(m, d, du=np.array([h])) - step_state(m, d, du=np.array([-h]))) / (2 * h)
  if np.abs(B[:, 0] - own).max() > 1e-5:
    ck.violation('mjd_transitionFD B[:,0] = %s but central differences of mj_step give %s (factor of M - h*qDeriv re-used although qDeriv depends '
                 'on ctrl through the velocity gain)' % (B[:, 0].tolist(), own.tolist()), dict(xml=F9_XML, qvel=[3.0], ctrl=[0.5]),
                 bucket='probe-transitionfd-velgain', fingerprint='C25:transitionfd-ctrl-velgain-implicit')
  ck.label('probe:F10')


def main(ck):
  lib = ck.lib('rel')
  if not getattr(ck, '_replaying', False):
    probes(ck, lib)
  E = lib.enums
  worst = {}

  stats = dict(tendon_bias_derivative_omitted=0, tendon_bias_derivative_max=0.0, euler_polydamp_cases=0, euler_polydamp_max_dev=0.0, ctrl_outside_range_velocity_gain=0, ellipsoid_minval_regime=0, implicit_velgain_cases=0, implicit_velgain_max_dev=0.0)

  def P_early(m):
    return dense_from(m, np.zeros(int(m.nD)))[1]

  def track(name, r):
    if r > worst.get(name, -1):
      worst[name] = float(r)

  def close(name, a, b, scale, tol, what, bucket):
    a = np.asarray(a, dtype=np.float64)
    b = np.asarray(b, dtype=np.float64)
    if a.size == 0:
      return
    r = np.abs(a - b) / (tol * (np.asarray(scale, dtype=np.float64) + 1e-300))
    track(name, r.max())
    if not np.all(r <= 1):
      i = np.unravel_index(int(np.argmax(r)), r.shape)
      raise Violation('%s: engine %.12g vs reference %.12g at %s (|diff| %.3g, allowed %.3g)' % (
          what, a[i], b[i], tuple(int(x) for x in i), abs(a[i] - b[i]), abs(a[i] - b[i]) / r[i]), bucket=bucket)

  ck.rule = ('gen_smooth models (1-4 bodies quick / 1-7 thorough) with damping, velocity-dependent actuators, fluid media '
             '(inertia-box and ellipsoid), optional sensors/limits, integrator in {Euler, implicit, implicitfast} x random '
             'state (|qvel|<=5); non-trivial = >=2 of {damping, velocity-dependent actuator, fluid, ball/free joint with '
             '|omega|>1}; distinct by (xml, state seed)')
  ck.assumptions = [
      'qDeriv is compared on the sparsity pattern of D only (documented restriction of the implicit integrators)',
      'cases where an actuator force sits within 1e-4 (relative) of its forcerange / a control within 1e-5 of its '
      'ctrlrange / an activation within 1e-5 of its actrange are skipped for the sub-checks that difference across the '
      'clamp (label near-clamp): the one-sided derivative is documented engine behaviour, not a smooth function',
      'cond(M) > 1e6: transition/inverse comparisons skipped (label illconditioned); quantities compared are the '
      "engine's FD routine vs an identical-eps re-implementation, so only round-off differs",
      'qfrc_bias contains the tendon-armature term c = a J (Jdot.v) whose velocity derivative is not in qDeriv; the '
      'Newton-Euler part (mj_rne) is differenced instead and the omitted term is counted (reported as finding)',
      'mjd_transitionFD skips re-factorisation for perturbed velocities (Euler) / controls and activations (implicit*): '
      'with polynomial joint damping resp. velocity-dependent actuator gains the factor depends on the perturbed '
      'quantity and the returned columns differ from a direct perturbation of mj_step (reported as finding; those '
      'columns are carved out and their deviation recorded in the evidence)',
      'qDeriv vs FD uses a per-entry error model of the reference: 10x the Richardson truncation estimate |fd(2H)-fd(H)| plus '
      '3000*eps*|f_row|/H round-off; cases where an ellipsoid-fluid geom has (smallest semi-axis)^8*speed^3 < 1e3*mjMINVAL are '
      'skipped (force and derivative clamp different sub-expressions with mjMINVAL; reported)',
      'joint limits are present in a quarter of the models; for those, transition Jacobians are compared only if the '
      'active set is empty at the nominal state (solver iteration counts are otherwise not differentiable)']

  def test(case):
    gm, seed = case
    try:
      m = lib.model_from_xml(gm.xml)
    except Exception:
      ck.discard('compile')
      return
    nv, na, nu = m.nv, m.na, m.nu
    if nv == 0:
      ck.discard('nv=0')
      return
    integ_name, fl = gs.opt_info(lib, m)
    d = lib.make_data(m)
    mg.apply_state(lib, m, d, seed, vel_scale=5.0, pos_scale=0.8, forces=True)
    lim_ctrl = [i for i in range(nu) if bool(m.actuator_ctrllimited[i])]
    at_bound = None
    if lim_ctrl and seed % 3 == 0:          # saturated control: exactly on its upper (2/3) or lower (1/3) bound
      i_ = lim_ctrl[(seed // 3) % len(lim_ctrl)]
      up = (seed // 7) % 3 != 0
      d.ctrl[i_] = float(m.actuator_ctrlrange[i_][1 if up else 0])
      at_bound = 'upper' if up else 'lower'
    lib.mj_forward(m, d)
    if lib.warnings():
      ck.discard('warning')
      return
    labels = gs.brief(gm.labels(), ('damping:', 'act:', 'fluid')) + gs.classify(lib, m) + ['int:' + integ_name] + [
        'flag:%s-off' % f for f in fl if f != 'contact']
    if at_bound:
      labels.append('ctrl-at-%s-bound' % at_bound)
    q0, v0 = np.array(d.qpos), np.array(d.qvel)
    M = lib.fullM(m, d)
    wM = np.linalg.eigvalsh(M)
    if not wM[0] > 1e-10 * wM[-1]:
      ck.discard('singular-model')
      return
    cond = wM[-1] / wM[0]

    # ---- clamp proximity
    near_clamp = False
    if nu and 'actuation' not in fl:
      frc = np.array(d.actuator_force)
      for a in range(int(m.nactuator)):
        oa = int(m.actuator_outadr[a])
        if bool(m.actuator_forcelimited[a]):
          lo, hi = m.actuator_forcerange[a]
          if min(abs(frc[oa] - lo), abs(frc[oa] - hi)) < 1e-4 * (1 + abs(hi - lo)):
            near_clamp = True
        if int(m.actuator_actnum[a]) and bool(m.actuator_actlimited[a]):
          lo, hi = m.actuator_actrange[a]
          w = float(d.act[int(m.actuator_actadr[a])])
          if min(abs(w - lo), abs(w - hi)) < 1e-3:
            near_clamp = True
    if near_clamp:
      labels.append('near-clamp')
    # reported deviation: mjd_actuator_vel multiplies the velocity gain with the raw d->ctrl, the force uses ctrl clamped
    # to ctrlrange -> for a control outside its range the analytic derivative is not the derivative of the force
    ctrl_out = False
    if nu and 'actuation' not in fl:
      for a in range(int(m.nactuator)):
        ca = int(m.actuator_ctrladr[a])
        if (int(m.actuator_ctrlnum[a]) == 1 and bool(m.actuator_ctrllimited[ca]) and float(m.actuator_gainprm[a][2]) != 0
                and int(m.actuator_dyntype[a]) == E.mjDYN_NONE):
          lo, hi = m.actuator_ctrlrange[ca]
          u = float(d.ctrl[ca])
          if u < lo or u > hi:
            ctrl_out = True
    if ctrl_out:
      labels.append('carved:ctrl-outside-range-velocity-gain')
      stats['ctrl_outside_range_velocity_gain'] += 1

    # ============ (a) analytic velocity derivative of the smooth forces
    ds = lib.copy_data(m, d)

    def forces(vel):
      ds.qvel[:] = vel
      lib.mj_fwdVelocity(m, ds)
      lib.mj_fwdActuation(m, ds)
      rne = np.zeros(nv)
      lib.mj_rne(m, ds, 0, rne)        # Newton-Euler part of the bias (qfrc_bias additionally holds the tendon-armature term)
      return np.array(ds.qfrc_passive), np.array(ds.qfrc_actuator), rne, np.array(ds.qfrc_bias) - rne
    fd_pa = np.zeros((nv, nv))
    fd_b = np.zeros((nv, nv))
    fd_tb = np.zeros((nv, nv))
    fd_pa2 = np.zeros((nv, nv))      # same differences with step 2H: Richardson estimate of the truncation error
    fd_b2 = np.zeros((nv, nv))
    fabs = np.zeros(nv)
    mag_pa = np.zeros(nv)            # per-row magnitude of the differenced forces (round-off of the FD = eps*mag/H)
    mag_b = np.zeros(nv)
    for i in range(nv):
      vp, vm = v0.copy(), v0.copy()
      vp[i] += H
      vm[i] -= H
      p1, a1, b1, t1 = forces(vp)
      p2, a2, b2, t2 = forces(vm)
      fd_tb[:, i] = (t1 - t2) / (2 * H)
      fd_pa[:, i] = ((p1 + a1) - (p2 + a2)) / (2 * H)
      fd_b[:, i] = (b1 - b2) / (2 * H)
      fabs = np.maximum(fabs, np.abs(p1) + np.abs(a1) + np.abs(b1))
      mag_pa = np.maximum(mag_pa, np.abs(p1) + np.abs(a1))
      mag_b = np.maximum(mag_b, np.abs(b1))
      vp[i] += H
      vm[i] -= H
      p1, a1, b1, t1 = forces(vp)
      p2, a2, b2, t2 = forces(vm)
      fd_pa2[:, i] = ((p1 + a1) - (p2 + a2)) / (4 * H)
      fd_b2[:, i] = (b1 - b2) / (4 * H)
    # error model of the reference, per entry: truncation c*H^2 estimated from the two step sizes (fd_2H - fd_H = 3 c H^2,
    # allowed K_T times that) + round-off K_R*eps*|f_row|/H (the forces are sums of terms of about their own size; the
    # bias force of a row additionally cancels terms of the size of the largest row of its tree -> global magnitude)
    err_pa = K_T * np.abs(fd_pa2 - fd_pa) + K_R * EPS / H * (mag_pa[:, None] + 1e-3 * mag_pa.max() + 1e-12)
    err_b = K_T * np.abs(fd_b2 - fd_b) + K_R * EPS / H * (mag_b[:, None] + 1e-1 * mag_b.max() + 1e-12)
    da = lib.copy_data(m, d)
    lib.mjd_smooth_vel(m, da, 1)
    D1, P = dense_from(m, np.array(da.qDeriv))
    lib.mjd_smooth_vel(m, da, 0)
    D0, _ = dense_from(m, np.array(da.qDeriv))
    fscale = (1 + fabs.max()) * (1 + np.abs(v0).max())
    if np.abs(fd_tb).max() > TOL_A * fscale:
      # reported deviation: the velocity derivative of the tendon-armature bias force is not part of qDeriv
      labels.append('carved:tendon-armature-bias-derivative')
      stats['tendon_bias_derivative_omitted'] += 1
      stats['tendon_bias_derivative_max'] = max(stats['tendon_bias_derivative_max'], float(np.abs(fd_tb[P_early(m)]).max()))
    # ellipsoid fluid model at tiny (semi-axis^8 * speed^3): the force code clamps denominators with mjMINVAL = 1e-15
    # (proj_denom ~ s^8 v^2 times |v|), the derivative code clamps different sub-expressions, so in that regime qDeriv is
    # not the derivative of the clamped force (FD converges to 1e-13, analytic differs by ~1e-3 relative; reported).
    # Carved out by the documented constant, conservatively (smallest semi-axis, local speed at the geom).
    guard = False
    if float(m.opt.density) > 0 or float(m.opt.viscosity) > 0:
      for g_ in range(m.ngeom):
        if float(m.geom_fluid[g_][0]) > 0:
          sz = np.array(m.geom_size[g_])
          smin = float(sz[sz > 0].min()) if np.any(sz > 0) else 0.0
          vloc = np.zeros(6)
          lib.mj_objectVelocity(m, d, E.mjOBJ_GEOM, g_, vloc, 0)
          sp = float(np.linalg.norm(vloc[3:] - np.array(m.opt.wind))) + 2 * H
          if smin ** 8 * sp ** 3 < 1e3 * E.mjMINVAL:
            guard = True
    if guard:
      labels.append('carved:ellipsoid-fluid-minval-regime')
      stats['ellipsoid_minval_regime'] += 1
    if not near_clamp and not ctrl_out and not guard:
      # documented (Integrators / geFreeBody): under implicitfast D is symmetrised, D <- (D + D')/2, except on the 6x6
      # blocks of standalone free bodies (free joint, body without children) which keep the exact derivative
      implicitfast = integ_name == 'implicitfast'
      exp0 = fd_pa.copy()
      if implicitfast:
        exp0 = 0.5 * (fd_pa + fd_pa.T)
        for j in range(m.njnt):
          b_ = int(m.jnt_bodyid[j])
          if int(m.jnt_type[j]) == E.mjJNT_FREE and not any(int(m.body_parentid[c]) == b_ for c in range(1, m.nbody)):
            va = int(m.jnt_dofadr[j])
            exp0[va:va + 6, va:va + 6] = fd_pa[va:va + 6, va:va + 6]
        if np.abs(fd_pa - exp0)[P].max() > 10 * TOL_A * (fscale + np.abs(fd_pa).max()):
          labels.append('implicitfast-symmetrisation-visible')
      err0 = err_pa
      if implicitfast:
        err0 = 0.5 * (err_pa + err_pa.T) + err_pa
      close('qDeriv(no bias)', D0[P], exp0[P], err0[P], 1.0,
            'mjd_smooth_vel(flg_bias=0) vs central FD of passive+actuator forces%s' % (' (symmetrised, implicitfast)' if implicitfast else ''),
            'qDeriv-passive-actuator')
      close('qDeriv(bias)', D1[P], (exp0 - fd_b)[P], (err0 + err_b)[P], 1.0,
            'mjd_smooth_vel(flg_bias=1) vs central FD of passive+actuator-bias forces', 'qDeriv-full')
      dfd = lib.copy_data(m, d)
      lib.mjd_smooth_velFD(m, dfd, H)
      Dfd, _ = dense_from(m, np.array(dfd.qDeriv))
      if not implicitfast:
        close('qDeriv-vs-engineFD', (D1 - fd_tb)[P], Dfd[P], 2 * (err0 + err_b)[P], 1.0,
              'mjd_smooth_vel (minus the omitted tendon-armature term) vs mjd_smooth_velFD', 'qDeriv-engineFD')
    else:
      # the RNE part is independent of the actuator clamps
      labels.append('qDeriv-skipped-near-clamp')
    offpat = np.abs((fd_pa - fd_b) * ~P).max() if nv else 0.0
    if offpat > 1e-6 * fscale:
      labels.append('offpattern-derivative-exists')
    # standalone free body closed form
    for j in range(m.njnt):
      b_ = int(m.jnt_bodyid[j])
      if int(m.jnt_type[j]) == E.mjJNT_FREE and int(m.body_subtreemass[b_] == m.body_mass[b_]) and not any(
              int(m.body_parentid[c]) == b_ for c in range(m.nbody)):
        Bm = np.zeros(36)
        lib.mjd_freeBias_vel(m, d, j, Bm)
        va = int(m.jnt_dofadr[j])
        close('freeBias', Bm.reshape(6, 6), fd_b[va:va + 6, va:va + 6], err_b[va:va + 6, va:va + 6], 1.0,
              'mjd_freeBias_vel vs FD of qfrc_bias (standalone free body)', 'freeBias')
        labels.append('freebody-closed-form')

    # ============ (d0) RK4 is rejected
    if seed % 16 == 0:
      mr = lib.copy_model(m)
      mr.opt.integrator = E.mjINT_RK4
      dr_ = lib.copy_data(mr, d)
      ndx = 2 * nv + na
      for fn, args in ((lib.mjd_transitionFD, (mr, dr_, H, 0, np.zeros((ndx, ndx)), None, None, None)),
                       (lib.mjd_inverseFD, (mr, dr_, H, 0, np.zeros((nv, nv)), None, None, None, None, None, None))):
        try:
          fn(*args)
        except mj.MjError:
          continue
        raise Violation('RK4 integrator accepted by %s although documented as unsupported' % fn.name, bucket='rk4-rejected')
      labels.append('rk4-rejection-checked')

    ill = not cond < COND_MAX
    if ill:
      labels.append('illconditioned')
    nefc0 = int(d.nefc)
    # documented: qacc_warmstart is saved/restored only when warm-starts are enabled (otherwise it is not an input)
    spec = E.mjSTATE_INTEGRATION if 'warmstart' not in fl else (E.mjSTATE_INTEGRATION & ~E.mjSTATE_WARMSTART)
    nstate = lib.mj_stateSize(m, spec)

    def state_of(dd):
      s = np.zeros(nstate)
      lib.mj_getState(m, dd, s, spec)
      return s

    # ============ (b) transition Jacobians
    ns = int(m.nsensordata)
    ndx = 2 * nv + na
    if not ill and nefc0 == 0 and not near_clamp:
      dt_ = lib.copy_data(m, d)
      s_before = state_of(dt_)
      A = np.zeros((ndx, ndx)); B = np.zeros((ndx, nu)); C = np.zeros((ns, ndx)); Dm = np.zeros((ns, nu))
      lib.mjd_transitionFD(m, dt_, H, 0, A, B if nu else None, C if ns else None, Dm if (ns and nu) else None)
      if not np.array_equal(state_of(dt_).view(np.uint64), s_before.view(np.uint64)):
        raise Violation('mjd_transitionFD (forward) changed the input state', bucket='transitionFD-state')
      Ac = np.zeros((ndx, ndx)); Bc = np.zeros((ndx, nu)); Cc = np.zeros((ns, ndx)); Dc = np.zeros((ns, nu))
      lib.mjd_transitionFD(m, dt_, H, 1, Ac, Bc if nu else None, Cc if ns else None, Dc if (ns and nu) else None)
      if not np.array_equal(state_of(dt_).view(np.uint64), s_before.view(np.uint64)):
        raise Violation('mjd_transitionFD (centred) changed the input state', bucket='transitionFD-state')

      # own perturbation of mj_step on copies
      def step_from(dq=None, dv=None, dact=None, du=None):
        dd = lib.copy_data(m, d)
        if dq is not None:
          qq = np.array(dd.qpos)
          lib.mj_integratePos(m, qq, np.ascontiguousarray(dq), 1.0)
          dd.qpos[:] = qq
        if dv is not None:
          dd.qvel[:] = np.array(dd.qvel) + dv
        if dact is not None:
          dd.act[:] = np.array(dd.act) + dact
        if du is not None:
          dd.ctrl[:] = np.array(dd.ctrl) + du
        lib.mj_step(m, dd)
        return np.array(dd.qpos), np.array(dd.qvel), np.array(dd.act), np.array(dd.sensordata)

      def sdiff(x1, x2, h_):
        dq_ = np.zeros(nv)
        lib.mj_differentiatePos(m, dq_, h_, np.ascontiguousarray(x1[0]), np.ascontiguousarray(x2[0]))
        return np.concatenate([dq_, (x2[1] - x1[1]) / h_, (x2[2] - x1[2]) / h_])
      base = step_from()
      Aref = np.zeros((ndx, ndx)); Cref = np.zeros((ns, ndx))
      Acref = np.zeros((ndx, ndx)); Ccref = np.zeros((ns, ndx))
      for i in range(ndx):
        e = np.zeros(ndx)
        e[i] = H
        args = dict(dq=e[:nv]) if i < nv else dict(dv=e[nv:2 * nv]) if i < 2 * nv else dict(dact=e[2 * nv:])
        xp = step_from(**args)
        Aref[:, i] = sdiff(base, xp, H)
        if ns:
          Cref[:, i] = (xp[3] - base[3]) / H
        xm = step_from(**{k_: -v_ for k_, v_ in args.items()})
        Acref[:, i] = sdiff(xm, xp, 2 * H)
        if ns:
          Ccref[:, i] = (xp[3] - xm[3]) / (2 * H)
      xs = 1 + np.abs(A).max()
      # reported deviation: for velocity perturbations mj_stepSkip re-uses the factorisation of M + h*diag(b) (Euler
      # implicit damping) although b = d(damping)/dv depends on qvel when damping is polynomial -> velocity columns of
      # A and C are not those of mj_step. Carved out structurally and counted.
      cols = np.ones(ndx, dtype=bool)
      polydamp = bool(np.any(np.array(m.dof_dampingpoly) != 0)) or any(
          np.any(np.array(m.actuator_dampingpoly[a_]) != 0) and int(m.actuator_trntype[a_]) in (E.mjTRN_JOINT, E.mjTRN_JOINTINPARENT)
          for a_ in range(int(m.nactuator)))
      if integ_name == 'Euler' and polydamp and 'damper' not in fl:
        cols[nv:2 * nv] = False
        labels.append('carved:euler-polydamping-velocity-columns')
        dev = float(np.abs(A - Aref)[:, nv:2 * nv].max())
        stats['euler_polydamp_cases'] += 1
        stats['euler_polydamp_max_dev'] = max(stats['euler_polydamp_max_dev'], dev)
      # reported deviation (same root cause): for ctrl/act perturbations mj_stepSkip re-uses the factorisation of M - h*D
      # of the implicit integrators although D depends on ctrl/act through velocity-dependent actuator gains
      stale_u = (integ_name != 'Euler' and 'actuation' not in fl and
                 any(float(m.actuator_gainprm[a_][2]) != 0 or int(m.actuator_gaintype[a_]) == E.mjGAIN_MUSCLE
                     for a_ in range(int(m.nactuator))))
      if stale_u:
        cols[2 * nv:] = False
        labels.append('carved:implicit-velocity-gain-ctrl-act-columns')
        stats['implicit_velgain_cases'] += 1
      A, Aref, Ac, Acref = A[:, cols], Aref[:, cols], Ac[:, cols], Acref[:, cols]
      if ns:
        C, Cref, Cc, Ccref = C[:, cols], Cref[:, cols], Cc[:, cols], Ccref[:, cols]
      close('A-forward', A, Aref, xs * max(1.0, cond ** 0.5), TOL_B, 'mjd_transitionFD A (forward) vs own perturbation of mj_step', 'transitionFD-A')
      close('A-centred', Ac, Acref, xs * max(1.0, cond ** 0.5), TOL_B, 'mjd_transitionFD A (centred) vs own perturbation of mj_step', 'transitionFD-A')
      close('A-fwd-vs-centred', A, Ac, xs * (1 + np.abs(v0).max()) * cond ** 0.5, TOL_FC, 'forward vs centred A', 'transitionFD-fwd-centred')
      if ns:
        close('C-forward', C, Cref, 1 + np.abs(C).max() + np.abs(base[3]).max(), TOL_B * 10, 'mjd_transitionFD C (forward) vs own perturbation', 'transitionFD-C')
        close('C-centred', Cc, Ccref, 1 + np.abs(Cc).max() + np.abs(base[3]).max(), TOL_B * 10, 'mjd_transitionFD C (centred) vs own perturbation', 'transitionFD-C')
      # (ctrl outside its range + velocity gain: mj_step depends on the raw ctrl through qDeriv, see the carve-out above)
      if nu and stale_u and not ctrl_out:
        for i in range(nu):
          e = np.zeros(nu)
          e[i] = H
          stats['implicit_velgain_max_dev'] = max(stats['implicit_velgain_max_dev'], float(np.abs(B[:, i] - sdiff(base, step_from(du=e), H)).max()))
      if nu and not ctrl_out and not stale_u:
        # documented: control clamping is handled - a limited control is nudged forward only if ctrl and ctrl+eps are inside
        # its range, otherwise backward if possible (one-sided difference), otherwise the column is zero
        Bref = np.zeros((ndx, nu)); Dref = np.zeros((ns, nu))
        Bcref = np.zeros((ndx, nu)); Dcref = np.zeros((ns, nu))
        u0 = np.array(d.ctrl)
        for i in range(nu):
          lim = bool(m.actuator_ctrllimited[i])
          lo, hi = (float(x) for x in m.actuator_ctrlrange[i])

          def inr(a_, b_):
            return lo <= a_ <= hi and lo <= b_ <= hi
          can_f = (not lim) or inr(u0[i], u0[i] + H)
          can_b = (not lim) or inr(u0[i] - H, u0[i])
          e = np.zeros(nu)
          e[i] = H
          xp = step_from(du=e) if can_f else None
          xm = step_from(du=-e) if can_b else None
          if can_f:
            Bref[:, i] = sdiff(base, xp, H)
            if ns:
              Dref[:, i] = (xp[3] - base[3]) / H
          elif can_b:
            Bref[:, i] = sdiff(xm, base, H)
            if ns:
              Dref[:, i] = (base[3] - xm[3]) / H
            labels.append('B-backward-at-upper-bound')
          if can_f and can_b:
            Bcref[:, i] = sdiff(xm, xp, 2 * H)
            if ns:
              Dcref[:, i] = (xp[3] - xm[3]) / (2 * H)
          else:
            Bcref[:, i] = Bref[:, i]
            Dcref[:, i] = Dref[:, i]
        close('B-forward', B, Bref, 1 + np.abs(B).max() + np.abs(Bref).max(), TOL_B, 'mjd_transitionFD B (forward) vs own perturbation of ctrl', 'transitionFD-B')
        close('B-centred', Bc, Bcref, 1 + np.abs(Bc).max() + np.abs(Bcref).max(), TOL_B, 'mjd_transitionFD B (centred) vs own perturbation of ctrl', 'transitionFD-B')
        close('B-fwd-vs-centred', B, Bc, (1 + np.abs(B).max()) * cond ** 0.5, TOL_FC, 'forward vs centred B', 'transitionFD-fwd-centred')
        if ns:
          close('D-forward', Dm, Dref, 1 + np.abs(Dm).max() + np.abs(Dref).max() + np.abs(base[3]).max(), TOL_B * 10, 'mjd_transitionFD D vs own perturbation', 'transitionFD-D')
          close('D-centred', Dc, Dcref, 1 + np.abs(Dc).max() + np.abs(Dcref).max() + np.abs(base[3]).max(), TOL_B * 10, 'mjd_transitionFD D (centred) vs own perturbation', 'transitionFD-D')
      labels.append('transitionFD-checked')

    # ============ (c) inverse-dynamics Jacobians
    if not ill and 'noslip' not in labels:
      for flg_act in (0, 1):
        di = lib.copy_data(m, d)
        s_before = state_of(di)
        qacc_before = np.array(di.qacc)
        DfDq = np.zeros((nv, nv)); DfDv = np.zeros((nv, nv)); DfDa = np.zeros((nv, nv)); DmDq = np.zeros((nv, int(m.nC)))
        lib.mjd_inverseFD(m, di, H, flg_act, DfDq, DfDv, DfDa, None, None, None, DmDq)
        if not np.array_equal(state_of(di).view(np.uint64), s_before.view(np.uint64)) or not np.array_equal(np.array(di.qacc), qacc_before):
          raise Violation('mjd_inverseFD changed the input state or qacc', bucket='inverseFD-state')

        def inv_at(dq=None, dv=None, dacc=None):
          dd = lib.copy_data(m, d)
          if dq is not None:
            qq = np.array(dd.qpos)
            lib.mj_integratePos(m, qq, np.ascontiguousarray(dq), 1.0)
            dd.qpos[:] = qq
          if dv is not None:
            dd.qvel[:] = np.array(dd.qvel) + dv
          if dacc is not None:
            dd.qacc[:] = np.array(dd.qacc) + dacc
          lib.mj_inverse(m, dd)
          f_ = np.array(dd.qfrc_inverse)
          if flg_act:
            lib.mj_fwdActuation(m, dd)
            f_ = f_ - np.array(dd.qfrc_actuator)
          return f_, np.array(dd.M)
        f0, M0 = inv_at()
        Rq = np.zeros((nv, nv)); Rv = np.zeros((nv, nv)); Ra = np.zeros((nv, nv)); Rm = np.zeros((nv, int(m.nC)))
        for i in range(nv):
          e = np.zeros(nv)
          e[i] = H
          fq, Mq = inv_at(dq=e)
          Rq[i] = (fq - f0) / H
          Rm[i] = (Mq - M0) / H
          Rv[i] = (inv_at(dv=e)[0] - f0) / H
          Ra[i] = (inv_at(dacc=e)[0] - f0) / H
        isc = 1 + np.abs(f0).max()
        if not (near_clamp and flg_act):
          close('DfDq', DfDq, Rq, isc + np.abs(Rq).max(), TOL_B, 'mjd_inverseFD DfDq vs own perturbation of mj_inverse (flg_actuation=%d)' % flg_act, 'inverseFD-q')
          close('DfDv', DfDv, Rv, isc + np.abs(Rv).max(), TOL_B, 'mjd_inverseFD DfDv vs own perturbation (flg_actuation=%d)' % flg_act, 'inverseFD-v')
        close('DfDa', DfDa, Ra, isc + np.abs(Ra).max(), TOL_B, 'mjd_inverseFD DfDa vs own perturbation (flg_actuation=%d)' % flg_act, 'inverseFD-a')
        close('DmDq', DmDq, Rm, 1 + np.abs(M0).max() + np.abs(Rm).max(), TOL_B, 'mjd_inverseFD DmDq vs FD of sparse M', 'inverseFD-M')
        if int(d.nefc) == 0:
          # forward differences of f = M a + c - ...: round-off is relative to the cancelling terms |M||a| + |c|
          close('DfDa=M', DfDa, M, 1 + np.abs(M).max() + (np.abs(M) @ np.abs(np.array(d.qacc))).max() + np.abs(np.array(d.qfrc_bias)).max()
                + np.abs(np.array(d.qfrc_passive)).max(), 20 * TOL_B, 'DfDa vs inertia matrix (unconstrained: df/da = M)',
                'inverseFD-M-identity')
      labels.append('inverseFD-checked')

    feats = 0
    feats += bool(np.any(np.array(m.dof_damping) > 0) or (m.ntendon and np.any(np.array(m.tendon_damping) > 0))) and 'damper' not in fl
    velact = False
    for a in range(int(m.nactuator)):
      if float(m.actuator_biasprm[a][2]) != 0 or float(m.actuator_gainprm[a][2]) != 0 or float(m.actuator_damping[a]) != 0:
        velact = True
    feats += velact and 'actuation' not in fl
    feats += 'fluid' in labels and not ('damper' in fl and 'spring' in fl)
    spin = False
    for j in range(m.njnt):
      t = int(m.jnt_type[j])
      if t in (E.mjJNT_BALL, E.mjJNT_FREE):
        va = int(m.jnt_dofadr[j]) + (3 if t == E.mjJNT_FREE else 0)
        if np.linalg.norm(v0[va:va + 3]) > 1:
          spin = True
    feats += spin
    ck.case(nontrivial=feats >= 2, key=(gm.xml, seed),
            sample=dict(xml=gm.xml, seed=seed, nv=nv, na=na, nu=nu, nsensordata=ns, features=int(feats), cond=float(cond)),
            labels=labels + ['features=%d' % feats])

  ck.run_hypothesis(test, st.tuples(model_strategy(ck.quick), mg.state_seed()), ck.budget(500, 5000), name='main')
  ck.extra['worst_ratio_of_tolerance'] = {k_: float('%.3g' % v) for k_, v in worst.items()}
  ck.extra.update(stats)
  ck.extra['tolerances'] = dict(H=H, TOL_A=TOL_A, TOL_B=TOL_B, TOL_FC=TOL_FC, COND_MAX=COND_MAX)


replay = gs.make_replay(main)

LEVEL = 'exploration'
TECHNIQUE = ('property-based testing: analytic derivatives vs own central finite differences and vs the tree\'s FD routine; '
             'FD Jacobian routines vs an independent same-eps re-implementation by direct perturbation of mj_step / '
             'mj_inverse on copies; bit-exact state preservation; negative test for the unsupported integrator')
LEVEL_TEXT = '''Random models x states: qDeriv (with/without RNE term) is compared on D's pattern with central differences of the smooth
forces; mjd_transitionFD and mjd_inverseFD outputs are reproduced by direct perturbation on copies, forward and centred
variants must agree to differencing accuracy, and the input state must be bit-identical afterwards. Sampled.'''
LEVEL_NOTE = '''Trusted: numpy, ctypes reflection, verification build. Tolerances are relative (2e-8 for derivative-vs-FD, 2e-8 for
FD-vs-FD re-implementation), ~100x the worst error seen on the unchanged tree. Not covered: muscle/dcmotor/pid/SO3
actuator derivative terms, flex derivative paths, sensor Jacobians of mjd_inverseFD, invdiscrete, noslip, constrained
(active-limit) transition Jacobians.'''
