"""C26 - The state vector API is a faithful serialization.

Domain : generated models (stateful actuators, mocap bodies, equalities, userdata, keyframes) x ALL 2^14
         state signatures (exhaustive) x random source/destination data.
Oracle : reference model = ordered dict {component -> mjData field}, written from the mjtState documentation
         (bit order = vector order). Byte-level frame check: after mj_setState only bytes inside the selected
         components' arrays may differ in the destination mjData (struct + buffer compared as raw bytes).
"""
import ctypes

import numpy as np
from hypothesis import strategies as st

from vf import modelgen as mg
from vf.runner import Violation

# documented order (mjtState bit i) -> (name, mjData field, size expression)
COMPONENTS = [
    ('TIME', 'time', lambda m: 1),
    ('QPOS', 'qpos', lambda m: m.nq),
    ('QVEL', 'qvel', lambda m: m.nv),
    ('ACT', 'act', lambda m: m.na),
    ('HISTORY', 'history', lambda m: m.nhistory),
    ('WARMSTART', 'qacc_warmstart', lambda m: m.nv),
    ('CTRL', 'ctrl', lambda m: m.nu),
    ('QFRC_APPLIED', 'qfrc_applied', lambda m: m.nv),
    ('XFRC_APPLIED', 'xfrc_applied', lambda m: 6 * m.nbody),
    ('EQ_ACTIVE', 'eq_active', lambda m: m.neq),
    ('MOCAP_POS', 'mocap_pos', lambda m: 3 * m.nmocap),
    ('MOCAP_QUAT', 'mocap_quat', lambda m: 4 * m.nmocap),
    ('USERDATA', 'userdata', lambda m: m.nuserdata),
    ('PLUGIN', 'plugin_state', lambda m: m.npluginstate),
]


def raw_bytes(lib, d):
  """(struct bytes, buffer bytes) of an mjData as numpy uint8 copies."""
  ssize = lib.layout['mjData']['size']
  s = np.frombuffer((ctypes.c_char * ssize).from_address(d.ptr), dtype=np.uint8).copy()
  nb = int(d.nbuffer)
  b = np.frombuffer((ctypes.c_char * nb).from_address(int(d.buffer)), dtype=np.uint8).copy()
  return s, b


def comp_get(d, i):
  name, field, _ = COMPONENTS[i]
  if field == 'time':
    return np.array([d.time])
  return np.asarray(getattr(d, field), dtype=np.float64).ravel().copy()


def randomize(lib, m, d, rng):
  d.time = float(rng.uniform(0, 10))
  for name, field, size in COMPONENTS[1:]:
    n = size(m)
    if not n:
      continue
    a = getattr(d, field)
    if field == 'eq_active':
      a[:] = rng.randint(0, 2, size=a.shape)
    else:
      a[...] = rng.uniform(-3, 3, size=a.shape)


def model_strategy():
  """modelgen models + (a) up to 14 extra equalities (eq_active wider than one 8-byte word / one 64-byte block),
  (b) multi-input actuators (<pid>: 2 controls for one force output, <orientation>: 3 controls) so that nu != nactuator,
  (c) keyframes whose values are filled in after a first compile (sizes are only known then)."""
  @st.composite
  def strat(draw):
    gm = draw(mg.models(max_bodies=4, mocap=True, userdata=True, sensors=True, history=True, equalities=True, actuators=True, tendons=True))
    xml = gm.xml
    bodies = gm.info['bodies']
    neq_extra = draw(st.sampled_from([0, 0, 7, 9, 12, 14]))
    if neq_extra:
      eq = ''.join('<connect name="xe%d" body1="%s" anchor="%s" active="%s"/>' % (
          i, bodies[i % len(bodies)], mg.fmt([0.01 * i, 0, 0]), 'true' if draw(st.booleans()) else 'false') for i in range(neq_extra))
      xml = xml.replace('</equality>', eq + '</equality>') if '<equality>' in xml else xml.replace('</mujoco>', '<equality>%s</equality></mujoco>' % eq)
    hs = gm.info['hs_joints']
    balls = [j for j, t, _ in gm.info['joints'] if t == 'ball']
    extra_act = ''
    if hs and draw(st.booleans()):
      extra_act += '<pid name="xpid" joint="%s" kp="%s" kv="1"/>' % (draw(st.sampled_from(hs)), mg.fmt(draw(mg.num(1, 20, 1))))
    if balls and draw(st.booleans()):
      extra_act += '<orientation name="xori" joint="%s" kp="5" kv="1"/>' % draw(st.sampled_from(balls))
    if extra_act:
      # multi-input actuators first or last (addresses of the following actuators shift)
      if '<actuator>' in xml:
        xml = xml.replace('<actuator>', '<actuator>' + extra_act) if draw(st.booleans()) else xml.replace('</actuator>', extra_act + '</actuator>')
      else:
        xml = xml.replace('</mujoco>', '<actuator>%s</actuator></mujoco>' % extra_act)
    gm.xml = xml.replace('</mujoco>', '@KEYS@</mujoco>')
    gm.info['keyseed'] = draw(st.integers(0, 1 << 30))
    gm.info['labels'] = gm.info['labels'] + (['neq>=9'] if neq_extra >= 9 else []) + (['multi-ctrl'] if extra_act else [])
    return gm
  return strat()


def add_keyframes(lib, gm):
  """Fill @KEYS@ with 3 keyframes carrying random values of the right sizes (sizes from a first compile)."""
  base = gm.xml.replace('@KEYS@', '')
  m = lib.model_from_xml(base)
  rng = np.random.RandomState(gm.info.get('keyseed', 0))
  keys = ''
  for k in range(3):
    a = dict(name='k%d' % k, time=mg.fmt(round(float(rng.uniform(0, 5)), 3)))
    if m.nq and rng.rand() < 0.8:
      q = np.array(m.qpos0) + rng.uniform(-0.2, 0.2, m.nq)
      mg.normalize_quats(m, q)
      a['qpos'] = ' '.join(repr(float(v)) for v in q)
    if m.nv and rng.rand() < 0.7:
      a['qvel'] = ' '.join(repr(float(v)) for v in rng.uniform(-1, 1, m.nv))
    if m.na and rng.rand() < 0.7:
      a['act'] = ' '.join(repr(float(v)) for v in rng.uniform(-0.5, 0.5, m.na))
    if m.nu and rng.rand() < 0.8:
      a['ctrl'] = ' '.join(repr(float(v)) for v in rng.uniform(-1, 1, m.nu))
    if m.nmocap and rng.rand() < 0.7:
      a['mpos'] = ' '.join(repr(float(v)) for v in rng.uniform(-1, 1, 3 * m.nmocap))
      qq = rng.normal(size=(m.nmocap, 4)); qq /= np.linalg.norm(qq, axis=1, keepdims=True)
      a['mquat'] = ' '.join(repr(float(v)) for v in qq.ravel())
    keys += '<key%s/>' % ''.join(' %s="%s"' % kv for kv in a.items())
  return gm.xml.replace('@KEYS@', '<keyframe>%s</keyframe>' % keys)


def check_model(ck, lib, gm, seed, sig_list, exhaustive):
  E = lib.enums
  try:
    m = lib.model_from_xml(add_keyframes(lib, gm) if '@KEYS@' in gm.xml else gm.xml)
  except Exception as e:
    ck.discard('compile')
    return
  nstate = E.mjNSTATE
  if nstate != len(COMPONENTS):
    raise Violation('mjNSTATE=%d but %d components documented in the reference model' % (nstate, len(COMPONENTS)),
                    bucket='nstate')
  rng = np.random.RandomState(seed)
  src = lib.make_data(m)
  dst = lib.make_data(m)
  lib.mj_forward(m, src)
  randomize(lib, m, src, rng)
  sizes = [c[2](m) for c in COMPONENTS]
  vals = [comp_get(src, i) for i in range(nstate)]
  # address ranges of components inside struct / buffer
  tl = lib.layout['mjData']['fields']['time']
  ranges_struct = {0: (tl['off'], tl['off'] + 8)}
  buf0 = int(src.buffer)
  dbuf0 = int(dst.buffer)
  ranges_buf = {}
  for i, (name, field, _) in enumerate(COMPONENTS):
    if i == 0:
      continue
    p, nr, nc, ct = lib.data_field(m, dst, field)
    esize = 1 if field == 'eq_active' else 8
    ranges_buf[i] = (p - dbuf0, p - dbuf0 + nr * nc * esize) if nr * nc else (0, 0)
  nonempty = [i for i in range(nstate) if sizes[i] > 0]
  full = (1 << nstate) - 1
  total = sum(sizes)
  SENT = np.float64(-7.25e77)
  buf = np.empty(total + 8)
  fullstate = np.empty(total)
  lib.mj_getState(m, src, fullstate, full)
  for sig in sig_list:
    bits = [i for i in range(nstate) if sig >> i & 1]
    want = np.concatenate([vals[i] for i in bits]) if bits else np.zeros(0)
    n = lib.mj_stateSize(m, sig)
    if n != len(want):
      raise Violation('mj_stateSize(sig=%d)=%d, reference %d' % (sig, n, len(want)), bucket='stateSize')
    buf[:] = SENT
    lib.mj_getState(m, src, buf, sig)
    if not np.array_equal(buf[:n].view(np.uint64), want.view(np.uint64)):
      raise Violation('mj_getState(sig=%d) content differs from the documented concatenation' % sig, bucket='getState')
    if not np.all(buf[n:] == SENT):
      raise Violation('mj_getState(sig=%d) wrote past mj_stateSize' % sig, bucket='getState-overrun')
    # extractState from the full vector
    buf2 = np.full(total + 8, SENT)
    lib.mj_extractState(m, fullstate, full, buf2, sig)
    if not np.array_equal(buf2[:n].view(np.uint64), want.view(np.uint64)) or not np.all(buf2[n:] == SENT):
      raise Violation('mj_extractState(full->sig=%d) != mj_getState(sig)' % sig, bucket='extractState')
    # a sub-signature of sig extracted from getState(sig)
    if bits:
      sub = 0
      for i in bits:
        if rng.randint(2):
          sub |= 1 << i
      wsub = [vals[i] for i in bits if sub >> i & 1]
      wsub = np.concatenate(wsub) if wsub else np.zeros(0)
      buf2[:] = SENT
      lib.mj_extractState(m, buf[:n].copy(), sig, buf2, sub)
      if not np.array_equal(buf2[:len(wsub)].view(np.uint64), wsub.view(np.uint64)) or not np.all(buf2[len(wsub):] == SENT):
        raise Violation('mj_extractState(sig=%d -> sub=%d) wrong' % (sig, sub), bucket='extractState-sub')
    # setState into a destination with different values: frame check on raw bytes
    for route in ('set', 'copy'):
      randomize(lib, m, dst, rng)
      s0, b0 = raw_bytes(lib, dst)
      if route == 'set':
        lib.mj_setState(m, dst, buf[:n].copy(), sig)
      else:
        lib.mj_copyState(m, src, dst, sig)
      s1, b1 = raw_bytes(lib, dst)
      allowed_b = np.zeros(len(b0), dtype=bool)
      allowed_s = np.zeros(len(s0), dtype=bool)
      for i in bits:
        if i == 0:
          allowed_s[ranges_struct[0][0]:ranges_struct[0][1]] = True
        else:
          lo, hi = ranges_buf[i]
          allowed_b[lo:hi] = True
      chg_b = b0 != b1
      chg_s = s0 != s1
      if np.any(chg_b & ~allowed_b) or np.any(chg_s & ~allowed_s):
        off = int(np.flatnonzero(chg_b & ~allowed_b)[0]) if np.any(chg_b & ~allowed_b) else -1
        raise Violation('mj_%sState(sig=%d) modified bytes outside the selected components (buffer offset %d)' % (
            route, sig, off), bucket=route + 'State-frame')
      for i in bits:
        got = comp_get(dst, i)
        if not np.array_equal(got.view(np.uint64), vals[i].view(np.uint64)):
          raise Violation('mj_%sState(sig=%d) did not restore component %s' % (route, sig, COMPONENTS[i][0]),
                          bucket=route + 'State-restore')
    nt = len([i for i in bits if sizes[i] > 0]) >= 1 and len(bits) >= 2
    ck.case(nontrivial=nt, key=(gm.xml, sig), sample=dict(sig=sig, components=[COMPONENTS[i][0] for i in bits],
                                                          sizes=[sizes[i] for i in bits]) if nt else None)
  # invalid signatures
  for bad in (-1, -(1 << 20), 1 << nstate, (1 << nstate) + 5, 1 << 30):
    for fn in ('size', 'get', 'set'):
      try:
        if fn == 'size':
          lib.mj_stateSize(m, bad)
        elif fn == 'get':
          lib.mj_getState(m, src, buf, bad)
        else:
          lib.mj_setState(m, dst, buf, bad)
      except lib_MjError:
        continue
      raise Violation('invalid signature %d accepted by mj_%sState' % (bad, fn), bucket='invalid-sig')
  try:
    lib.mj_extractState(m, fullstate, 3, buf, 5)
    raise Violation('mj_extractState accepted dstsig not subset of srcsig', bucket='invalid-sig')
  except lib_MjError:
    pass
  ck.label('model')
  for l in gm.labels():
    if l.startswith(('act:', 'eq:', 'mocap', 'neq', 'multi')):
      ck.label(l)
  ck.label('nonempty=%d' % len(nonempty))
  if m.nu != m.nactuator:
    ck.label('nu!=nactuator')

  # ---- reset
  used = lib.make_data(m)
  randomize(lib, m, used, rng)
  used.qpos[:] = m.qpos0
  for _ in range(3):
    lib.mj_step(m, used)
  randomize(lib, m, used, rng)
  lib.mj_resetData(m, used)
  fresh = lib.make_data(m)
  compare_all(lib, m, used, fresh, 'mj_resetData vs mj_makeData')
  # keyframes
  for k in range(-2, m.nkey + 2):
    randomize(lib, m, used, rng)
    lib.mj_resetDataKeyframe(m, used, k)
    ref = lib.make_data(m)
    if 0 <= k < m.nkey:
      ref.time = float(m.key_time[k])
      ref.qpos[:] = m.key_qpos[k]
      ref.qvel[:] = m.key_qvel[k]
      if m.na:
        ref.act[:] = m.key_act[k]
      if m.nmocap:
        ref.mocap_pos[:] = m.key_mpos[k].reshape(-1, 3)
        ref.mocap_quat[:] = m.key_mquat[k].reshape(-1, 4)
      if m.nu:
        ref.ctrl[:] = m.key_ctrl[k]
    compare_all(lib, m, used, ref, 'mj_resetDataKeyframe(%d) vs reference' % k)


def compare_all(lib, m, a, b, what):
  for f in lib.data_fields:
    x, y = getattr(a, f), getattr(b, f)
    if x.dtype.kind == 'f':
      same = np.array_equal(x.view(np.uint8), y.view(np.uint8))
    else:
      same = np.array_equal(x, y)
    if not same:
      raise Violation('%s: field %s differs' % (what, f), bucket='reset')
  for f in ('time', 'ncon', 'nefc', 'ne', 'nf', 'nl', 'nisland'):
    if getattr(a, f) != getattr(b, f):
      raise Violation('%s: scalar %s differs' % (what, f), bucket='reset')
  if not np.array_equal(a.energy, b.energy):
    raise Violation('%s: energy differs' % what, bucket='reset')


lib_MjError = None


def main(ck):
  global lib_MjError
  from vf import mj
  lib_MjError = mj.MjError
  lib = ck.lib('rel')
  nstate = lib.enums.mjNSTATE
  ck.rule = ('models from modelgen (mocap, userdata, equalities, stateful actuators, tendons, 2 keyframes); every one '
             'of the 2^mjNSTATE signatures per model; non-trivial = signature selects >=2 components of which >=1 is '
             'non-empty for that model; distinct by (model xml, signature)')
  ck.exhaustive = True
  ck.assumptions = ['byte-level frame check covers the mjData struct and its buffer (arena excluded: state API does '
                    'not touch it)', 'plugin state component is empty in generated models (PID plugin state is covered in C51)']
  nmodels = ck.budget(3, 60)
  all_sigs = list(range(1 << nstate))

  def test(case):
    gm, seed = case
    check_model(ck, lib, gm, seed, all_sigs, True)
  ck.run_hypothesis(test, st.tuples(model_strategy(), mg.state_seed()), nmodels, name='state-api', shrink=True)
  ck.extra['signatures_per_model'] = len(all_sigs)


def replay(ck, body):
  raise NotImplementedError

LEVEL = 'exploration'
TECHNIQUE = 'property-based testing (Hypothesis models) + exhaustive enumeration of all 2^14 state signatures against a reference dict model and a raw-byte frame check'
LEVEL_TEXT = '''Generated models x every state signature: sizes, vector contents, set/copy/extract round-trips and a byte-level
frame condition on the destination mjData are compared bit-exactly with a reference model written from the mjtState documentation;
reset and keyframe reset are compared with a fresh mjData. Exhaustive in the signature dimension, sampled in the model dimension.'''
LEVEL_NOTE = '''Trusted: clang record layouts and X-macro reflection of the tree headers, the verification build (direct clang build
with third-party shims). Plugin-state component is empty in these models (covered in C51).'''
