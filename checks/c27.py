"""C27 - Actuation follows the documented transmission and force laws.

Domain : generated kinematic trees (vf.modelgen) x generated <actuator> blocks (vf.gen_act): every transmission
         (joint, jointinparent on hinge/slide/ball/free, fixed+spatial tendon, site, site+refsite, slider-crank,
         body/adhesion, SO3) x every shortcut and general gain/bias/dyn combination, ctrl/force/act ranges with
         true/false/auto flags, actearly, groups + actuatorgroupdisable, joint/tendon actuatorfrcrange, actuator
         gravcomp, clampctrl/actuation flags; ctrl and act inside, on and far outside their ranges.
Oracle : vf/oracle/act.py (documented laws) + transmission oracle: actuator_moment == central finite difference of
         actuator_length along mj_integratePos directions (where the length is a differentiable function whose
         gradient the docs identify with the moment arms), direct documented moment formulas elsewhere,
         actuator_velocity == moment . qvel, qfrc_actuator == moment^T force (+ actuator gravcomp) clamped to the
         joint actuatorfrcrange; after mj_step act == documented next activation, inside actrange.
Non-trivial : a clamp is active (ctrl/force/act/joint/tendon) or the transmission is not a plain hinge/slide joint.
"""
import collections
import math
import os

import numpy as np
from hypothesis import strategies as st

from vf import gen_act
from vf import modelgen as mg
from vf.oracle import act as A
from vf.runner import Violation

# ---- tolerances (HARNESS rule 2): |a-b| <= K*(scale) ; calibrated on the unchanged tree, see LEVEL_NOTE
# worst observed error/scale on the unchanged tree (quick seeds 1-3, thorough seed 1 = 19805 cases, one 11379-case run
# at seed 11, thorough seed 2 on the repaired tree): force/act_dot/next-act 1.1e-13, lengths 7.9e-16, direct moments 3.7e-16, qfrc 3.5e-16, FD 7.9e-8
K_FORCE = 1e-11      # x (sum of |terms| of the force expression + 1e-3)            (~90x worst)
K_LEN = 1e-13        # lengths: x (|terms| + 1)                                       (~125x worst)
K_MOM = 1e-13        # direct moment formulas: x (sum |terms| + 1)                    (~270x worst)
K_GEO = 1e-12        # lengths/moments that go through mat2quat / contact frames / slider-crank residual
K_FD = 1e-5          # finite-difference moment: x (1 + |moment| + |length|); h = 1e-6 central (~125x worst)
FD_H = 1e-6
K_QFRC = 1e-13       #                                                                (~280x worst)
STATS = {}
ALL_LABELS = collections.Counter()


def worst(name, err, scale):
  r = err / scale if scale > 0 else 0.0
  if r > STATS.get(name, 0.0):
    STATS[name] = r


def close(name, a, b, scale, k, what, bucket):
  err = float(np.max(np.abs(np.asarray(a, dtype=np.float64) - np.asarray(b, dtype=np.float64)))) if np.size(a) else 0.0
  s = float(scale)
  worst(name, err, s)
  if not err <= k * s:
    raise Violation('%s: got %r, oracle %r (|diff| %.3g > %.3g)' % (what, np.asarray(a).tolist(),
                                                                      np.asarray(b).tolist(), err, k * s),
                    bucket=bucket)


class Ctx:
  pass


def finding(cx, fp, msg):
  """a deviation that was triaged as a genuine defect of the tree: reported through the known-findings channel
  (VIOLATION unless its fingerprint is listed in /verif/known_findings.json), the case continues with the oracle
  adapted to the defect so that the rest of the domain is still explored."""
  if not os.environ.get('C27_SUPPRESS_FINDINGS'):     # development aid for mutation runs only
    cx.ck.violation(msg, dict(xml=cx.gm.xml, seed=cx.seed), bucket=fp, fingerprint=fp)
  cx.labels.add('finding:' + fp)


def enum_names(E):
  dyn = {E.mjDYN_NONE: 'none', E.mjDYN_INTEGRATOR: 'integrator', E.mjDYN_FILTER: 'filter',
         E.mjDYN_FILTEREXACT: 'filterexact', E.mjDYN_MUSCLE: 'muscle', E.mjDYN_DCMOTOR: 'dcmotor',
         E.mjDYN_PID: 'pid', E.mjDYN_USER: 'user'}
  gain = {E.mjGAIN_FIXED: 'fixed', E.mjGAIN_AFFINE: 'affine', E.mjGAIN_MUSCLE: 'muscle', E.mjGAIN_DCMOTOR: 'dcmotor',
          E.mjGAIN_SO3: 'so3', E.mjGAIN_PID: 'pid', E.mjGAIN_USER: 'user'}
  bias = {E.mjBIAS_NONE: 'none', E.mjBIAS_AFFINE: 'affine', E.mjBIAS_MUSCLE: 'muscle', E.mjBIAS_DCMOTOR: 'dcmotor',
          E.mjBIAS_SO3: 'so3', E.mjBIAS_USER: 'user'}
  trn = {E.mjTRN_JOINT: 'joint', E.mjTRN_JOINTINPARENT: 'jointinparent', E.mjTRN_SLIDERCRANK: 'slidercrank',
         E.mjTRN_TENDON: 'tendon', E.mjTRN_SITE: 'site', E.mjTRN_BODY: 'body', E.mjTRN_SO3: 'so3'}
  return dyn, gain, bias, trn


def dense_moment(m, d):
  nout, nv = int(m.nout), int(m.nv)
  M = np.zeros((nout, nv))
  nnz = np.array(d.moment_rownnz)
  adr = np.array(d.moment_rowadr)
  col = np.array(d.moment_colind)
  val = np.array(d.actuator_moment)
  for k in range(nout):
    for t in range(int(nnz[k])):
      c = int(col[adr[k] + t])
      if not 0 <= c < nv:
        raise Violation('moment_colind out of range (row %d: %d)' % (k, c), bucket='moment-sparse')
      M[k, c] += val[adr[k] + t]
  return M


def body_dofs(m, b):
  """dofs that move body b: dofs of b and of all its ancestors."""
  out = set()
  dof_body = np.array(m.dof_bodyid)
  parent = np.array(m.body_parentid)
  while b > 0:
    out.update(int(j) for j in np.flatnonzero(dof_body == b))
    b = int(parent[b])
  return out


def wrong_order_relrot(m, d, sid, rid):
  """relative rotation vector computed with site orientation = site_quat * xquat (finding
  C27-refsite-rotation-quat-order); only used to recognise that defect and keep exploring."""
  qs = A.qmul(np.array(m.site_quat[sid]), np.array(d.xquat[int(m.site_bodyid[sid])]))
  qr = A.qmul(np.array(m.site_quat[rid]), np.array(d.xquat[int(m.site_bodyid[rid])]))
  return A.qlog(A.qmul(A.qconj(qr), qs))


def site_quat(d, sid):
  return A.mat2quat(np.array(d.site_xmat[sid]).reshape(3, 3))


# ------------------------------------------------------------------------------------------------ compile level

def check_compile(cx):
  """what was asked for in the XML (documented attribute semantics, shortcut tables) vs the compiled model."""
  lib, m, gm, E = cx.lib, cx.m, cx.gm, cx.E
  info = gm.info
  acts = info['acts']
  if int(m.nactuator) != len(acts):
    raise Violation('nactuator=%d, %d actuators in the XML' % (m.nactuator, len(acts)), bucket='compile')
  dynn, gainn, biasn, trnn = cx.names

  def bad(msg):
    raise Violation('compiled model differs from the documented meaning of the XML: ' + msg, bucket='compile')
  for i, s in enumerate(acts):
    nm = s['name']
    if dynn.get(int(m.actuator_dyntype[i])) != s['dyn'] or gainn.get(int(m.actuator_gaintype[i])) != s['gain'] or \
       biasn.get(int(m.actuator_biastype[i])) != s['bias']:
      bad('%s (%s): dyn/gain/bias types %s/%s/%s, documented %s/%s/%s' % (
          nm, s['kind'], dynn.get(int(m.actuator_dyntype[i])), gainn.get(int(m.actuator_gaintype[i])),
          biasn.get(int(m.actuator_biastype[i])), s['dyn'], s['gain'], s['bias']))
    tk = s['trn']['kind']
    want_trn = {'refsite': 'site'}.get(tk, tk)
    if trnn.get(int(m.actuator_trntype[i])) != want_trn:
      bad('%s: trntype %s, expected %s' % (nm, trnn.get(int(m.actuator_trntype[i])), want_trn))
    if int(m.actuator_group[i]) != s['group']:
      bad('%s: group %d, XML %d' % (nm, m.actuator_group[i], s['group']))
    if bool(m.actuator_actearly[i]) != s['actearly'] and s['kind'] != 'dcmotor':
      bad('%s: actearly %d' % (nm, m.actuator_actearly[i]))
    if (s['oracle'] == 'force' or s['kind'] == 'pid') and s['kind'] != 'dcmotor':   # dcmotor prm layout: tech note
      for f, n in (('gainprm', 9 if s['gain'] == 'muscle' else 3 if s['gain'] == 'affine' else 1),
                   ('biasprm', 9 if s['bias'] == 'muscle' else 3 if s['bias'] in ('affine', 'so3') else 0),
                   ('dynprm', 3 if s['dyn'] == 'muscle' else 1 if s['dyn'] in ('filter', 'filterexact') or (
                       s['dyn'] == 'pid' and s['ki'] > 0) else 0)):
        got = np.array(getattr(m, 'actuator_' + f)[i][:n])
        want = np.array(s[f][:n]) if n else np.zeros(0)
        if n and not np.allclose(got, want, rtol=1e-14, atol=0):
          bad('%s (%s): %s %s, documented shortcut table gives %s' % (nm, s['kind'], f, got.tolist(), want.tolist()))
    # limits
    u0 = int(m.actuator_ctrladr[i])
    if int(m.actuator_ctrlnum[i]) != s['nctrl']:
      bad('%s: ctrlnum %d, expected %d' % (nm, m.actuator_ctrlnum[i], s['nctrl']))
    # per-control expectation: orientation replicates ctrlrange; pid: pos<-ctrlrange/posrange, vel<-velrange, ff<-ffrange
    if s['kind'] == 'orientation':
      per = [(s['ctrllimited'], s['ctrlrange'])] * s['nctrl']
    elif s['kind'] == 'pid':
      per = []
      for tok in s['inputs']:
        if tok == 'pos':
          per.append((s['ctrllimited'], s['ctrlrange']))
        else:
          key = 'velrange' if tok == 'vel' else 'ffrange'
          per.append((key in s, s.get(key, [0.0, 0.0])))
    else:
      per = [(s['ctrllimited'], s['ctrlrange'])] * min(s['nctrl'], 1)
    for r, (wl_, wr_) in enumerate(per):
      if bool(m.actuator_ctrllimited[u0 + r]) != wl_:
        bad('%s: ctrllimited[%d]=%d, XML attrs %s => %s' % (nm, r, m.actuator_ctrllimited[u0 + r], s['attrs'], wl_))
      if wl_ and not np.array_equal(m.actuator_ctrlrange[u0 + r], wr_):
        bad('%s: ctrlrange[%d] %s vs %s' % (nm, r, m.actuator_ctrlrange[u0 + r].tolist(), wr_))
    if bool(m.actuator_forcelimited[i]) != s['forcelimited'] or (
        s['forcelimited'] and not np.array_equal(m.actuator_forcerange[i], s['forcerange'])):
      bad('%s: forcelimited=%d range %s, XML attrs %s' % (nm, m.actuator_forcelimited[i],
                                                        m.actuator_forcerange[i].tolist(), s['attrs']))
    if s['dyn'] not in ('dcmotor', 'pid') and (bool(m.actuator_actlimited[i]) != s['actlimited'] or (
        s['actlimited'] and not np.array_equal(m.actuator_actrange[i], s['actrange']))):
      bad('%s: actlimited=%d range %s, XML attrs %s' % (nm, m.actuator_actlimited[i], m.actuator_actrange[i].tolist(),
                                                      s['attrs']))
    dl = s.get('delay')
    if dl:
      icode = {'zoh': 0, 'linear': 1, 'cubic': 2}[dl['interp']]
      if float(m.actuator_delay[i]) != dl['delay'] or [int(x) for x in m.actuator_history[i]] != [dl['nsample'], icode]:
        bad('%s: delay %r history %s, XML delay=%r nsample=%d interp=%s' % (
            nm, float(m.actuator_delay[i]), np.array(m.actuator_history[i]).tolist(), dl['delay'], dl['nsample'], dl['interp']))
    elif float(m.actuator_delay[i]) != 0:
      bad('%s: delay %r without delay attribute' % (nm, float(m.actuator_delay[i])))
    o0 = int(m.actuator_outadr[i])
    want_out = 3 if tk == 'so3' else 1
    if int(m.actuator_outnum[i]) != want_out:
      bad('%s: outnum %d' % (nm, m.actuator_outnum[i]))
    if tk != 'so3' and not np.array_equal(m.actuator_gear[o0], s['trn']['gear']):
      bad('%s: gear %s vs %s' % (nm, m.actuator_gear[o0].tolist(), s['trn']['gear']))
    if 'lengthrange' in s and not np.array_equal(m.actuator_lengthrange[o0], s['lengthrange']):
      bad('%s: lengthrange %s vs %s' % (nm, m.actuator_lengthrange[o0].tolist(), s['lengthrange']))
  for jn, jf in info['jfrc'].items():
    j = lib.mj_name2id(m, E.mjOBJ_JOINT, jn)
    if bool(m.jnt_actfrclimited[j]) != jf['limited']:
      bad('joint %s (%s) actuatorfrcrange=%s actuatorfrclimited=%s: jnt_actfrclimited=%d, documented %s' % (
          jn, jf['jtype'], jf['range'], jf['mode'], m.jnt_actfrclimited[j], jf['limited']))
    if jf['limited'] and not np.array_equal(m.jnt_actfrcrange[j], jf['range']):
      bad('joint %s actfrcrange %s' % (jn, m.jnt_actfrcrange[j].tolist()))
  for tn, tf in info['tfrc'].items():
    t = lib.mj_name2id(m, E.mjOBJ_TENDON, tn)
    if bool(m.tendon_actfrclimited[t]) != tf['limited'] and tf['mode'] == 'auto' and not m.tendon_actfrclimited[t]:
      finding(cx, 'C27-tendon-actuatorfrclimited-auto-ignored',
              'tendon %s has actuatorfrcrange=%s and actuatorfrclimited left at its documented default "auto" '
              '(autolimits on): the documentation promises clamping is enabled, the compiled model has '
              'tendon_actfrclimited=0 (range silently ignored)' % (tn, tf['range']))
    elif bool(m.tendon_actfrclimited[t]) != tf['limited']:
      bad('tendon %s actuatorfrcrange=%s actuatorfrclimited=%s: tendon_actfrclimited=%d, documented %s' % (
          tn, tf['range'], tf['mode'], m.tendon_actfrclimited[t], tf['limited']))
    if tf['limited'] and not np.array_equal(m.tendon_actfrcrange[t], tf['range']):
      bad('tendon %s actfrcrange %s' % (tn, m.tendon_actfrcrange[t].tolist()))
  want_mask = 0
  for g in info['groupdisable']:
    want_mask |= 1 << g
  if int(m.opt.disableactuator) != want_mask:
    bad('opt.disableactuator=%d, actuatorgroupdisable=%s => %d' % (m.opt.disableactuator, info['groupdisable'], want_mask))
  for flag, bit in (('clampctrl', E.mjDSBL_CLAMPCTRL), ('actuation', E.mjDSBL_ACTUATION), ('gravity', E.mjDSBL_GRAVITY)):
    if bool(int(m.opt.disableflags) & bit) != (flag in info['flags']):
      bad('disable flag %s' % flag)


# ------------------------------------------------------------------------------------------------ transmission

def fd_lengths(cx):
  """central differences of actuator_length along the nv tangent directions (mj_integratePos)."""
  lib, m, d = cx.lib, cx.m, cx.d
  nv, nout = int(m.nv), int(m.nout)
  G = np.zeros((nout, nv))
  d2 = lib.copy_data(m, d)
  q0 = np.array(d.qpos)
  for j in range(nv):
    L = []
    for sgn in (+1.0, -1.0):
      q = q0.copy()
      e = np.zeros(nv)
      e[j] = sgn
      lib.mj_integratePos(m, q, e, FD_H)
      d2.qpos[:] = q
      lib.mj_fwdPosition(m, d2)
      L.append(np.array(d2.actuator_length))
    G[:, j] = (L[0] - L[1]) / (2 * FD_H)
  return G


def check_transmission(cx):
  lib, m, d, E = cx.lib, cx.m, cx.d, cx.E
  nv = int(m.nv)
  acts = cx.gm.info['acts']
  M = dense_moment(m, d)
  cx.M = M
  length = np.array(d.actuator_length)
  vel = np.array(d.actuator_velocity)
  qvel = np.array(d.qvel)
  # velocity = moment . qvel for every output
  for k in range(int(m.nout)):
    sc = float(np.sum(np.abs(M[k] * qvel))) + 1e-3
    close('vel', vel[k], float(M[k] @ qvel), sc, K_FORCE, 'actuator_velocity[%d] vs moment.qvel' % k, 'velocity')
  need_fd = []
  jp = np.zeros((3, nv))
  jr = np.zeros((3, nv))
  jp2 = np.zeros((3, nv))
  jr2 = np.zeros((3, nv))
  for i, s in enumerate(acts):
    t = s['trn']
    tk = t['kind']
    o = int(m.actuator_outadr[i])
    gear = np.array(m.actuator_gear[o])
    tag = '%s(%s)' % (s['name'], tk)
    if tk in ('joint', 'jointinparent'):
      j = lib.mj_name2id(m, E.mjOBJ_JOINT, t['joint'])
      jt = int(m.jnt_type[j])
      qa, da = int(m.jnt_qposadr[j]), int(m.jnt_dofadr[j])
      want = np.zeros(nv)
      if jt in (E.mjJNT_HINGE, E.mjJNT_SLIDE):
        want[da] = gear[0]
        close('len', length[o], d.qpos[qa] * gear[0], abs(d.qpos[qa] * gear[0]) + 1, K_LEN, tag + ' length', 'length')
        need_fd.append(o)
      elif jt == E.mjJNT_BALL:
        q = np.array(d.qpos[qa:qa + 4])
        ang = 2 * math.atan2(np.linalg.norm(q[1:]), abs(q[0]))
        want[da:da + 3] = A.ball_moment(q, gear[:3], tk == 'jointinparent')
        cx.labels.add('trn:ball')
        if abs(ang - math.pi) > 1e-6:
          # the angle-axis vector is the same in parent and child frame (the rotation fixes its own axis), so the
          # length is gear . log(q) with gear as given (child frame for joint; parent frame for jointinparent)
          close('len', length[o], A.ball_length(q, gear[:3]), float(np.sum(np.abs(gear[:3]))) * math.pi + 1, K_LEN,
                tag + ' ball length', 'length')
      else:
        q = np.array(d.qpos[qa + 3:qa + 7])
        want[da:da + 6] = A.free_moment(q, gear, tk == 'jointinparent')
        cx.labels.add('trn:free')
        close('len', length[o], 0.0, 1, K_LEN, tag + ' free-joint length (documented zero)', 'length')
      close('mom', M[o], want, float(np.sum(np.abs(gear))) + 1, K_MOM, tag + ' moment', 'moment')
    elif tk == 'tendon':
      tid = lib.mj_name2id(m, E.mjOBJ_TENDON, t['tendon'])
      close('len', length[o], d.ten_length[tid] * gear[0], abs(d.ten_length[tid] * gear[0]) + 1, K_LEN,
            tag + ' length = gear*ten_length', 'length')
      need_fd.append(o)
    elif tk == 'site':
      sid = lib.mj_name2id(m, E.mjOBJ_SITE, t['site'])
      R = np.array(d.site_xmat[sid]).reshape(3, 3)
      lib.mj_jacSite(m, d, jp, jr, sid)
      want = (R @ gear[:3]) @ jp + (R @ gear[3:]) @ jr
      sc = float(np.sum(np.abs(gear))) * (1 + float(np.max(np.abs(jp)))) + 1
      close('len', length[o], 0.0, 1, K_LEN, tag + ' length (documented zero without refsite)', 'length')
      close('mom', M[o], want, sc, K_MOM, tag + ' moment = gear wrench in site frame . site Jacobian', 'moment')
    elif tk == 'refsite':
      sid = lib.mj_name2id(m, E.mjOBJ_SITE, t['site'])
      rid = lib.mj_name2id(m, E.mjOBJ_SITE, t['refsite'])
      Rr = np.array(d.site_xmat[rid]).reshape(3, 3)
      lib.mj_jacSite(m, d, jp, jr, sid)
      lib.mj_jacSite(m, d, jp2, jr2, rid)
      want = (Rr @ gear[:3]) @ (jp - jp2) + (Rr @ gear[3:]) @ (jr - jr2)
      ds = body_dofs(m, int(m.site_bodyid[sid]))
      dr = body_dofs(m, int(m.site_bodyid[rid]))
      for c in ds & dr:       # common ancestors move both frames rigidly: the pose difference cannot depend on them
        want[c] = 0.0
      sc = float(np.sum(np.abs(gear))) * (1 + float(np.max(np.abs(jp))) + float(np.max(np.abs(jp2)))) + 1
      close('mom', M[o], want, sc, K_MOM, tag + ' moment = gear wrench in refsite frame . (J_site - J_refsite)', 'moment')
      dp = Rr.T @ (np.array(d.site_xpos[sid]) - np.array(d.site_xpos[rid]))
      rv = A.qlog(A.qmul(A.qconj(site_quat(d, rid)), site_quat(d, sid)))
      wl = float(gear[:3] @ dp + gear[3:] @ rv)
      lsc = float(np.sum(np.abs(gear[:3]))) * float(np.linalg.norm(dp)) + float(np.sum(np.abs(gear[3:]))) * math.pi + 1
      if abs(np.linalg.norm(rv) - math.pi) > 1e-5 or not np.any(gear[3:]):
        rvw = wrong_order_relrot(m, d, sid, rid)
        if abs(length[o] - wl) > 1e-9 * lsc and abs(length[o] - float(gear[:3] @ dp + gear[3:] @ rvw)) <= 1e-9 * lsc:
          finding(cx, 'C27-refsite-rotation-quat-order',
                  '%s: rotational length %r is not gear . log(q_refsite^-1 q_site) = %r with the site frames of '
                  'site_xmat; it equals the value obtained with site orientation = site_quat*xquat (instead of '
                  'xquat*site_quat): wrong whenever the site has a local orientation' % (tag, float(length[o]), wl))
        else:
          close('len', length[o], wl, lsc, K_GEO, tag + ' length = gear . pose difference', 'length')
      if not dr and not np.any(gear[3:]):
        need_fd.append(o)
        cx.labels.add('trn:refsite-static-fd')
      elif dr - ds:
        cx.labels.add('trn:refsite-moving')
    elif tk == 'slidercrank':
      cid = lib.mj_name2id(m, E.mjOBJ_SITE, t['cranksite'])
      sid = lib.mj_name2id(m, E.mjOBJ_SITE, t['slidersite'])
      rod = float(m.actuator_cranklength[i])
      if rod != t['rod']:
        raise Violation('%s cranklength %r vs XML %r' % (tag, rod, t['rod']), bucket='compile')
      ax = np.array(d.site_xmat[sid]).reshape(3, 3)[:, 2]
      det = A.slidercrank_det(d.site_xpos[cid], d.site_xpos[sid], ax, rod)
      vv = float(np.linalg.norm(np.array(d.site_xpos[cid]) - np.array(d.site_xpos[sid])))
      if det > 1e-4 * (rod * rod + vv * vv):
        res = A.slidercrank_residual(length[o] / gear[0], d.site_xpos[cid], d.site_xpos[sid], ax, rod)
        if res > 1e-9 * (rod + vv + 1) and o != i:
          used = float(m.actuator_cranklength[o]) if o < int(m.nactuator) else float('nan')
          finding(cx, 'C27-slidercrank-cranklength-indexed-by-output',
                  '%s (actuator %d, first output %d): slider-crank length %r violates | |crank - slider| - cranklength | '
                  '= 0 for cranklength=%r (residual %.3g); the engine indexes actuator_cranklength (nactuator x 1) with '
                  'the output address: entry [%d] = %r%s is used whenever an actuator with several outputs '
                  '(orientation) precedes the slider-crank' % (
                      tag, i, o, float(length[o]), rod, res, o, used,
                      ' (read past the end of the array, nactuator=%d)' % int(m.nactuator) if o >= int(m.nactuator) else ''))
        else:
          close('len', res, 0.0, rod + vv + 1, K_GEO,
                tag + ' rod-length residual | |crank - slider(length/gear)| - cranklength |', 'slidercrank-geometry')
        need_fd.append(o)
        cx.labels.add('trn:slidercrank-reach')
      else:
        cx.labels.add('trn:slidercrank-noreach')
    elif tk == 'body':
      bid = lib.mj_name2id(m, E.mjOBJ_BODY, t['body'])
      close('len', length[o], 0.0, 1, K_LEN, tag + ' length (documented zero)', 'length')
      con = d.contact
      want = np.zeros(nv)
      cnt = 0
      other = 0
      gb = np.array(m.geom_bodyid)
      for c in range(int(d.ncon)):
        g1, g2 = int(con['geom'][c][0]), int(con['geom'][c][1])
        if g1 < 0 or g2 < 0:
          continue
        b1, b2 = int(gb[g1]), int(gb[g2])
        if b1 != bid and b2 != bid:
          continue
        if int(con['exclude'][c]) > 1:
          other += 1
          continue
        if int(con['dim'][c]) == 1 and int(con['exclude'][c]) == 0:
          cx.labels.add('body:active-condim1-contact' + (':pyramidal' if int(m.opt.cone) == E.mjCONE_PYRAMIDAL else ':elliptic'))
        p = np.array(con['pos'][c])
        n = np.array(con['frame'][c][:3])
        lib.mj_jac(m, d, jp, None, p, b1)
        lib.mj_jac(m, d, jp2, None, p, b2)
        want += n @ (jp2 - jp)
        cnt += 1
      cx.labels.add('body:ncon=%s' % (cnt if cnt < 3 else '3+'))
      if other:
        cx.labels.add('body:other-exclude')
      else:
        if cnt:
          want = -want / cnt
        close('mom', M[o], want, float(np.max(np.abs(want))) + 1, K_GEO,
              tag + ' moment = -(mean over the body\'s contacts of the normal Jacobian)', 'moment')
        cx.ncon_body = max(cx.ncon_body, cnt)
    elif tk == 'so3':
      if 'joint' in t:
        j = lib.mj_name2id(m, E.mjOBJ_JOINT, t['joint'])
        qa, da = int(m.jnt_qposadr[j]), int(m.jnt_dofadr[j])
        q = A.qnorm(np.array(d.qpos[qa:qa + 4]))
        want = np.zeros((3, nv))
        want[:, da:da + 3] = np.eye(3)
        rv = A.qlog(q)
        cx.so3[i] = dict(q=q)
      else:
        sid = lib.mj_name2id(m, E.mjOBJ_SITE, t['site'])
        rid = lib.mj_name2id(m, E.mjOBJ_SITE, t['refsite'])
        Rs = np.array(d.site_xmat[sid]).reshape(3, 3)
        lib.mj_jacSite(m, d, None, jr, sid)
        lib.mj_jacSite(m, d, None, jr2, rid)
        want = Rs.T @ (jr - jr2)          # relative angular velocity expressed in the site (child) frame
        for c in body_dofs(m, int(m.site_bodyid[sid])) & body_dofs(m, int(m.site_bodyid[rid])):
          want[:, c] = 0.0
        q = A.qmul(A.qconj(site_quat(d, rid)), site_quat(d, sid))
        rv = A.qlog(q)
        cx.so3[i] = dict(q=q)
        rvw = wrong_order_relrot(m, d, sid, rid)
        if float(np.max(np.abs(length[o:o + 3] - rv))) > 1e-9 * (math.pi + 1) and \
           float(np.max(np.abs(length[o:o + 3] - rvw))) <= 1e-9 * (math.pi + 1) and abs(np.linalg.norm(rv) - math.pi) > 1e-5:
          finding(cx, 'C27-refsite-rotation-quat-order',
                  '%s: SO3 lengths %s are not the rotation vector of q_refsite^-1 q_site = %s (site frames of '
                  'site_xmat) but the one obtained with site orientation = site_quat*xquat' % (
                      tag, length[o:o + 3].tolist(), rv.tolist()))
          rv = rvw
          cx.so3[i] = dict(q=A.qexp(rvw))     # continue with the engine's (defective) current orientation
      close('mom', M[o:o + 3], want, 3.0, K_MOM, tag + ' SO3 moment rows', 'moment')
      if abs(np.linalg.norm(rv) - math.pi) > 1e-5:
        close('len', length[o:o + 3], rv, math.pi + 1, K_GEO, tag + ' SO3 lengths = rotation vector', 'length')
  # finite-difference oracle for the differentiable scalar lengths
  if need_fd and nv:
    G = fd_lengths(cx)
    for o in need_fd:
      sc = 1 + float(np.max(np.abs(M[o]))) + abs(float(length[o]))
      close('fd', M[o], G[o], sc, K_FD, 'actuator_moment row %d vs finite-difference gradient of actuator_length' % o,
            'moment-fd')
    cx.labels.add('fd-rows=%d' % min(len(need_fd), 3))


# ------------------------------------------------------------------------------------------------ forces

def rot_period(cx, i, s):
  """period of the circle on which a purely rotational 3D transmission measures its length (0 otherwise):
  ball joint or site+refsite with purely rotational gear; 'in units of radian if gear is normalized (generally
  scaled by the norm of gear)'."""
  m, E = cx.m, cx.E
  t = s['trn']
  gear = np.array(m.actuator_gear[int(m.actuator_outadr[i])])
  if t['kind'] in ('joint', 'jointinparent') and t['jtype'] == 'ball':
    return 2 * math.pi * float(np.linalg.norm(gear[:3]))
  if t['kind'] == 'refsite' and not np.any(gear[:3]):
    return 2 * math.pi * float(np.linalg.norm(gear[3:]))
  return 0.0


def near_tie(x, length, period):
  f = (x - length) / period
  return abs(abs(f - math.floor(f)) - 0.5) < 1e-6


def expected_actuator(cx, i, s, u, act, clamp_note):
  """-> dict(force=[candidates: list of arrays], adot=array or None, next=[candidates] or None, scale, labels)"""
  m, d = cx.m, cx.d
  dynn, gainn, biasn, trnn = cx.names
  o = int(m.actuator_outadr[i])
  L = float(d.actuator_length[o])
  V = float(d.actuator_velocity[o])
  dyn = dynn[int(m.actuator_dyntype[i])]
  gt = gainn[int(m.actuator_gaintype[i])]
  bt = biasn[int(m.actuator_biastype[i])]
  gp = np.array(m.actuator_gainprm[i])
  bp = np.array(m.actuator_biasprm[i])
  dp = np.array(m.actuator_dynprm[i])
  h = float(m.opt.timestep)
  alim = bool(m.actuator_actlimited[i])
  arng = np.array(m.actuator_actrange[i])
  early = bool(m.actuator_actearly[i])
  out = dict(adot=None, next=None, skip=None, labels=set())
  lr = np.array(m.actuator_lengthrange[o])
  acc0 = float(m.actuator_acc0[o])
  period = rot_period(cx, i, s)

  if gt == 'so3':
    q = cx.so3[i]['q']
    tgt = A.qnorm(u) if s['chart'] == 'quat' else A.qexp(u)
    if s['chart'] == 'quat' and np.linalg.norm(u) < 1e-9:
      out['skip'] = 'so3-zero-quat'
      return out
    e = A.qlog(A.qmul(A.qconj(q), tgt))
    if abs(np.linalg.norm(e) - math.pi) < 1e-5:
      out['skip'] = 'so3-antipodal'
      return out
    kp, kv = float(gp[0]), -float(bp[2])
    omega = np.array(d.actuator_velocity[o:o + 3])
    f = kp * e - kv * omega
    sc = abs(kp) * math.pi + abs(kv) * float(np.max(np.abs(omega))) + 1e-3
    lim = bool(m.actuator_forcelimited[i])
    fr = np.array(m.actuator_forcerange[i])
    fc = A.clamp_norm(f, lim, fr)
    if lim and np.linalg.norm(f) > fr[1]:
      clamp_note.add('clamp:force-norm')
    out.update(force=[fc], scale=sc)
    return out

  if gt == 'dcmotor':
    # stateless voltage input: i = (V - K w)/R algebraically, torque = K i  ("drives the voltage v = (R/K) tau + K ldot
    # ... commanded torque is delivered exactly" <=> tau = K/R (v - K ldot)); R, K as written in the XML
    R, K = s['R'], s['K']
    f = K / R * (float(u[0]) - K * V)
    out.update(force=[np.array([f])], scale=abs(K / R) * (abs(float(u[0])) + abs(K * V)) + 1e-3)
    return out

  if gt == 'pid':
    toks = s['inputs']
    vals = dict(zip(toks, u))
    upos, uvel, uff = vals.get('pos', 0.0), vals.get('vel', 0.0), vals.get('ff', 0.0)
    kp, kv, ki = -float(bp[1]), -float(bp[2]), float(gp[0])
    imax = float(dp[0])
    z = float(act[-1]) if (ki > 0 and len(act)) else 0.0
    cands = []
    sc = abs(kp) * (abs(upos) + abs(L)) + abs(kv) * (abs(uvel) + abs(V)) + abs(uff) + abs(ki * z) + 1e-3
    if ki > 0:
      if imax > 0 and abs(abs(z) - imax) < 1e-9:
        out['skip'] = 'pid-imax-boundary'
        return out
      ad = [A.pid_act_dot(upos, L, z, imax, 0.0)]
      if period > 0:
        if near_tie(upos, L, period):
          out['skip'] = 'circle-tie'
          return out
        ad.append(A.pid_act_dot(upos, L, z, imax, period))   # pid on the circle: not spelled out in the docs
      out['adot_cands'] = ad
    zs = [z]
    if ki > 0 and early:
      zs = [z + h * a_ for a_ in out['adot_cands']]
      out['labels'].add('actearly')
    ups = [upos]
    if period > 0:
      if near_tie(upos, L, period):
        out['skip'] = 'circle-tie'
        return out
      ups.append(A.wrap_nearest(upos, L, period))
      out['labels'].add('circle:ambiguous')
    for up in ups:
      for zz in zs:
        cands.append(np.array([A.pid_force(up, uvel, uff, L, V, kp, kv, ki, zz)]))
    out.update(force=cands, scale=sc)
    return out

  # ---- SISO affine / muscle family
  variants = ['doc']
  if gt == 'muscle' or bt == 'muscle':
    if acc0 < 1e-6 and (gp if gt == 'muscle' else bp)[2] < 0:
      out['skip'] = 'muscle-acc0=0(F0=scale/acc0 undefined)'
      return out
    Ln, Vn, F0 = A.muscle_scaling(L, V, lr, acc0, gp if gt == 'muscle' else bp)
    prm = gp if gt == 'muscle' else bp
    dev = False
    if gt == 'muscle' and prm[4] < Ln < 0.95:
      dev = True          # FLV.m adds 0.15*bump(L, lmin, .5*(lmin+.95), .95): not in the tree (C nor MJX)
    if bt == 'muscle' and Ln > 1:
      dev = True          # FLV.m passive curve is cubic; the tree (C and MJX) uses the half-quadratic
    if dev:
      variants = ['ref']
      out['labels'].add('muscle:FLV.m-deviation(region)')
    else:
      out['labels'].add('muscle:FLV.m-exact-region')
  x_is_act = dyn != 'none'
  if x_is_act:
    w = float(act[-1])
    if dyn == 'muscle' and not (0.0 <= w <= 1.0):
      out['labels'].add('muscle:act-outside-unit(act_dot unasserted)')
      ad = None
    else:
      ad = A.act_dot(dyn, float(u[0]), w, dp)
    out['adot'] = ad
    if ad is not None:
      nx = A.next_act(dyn, w, ad, dp, h, alim, arng)
      out['next'] = nx
      if alim and nx != A.next_act(dyn, w, ad, dp, h, False, arng):
        clamp_note.add('clamp:act')
    if early:
      if ad is None:
        out['skip'] = 'muscle-act-outside'
        return out
      x = out['next']
      out['labels'].add('actearly')
    else:
      x = w
  else:
    x = float(u[0])
  xs = [x]
  servo_shape = gt == 'fixed' and bt == 'affine' and gp[0] == -bp[1]
  if period > 0 and servo_shape:
    if near_tie(x, L, period):
      out['skip'] = 'circle-tie'
      return out
    xw = A.wrap_nearest(x, L, period)
    must = s.get('servo') in ('position', 'intvelocity') and dyn in ('none', 'integrator')
    if must:
      xs = [xw]
      out['labels'].add(('circle:wrapped:' if xw != x else 'circle:nowrap-needed:') + s['servo'])
    else:
      xs = [x, xw]
      out['labels'].add('circle:ambiguous')
    out['period'] = period
  cands = []
  sc = 1e-3
  for var in variants:
    g = A.gain(gt, gp, L, V, lr, acc0, var)
    b = A.bias(bt, bp, L, V, lr, acc0, var)
    for xx in xs:
      cands.append(np.array([g * xx + b]))
      sc = max(sc, abs(g * xx) + abs(b) + (abs(bp[0]) + abs(bp[1] * L) + abs(bp[2] * V) if bt == 'affine' else 0) + 1e-3)
  out.update(force=cands, scale=sc)
  return out


def check_forces(cx, variant):
  """variant: dict(clamp=bool, mask=int, actuation=bool) describing the runtime option state already applied."""
  lib, m, d, E = cx.lib, cx.m, cx.d, cx.E
  acts = cx.gm.info['acts']
  nv = int(m.nv)
  M = cx.M
  clamp_note = set()
  ctrl = np.array(d.ctrl)
  # delayed actuators: 'the control input is read from the history buffer' (time - delay); the buffer content is known
  # by construction (zeros on fresh data, the held constant after the hold phase), and it is that value which
  # 'is automatically clamped to ctrlrange at runtime'
  for i_, raw in cx.delay_raw.items():
    ctrl[int(m.actuator_ctrladr[i_])] = raw
  ueff = A.effective_ctrl(ctrl, np.array(m.actuator_ctrllimited), np.array(m.actuator_ctrlrange), variant['clamp'])
  if np.any(ueff != ctrl):
    clamp_note.add('clamp:ctrl')
  for i_ in cx.delay_raw:
    if ueff[int(m.actuator_ctrladr[i_])] != ctrl[int(m.actuator_ctrladr[i_])]:
      clamp_note.add('clamp:ctrl-delayed')
  force = np.array(d.actuator_force)
  adot = np.array(d.act_dot) if int(m.na) else np.zeros(0)
  act0 = np.array(d.act) if int(m.na) else np.zeros(0)
  tag = variant['tag']
  if not variant['actuation']:
    if np.any(force != 0) or np.any(np.array(d.qfrc_actuator) != 0):
      raise Violation('[%s] actuation disabled but actuator_force/qfrc_actuator non-zero: %s %s' % (
          tag, force.tolist(), np.array(d.qfrc_actuator).tolist()), bucket='actuation-flag')
    cx.expect_next = None
    return clamp_note
  fexp = np.zeros(int(m.nout))      # force entering qfrc (engine value where unasserted)
  asserted = np.ones(int(m.nout), dtype=bool)
  expect_next = {}
  tendon_members = {}
  for i, s in enumerate(acts):
    o, no = int(m.actuator_outadr[i]), int(m.actuator_outnum[i])
    u0, nu_ = int(m.actuator_ctrladr[i]), int(m.actuator_ctrlnum[i])
    a0, na_ = int(m.actuator_actadr[i]), int(m.actuator_actnum[i])
    nm = '%s[%s/%s]' % (s['name'], s['kind'], s['trn']['kind'])
    disabled = A.group_disabled(int(m.actuator_group[i]), variant['mask'])
    if disabled:
      if np.any(force[o:o + no] != 0):
        raise Violation('[%s] %s in disabled group %d (disableactuator=%d) has force %s' % (
            tag, nm, m.actuator_group[i], variant['mask'], force[o:o + no].tolist()), bucket='group-disable')
      for a in range(a0, a0 + na_):
        # 'their activation states will not be integrated' (act_dot treated as 0; actrange clamping still applies)
        fz = act0[a]
        if bool(m.actuator_actlimited[i]) and s['dyn'] in ('integrator', 'filter', 'filterexact', 'muscle'):
          fz = A.clip(fz, m.actuator_actrange[i][0], m.actuator_actrange[i][1])
        expect_next[a] = ('frozen', fz)
      cx.labels.add('group-disabled')
      continue
    if s['oracle'] != 'force':
      asserted[o:o + no] = False
      fexp[o:o + no] = force[o:o + no]
      if s['trn']['kind'] == 'tendon':
        tid_ = lib.mj_name2id(m, E.mjOBJ_TENDON, s['trn']['tendon'])
        if bool(m.tendon_actfrclimited[tid_]):
          tendon_members.setdefault(tid_, []).append((i, o, None, 0.0, False, None, nm))
      # invariants: forcerange respected
      if bool(m.actuator_forcelimited[i]) and s['kind'] != 'dcmotor':
        fr = np.array(m.actuator_forcerange[i])
        if np.any(force[o:o + no] < fr[0] - 1e-12) or np.any(force[o:o + no] > fr[1] + 1e-12):
          raise Violation('[%s] %s force %s outside forcerange %s' % (tag, nm, force[o:o + no].tolist(), fr.tolist()),
                          bucket='forcerange')
      cx.labels.add('invariants-only:' + s['kind'])
      continue
    ex = expected_actuator(cx, i, s, ueff[u0:u0 + nu_], act0[a0:a0 + na_] if a0 >= 0 else np.zeros(0), clamp_note)
    for l in ex['labels']:
      cx.labels.add(l)
    if ex['skip']:
      cx.labels.add('skip:' + ex['skip'])
      asserted[o:o + no] = False
      fexp[o:o + no] = force[o:o + no]
      if s['trn']['kind'] == 'tendon':
        tid_ = lib.mj_name2id(m, E.mjOBJ_TENDON, s['trn']['tendon'])
        if bool(m.tendon_actfrclimited[tid_]):
          tendon_members.setdefault(tid_, []).append((i, o, None, 0.0, False, None, nm))
      continue
    # act_dot
    if ex.get('adot') is not None:
      close('adot', adot[a0 + na_ - 1], ex['adot'], abs(ex['adot']) + 1e-3, K_FORCE, '[%s] %s act_dot' % (tag, nm), 'act_dot')
      expect_next[a0 + na_ - 1] = ('value', [ex['next']], ex.get('period', 0.0))
    elif 'adot_cands' in ex:
      errs = [abs(adot[a0 + na_ - 1] - c) for c in ex['adot_cands']]
      kbest = int(np.argmin(errs))
      close('adot', adot[a0 + na_ - 1], ex['adot_cands'][kbest], abs(ex['adot_cands'][kbest]) + 1e-3, K_FORCE,
            '[%s] %s pid integral act_dot' % (tag, nm), 'act_dot')
    # force before the output clamps
    cands = ex['force']
    sc = ex['scale']
    lim = bool(m.actuator_forcelimited[i])
    fr = np.array(m.actuator_forcerange[i])
    tk = s['trn']['kind']
    tid = -1
    if tk == 'tendon':
      tid = lib.mj_name2id(m, E.mjOBJ_TENDON, s['trn']['tendon'])
    if tid >= 0 and bool(m.tendon_actfrclimited[tid]):
      tendon_members.setdefault(tid, []).append((i, o, cands, sc, lim, fr, nm))
      continue
    if s['gain'] == 'so3':
      final = cands
    else:
      final = [np.array([A.clamp_force(float(c[0]), lim, fr)]) for c in cands]
      if lim and any(float(c[0]) != float(f[0]) for c, f in zip(cands, final)):
        clamp_note.add('clamp:force')
    errs = [float(np.max(np.abs(force[o:o + no] - f))) for f in final]
    kbest = int(np.argmin(errs))
    close('force', force[o:o + no], final[kbest], sc, K_FORCE, '[%s] %s actuator_force (ctrl=%s act=%s len=%r vel=%r)' % (
        tag, nm, ueff[u0:u0 + nu_].tolist(), act0[a0:a0 + na_].tolist() if a0 >= 0 else [], float(d.actuator_length[o]),
        float(d.actuator_velocity[o])), 'force-law')
    fexp[o:o + no] = final[kbest]
  # tendon-level actuator force range: 'clamps total actuator forces acting on this tendon'
  for tid, mem in tendon_members.items():
    rng = np.array(m.tendon_actfrcrange[tid])
    if any(c[2] is None for c in mem):
      # a member without force-law oracle (dcmotor, pid+slew, skipped): only the documented bound on the total
      got = sum(float(force[c[1]]) for c in mem)
      tolb = 1e-9 * (sum(abs(float(force[c[1]])) for c in mem) + 1e-3)
      if not (rng[0] - tolb <= got <= rng[1] + tolb) and not any(bool(m.actuator_forcelimited[c[0]]) for c in mem):
        raise Violation('[%s] total actuator force %r on tendon %d outside actuatorfrcrange %s' % (tag, got, tid, rng.tolist()),
                        bucket='tendon-actfrcrange')
      for c in mem:
        asserted[c[1]] = False
        fexp[c[1]] = force[c[1]]
      cx.labels.add('tendon-clamp:bound-only')
      continue
    ambiguous = any(len(c[2]) > 1 for c in mem)
    tot = sum(float(c[2][0][0]) for c in mem)
    sc = sum(c[3] for c in mem)
    got = sum(float(force[c[1]]) for c in mem)
    anyforce = any(c[4] for c in mem)
    if ambiguous:
      for c in mem:
        asserted[c[1]] = False
        fexp[c[1]] = force[c[1]]
      continue
    inside = rng[0] <= tot <= rng[1]
    if inside:
      for (i, o, cands, s_, lim, fr, nm) in mem:
        f = A.clamp_force(float(cands[0][0]), lim, fr)
        if lim and f != float(cands[0][0]):
          clamp_note.add('clamp:force')
        close('force', force[o], f, s_, K_FORCE, '[%s] %s actuator_force (tendon total inside actuatorfrcrange)' % (tag, nm),
              'force-law')
        fexp[o] = f
    else:
      clamp_note.add('clamp:tendon')
      if anyforce:
        # order of tendon-level and actuator-level clamps is not documented: only the invariants
        cx.labels.add('tendon-clamp+forcerange(order undocumented)')
        for (i, o, cands, s_, lim, fr, nm) in mem:
          asserted[o] = False
          fexp[o] = force[o]
          if lim and not (fr[0] - 1e-12 <= force[o] <= fr[1] + 1e-12):
            raise Violation('[%s] %s force %r outside forcerange %s' % (tag, nm, float(force[o]), fr.tolist()),
                            bucket='forcerange')
      else:
        want = A.clip(tot, rng[0], rng[1])
        close('force', got, want, sc, K_FORCE, '[%s] total actuator force on tendon %d (unclamped total %r, '
              'actuatorfrcrange %s)' % (tag, tid, tot, rng.tolist()), 'tendon-actfrcrange')
        for (i, o, cands, s_, lim, fr, nm) in mem:
          fexp[o] = force[o]
          # the split between actuators is not documented, but no member may change sign or grow
          p = float(cands[0][0])
          if force[o] * p < -1e-12 * s_ or abs(force[o]) > abs(p) + K_FORCE * s_:
            raise Violation('[%s] %s: tendon clamp turned force %r into %r' % (tag, nm, p, float(force[o])),
                            bucket='tendon-actfrcrange')
  # qfrc_actuator = moment^T force (+ actuator gravcomp), then joint-level clamp
  q = M.T @ force if nv else np.zeros(0)
  qsc = (np.abs(M).T @ np.abs(force) if nv else np.zeros(0))
  grav_on = not (int(m.opt.disableflags) & E.mjDSBL_GRAVITY) and float(np.linalg.norm(m.opt.gravity)) > 0
  jt = np.array(m.jnt_type)
  ndof = {E.mjJNT_FREE: 6, E.mjJNT_BALL: 3, E.mjJNT_SLIDE: 1, E.mjJNT_HINGE: 1}
  gc = np.array(d.qfrc_gravcomp)
  for j in range(int(m.njnt)):
    da = int(m.jnt_dofadr[j])
    if bool(m.jnt_actgravcomp[j]) and grav_on:
      nd = ndof[int(jt[j])]
      q[da:da + nd] += gc[da:da + nd]
      qsc[da:da + nd] += np.abs(gc[da:da + nd])
      if np.any(gc[da:da + nd] != 0):
        cx.labels.add('actuator-gravcomp')
  for j in range(int(m.njnt)):
    if bool(m.jnt_actfrclimited[j]) and int(jt[j]) in (E.mjJNT_SLIDE, E.mjJNT_HINGE):
      da = int(m.jnt_dofadr[j])
      r = np.array(m.jnt_actfrcrange[j])
      c = A.clip(q[da], r[0], r[1])
      if c != q[da]:
        clamp_note.add('clamp:joint')
      q[da] = c
  if nv:
    got = np.array(d.qfrc_actuator)
    err = np.abs(got - q)
    tol = K_QFRC * (qsc + 1e-3)
    worst('qfrc', float(np.max(err / (qsc + 1e-3))), 1.0)
    if np.any(err > tol):
      k = int(np.argmax(err - tol))
      raise Violation('[%s] qfrc_actuator[%d]=%r, moment^T force (+gravcomp, joint clamp) = %r; actuator_force=%s' % (
          tag, k, float(got[k]), float(q[k]), force.tolist()), bucket='qfrc')
  cx.expect_next = expect_next
  cx.asserted = int(np.sum(asserted))
  return clamp_note


def check_step(cx, variant):
  """after mj_step: act follows the documented integration and stays inside actrange."""
  lib, m, d, E = cx.lib, cx.m, cx.d, cx.E
  if not int(m.na):
    return
  act0 = np.array(d.act)
  d2 = lib.copy_data(m, d)
  lib.warnings()
  try:
    lib.mj_step(m, d2)
  except Exception as e:
    if 'diagonal element too small' in str(e):
      # singular inertia (modelgen can put a hinge and a ball joint on the same anchor): LU of M - h*dF/dv fails in
      # the implicit integrators whatever the actuators do; not an actuation question
      cx.labels.add('step:singular-inertia(skipped)')
      return
    raise
  act1 = np.array(d2.act)
  w = lib.warnings()
  if w or not np.all(np.isfinite(np.array(d2.qpos))) or d2.time <= d.time:
    cx.labels.add('step:unstable(skipped)')     # divergence -> automatic reset: not an actuation question
    return
  acts = cx.gm.info['acts']
  rk4 = int(m.opt.integrator) == E.mjINT_RK4
  tag = variant['tag']
  if not variant['actuation']:
    if not np.array_equal(act0, act1):
      raise Violation('[%s] actuation disabled ("including the actuator dynamics") but act changed in mj_step: %s -> %s'
                      % (tag, act0.tolist(), act1.tolist()), bucket='actuation-flag')
    return
  for i, s in enumerate(acts):
    a0, na_ = int(m.actuator_actadr[i]), int(m.actuator_actnum[i])
    if a0 < 0 or not na_:
      continue
    a = a0 + na_ - 1
    nm = '%s[%s/%s]' % (s['name'], s['kind'], s['trn']['kind'])
    exn = (cx.expect_next or {}).get(a)
    period = rot_period(cx, i, s)
    if exn is not None and exn[0] == 'frozen':
      fz = np.array([cx.expect_next[x][1] for x in range(a0, a0 + na_)])
      if period > 0 and s['dyn'] == 'integrator' and na_ == 1:
        # rotational setpoints are 're-anchored to a bounded representative at each timestep': same point on the circle
        kk = round((act1[a] - fz[0]) / period)
        if abs(act1[a] - kk * period - fz[0]) <= 1e-9 * (abs(fz[0]) + period):
          fz = act1[a0:a0 + na_]
      if not np.array_equal(act1[a0:a0 + na_], fz):
        raise Violation('[%s] %s is in a disabled group but its activation was integrated: %s -> %s' % (
            tag, nm, act0[a0:a0 + na_].tolist(), act1[a0:a0 + na_].tolist()), bucket='group-disable')
      continue
    if s['dyn'] in ('integrator', 'filter', 'filterexact', 'muscle') and bool(m.actuator_actlimited[i]):
      r = np.array(m.actuator_actrange[i])
      if not (r[0] <= act1[a] <= r[1]) and period > 0 and s['dyn'] == 'integrator':
        finding(cx, 'C27-actrange-broken-by-circle-reanchor',
                '[%s] %s: actlimited with actrange %s, yet act=%r after mj_step (before %r): the re-anchoring of '
                'rotational setpoints to the representative nearest the length is applied after the actrange clamp and '
                'moves the activation out of actrange' % (tag, nm, r.tolist(), float(act1[a]), float(act0[a])))
        continue
      if not (r[0] <= act1[a] <= r[1]):
        raise Violation('[%s] %s: act=%r after mj_step outside actrange %s (act before %r, ctrl %s)' % (
            tag, nm, float(act1[a]), r.tolist(), float(act0[a]), np.array(d.ctrl).tolist()), bucket='actrange')
    if exn is not None and exn[0] == 'value' and not rk4:
      want = exn[1][0]
      P = exn[2]
      got = float(act1[a])
      if P > 0:
        # 're-anchored to a bounded representative': equal modulo the period
        kk = round((got - want) / P)
        close('next', got - kk * P, want, abs(want) + abs(got) + 1e-3, 1e-9, '[%s] %s act after mj_step (mod period %r)' % (
            tag, nm, P), 'act-next')
        if abs(got - float(d.actuator_length[int(m.actuator_outadr[i])])) > 1.5 * P + abs(want):
          raise Violation('[%s] %s: re-anchored act %r is not a bounded representative' % (tag, nm, got), bucket='act-next')
        cx.labels.add('step:circle-reanchor')
      else:
        close('next', got, want, abs(want) + 1e-3, K_FORCE, '[%s] %s act after mj_step (act %r, act_dot %r)' % (
            tag, nm, float(act0[a]), float(d.act_dot[a])), 'act-next')
      cx.labels.add('step:act-next')


def draw_inputs(cx, rng):
  """ctrl and act: inside, on the boundary of, and far outside their ranges (all randomness from the seed)."""
  m, d = cx.m, cx.d
  acts = cx.gm.info['acts']
  for i, s in enumerate(acts):
    u0, nu_ = int(m.actuator_ctrladr[i]), int(m.actuator_ctrlnum[i])
    a0, na_ = int(m.actuator_actadr[i]), int(m.actuator_actnum[i])
    period = rot_period(cx, i, s) if s['trn']['kind'] != 'so3' else 0.0
    for r in range(nu_):
      lo, hi = m.actuator_ctrlrange[u0 + r]
      if lo == hi:
        lo, hi = -1.0, 1.0
      mode = rng.randint(6)
      if period > 0 and s['dyn'] == 'none' and r == 0 and rng.randint(2):
        d.ctrl[u0 + r] = round(rng.uniform(-2.5, 2.5) * period, 6)     # setpoints several turns away
        continue
      if s['dyn'] == 'muscle':
        v = [rng.uniform(0, 1), rng.uniform(-0.5, 1.5), 0.0, 1.0, rng.uniform(0, 1), rng.uniform(-3, 3)][mode]
      elif mode <= 1:
        v = rng.uniform(lo, hi)
      elif mode == 2:
        v = [lo, hi][rng.randint(2)]
      elif mode == 3:
        v = hi + rng.uniform(0, 1) * (hi - lo)
      elif mode == 4:
        v = lo - rng.uniform(0, 100) * (hi - lo)
      else:
        v = rng.uniform(-10, 10)
      d.ctrl[u0 + r] = round(v, 6)
    for r in range(na_):
      lo, hi = m.actuator_actrange[i]
      if lo == hi:
        lo, hi = -1.0, 1.0
      mode = rng.randint(5)
      if period > 0 and s['dyn'] == 'integrator' and rng.randint(2):
        d.act[a0 + r] = round(rng.uniform(-2.5, 2.5) * period, 6)
        continue
      if s['dyn'] == 'muscle':
        v = [rng.uniform(0, 1), rng.uniform(0, 1), 0.0, 1.0, rng.uniform(-0.5, 1.5)][mode]
      elif mode <= 1:
        v = rng.uniform(lo, hi)
      elif mode == 2:
        v = [lo, hi][rng.randint(2)]
      elif mode == 3:
        v = hi + rng.uniform(0, 3) * (hi - lo)
      else:
        v = lo - rng.uniform(0, 50) * (hi - lo)
      d.act[a0 + r] = round(v, 6)


def run_case(ck, lib, gm, seed):
  E = lib.enums
  if not gm.info['acts']:
    ck.discard('no-actuator')
    return
  try:
    m = lib.model_from_xml(gm.xml)
  except Exception as e:
    if 'actdim > 1' in str(e) and any(s.get('ki') and s.get('slew') for s in gm.info['acts']):
      if not os.environ.get('C27_SUPPRESS_FINDINGS'):
          ck.violation('pid actuator with both ki and slewmax ("Each of these features, when enabled, adds one activation '
                     'state, in the order [slew, integral]") does not compile: %s' % str(e)[:150],
                     dict(xml=gm.xml), bucket='C27-pid-ki-plus-slewmax-compile-error',
                     fingerprint='C27-pid-ki-plus-slewmax-compile-error')
      ck.discard('compile:pid-ki+slew(finding)')
      return
    ck.discard('compile')
    ck.extra.setdefault('compile_errors', [])
    if len(ck.extra['compile_errors']) < 5:
      ck.extra['compile_errors'].append(str(e)[:200])
    return
  cx = Ctx()
  cx.lib, cx.m, cx.gm, cx.E, cx.ck, cx.seed = lib, m, gm, E, ck, seed
  cx.names = enum_names(E)
  cx.labels = set()
  cx.so3 = {}
  cx.ncon_body = 0
  check_compile(cx)
  d = lib.make_data(m)
  cx.d = d
  rng = mg.apply_state(lib, m, d, seed, vel_scale=2.0, pos_scale=0.15 if gm.info['family'] == 'contact' else 1.5)
  draw_inputs(cx, rng)
  base_flags = int(m.opt.disableflags)
  base_mask = int(m.opt.disableactuator)
  acts = gm.info['acts']
  cx.delay_raw = {i: 0.0 for i, s_ in enumerate(acts) if s_.get('delay')}      # fresh history buffer: zeros
  clamps = set()
  groups = sorted(set(int(g) for g in np.array(m.actuator_group)))
  gsel = groups[rng.randint(len(groups))]
  others = sum(1 << g for g in range(31) if g not in groups)
  nassert = [0]

  def evaluate(phase):
    # transmission stage evaluated with actuation enabled (the flag "disables all standard computations related to
    # actuator forces", which in this tree includes actuator_velocity)
    m.opt.disableflags = base_flags & ~E.mjDSBL_ACTUATION
    m.opt.disableactuator = base_mask
    try:
      lib.mj_forward(m, d)
    except Exception as e:
      if 'rank-deficient' in str(e) or 'diagonal element too small' in str(e):
        ck.discard('singular-inertia')     # degenerate tree (e.g. parallel hinges on one anchor), not an actuation question
        return False
      raise
    lib.warnings()
    if not np.all(np.isfinite(np.array(d.qacc))):
      ck.discard('nonfinite')
      return False
    check_transmission(cx)
    variants = [dict(tag=phase + 'xml-options', flags=base_flags, mask=base_mask)]
    # runtime variations of the option fields (documented as runtime-settable)
    variants.append(dict(tag=phase + 'toggle-clampctrl', flags=base_flags ^ E.mjDSBL_CLAMPCTRL, mask=base_mask))
    variants.append(dict(tag=phase + 'disable-group-%d' % gsel, flags=base_flags & ~E.mjDSBL_ACTUATION,
                         mask=(1 << gsel) if 0 <= gsel <= 30 else 0))
    variants.append(dict(tag=phase + 'disable-unused-groups', flags=base_flags & ~E.mjDSBL_ACTUATION, mask=others))
    variants.append(dict(tag=phase + 'toggle-actuation', flags=base_flags ^ E.mjDSBL_ACTUATION, mask=base_mask))
    for vi, var in enumerate(variants):
      m.opt.disableflags = var['flags']
      m.opt.disableactuator = var['mask']
      var['clamp'] = not (var['flags'] & E.mjDSBL_CLAMPCTRL)
      var['actuation'] = not (var['flags'] & E.mjDSBL_ACTUATION)
      lib.mj_forward(m, d)
      if vi and gm.info['family'] == 'contact':
        cx.M = dense_moment(m, d)
      c = check_forces(cx, var)
      if var['actuation']:
        nassert[0] = max(nassert[0], cx.asserted)
      clamps.update(c)
      if vi in (0, 2, 4) or rng.randint(3) == 0:
        check_step(cx, var)
      lib.warnings()
    return True

  if not evaluate(''):
    return
  if cx.delay_raw:
    cx.labels.add('delay:fresh-buffer')
    # hold the (possibly far out-of-range) control constant until every slot of every history buffer holds it and the
    # delay has elapsed; stepping with actuation disabled keeps the dynamics tame (the history is still advanced)
    dt = float(m.opt.timestep)
    k = max(int(s_['delay']['nsample']) + int(math.ceil(s_['delay']['delay'] / dt)) for s_ in acts if s_.get('delay')) + 2
    m.opt.disableflags = base_flags | E.mjDSBL_ACTUATION
    m.opt.disableactuator = base_mask
    held = np.array(d.ctrl).copy()
    ok = True
    lib.warnings()
    try:
      for _ in range(k):
        d.ctrl[:] = held
        lib.mj_step(m, d)
    except Exception as e:
      if 'diagonal element too small' not in str(e) and 'rank-deficient' not in str(e):
        raise
      ok = False
    if lib.warnings() or not np.all(np.isfinite(np.array(d.qpos))) or not np.all(np.isfinite(np.array(d.qvel))):
      ok = False
    if ok:
      for i_ in cx.delay_raw:
        cx.delay_raw[i_] = float(held[int(m.actuator_ctrladr[i_])])
      cx.so3 = {}
      if not evaluate('[delay elapsed] '):
        return
      cx.labels.add('delay:elapsed(held %d steps)' % min(k, 12))
    else:
      cx.labels.add('delay:hold-unstable(skipped)')
  m.opt.disableflags = base_flags
  m.opt.disableactuator = base_mask
  plain = all(s['trn']['kind'] in ('joint', 'jointinparent') and s['trn'].get('jtype') in ('hinge', 'slide') for s in acts)
  nontrivial = bool(clamps) or not plain
  labels = set(gm.labels()) | cx.labels | clamps
  for s in acts:
    labels.add('dyn:' + s['dyn'])
    labels.add('gain:' + s['gain'])
    labels.add('bias:' + s['bias'])
    if s['trn'].get('tkind'):
      labels.add('tendon:' + s['trn']['tkind'])
    if s['trn']['kind'] in ('joint', 'jointinparent'):
      labels.add('trn:%s:%s' % (s['trn']['kind'], s['trn']['jtype']))
    if s['trn']['kind'] == 'refsite':
      labels.add('trn:refsite:' + s['trn']['which'])
    if s['actearly']:
      labels.add('actearly')
  if gm.info['jfrc']:
    labels.add('joint-actuatorfrcrange')
  if gm.info['tfrc']:
    labels.add('tendon-actuatorfrcrange')
  labels.add('integrator:' + gm.info['integrator'])
  for l in labels:
    ALL_LABELS[l] += 1
  labels = sorted(l for l in labels if l.startswith(('act:', 'trn:', 'dyn:', 'gain:', 'bias:', 'clamp:', 'tendon', 'joint-',
                                                   'circle', 'muscle', 'actearly', 'group', 'step:', 'fd-', 'body:',
                                                   'skip:', 'invariants', 'actuator-gravcomp', 'integrator:', 'delay:',
                                                   'actrange')))
  sample = dict(xml=gm.xml, seed=seed, actuators=['%s/%s' % (s['kind'], s['trn']['kind']) for s in acts],
                clamps_active=sorted(clamps), ctrl=np.array(d.ctrl).tolist(),
                actuator_force=np.array(d.actuator_force).tolist(), outputs_with_force_law=nassert[0])
  ck.case(nontrivial=nontrivial, key=(gm.xml, seed), sample=sample, labels=labels)


def main(ck):
  lib = ck.lib('rel')
  ck.rule = ('models = modelgen tree (1-4 bodies, all joint types, sites, fixed/spatial tendons; family "contact" adds '
             'colliding geoms + plane) + gen_act actuator block (1-5 actuators drawn from every shortcut / general '
             'combination x every transmission) ; state = random qpos/qvel, ctrl and act drawn inside / on the boundary '
             '/ up to 100 ranges outside; each case is evaluated under 5 runtime option variants (XML options, clampctrl '
             'toggled, one used group disabled, all unused groups disabled, actuation toggled). non-trivial = at least '
             'one clamp (ctrl, force, act, joint, tendon) changed a value OR some actuator has a transmission other '
             'than a hinge/slide joint; distinct by (xml, state seed)')
  ck.assumptions = [
      'engine kinematic quantities used by the oracle (site_xpos/xmat, ten_length, mj_jac/mj_jacSite, contact frames, '
      'qfrc_gravcomp) are correct (verified by other properties)',
      'muscle FL in (lmin,0.95) and FP for L>1 are compared with the tree-internal MJX reference instead of FLV.m '
      '(documented curves are stale there; counted under label muscle:FLV.m-deviation(region))',
      'dcmotor with inductance and pid+slewmax are covered by invariants only (clamps, moment arms, qfrc = moment^T force)']
  n_tree = ck.budget(1100, 16000)
  n_con = ck.budget(300, 4000)
  n_del = ck.budget(150, 2500)

  def test(case):
    gm, seed = case
    run_case(ck, lib, gm, seed)
  ck.run_hypothesis(test, st.tuples(gen_act.act_models('tree'), mg.state_seed()), n_tree, name='tree')
  ck.run_hypothesis(test, st.tuples(gen_act.act_models('contact'), mg.state_seed()), n_con, name='contact')
  ck.run_hypothesis(test, st.tuples(gen_act.act_models('delay'), mg.state_seed()), n_del, name='delay')
  ck.extra['worst_error_over_scale'] = {k: float('%.3g' % v) for k, v in sorted(STATS.items())}
  print('[C27] worst error/scale:', ck.extra['worst_error_over_scale'], 'discards:', dict(ck.discards), flush=True)
  ck.extra['label_histogram_full'] = dict(sorted(ALL_LABELS.items()))
  ck.extra['tolerances'] = dict(K_FORCE=K_FORCE, K_LEN=K_LEN, K_MOM=K_MOM, K_GEO=K_GEO, K_FD=K_FD, FD_H=FD_H, K_QFRC=K_QFRC)


PROBE_TREE = ('<mujoco><worldbody><site name="s0" pos="0.1 0.2 0.3" euler="10 20 30"/>'
              '<body name="b1" pos="0 0 1"><joint name="j1" type="ball"/><geom size="0.1"/>'
              '<site name="s1" pos="0.1 0 0" euler="40 -20 70"/>'
              '<body name="b2" pos="0.3 0 0"><joint name="j2" type="hinge" axis="0 1 0"/><geom size="0.1"/>'
              '<site name="s2" pos="0.1 0 0.1" euler="-30 50 15"/></body></body></worldbody>%s</mujoco>')


def regressions(ck):
  """one deterministic probe per recorded finding (fingerprints listed in /verif/known_findings.json print
  KNOWN-FINDING; once the defect is repaired the probe finds nothing and stays silent)."""
  lib = ck.lib('rel')
  E = lib.enums
  quiet = bool(os.environ.get('C27_SUPPRESS_FINDINGS'))

  def report(fp, msg, xml):
    if not quiet:
      ck.violation(msg, dict(xml=xml), bucket=fp, fingerprint=fp)
    ck.label('probe-finding:' + fp)
  # 1. slider-crank after a 3-output actuator: rod length must be this actuator's cranklength
  xml = PROBE_TREE % ('<actuator><orientation name="o" joint="j1" kp="2"/>'
                      '<general name="c" cranksite="s2" slidersite="s1" cranklength="0.5"/></actuator>')
  m = lib.model_from_xml(xml)
  d = lib.make_data(m)
  d.qpos[4] = 0.3
  lib.mj_forward(m, d)
  o = int(m.actuator_outadr[1])
  cid, sid = lib.mj_name2id(m, E.mjOBJ_SITE, 's2'), lib.mj_name2id(m, E.mjOBJ_SITE, 's1')
  ax = np.array(d.site_xmat[sid]).reshape(3, 3)[:, 2]
  res = A.slidercrank_residual(float(d.actuator_length[o]), d.site_xpos[cid], d.site_xpos[sid], ax, 0.5)
  if A.slidercrank_det(d.site_xpos[cid], d.site_xpos[sid], ax, 0.5) > 1e-3 and res > 1e-9:
    report('C27-slidercrank-cranklength-indexed-by-output',
           'slider-crank (actuator 1, output %d, cranklength 0.5) after an <orientation> actuator: length %r leaves the '
           'connecting rod %.3g too long/short: mj_transmission reads actuator_cranklength[outadr] (array is '
           'nactuator x 1) instead of [actuator id]' % (o, float(d.actuator_length[o]), res), xml)
  ck.case(nontrivial=True, key='probe1', labels=['probe:slidercrank-after-orientation'])
  # 2. tendon actuatorfrcrange with the default actuatorfrclimited="auto"
  xml = PROBE_TREE % ('<tendon><fixed name="t0" actuatorfrcrange="-1 2"><joint joint="j2" coef="2"/></fixed></tendon>'
                      '<actuator><motor name="a" tendon="t0"/></actuator>')
  m = lib.model_from_xml(xml)
  d = lib.make_data(m)
  d.ctrl[0] = 10.0
  lib.mj_forward(m, d)
  tot = float(d.actuator_force[0])
  if not m.tendon_actfrclimited[0] or abs(tot - 2.0) > 1e-12:
    report('C27-tendon-actuatorfrclimited-auto-ignored',
           'tendon actuatorfrcrange="-1 2" with actuatorfrclimited at its documented default "auto": '
           'tendon_actfrclimited=%d and a motor with ctrl=10 applies %r to the tendon (documented: clamped to 2); '
           'mjs_defaultTendon leaves actfrclimited at 0 (false) instead of mjLIMITED_AUTO' % (
               m.tendon_actfrclimited[0], tot), xml)
  ck.case(nontrivial=True, key='probe2', labels=['probe:tendon-actfrcrange-auto'])
  # 3. rotational length of site+refsite with locally rotated sites
  xml = PROBE_TREE % '<actuator><position name="a" site="s2" refsite="s0" gear="0 0 0 0 0 1" kp="1"/></actuator>'
  m = lib.model_from_xml(xml)
  d = lib.make_data(m)
  d.qpos[:4] = A.qexp([0.3, -0.2, 0.5])
  d.qpos[4] = 0.4
  lib.mj_forward(m, d)
  sid, rid = lib.mj_name2id(m, E.mjOBJ_SITE, 's2'), lib.mj_name2id(m, E.mjOBJ_SITE, 's0')
  rv = A.qlog(A.qmul(A.qconj(site_quat(d, rid)), site_quat(d, sid)))
  if abs(float(d.actuator_length[0]) - rv[2]) > 1e-9:
    report('C27-refsite-rotation-quat-order',
           'site+refsite, gear="0 0 0 0 0 1" ("Z-rotation of site in the refsite frame"): actuator_length=%r, rotation '
           'vector of q_refsite^-1 q_site from site_xmat has z=%r; mj_transmission composes the site orientation as '
           'site_quat*xquat instead of xquat*site_quat' % (float(d.actuator_length[0]), float(rv[2])), xml)
  ck.case(nontrivial=True, key='probe3', labels=['probe:refsite-rotation'])
  # 4. pid with integral action and slew limiting
  xml = PROBE_TREE % '<actuator><pid name="a" joint="j2" kp="2" ki="1" slewmax="1"/></actuator>'
  try:
    m = lib.model_from_xml(xml)
    if int(m.actuator_actnum[0]) != 2:
      raise Violation('pid with ki and slewmax has %d activation states, documented 2 ([slew, integral])' % m.actuator_actnum[0],
                      bucket='compile')
  except Violation:
    raise
  except Exception as e:
    report('C27-pid-ki-plus-slewmax-compile-error',
           '<pid ki="1" slewmax="1"> ("Each of these features, when enabled, adds one activation state, in the order '
           '[slew, integral]") does not compile: %s' % str(e)[:160], xml)
  ck.case(nontrivial=True, key='probe4', labels=['probe:pid-ki+slewmax'])
  # 5. actrange of an integrated-velocity servo on a ball joint
  xml = PROBE_TREE % '<actuator><intvelocity name="a" joint="j1" gear="1 0 0" kp="1" actrange="-1 1"/></actuator>'
  m = lib.model_from_xml(xml)
  d = lib.make_data(m)
  d.qpos[:4] = A.qexp([-3.0, 0, 0])
  d.act[0] = 1.0
  lib.mj_step(m, d)
  if not -1.0 <= float(d.act[0]) <= 1.0:
    report('C27-actrange-broken-by-circle-reanchor',
           '<intvelocity joint=ball gear="1 0 0" actrange="-1 1">, joint at -3 rad about x, act=1, ctrl=0: after mj_step '
           'act=%r, outside actrange ("the internal state (activation) ... is automatically clamped to actrange"): the '
           'circle re-anchoring in mj_advance runs after the clamp' % float(d.act[0]), xml)
  ck.case(nontrivial=True, key='probe5', labels=['probe:actrange-on-circle'])


def replay(ck, body):
  """./verif C27 --replay <violation file>: re-runs the recorded (model, state seed) case outside Hypothesis."""
  lib = ck.lib('rel')
  case = body['case']
  if 'case' in case:
    gmj, seed = case['case']
    gm = gen_act.ActModel.from_json(gmj)
    run_case(ck, lib, gm, int(seed))
  else:
    raise Violation('replay file has no generated case (finding probes carry only xml + seed): %s' % list(case))


LEVEL = 'exploration'
TECHNIQUE = ('property-based testing (Hypothesis): generated models x actuator programs x states against a reference '
             'model of the documented actuator laws, finite-difference moment-arm oracle, metamorphic option toggles')
LEVEL_TEXT = '''Generated trees x generated actuator blocks x states (ctrl/act inside, on and up to 100 ranges outside their
limits), each evaluated under five runtime option variants. Checked against the documented laws (vf/oracle/act.py):
ctrl clamping (ctrlrange/ctrllimited/clampctrl), act_dot for integrator/filter/filterexact/muscle, actearly (next
activation), gain fixed/affine/muscle, bias none/affine/muscle, forcerange, tendon and joint actuatorfrcrange, actuator
gravcomp, qfrc_actuator = moment^T force, group disable (zero force, activation not integrated), actuation flag, act after
mj_step (Euler/implicit/implicitfast: documented integration; all integrators: inside actrange); delayed controls
(delay/nsample/interp: the value read from the history buffer is clamped like a direct control); shortcut tables
(motor, position, velocity, intvelocity, damper, cylinder, muscle, adhesion, pid, orientation, stateless dcmotor) and
the limited/auto flag semantics against the compiled model. Transmission: lengths from their documented definitions,
actuator_moment against central finite differences of actuator_length (hinge/slide joints, fixed+spatial tendons,
slider-crank, site+static refsite with translational gear) or the documented wrench formulas (ball/free joint in
child/parent frame, site, site+refsite, SO3, body = -mean contact-normal Jacobian), velocity = moment.qvel. Sampled;
five fixed probes reproduce the recorded findings.'''
LEVEL_NOTE = '''Force-law oracle: general gain fixed/affine x bias none/affine x dyn none/integrator/filter/filterexact, motor, position
(+timeconst), velocity, intvelocity, damper, cylinder, muscle/general-muscle (FL in (lmin,0.95) and FP for L>1 against the
tree's MJX reference because doc/_static/FLV.m is stale there; act_dot only for act in [0,1]), adhesion, pid without
slewmax (incl. ki/imax integral state), orientation (expmap and quat chart, norm clamp), dcmotor without inductance
(torque = K/R (V - K ldot)). Invariants only (forcerange bound, moment arms, velocity, qfrc = moment^T force, tendon/joint
clamps): dcmotor with inductance, pid with slewmax. Circle semantics of servo setpoints on ball / rotational refsite
transmissions is required for the position (no filter) and intvelocity shortcuts, and either reading is accepted for
servo-shaped general actuators, filtered position and pid (documentation silent). Not asserted: distribution of a
tendon-level clamp among several actuators (only the total and sign/magnitude monotonicity), combination of tendon clamp
and forcerange (order undocumented), tendon actuatorfrcrange with gear != 1 (generator keeps gear 1 there), RK4 activation
integration (only the actrange invariant), interpolated delayed reads of a time-varying ctrl history (delay family: fresh
zero buffer and constant held control only), user/plugin types, dampratio/inheritrange, sleeping.
Tolerances: |a-b| <= K*scale with scale = sum of the absolute values of the terms of the compared expression; K_FORCE =
1e-11, K_LEN = K_MOM = K_QFRC = 1e-13, K_GEO = 1e-12, K_FD = 1e-5 (central differences, h = 1e-6): each >= 100x the worst
ratio observed on the unchanged tree over quick seeds 1-3, two thorough runs (19805 + 19778 cases) and an 11379-case run
(force 1.1e-13 = 90x, lengths 7.9e-16, moments 3.7e-16, qfrc 3.5e-16, FD 7.9e-8); all 24 mutants are still caught. Trusted: engine kinematics used by the oracle (site frames, ten_length, mj_jac*, contact
frames, qfrc_gravcomp), the verification build, clang record layouts.'''
