"""C28 - Sensors report the quantities they are documented to measure.

Domain : modelgen trees (1-5 bodies quick / 1-8 thorough; all joint types, tendons, actuators, equalities, plane,
         cameras, sites with random volumes) x 3-10 sensors drawn from every <sensor> element of the MJCF reference with
         every legal object / reference type, random order, random cutoff, 1/8 of them with a history buffer
         (nsample / delay / interval) x pseudo-random state (+ 0-3 mj_step so that contacts / limits are active).
Oracle : vf/oracle/sens.py (numpy; written from the documentation): each reading recomputed from the state; cutoff by
         documented datatype; plus slice isolation:
           (i)  sensordata pre-filled with a sentinel: every slice is written by mj_forward, slices are disjoint and
                cover [0, nsensordata); mj_computeSensor into a guarded buffer writes exactly sensor_dim numbers and
                reproduces the slice bit-exactly;
           (ii) rebuilding the model without sensor k and repeating the same procedure leaves every other sensor's
                reading bit-identical.
Non-trivial: a case containing a sensor attached to an object whose body is >= 2 levels deep, with a reference frame
         attached to a non-world body, evaluated with an oracle (not isolation-only), in a state with nefc > 0.
"""
import ctypes

import numpy as np
from hypothesis import strategies as st

from vf import gen_sens as gs
from vf import mj
from vf import modelgen as mg
from vf.oracle import sens as so
from vf.runner import Violation

SENT = np.float64(-7.25e77)
SENT_BITS = np.array([SENT]).view(np.uint64)[0]

# ---- tolerances (HARNESS rule 2).  got/want are compared as |got-want| <= tol where tol is supplied by the oracle
# (vf/oracle/sens.py, next to each law) as k * scale, scale = 1 + sum of the magnitudes of the terms that enter the law.
# k per class, calibrated on the unchanged tree (quick seeds 1-8 + two thorough runs of 12000 models) at >= ~100x the
# worst observed error (worst observed error / tolerance is written to the evidence on every run):
#   copy   : bit-exact ("copied from mjData.x" in the documentation; ballquat 8 eps)
#   pos    : 1e-13  frame positions/axes/quaternions, magnetometer, subtreecom, camprojection (worst observed 2e-16)
#   vel    : 1e-12  Jacobian products + rigid transport, momenta (worst observed 2.5e-15)
#   energy : 1e-12  (worst observed 3.4e-15)
#   limit  : 1e-13 / 1e-12 (worst observed 2e-16)
#   fd     : 2e-7   accelerations, force, torque: d/dt[J(q) qvel] by a central difference along the flow with
#                   h = 1e-5 / (1 + max body angular velocity): relative truncation (h w)^2/6 and round-off eps/(h w) are
#                   both ~2e-11; states are restricted to |qvel| <= 50, |qacc| <= 1e6 ('violent-state' discards).
#                   Worst observed 1.7e-9 (a 7-body chain spinning at 28 rad/s).
#   geom   : 1e-5   collision sensors, separated pairs with a closed form (opt.ccd_tolerance = 1e-6; worst observed 2e-7);
#            1e-3   penetrating pairs and pairs without a closed form (EPA depth on curved shapes: 1.6e-5 observed;
#                   reference without closed form = the engine's solver called with another distmax, moves by ~1e-5):
#                   narrow-phase accuracy is C15's subject, the sensor law (which pair, sign, cutoff) is what is judged
#   ray    : 1e-9   rangefinder (worst observed 6e-16)
# Mutants (mutants/C28) are all caught with these constants.


# Known findings (known_findings.json).  Policy: the oracle stays doc-faithful; the exact input class of an OPEN finding
# is excluded from the main stream by construction (vf/gen_sens.py `exclude=`; exclusions are counted in the evidence)
# and exercised by ONE dedicated probe that raises it through ck.violation(fingerprint=...).  Findings that were
# repaired in /repo are no longer excluded (the probes stay as regression tests and would raise a plain VIOLATION... via
# their fingerprint being status=fixed).
#   C28:static-acc          (fixed b662a89cd) accelerometer/framelinacc on dof-less bodies read 0     static_acc_probe
#   C28:rk4-delay           (OPEN)            RK4: delay>0 samples taken from the last RK stage      delay_probe
#   C28:ekinetic-stale      (fixed e04b1b088) e_kinetic one evaluation stale with the energy flag     ekinetic_probe
#   C28:multiray-cull       (fixed 286c65cab) camera rangefinder misses surfaces (mj_multiRay cull)   multiray_probe
#   C28:capsulebox-distmax  (fixed 4763a753d) capsule-box distance undetected for distmax > 1         capsulebox_probe
#   C28:multiray-noncolliding (OPEN)          camera rangefinder misses geoms with contype=conaffinity=0 multiray_probe
#   C28:ccd-concentric      (OPEN)            concentric convex geoms: distance 0 instead of the depth concentric_probe
OPEN_FINDINGS = ('rk4-delay', 'ccd-concentric', 'multiray-noncolliding')
ACC_KINDS = ('accelerometer', 'framelinacc', 'frameangacc')


def bits(a):
  return np.ascontiguousarray(a, dtype=np.float64).view(np.uint64)


def compile_with(lib, base_xml, sensors):
  m = lib.model_from_xml(gs.build_xml(base_xml, sensors))
  for i, s in enumerate(sensors):
    if s.get('poke'):
      m.sensor_cutoff[i] = s['poke']
  return m


def run_state(lib, m, seed, nsteps, mode='random'):
  """The procedure that defines 'the same state' for the metamorphic isolation check.
  mode 'settle' (touch family): start from qpos0 with a small random velocity and let the bodies settle."""
  d = lib.make_data(m)
  if mode == 'settle':
    rng = np.random.RandomState(seed)
    if m.nv:
      d.qvel[:] = rng.uniform(-0.05, 0.05, int(m.nv))
    for _ in range(nsteps):
      lib.mj_step(m, d)
    if m.nsensordata:
      d.sensordata[:] = SENT
    lib.mj_forward(m, d)
    return d
  rng = mg.apply_state(lib, m, d, seed)
  for _ in range(nsteps):
    lib.mj_step(m, d)
  if rng.rand() < 0.5:
    # un-normalised ball / free quaternions are a legal input (the engine normalises internally; ballquat is
    # documented to output a unit quaternion)
    for j in range(int(m.njnt)):
      t, a = int(m.jnt_type[j]), int(m.jnt_qposadr[j])
      if t == 1:
        d.qpos[a:a + 4] *= rng.uniform(0.5, 2.0)
      elif t == 0:
        d.qpos[a + 3:a + 7] *= rng.uniform(0.5, 2.0)
  if m.nsensordata:
    d.sensordata[:] = SENT
  lib.mj_forward(m, d)
  return d


def guarded(ck, lib, fn, *args):
  """Run an engine call of the dynamics pipeline; an mju_error that does not come from sensor code (e.g.
  'FactorizeHessian: rank-deficient sparse Hessian' for singular joint arrangements) is counted as a discard."""
  try:
    fn(*args)
    return True
  except mj.MjError as e:
    if 'ensor' in str(e):
      raise
    ck.discard('dynamics-mju_error:' + str(e).split(':')[0][:40])
    lib.warnings()
    return False


def obj_body(w, objtype, oid):
  E = w.E
  m = w.m
  if objtype in (E.mjOBJ_BODY, E.mjOBJ_XBODY):
    return oid
  if objtype == E.mjOBJ_GEOM:
    return int(m.geom_bodyid[oid])
  if objtype == E.mjOBJ_SITE:
    return int(m.site_bodyid[oid])
  if objtype == E.mjOBJ_CAMERA:
    return int(m.cam_bodyid[oid])
  if objtype == E.mjOBJ_JOINT:
    return int(m.jnt_bodyid[oid])
  return -1


def check_case(ck, lib, gm, seed, nsteps, stats):
  E = lib.enums
  info = gm.info
  mode = info.get('state_mode', 'random')
  sensors = [dict(s) for s in info['sensors']]
  rng = np.random.RandomState(seed ^ 0x5bd1e995)
  # axis / quaternion sensors: the compiler refuses a cutoff attribute, but mjModel.sensor_cutoff is a plain field
  # documented as "cutoff for real and positive": poke a positive value and require that it has no effect.
  for s in sensors:
    if so.datatype_of(s['kind']) in ('axis', 'quaternion') and s['kind'] != 'normal' and rng.rand() < 0.5:
      s['poke'] = float(rng.choice([0.01, 0.3]))
  try:
    m = compile_with(lib, info['base_xml'], sensors)
  except Exception:
    ck.discard('compile')
    return
  ns = int(m.nsensor)
  if ns != len(sensors):
    raise Violation('model has %d sensors, %d declared' % (ns, len(sensors)), bucket='nsensor')
  lib.warnings()
  d = None
  for nst in ([nsteps, 0] if nsteps else [0]):
    try:
      d = run_state(lib, m, seed, nst, mode)
    except mj.MjError as e:
      if 'ensor' in str(e):
        raise
      # mju_error raised by the dynamics pipeline (e.g. 'FactorizeHessian: rank-deficient sparse Hessian' for a
      # singular joint arrangement): not a sensor property (C30/C10 territory); counted, reported, not judged here
      ck.discard('dynamics-mju_error:' + str(e).split(':')[0][:40])
      lib.warnings()
      return
    wn = lib.warnings()
    bad = (wn or not np.all(np.isfinite(d.qacc)) or not np.all(np.isfinite(d.qpos)) or
           (m.nv and (np.max(np.abs(d.qvel)) > 50 or np.max(np.abs(d.qacc)) > 1e6)))
    if not bad:
      break
    d = None
  if d is None:
    # finite-difference accelerations are calibrated for |qvel| <= 50, |qacc| <= 1e6; diverged states are not a domain
    ck.discard('violent-state')
    return
  if nst != nsteps:
    ck.label('fallback-to-0-steps')
    nsteps = nst
  nsd = int(m.nsensordata)
  data = np.array(d.sensordata, dtype=np.float64)
  adr = np.array(m.sensor_adr, dtype=int)
  dim = np.array(m.sensor_dim, dtype=int)
  names = so._names(E)

  # ---------------- (i) layout: disjoint, covering, written
  cover = np.zeros(nsd, dtype=int)
  for i in range(ns):
    if adr[i] < 0 or dim[i] < 0 or adr[i] + dim[i] > nsd:
      raise Violation('sensor %d slice [%d,%d) outside [0,%d)' % (i, adr[i], adr[i] + dim[i], nsd), bucket='layout')
    cover[adr[i]:adr[i] + dim[i]] += 1
  if np.any(cover != 1):
    raise Violation('sensor slices are not a partition of [0,nsensordata): coverage counts %r' % cover.tolist(),
                    bucket='layout')
  for i in range(ns):
    sl = data[adr[i]:adr[i] + dim[i]]
    if np.any(bits(sl) == SENT_BITS):
      raise Violation('sensor %d (%s) did not write its whole slice during mj_forward: %r\n%s' % (
          i, sensors[i]['xml'], sl.tolist(), gm.xml), bucket='unwritten:' + sensors[i]['kind'])

  # ---------------- guarded recomputation: exactly sensor_dim numbers, same bits
  fn = getattr(lib.raw, 'mj_computeSensor', None)
  if fn is not None:
    fn.argtypes = [ctypes.c_void_p, ctypes.c_void_p, ctypes.c_int, ctypes.c_void_p]
    fn.restype = None
    for i in range(ns):
      if sensors[i]['kind'] == 'user':
        continue
      G = 6
      buf = np.full(dim[i] + 2 * G, SENT)
      fn(m.ptr, d.ptr, i, buf.ctypes.data + 8 * G)
      if np.any(bits(buf[:G]) != SENT_BITS) or np.any(bits(buf[G + dim[i]:]) != SENT_BITS):
        raise Violation('sensor %d (%s) wrote outside its %d-number slice: guard band %r / %r' % (
            i, sensors[i]['xml'], dim[i], buf[:G].tolist(), buf[G + dim[i]:].tolist()),
            bucket='overrun:' + sensors[i]['kind'])
      delayed = sensors[i]['hist'] is not None and ('delay' in sensors[i]['hist'] or 'interval' in sensors[i]['hist'])
      if not delayed and not np.array_equal(bits(buf[G:G + dim[i]]), bits(data[adr[i]:adr[i] + dim[i]])):
        raise Violation('sensor %d (%s): recomputation at the same state differs from sensordata: %r vs %r' % (
            i, sensors[i]['xml'], buf[G:G + dim[i]].tolist(), data[adr[i]:adr[i] + dim[i]].tolist()),
            bucket='recompute:' + sensors[i]['kind'])
    if not np.array_equal(bits(np.array(d.sensordata)), bits(data)):
      raise Violation('mj_computeSensor into a private buffer modified mjData.sensordata', bucket='overrun')

  # ---------------- the laws
  w = so.World(lib, m, d)
  nefc = int(d.nefc)
  case_nt = False
  rayonly_here = 0
  collision_here = 0
  for i in range(ns):
    s = sensors[i]
    kind = s['kind']
    ename = names[int(m.sensor_type[i])]
    got = data[adr[i]:adr[i] + dim[i]]
    cutoff = float(m.sensor_cutoff[i])
    dt = so.datatype_of(kind)
    tag = '%s|%s|%s' % (kind, s['obj'], s['ref'])
    body = obj_body(w, int(m.sensor_objtype[i]), int(m.sensor_objid[i]))
    rbody = obj_body(w, int(m.sensor_reftype[i]), int(m.sensor_refid[i])) if int(m.sensor_refid[i]) >= 0 else -1
    deep = body >= 0 and w.depth[body] >= 2
    # cutoff law that holds for every real / positive sensor regardless of the oracle
    if cutoff > 0 and kind not in ('contact', 'fromto', 'normal', 'user') and s['hist'] is None:
      if dt == 'real' and np.any(np.abs(got) > cutoff):
        raise Violation('%s: |value| exceeds cutoff=%g: %r' % (s['xml'], cutoff, got.tolist()), bucket='cutoff:' + kind)
      if dt == 'positive' and np.any(got > cutoff):
        raise Violation('%s: value exceeds cutoff=%g: %r' % (s['xml'], cutoff, got.tolist()), bucket='cutoff:' + kind)
    if s['hist'] is not None:
      stats['cov'][tag + '|isolation(history:%s)' % s['hist']] += 1
      continue
    if ('static-acc' in OPEN_FINDINGS and kind in ACC_KINDS and body >= 0 and
        int(m.body_dofnum[int(m.body_weldid[body])]) == 0):
      stats['findings']['excluded-static-acc-in-main-stream'] += 1     # 0 by construction of the generator
      continue
    if ('multiray-noncolliding' in OPEN_FINDINGS and kind == 'rangefinder' and int(m.sensor_objtype[i]) == E.mjOBJ_CAMERA
        and np.any((np.array(m.geom_contype) == 0) & (np.array(m.geom_conaffinity) == 0))):
      # known finding C28:multiray-noncolliding (mj_multiRay pre-culls whole bodies with the bounding sphere of the body
      # BVH, which does not contain geoms with contype=conaffinity=0): camera rangefinders in models that contain such
      # geoms are law-checked by multiray_probe() only; here they take part in the isolation checks
      stats['findings']['excluded-camera-rangefinder-in-main-stream'] += 1
      stats['cov'][tag + '|isolation(camera-rangefinder with non-colliding geoms: see multiray probe)'] += 1
      continue
    r = so.expect(w, i, s)
    level = r.level if r.mode != 'none' else 'isolation'
    stats['cov']['%s|%s%s' % (tag, level, ('(' + r.note + ')') if r.note else '')] += 1
    if r.mode == 'none':
      continue
    if kind == 'tendonactuatorfrc':
      # constellation counter: a NON-tendon actuator with a non-zero force whose transmission target id equals the
      # sensed tendon id numerically (must not be counted by the sensor)
      t_id = int(m.sensor_objid[i])
      for a_ in range(int(m.nu)):
        if (int(m.actuator_trntype[a_]) != E.mjTRN_TENDON and int(m.actuator_trnid[a_][0]) == t_id and
            abs(float(d.actuator_force[int(m.actuator_outadr[a_])])) > 1e-6):
          stats['tendonact_collision'] = stats.get('tendonact_collision', 0) + 1
          collision_here += 1
          break
    if kind == 'touch' and getattr(r, 'n_rayonly', 0):
      stats['touch_rayonly'] = stats.get('touch_rayonly', 0) + 1
      rayonly_here += 1
    ok, msg, ratio = True, '', 0.0
    if r.mode in ('exact', 'tol'):
      want = so.apply_cutoff(r.want, cutoff if kind not in ('contact', 'fromto', 'normal') else 0.0, dt)
      if want.shape != got.shape:
        ok, msg = False, 'dimension %d, documented %d' % (got.size, want.size)
      else:
        unchecked = getattr(r, 'unchecked', None)
        err = np.abs(got - want)
        if unchecked is not None:
          err = np.where(unchecked, 0.0, err)
        if r.mode == 'exact':
          ok = bool(np.all(err == 0))
        else:
          ok = bool(np.all(err <= r.tol))
          ratio = float(np.max(err) / r.tol) if r.tol > 0 and err.size else 0.0
        if not ok:
          msg = 'got %r, documented quantity %r (max err %.3g, tol %.3g)' % (got.tolist(), want.tolist(),
                                                                             float(np.max(err)), r.tol)
    elif r.mode == 'bounds':
      lo = float(so.apply_cutoff([r.lo], cutoff, dt)[0])
      hi = float(so.apply_cutoff([r.hi], cutoff, dt)[0])
      ok = lo - r.tol <= got[0] <= hi + r.tol
      msg = 'got %.17g, documented bracket [%.17g, %.17g]' % (got[0], lo, hi)
    elif r.mode == 'custom':
      ok, msg = r.check(got)
    if not ok:
      raise Violation('%s (type %s, object %s, reference %s, cutoff %g, nefc %d): %s\nstate: seed=%d nsteps=%d\n%s' % (
          s['xml'], ename, s['obj'], s['ref'], cutoff, nefc, msg, seed, nsteps, gm.xml), bucket='law:' + kind)
    if ratio > stats['worst'].get(r.cls, 0.0):
      stats['worst'][r.cls] = ratio
      stats.setdefault('worst_case', {})[r.cls] = dict(sensor=s['xml'], seed=seed, nsteps=nsteps, xml=gm.xml, ratio=ratio,
                                                       maxqvel=float(np.max(np.abs(d.qvel))) if m.nv else 0.0,
                                                       maxqacc=float(np.max(np.abs(d.qacc))) if m.nv else 0.0)
    if deep and nefc > 0:
      stats['deep'][kind] += 1
    if deep and nefc > 0 and rbody > 0 and level != 'isolation':
      case_nt = True
      stats['nt'][kind] += 1

  # ---------------- (ii) remove one sensor: all other readings bit-identical
  for k in range(ns):
    rest = sensors[:k] + sensors[k + 1:]
    m2 = compile_with(lib, info['base_xml'], rest)
    if int(m2.nsensordata) != nsd - dim[k]:
      raise Violation('removing sensor %d (%s, dim %d): nsensordata %d -> %d' % (k, sensors[k]['xml'], dim[k], nsd,
                                                                               int(m2.nsensordata)), bucket='layout')
    if not rest:
      continue
    d2 = run_state(lib, m2, seed, nsteps, mode)
    data2 = np.array(d2.sensordata, dtype=np.float64)
    for i in range(ns):
      if i == k:
        continue
      i2 = i if i < k else i - 1
      a2, n2 = int(m2.sensor_adr[i2]), int(m2.sensor_dim[i2])
      if n2 != dim[i] or not np.array_equal(bits(data2[a2:a2 + n2]), bits(data[adr[i]:adr[i] + dim[i]])):
        raise Violation('removing sensor %d (%s) changed the reading of sensor %d (%s): %r -> %r\nstate: seed=%d '
                        'nsteps=%d\n%s' % (k, sensors[k]['xml'], i, sensors[i]['xml'],
                                           data[adr[i]:adr[i] + dim[i]].tolist(), data2[a2:a2 + n2].tolist(), seed,
                                           nsteps, gm.xml), bucket='isolation:' + sensors[k]['kind'])
  stats['cases'] += 1
  stats['sensors'] += ns
  stats['gen_excluded'] = stats.get('gen_excluded', 0) + info.get('excluded_static_acc', 0)
  stats['rk4_excluded'] = stats.get('rk4_excluded', 0) + info.get('excluded_rk4_delay', 0)
  stats['ekin_excluded'] = stats.get('ekin_excluded', 0) + info.get('excluded_ekinetic_energyflag', 0)
  stats['capbox_excluded'] = stats.get('capbox_excluded', 0) + info.get('excluded_capsulebox_cutoff', 0)
  stats['samebody_excluded'] = stats.get('samebody_excluded', 0) + info.get('excluded_same_body_pairs', 0)
  if nefc > 0:
    stats['nefc>0'] += 1
  if info.get('family') == 'tendonact':
    # witness: a tendonactuatorfrc sensor coexisting with a forceful non-tendon actuator whose target id equals the
    # tendon id
    ck.case(nontrivial=collision_here > 0, key=(gm.xml, seed, nsteps),
            sample=dict(family='tendonact', sensors=[s['xml'] for s in sensors], seed=seed, nsteps=nsteps,
                        id_collision_sensors=collision_here,
                        readings=[data[adr[i]:adr[i] + dim[i]].tolist() for i in range(ns)][:8]),
            labels=['tendonact-family', 'tendonactfrc:id-collision' if collision_here else 'tendonactfrc:no-id-collision'])
    return
  if mode == 'settle':
    # touch family: the non-triviality witness is a touch sensor with a contact whose point is OUTSIDE the zone while
    # its normal ray hits it (re-projection clause)
    case_nt = rayonly_here > 0
    labels = ['touch-family', 'touch:ray-only-hit' if rayonly_here else 'touch:no-ray-only-hit']
    ck.case(nontrivial=case_nt, key=(gm.xml, seed, nsteps),
            sample=dict(family='touch', sensors=[s['xml'] for s in sensors], seed=seed, nsteps=nsteps, ncon=int(d.ncon),
                        ray_only_sensors=rayonly_here,
                        readings=[data[adr[i]:adr[i] + dim[i]].tolist() for i in range(ns)][:8]),
            labels=labels)
    return
  labels = ['nefc>0' if nefc else 'nefc=0', 'ncon>0' if int(d.ncon) else 'ncon=0', 'nsteps=%d' % nsteps]
  labels += sorted(set('type:' + s['kind'] for s in sensors))
  ck.case(nontrivial=case_nt, key=(gm.xml, seed, nsteps),
          sample=dict(sensors=[s['xml'] for s in sensors], seed=seed, nsteps=nsteps, nefc=nefc, ncon=int(d.ncon),
                      nbody=int(m.nbody), readings=[data[adr[i]:adr[i] + dim[i]].tolist() for i in range(ns)][:6]),
          labels=labels)


@st.composite
def static_acc_cases(draw):
  """Acceleration sensors on bodies whose weld root has no dofs: world, a body welded to the world, a child of it."""
  grav = [draw(mg.num(-3, 3, 1)), draw(mg.num(-3, 3, 1)), draw(mg.num(-10, -1, 1))]
  def site(name):
    return '<site name="%s" pos="%s" quat="%s"/>' % (name, mg.fmt([draw(mg.num(-0.5, 0.5)) for _ in range(3)]),
                                                    mg.fmt(draw(mg.unit_quat())))
  xml = ('<mujoco><option gravity="%s"/><worldbody>%s<body name="w1" pos="%s" quat="%s"><geom name="gw1" size=".1"/>%s'
         '<body name="w2" pos=".2 .1 0"><geom name="gw2" size=".05"/>%s</body></body>'
         '<body name="dyn" pos="0 1 1"><joint name="jd" type="%s"/><geom size=".1"/>%s</body></worldbody><sensor>' % (
             mg.fmt(grav), site('sw'), mg.fmt([draw(mg.num(-1, 1)) for _ in range(3)]), mg.fmt(draw(mg.unit_quat())),
             site('s1'), site('s2'), draw(st.sampled_from(['hinge', 'ball', 'free'])), site('sd')))
  sens = []
  for k in range(draw(st.integers(2, 6))):
    kind = draw(st.sampled_from(ACC_KINDS))
    if kind == 'accelerometer':
      sens.append(dict(kind=kind, xml='<accelerometer site="%s"/>' % draw(st.sampled_from(['sw', 's1', 's2'])), attrs={}))
    else:
      ot, on = draw(st.sampled_from([('site', 'sw'), ('site', 's1'), ('site', 's2'), ('body', 'w1'), ('xbody', 'w2'),
                                     ('geom', 'gw1'), ('geom', 'gw2'), ('xbody', 'world')]))
      sens.append(dict(kind=kind, xml='<%s objtype="%s" objname="%s"/>' % (kind, ot, on), attrs={}))
  return xml + ''.join(s['xml'] for s in sens) + '</sensor></mujoco>', sens, draw(mg.state_seed())


def static_acc_probe(ck, lib, n):
  hits = [0]

  def test(case):
    xml, sens, seed = case
    m = lib.model_from_xml(xml)
    d = lib.make_data(m)
    mg.apply_state(lib, m, d, seed)
    lib.mj_forward(m, d)
    w = so.World(lib, m, d)
    for i, s in enumerate(sens):
      got = np.array(d.sensordata[int(m.sensor_adr[i]):int(m.sensor_adr[i]) + 3])
      r = so.expect(w, i, s)
      err = np.abs(got - r.want)
      if np.all(err <= r.tol):
        continue
      if s['kind'] in ('accelerometer', 'framelinacc') and np.all(got == 0):
        # exactly the signature of the known finding: a zero reading where -gravity is documented
        ck.violation('%s on a body without dofs reads %r, documented (linear acceleration including gravity) %r\n%s'
                     % (s['xml'], got.tolist(), r.want.tolist(), xml), dict(xml=xml, seed=seed),
                     bucket='known:static-acc', fingerprint='C28:static-acc')
        hits[0] += 1
        continue
      raise Violation('%s on a static body: got %r documented %r\n%s' % (s['xml'], got.tolist(), r.want.tolist(), xml),
                      bucket='law:' + s['kind'])
    ck.case(nontrivial=False, key=(xml, seed), labels=['static-acc-probe'])
  ck.run_hypothesis(test, static_acc_cases(), n, name='static-acc-probe')
  ck.extra['static_acc_probe_hits'] = hits[0]


@st.composite
def capsulebox_cases(draw):
  def pose():
    return 'pos="%s" quat="%s"' % (mg.fmt([draw(mg.num(-1.5, 1.5)) for _ in range(3)]), mg.fmt(draw(mg.unit_quat())))
  cap = '<geom name="c" type="capsule" size="%s %s" %s/>' % (mg.fmt(draw(mg.num(0.02, 0.2))), mg.fmt(draw(mg.num(0.02, 0.3))), pose())
  box = '<geom name="b" type="box" size="%s" %s/>' % (mg.fmt([draw(mg.num(0.02, 0.3)) for _ in range(3)]), pose())
  cutoff = draw(st.sampled_from([0.3, 1.0, 2.0, 3.0, 5.0, 10.0]))
  swap = draw(st.booleans())
  el = draw(st.sampled_from(['distance', 'normal', 'fromto']))
  xml = ('<mujoco><worldbody><body>%s</body><body>%s</body></worldbody><sensor><%s geom1="%s" geom2="%s" cutoff="%s"/>'
         '</sensor></mujoco>' % (cap, box, el, 'b' if swap else 'c', 'c' if swap else 'b', mg.fmt(cutoff)))
  return xml, el, cutoff


def capsulebox_probe(ck, lib, n):
  """collision sensors on a capsule-box pair: 'cutoff defines the maximum distance at which collisions will be
  detected'; reference distance = distance from the capsule axis segment to the box minus the radius."""
  hits = [0]

  def test(case):
    xml, el, cutoff = case
    m = lib.model_from_xml(xml)
    d = lib.make_data(m)
    lib.mj_forward(m, d)
    w = so.World(lib, m, d)
    r = so.expect(w, 0, dict(kind=el, attrs={}))
    got = np.array(d.sensordata[:int(m.sensor_dim[0])])
    if r.mode == 'tol':
      ok = bool(np.all(np.abs(got - r.want) <= r.tol))
      msg = 'got %r documented %r' % (got.tolist(), r.want.tolist())
    elif r.mode == 'custom':
      ok, msg = r.check(got)
    else:
      ck.label('capsulebox-probe:' + (r.note or r.mode))
      return
    td = so.pair_true_distance(w, 0, 1)
    if td is None or td <= 1e-3:
      # overlapping capsule / box (no closed form; the analytic collider's depth and even its sign are unreliable when
      # the capsule axis pierces the box): narrow-phase accuracy is C13/C15's subject, not judged by this probe
      ck.label('capsulebox-probe:overlapping(not judged)')
      return
    if not ok:
      full = '%s: %s (true distance %r, cutoff %g)\n%s' % (el, msg, td, cutoff, xml)
      undetected = (got[0] == cutoff) if el == 'distance' else bool(np.all(got == 0))
      if r.level == 'oracle' and td is not None and 1e-3 < td < cutoff - 1e-3 and cutoff > 1 and undetected:
        ck.violation(full, dict(xml=xml), bucket='known:capsulebox-distmax', fingerprint='C28:capsulebox-distmax')
        hits[0] += 1
        return
      raise Violation(full, bucket='law:' + el)
    ck.case(nontrivial=False, key=xml, labels=['capsulebox-probe'])
  ck.run_hypothesis(test, capsulebox_cases(), n, name='capsulebox-probe')
  ck.extra['capsulebox_probe_hits'] = hits[0]


CONC_GEOMS = ['type="sphere" size="%s"', 'type="ellipsoid" size="%s %s %s"', 'type="capsule" size="%s %s"',
              'type="cylinder" size="%s %s"', 'type="box" size="%s %s %s"']


@st.composite
def concentric_cases(draw):
  def geom(name):
    t = draw(st.sampled_from(CONC_GEOMS))
    return '<geom name="%s" %s quat="%s"/>' % (name, t % tuple(mg.fmt(draw(mg.num(0.03, 0.2))) for _ in range(t.count('%s'))),
                                             mg.fmt(draw(mg.unit_quat())))
  off = draw(st.sampled_from(['0 0 0', '0 0 0', '1e-10 0 0', '0.01 0.005 0', '0.02 -0.01 0.015']))
  el = draw(st.sampled_from(['distance', 'distance', 'normal', 'fromto']))
  xml = ('<mujoco><worldbody><body pos="%s">%s</body><body pos="%s" quat="%s"><joint type="free"/>%s</body></worldbody>'
         '<sensor><%s geom1="a" geom2="b" cutoff="%s"/></sensor></mujoco>' % (
             mg.fmt([draw(mg.num(-1, 1)) for _ in range(3)]), geom('a'), off, mg.fmt(draw(mg.unit_quat())), geom('b'), el,
             draw(st.sampled_from(['0', '0.5']))))
  return xml, el, off


def concentric_probe(ck, lib, n):
  """collision sensors on two deeply overlapping convex geoms (each centre at least 1 cm inside the other geom): a
  collision must be detected with a negative distance not shallower than that (collision-sensors: 'negative
  distances (corresponding to geom-geom penetration) will be reported')."""
  hits = [0]
  from vf.oracle import geomref

  def test(case):
    xml, el, off = case
    m = lib.model_from_xml(xml)
    d = lib.make_data(m)
    # body 2 is free: place it relative to body 1
    d.qpos[:3] = np.array(m.body_pos[1]) + np.array([float(x) for x in off.split()])
    lib.mj_forward(m, d)
    s1 = geomref.shape_from_model(m, d, 0)
    s2 = geomref.shape_from_model(m, d, 1)
    depth = -max(geomref.sdf(s2, s1.pos), geomref.sdf(s1, s2.pos))     # both centres at least this deep inside
    if depth < 0.01:
      ck.label('concentric-probe:shallow')
      return
    got = np.array(d.sensordata[:int(m.sensor_dim[0])])
    if el == 'distance':
      bad = got[0] > -depth + 1e-6
      zero = got[0] >= -1e-9
    elif el == 'normal':
      bad = abs(np.linalg.norm(got) - 1) > 1e-9
      zero = bool(np.all(got == 0))
    else:
      bad = np.linalg.norm(got[3:] - got[:3]) < depth - 1e-6
      zero = np.linalg.norm(got[3:] - got[:3]) <= 1e-9
    if bad:
      concentric = np.linalg.norm(s1.pos - s2.pos) < 1e-6
      msg = '%s of two geoms whose centres are %.3g inside each other reads %r\n%s' % (el, depth, got.tolist(), xml)
      if concentric and zero:
        ck.violation(msg, dict(xml=xml), bucket='known:ccd-concentric', fingerprint='C28:ccd-concentric')
        hits[0] += 1
        return
      # a depth that is under-estimated but not zero (e.g. analytic capsule-box: -0.02 where both centres are 0.03
      # deep) is a narrow-phase accuracy question that belongs to C13/C15; counted, not judged by the sensor check
      ck.label('concentric-probe:depth-underestimated(C15 territory)')
      return
    ck.case(nontrivial=False, key=xml, labels=['concentric-probe'])
  ck.run_hypothesis(test, concentric_cases(), n, name='concentric-probe')
  ck.extra['concentric_probe_hits'] = hits[0]


@st.composite
def multiray_cases(draw):
  gm = draw(gs.sensor_models(max_bodies=5, max_sensors=3, min_sensors=1, history=False))
  cams = [c for c in gm.info['cameras']]
  if not cams:
    cams = ['cw']
    gm.info['base_xml'] = gm.info['base_xml'].replace('<worldbody>', '<worldbody><camera name="cw" pos="0.3 -0.4 1.2" '
                                                      'quat="0.9 0.3 0.1 0.2" resolution="3 2"/>', 1)
  # some geoms become non-colliding (visual) geoms: rays must still see them
  for g in gm.info['geoms']:
    tag = '<geom name="%s"' % g
    i0 = gm.info['base_xml'].index(tag)
    if 'contype' not in gm.info['base_xml'][i0:gm.info['base_xml'].index('/>', i0)] and draw(st.integers(0, 3)) == 0:
      gm.info['base_xml'] = gm.info['base_xml'].replace(tag, tag + ' contype="0" conaffinity="0"', 1)
  sens = []
  for k in range(draw(st.integers(1, 3))):
    a = dict(camera=draw(st.sampled_from(cams)))
    if draw(st.integers(0, 3)):
      a['data'] = ' '.join(draw(gs._subset_in_order(gs.RAY_FIELDS)))
    sens.append(dict(kind='rangefinder', obj='camera', ref='none', cutoff=0.0, hist=None, attrs=a,
                     xml='<rangefinder%s/>' % gs._attrs(a)))
  return gm.info['base_xml'], sens, draw(mg.state_seed())


def multiray_probe(ck, lib, n):
  """rangefinder attached to a perspective camera: one ray per pixel (row-major from the top-left pixel, through the
  pixel centres of the pinhole model that camprojection documents), nearest surface per ray, data fields."""
  hits = [0]
  E = lib.enums

  def test(case):
    base, sens, seed = case
    try:
      m = lib.model_from_xml(gs.build_xml(base, sens))
    except mj.MjError:
      ck.discard('compile')
      return
    d = lib.make_data(m)
    mg.apply_state(lib, m, d, seed)
    if not guarded(ck, lib, lib.mj_forward, m, d):
      return
    w = so.World(lib, m, d)
    for i, s in enumerate(sens):
      r = so.expect(w, i, s)
      if r.mode != 'tol':
        ck.label('multiray-probe:' + (r.note or r.mode))
        continue
      a, n_ = int(m.sensor_adr[i]), int(m.sensor_dim[i])
      got = np.array(d.sensordata[a:a + n_])
      err = np.abs(got - r.want)
      if np.all(err <= r.tol):
        continue
      # classify: per ray, did the engine miss a nearer surface (no hit, or a farther hit than the reference)?
      fields = (s['attrs'].get('data') or 'dist').split()
      size = sum(so.RAY_SIZE[f] for f in fields)
      cam = int(m.sensor_objid[i])
      p, R, b = w.frame(E.mjOBJ_CAMERA, cam)
      W, H = int(m.cam_resolution[cam][0]), int(m.cam_resolution[cam][1])
      f = 0.5 * H / np.tan(np.radians(float(m.cam_fovy[cam])) / 2)
      missed = other = noncol = 0
      k = 0
      for row in range(H):
        for col in range(W):
          sl = slice(k * size, (k + 1) * size)
          k += 1
          if np.all(err[sl] <= r.tol):
            continue
          dc = np.array([(col + 0.5 - W / 2) / f, -(row + 0.5 - H / 2) / f, -1.0])
          dr = R @ (dc / np.linalg.norm(dc))
          gid = np.zeros(1, dtype=np.int32)
          single = float(lib.mj_ray(m, d, p, dr, None, 1, b, gid, None))      # differential: single-ray API
          ref = so.ray_nearest(w, p, dr, b)[0]
          vec = np.ascontiguousarray(dr.reshape(1, 3))
          dist = np.zeros(1)
          lib.mj_multiRay(m, d, p, vec, None, 1, b, gid, dist, None, 1, 1e10)
          multi = float(dist[0])
          if abs(single - ref) <= 1e-9 * (1 + abs(ref)) and ref >= 0 and (multi < 0 or multi > ref + 1e-9):
            missed += 1
            g = int(gid[0])
            lib.mj_ray(m, d, p, dr, None, 1, b, gid, None)
            g = int(gid[0])
            if g >= 0 and int(m.geom_contype[g]) == 0 and int(m.geom_conaffinity[g]) == 0:
              noncol += 1
          else:
            other += 1
      msg = ('%s: got %r, documented %r; %d rays where mj_multiRay misses a surface that mj_ray and the reference hit, '
             '%d other mismatching rays\nseed=%d\n%s' % (s['xml'], got.tolist(), r.want.tolist(), missed, other, seed,
                                                       gs.build_xml(base, sens)))
      if missed and not other:
        # every missed surface belongs to a non-colliding geom -> open finding; otherwise the (repaired) cull finding
        fp = 'multiray-noncolliding' if noncol == missed else 'multiray-cull'
        ck.violation(msg + '\n(%d of the missed surfaces belong to geoms with contype=conaffinity=0)' % noncol,
                     dict(xml=gs.build_xml(base, sens), seed=seed), bucket='known:' + fp, fingerprint='C28:' + fp)
        hits[0] += 1
        continue
      raise Violation(msg, bucket='law:rangefinder-camera')
    ck.case(nontrivial=False, key=(base, seed, tuple(s['xml'] for s in sens)), labels=['multiray-probe'])
  ck.run_hypothesis(test, multiray_cases(), n, name='multiray-probe')
  ck.extra['multiray_probe_hits'] = hits[0]


@st.composite
def ekinetic_cases(draw):
  flag = draw(st.booleans())
  xml = ('<mujoco><option timestep="%s" integrator="%s">%s</option><worldbody><body pos="0 0 1">'
         '<joint type="%s" axis="0 1 0"/><geom type="capsule" fromto="0 0 0 %s 0 0" size=".05"/>'
         '<body pos=".3 0 0"><joint type="hinge" axis="%s"/><geom size=".07" pos=".1 0 .1"/></body></body></worldbody>'
         '<sensor>%s</sensor></mujoco>' % (
             mg.fmt(draw(mg.num(0.001, 0.01, 3))), draw(st.sampled_from(['Euler', 'RK4', 'implicit', 'implicitfast'])),
             '<flag energy="enable"/>' if flag else '', draw(st.sampled_from(['hinge', 'ball', 'free'])),
             mg.fmt(draw(mg.num(0.2, 0.6, 1))), mg.fmt([draw(st.integers(-2, 2)), draw(st.integers(-2, 2)), 1]),
             draw(st.sampled_from(['<e_kinetic/>', '<e_potential/><e_kinetic/>', '<jointvel joint="j"/><e_kinetic/>'
                                   ]).map(lambda x: x.replace('<jointvel joint="j"/>', '<clock/>')))))
  return dict(xml=xml, flag=flag, seed=draw(mg.state_seed()), nsteps=draw(st.integers(0, 4)))


def ekinetic_probe(ck, lib, n):
  """sensor/e_kinetic 'returns the kinetic energy' = 1/2 v'Mv (option/flag/energy) at the CURRENT state."""
  hits = [0]

  def test(c):
    m = lib.model_from_xml(c['xml'])
    d = lib.make_data(m)
    mg.apply_state(lib, m, d, c['seed'])
    for _ in range(c['nsteps']):
      lib.mj_step(m, d)
    lib.mj_forward(m, d)
    i = int(m.nsensor) - 1
    got = float(d.sensordata[int(m.sensor_adr[i])])
    want = 0.5 * float(d.qvel @ lib.fullM(m, d) @ d.qvel)
    if abs(got - want) > 1e-12 * (1 + abs(want)):
      msg = 'e_kinetic reads %.17g, 1/2 v.M.v = %.17g after %d steps (energy flag %s)\n%s' % (
          got, want, c['nsteps'], c['flag'], c['xml'])
      if c['flag']:
        ck.violation(msg, c, bucket='known:ekinetic-stale', fingerprint='C28:ekinetic-stale')
        hits[0] += 1
        return
      raise Violation(msg, bucket='law:e_kinetic')
    ck.case(nontrivial=False, key=(c['xml'], c['seed'], c['nsteps']), labels=['ekinetic-probe'])
  ck.run_hypothesis(test, ekinetic_cases(), n, name='ekinetic-probe')
  ck.extra['ekinetic_probe_hits'] = hits[0]


DELAY_SENSORS = ['<jointpos joint="j"%s/>', '<jointvel joint="j"%s/>', '<framepos objtype="site" objname="s"%s/>',
                 '<framelinvel objtype="site" objname="s" reftype="body" refname="a"%s/>', '<accelerometer site="s"%s/>',
                 '<gyro site="s"%s/>', '<force site="s"%s/>', '<subtreeangmom body="b"%s/>', '<framequat objtype="body" objname="b"%s/>',
                 '<actuatorfrc actuator="m"%s/>', '<touch site="s"%s/>', '<clock%s/>']


@st.composite
def delay_cases(draw):
  """Two-link arm on a floor; one sensor with delay = k timesteps (timestep 2^-9: all times exact), optionally a second
  acceleration-stage sensor; every integrator."""
  integ = draw(st.sampled_from(['Euler', 'RK4', 'implicit', 'implicitfast']))
  k = draw(st.integers(1, 3))
  ns = k + draw(st.integers(1, 2))
  sens = draw(st.sampled_from(DELAY_SENSORS))
  interp = draw(st.sampled_from(['', ' interp="zoh"']))
  other = draw(st.sampled_from(['', '<framelinacc objtype="site" objname="s"/>', '<torque site="s"/>',
                                '<user dim="1" needstage="acc"/>']))
  first = draw(st.booleans())
  h = 2.0 ** -9
  base = ('<mujoco><option timestep="%r" integrator="%s"/><worldbody><geom type="plane" size="2 2 .1"/>'
          '<body name="a" pos="0 0 %s"><joint name="j" type="hinge" axis="0 1 0" damping="%s"/>'
          '<geom type="capsule" fromto="0 0 0 .3 0 0" size=".04"/><body name="b" pos=".3 0 0">'
          '<joint name="j2" type="%s" axis="0 0 1"/><geom type="sphere" size=".06" pos=".1 0 0"/>'
          '<site name="s" pos=".1 0.02 0" size=".1" quat="%s"/></body></body></worldbody>'
          '<actuator><motor name="m" joint="j" gear="%s"/></actuator>' % (
              h, integ, mg.fmt(draw(mg.num(0.05, 0.6))), mg.fmt(draw(mg.num(0, 1))),
              draw(st.sampled_from(['hinge', 'ball'])), mg.fmt(draw(mg.unit_quat())), mg.fmt(draw(mg.num(0.5, 3, 1)))))
  mode = draw(st.sampled_from(['delay', 'delay', 'interval']))
  if mode == 'delay':
    dl = ' nsample="%d" delay="%r"%s' % (ns, k * h, interp)
  else:
    k = k + 1
    dl = ' nsample="%d" interval="%r"%s' % (ns, k * h, interp)
  a, b = sens % dl, sens % ''
  def block(x):
    return '<sensor>%s</sensor></mujoco>' % ((other + x) if first else (x + other))
  return dict(integ=integ, k=k, mode=mode, delayed=base + block(a), plain=base + block(b), idx=(1 if (first and other) else 0),
              seed=draw(mg.state_seed()), nsteps=k + draw(st.integers(0, 5)), sensor=a)


def delay_probe(ck, lib, n):
  """CSensor/delay: 'sensor values in sensordata are read from the history buffer at time - delay'.  With delay = k
  timesteps and zero-order hold the delayed reading at time t is the undelayed reading of the same model at t - k h,
  bit for bit (both are produced by the same sensor code on the same state)."""
  hits = [0]

  def test(c):
    m1 = lib.model_from_xml(c['delayed'])
    m2 = lib.model_from_xml(c['plain'])
    d1, d2 = lib.make_data(m1), lib.make_data(m2)
    for d, m in ((d1, m1), (d2, m2)):
      mg.apply_state(lib, m, d, c['seed'], pos_scale=0.5)
    i = c['idx']
    a1, n1 = int(m1.sensor_adr[i]), int(m1.sensor_dim[i])
    a2 = int(m2.sensor_adr[i])
    past = []
    for step in range(c['nsteps'] + 1):
      lib.mj_forward(m1, d1)
      lib.mj_forward(m2, d2)
      past.append(np.array(d2.sensordata[a2:a2 + n1]))
      if c['mode'] == 'interval':
        # CSensor/interval: recomputed at t = 0, period, 2 period ...; in between sensordata holds the last value
        got = np.array(d1.sensordata[a1:a1 + n1])
        want = past[(step // c['k']) * c['k']]
        if not np.array_equal(bits(got), bits(want)):
          raise Violation('%s (integrator %s): reading at step %d is %r, the last tick (step %d) computed %r, the '
                          'undelayed sensor now reads %r\n%s' % (c['sensor'], c['integ'], step, got.tolist(),
                                                                 (step // c['k']) * c['k'], want.tolist(),
                                                                 past[step].tolist(), c['delayed']),
                          bucket='interval:' + c['integ'])
      elif step >= c['k']:
        got = np.array(d1.sensordata[a1:a1 + n1])
        want = past[step - c['k']]
        if not np.array_equal(bits(got), bits(want)):
          msg = ('%s (integrator %s): reading at t=%g is %r, the undelayed sensor read %r at t - delay (and %r now)\n%s'
                 % (c['sensor'], c['integ'], d1.time, got.tolist(), want.tolist(), past[step].tolist(), c['delayed']))
          if c['integ'] == 'RK4':
            ck.violation(msg, c, bucket='known:rk4-delay', fingerprint='C28:rk4-delay')
            hits[0] += 1
            return
          raise Violation(msg, bucket='delay:' + c['integ'])
      lib.mj_step(m1, d1)
      lib.mj_step(m2, d2)
    ck.case(nontrivial=False, key=(c['delayed'], c['seed']), labels=['delay-probe', 'delay-probe:%s:%s' % (c['mode'], c['integ'])])
  ck.run_hypothesis(test, delay_cases(), n, name='delay-probe')
  ck.extra['rk4_delay_probe_hits'] = hits[0]


def main(ck):
  import collections
  lib = ck.lib('rel')
  stats = dict(cov=collections.Counter(), worst={}, deep=collections.Counter(), nt=collections.Counter(), cases=0,
               sensors=0)
  stats['nefc>0'] = 0
  stats['findings'] = collections.Counter()
  stats['gen_excluded'] = 0
  ck.rule = ('modelgen tree + 3-10 random sensor elements (vf/gen_sens.py) x seed-derived state (+0-3 steps); '
             'non-trivial = the case contains a sensor on an object whose body is >= 2 levels deep, with a reference '
             'frame on a non-world body, checked against the independent oracle, in a state with nefc > 0; distinct by '
             '(model xml, state seed, steps)')
  ck.assumptions = [
      'trusted engine quantities: frame poses (C07), mj_jac (C07), qacc, contact list and mj_contactForce (C11/C13), '
      'efc rows, ten_length/ten_velocity/actuator_* (C27), mj_fullM (C06)',
      'accelerometer / framelinacc report a - g (accelerometer doc: "including gravity"; framelinacc uses the same cacc)',
      'force/torque: wrench exerted on the child by the parent, torque about the site origin; external Cartesian loads '
      '= gravity, xfrc_applied, contacts; active connect/weld equalities and world-body sites -> isolation only; '
      'spatial tendons are not external loads (documented known bug of cfrc_int, issue 832)',
      'touch: sum of the normal forces of the contacts that involve the site body and lie inside the zone or whose '
      'normal ray, cast from the contact point out of the sensor body, meets the zone (contacts between two geoms of '
      'the sensor body itself: bracketed with the full normal line)',
      'sensors with nsample>0 (history/delay/interval): slice isolation in the generated stream; the delay / interval '
      'semantics (reading = undelayed reading k steps earlier / at the last tick, bit-exact) are checked by delay_probe',
      'tendonactuatorfrc = sum of the scalar actuator_force of the actuators whose transmission is that tendon (gear '
      'not applied: the documentation says "total force contributed by all actuators to a single tendon")',
      'distance sensor: value clipped to [-cutoff, cutoff] when cutoff > 0 (generic cutoff rule + collision rule)',
      'quaternion readings are compared as rotations (q and -q are the same orientation)',
  ]
  maxb = 5 if ck.quick else 8
  strat = st.tuples(gs.sensor_models(max_bodies=maxb, max_sensors=10, exclude=OPEN_FINDINGS), mg.state_seed(), st.integers(0, 3))

  def test(case):
    gm, seed, nsteps = case
    check_case(ck, lib, gm, seed, nsteps, stats)
  ck.run_hypothesis(test, strat, ck.budget(600, 10000), name='sensors')
  # touch family: thin pads / dots / discs on contact surfaces (re-projection clause of the touch law)
  ck.run_hypothesis(test, st.tuples(gs.touch_models(), mg.state_seed(), st.integers(5, 40)), ck.budget(150, 2500),
                    name='touch-family')
  ck.extra['touch_sensors_with_ray_only_hit'] = stats.get('touch_rayonly', 0)
  # tendon-actuator-force family: non-tendon actuators whose target id coincides with the sensed tendon id
  ck.run_hypothesis(test, st.tuples(gs.tendonact_models(), mg.state_seed(), st.integers(0, 2)), ck.budget(120, 2000),
                    name='tendonact-family')
  ck.extra['tendonactfrc_sensors_with_id_collision'] = stats.get('tendonact_collision', 0)
  static_acc_probe(ck, lib, ck.budget(20, 300))
  delay_probe(ck, lib, ck.budget(40, 600))
  ekinetic_probe(ck, lib, ck.budget(30, 300))
  multiray_probe(ck, lib, ck.budget(120, 3000))
  capsulebox_probe(ck, lib, ck.budget(60, 1000))
  concentric_probe(ck, lib, ck.budget(60, 1000))
  ck.extra['coverage_by_type_object_reference_level'] = dict(sorted(stats['cov'].items()))
  ck.extra['worst_error_over_tolerance_by_class'] = stats['worst']
  ck.extra['worst_case_by_class'] = {k: {a: b for a, b in v.items() if a != 'xml'}
                                     for k, v in stats.get('worst_case', {}).items()}
  ck.extra['deep_and_nefc_by_type'] = dict(stats['deep'])
  ck.extra['nontrivial_by_type'] = dict(stats['nt'])
  ck.extra['cases_with_nefc>0'] = stats['nefc>0']
  ck.extra['sensors_evaluated'] = stats['sensors']
  ck.extra['known_finding_exclusions_from_main_stream'] = {
      'static-acc: acceleration-sensor attachment candidates on dof-less bodies removed by the generator':
          stats['gen_excluded'],
      'static-acc: such sensors reaching the main stream (0 by construction)':
          stats['findings'].get('excluded-static-acc-in-main-stream', 0),
      'rk4-delay: history sensors drawn without delay because integrator=RK4': stats.get('rk4_excluded', 0),
      'ekinetic-stale: e_kinetic replaced because the energy flag is enabled': stats.get('ekin_excluded', 0),
      'multiray-noncolliding: camera rangefinders in models with contype=conaffinity=0 geoms kept isolation-only':
          stats['findings'].get('excluded-camera-rangefinder-in-main-stream', 0),
      'capsulebox-distmax: collision sensors with a capsule-box pair restricted to cutoff <= 1':
          stats.get('capbox_excluded', 0),
      'ccd-concentric: same-body geom candidates removed from collision sensors by the generator':
          stats.get('samebody_excluded', 0),
      'ccd-concentric: collision sensors with coincident geom centres reaching the main stream (isolation only)':
          sum(v for k, v in stats['cov'].items() if 'concentric-geoms' in k)}

def replay(ck, body):
  """./verif C28 --replay <violation file of the generated stream>: re-run the case (model xml, state seed, steps)."""
  import collections
  import re
  lib = ck.lib('rel')
  c = body['case']['case']
  x = c[0]['xml']
  i = x.index('<sensor>')
  sens = []
  for mt in re.finditer(r'<(\w+)((?: [a-z0-9_]+="[^"]*")*)/>', x[i + 8:x.index('</sensor>')]):
    attrs = dict(re.findall(r' ([a-z0-9_]+)="([^"]*)"', mt.group(2)))
    hist = None
    if 'nsample' in attrs:
      hist = '+'.join(k for k in ('delay', 'interval') if k in attrs) or 'history'
    sens.append(dict(xml=mt.group(0), kind=mt.group(1), obj='?', ref='?', cutoff=float(attrs.get('cutoff', 0)),
                     hist=hist, attrs=attrs))
  gm = mg.GenModel(x, dict(base_xml=x[:i] + '</mujoco>', sensors=sens))
  stats = dict(cov=collections.Counter(), worst={}, deep=collections.Counter(), nt=collections.Counter(), cases=0,
               sensors=0, findings=collections.Counter())
  stats['nefc>0'] = 0
  try:
    check_case(ck, lib, gm, int(c[1]), int(c[2]), stats)
  except Violation as e:
    ck.violation('Violation: %s' % e, body['case'], bucket=getattr(e, 'bucket', None))
  print('replayed: %s' % dict(stats['cov']))


LEVEL = 'exploration'
TECHNIQUE = ('property-based testing (Hypothesis): generated models x generated sensor blocks x generated states, '
             'reference model of every documented sensor law + metamorphic slice isolation')
LEVEL_TEXT = '''Generated kinematic trees with every sensor element of the MJCF reference (every legal object and
reference type, random cutoff, random order) are evaluated at generated states with active contacts and limits; each
reading is compared with the documented quantity recomputed in numpy, cutoff clamping by datatype is checked, and the
slice discipline is checked by a sentinel fill, a guarded recomputation and by removing each sensor in turn.'''
LEVEL_NOTE = '''Trusted: frame poses, point Jacobians, contact list/forces, efc rows, tendon/actuator lengths and the
mass matrix of the engine (covered by C06/C07/C11/C13/C27). Sensors with a history buffer are covered by slice isolation
in the generated stream and by a dedicated delay/interval law on a small arm model; user sensors by isolation only;
orthographic-camera rangefinders, force/torque with active connect/weld, fragile (boundary) cases: isolation only;
tactile and plugin sensors are not generated. Six deviations from the documentation were found and reported (four
repaired in /repo, two open: C28:rk4-delay, C28:ccd-concentric - their input classes are excluded from the generated
stream by construction and raised by dedicated probes).'''
