"""C29 - Passive forces follow their physical laws.

Domain : generated contact-free models with joint springs on every joint type (hinge, slide, ball and free quaternion
         springs, polynomial coefficients), tendon springs with springlength dead-band, joint/tendon/actuator damping
         (polynomial), gravity compensation fractions in [0,1.5] (passive or routed through actuators), disable flags
         spring/damper/gravity/actuation, random states + the rest state at the spring reference.
Oracle : documented laws re-implemented in numpy (vf/oracle/dyn.py): qfrc_spring = -f(q (-) springref) per joint and
         -J' f(L - L0) per tendon, also == -grad(energy[0]) by manifold central differences; qfrc_damper = -f(v) with
         power qvel.qfrc_damper <= 0; qfrc_gravcomp = -c J_com' m g and the metamorphic relation "gravcomp=1 on every
         body == gravity disabled"; rest state has exactly zero passive force; qfrc_passive is the sum of its parts
         with the documented flag semantics.
Non-trivial: a quaternion-joint spring with non-zero deflection, or a tendon spring outside its dead-band.
"""
import xml.etree.ElementTree as ET

import numpy as np
from hypothesis import strategies as st

from vf import gen_smooth as gs
from vf import modelgen as mg
from vf.oracle import dyn, kin
from vf.runner import Violation

EPS = np.finfo(np.float64).eps
K_LAW = 600        # engine vs reference law, eps-scaled by the magnitude of the summed terms (worst observed ~6 eps)
H_FD = 1e-6
TOL_GRAD = 3e-8    # FD gradient, relative to the force/energy scale (worst observed ~3e-10)


@st.composite
def model_strategy(draw, quick):
  fl = {}
  for f in ('spring', 'damper', 'gravity', 'actuation'):
    if draw(st.integers(0, 7)) == 0:
      fl[f] = 'disable'
  fl['energy'] = 'enable'
  fl['contact'] = 'disable'
  g = [draw(mg.num(-3, 3, 1)), draw(mg.num(-3, 3, 1)), draw(mg.num(-10, 2, 1))] if draw(st.booleans()) else [0, 0, -9.81]
  opt = '<option timestep="0.002" gravity="%s"><flag%s/></option>' % (mg.fmt(g), ''.join(' %s="%s"' % kv for kv in fl.items()))
  gm = draw(gs.smooth_models(max_bodies=5 if quick else 9, max_joints=3, tendons=True, actuators=True, opt=opt,
                             stateful_actuators=False, joint_kwargs=dict(limits=False, frictionloss=False)))
  root = ET.fromstring(gm.xml)
  labels = set(gm.info['labels'])
  if 'gravcomp' in labels:
    for j in root.find('worldbody').iter('joint'):
      if j.get('type') != 'free' and draw(st.integers(0, 4)) == 0:
        j.set('actuatorgravcomp', 'true')
        labels.add('actuatorgravcomp')
  gm.xml = ET.tostring(root, encoding='unicode')
  gm.info['labels'] = sorted(labels)
  gm.info['flags'] = fl
  return gm


F6_XML = ('<mujoco><worldbody><body gravcomp="1"><joint type="hinge" axis="0 1 0" actuatorgravcomp="true"/><geom size="0.1" pos="0.3 0 0"/>'
          '</body></worldbody></mujoco>')


def probes(ck, lib):
  """Deterministic probe: gravcomp=1 routed through actuators in a model that has no actuator must still cancel gravity."""
  m = lib.model_from_xml(F6_XML)
  d = lib.make_data(m)
  lib.mj_forward(m, d)
  applied = float(d.qfrc_passive[0] + d.qfrc_actuator[0])
  if abs(applied - float(d.qfrc_gravcomp[0])) > 1e-9 or abs(float(d.qacc[0])) > 1e-6:
    ck.violation('actuatorgravcomp without any actuator: qfrc_gravcomp = %.9g but qfrc_passive + qfrc_actuator = %.9g, qacc = %.6g '
                 '(expected 0: gravcomp=1)' % (d.qfrc_gravcomp[0], applied, d.qacc[0]), dict(xml=F6_XML),
                 bucket='probe-actgravcomp-no-actuator', fingerprint='C29:actuatorgravcomp-no-actuator')
  ck.label('probe:F6')


def main(ck):
  lib = ck.lib('rel')
  if not getattr(ck, '_replaying', False):
    probes(ck, lib)
  E = lib.enums
  worst = {}
  stats = dict(actgravcomp_without_actuator=0)

  def track(name, r):
    if r > worst.get(name, 0):
      worst[name] = float(r)

  def close(name, a, b, scale, tol, what, bucket):
    a = np.asarray(a, dtype=np.float64)
    b = np.asarray(b, dtype=np.float64)
    if a.size == 0:
      return
    r = np.abs(a - b) / (tol * (np.asarray(scale, dtype=np.float64) + 1e-300))
    track(name, r.max())
    if not np.all(r <= 1):
      i = np.unravel_index(int(np.argmax(r)), r.shape)
      raise Violation('%s: engine %.15g vs reference %.15g at %s (|diff| %.3g, allowed %.3g)' % (
          what, a[i], b[i], tuple(int(x) for x in i), abs(a[i] - b[i]), abs(a[i] - b[i]) / r[i]), bucket=bucket)

  ck.rule = ('gen_smooth models (1-5 bodies quick / 1-9 thorough) with springs on all joint types, polynomial '
             'stiffness/damping, tendon dead-bands, actuator damping, gravcomp, random disable flags x (random state, rest '
             'state); non-trivial = ball/free joint spring deflected by > 1e-3 rad or a tendon spring outside its '
             'dead-band (and springs enabled); distinct by (xml, state seed)')
  ck.assumptions = [
      'damping coefficients are generated non-negative (sign-preserving polynomials), the documented precondition for '
      'dissipation',
      'joints with actuatorgravcomp in a model without any actuator: the engine applies the compensation nowhere '
      '(mj_fwdActuation returns early); counted and reported, not alarmed',
      'fluid forces are not generated here (qfrc_fluid == 0 is asserted)']

  def test(case):
    gm, seed = case
    try:
      m = lib.model_from_xml(gm.xml)
    except Exception:
      ck.discard('compile')
      return
    nv = m.nv
    if nv == 0:
      ck.discard('nv=0')
      return
    _, fl = gs.opt_info(lib, m)
    sp_on, da_on = 'spring' not in fl, 'damper' not in fl
    gr_on, ac_on = 'gravity' not in fl, 'actuation' not in fl
    d = lib.make_data(m)
    rng = mg.apply_state(lib, m, d, seed, vel_scale=3.0, pos_scale=1.0, forces=False)
    lib.mj_forward(m, d)
    S = kin.snap(m)
    q0, v0 = np.array(d.qpos), np.array(d.qvel)
    k = kin.fk(S, q0)
    labels = gs.brief(gm.labels(), ('spring:', 'damping:', 'gravcomp', 'tendon:')) + gs.classify(lib, m) + ['flag:%s-off' % f for f in fl if fl[f] == 'disable']
    g = S.gravity if gr_on else np.zeros(3)

    fs, fd, fg, ff, fp = (np.array(getattr(d, n)) for n in ('qfrc_spring', 'qfrc_damper', 'qfrc_gravcomp', 'qfrc_fluid', 'qfrc_passive'))
    all_off = not sp_on and not da_on

    # ---- springs
    ref_s = dyn.spring_force(S, k) if sp_on else np.zeros(nv)
    L, J = kin.tendon(S, k) if m.ntendon else (np.zeros(0), np.zeros((0, nv)))
    sscale = 1 + np.abs(ref_s).max() + (np.abs(J).T @ np.abs(np.array(m.tendon_stiffness)) * (1 + np.abs(L).max()) if m.ntendon else 0)
    close('spring-law', fs, ref_s, sscale, K_LAW * EPS, 'qfrc_spring vs documented spring law', 'spring-law')
    # ---- dampers
    ref_d = dyn.damper_force(S, k, v0) if da_on else np.zeros(nv)
    dscale = 1 + np.abs(ref_d).max() + (np.abs(J).T @ (np.abs(J) @ np.abs(v0)) * 10 if m.ntendon else 0)
    close('damper-law', fd, ref_d, dscale, K_LAW * EPS, 'qfrc_damper vs documented damping law', 'damper-law')
    power = float(v0 @ fd)
    if power > 64 * EPS * float(np.abs(v0) @ np.abs(fd)) + 1e-300:
      raise Violation('damping adds energy: qvel.qfrc_damper = %.3g > 0' % power, bucket='damper-power')
    # ---- gravity compensation
    ref_g = dyn.gravcomp_force(S, k, g) if (gr_on and not all_off) else np.zeros(nv)
    gscale = 1 + sum(abs(float(S.body_gravcomp[b])) * float(S.body_mass[b]) * np.linalg.norm(g) * (1 + 2 * np.abs(k.xpos).max()) for b in range(1, m.nbody))
    close('gravcomp-law', fg, ref_g, gscale, K_LAW * EPS, 'qfrc_gravcomp vs -c J_com\' m g', 'gravcomp-law')
    if np.any(ff != 0):
      raise Violation('qfrc_fluid non-zero without a medium', bucket='fluid-zero')
    # ---- flags
    if not sp_on and np.any(fs != 0):
      raise Violation('spring flag disabled but qfrc_spring != 0', bucket='flags')
    if not da_on and np.any(fd != 0):
      raise Violation('damper flag disabled but qfrc_damper != 0', bucket='flags')
    if all_off and (np.any(fp != 0) or np.any(fg != 0)):
      raise Violation('spring and damper disabled: all passive forces must vanish (documented)', bucket='flags')
    # ---- total = sum of parts; gravcomp of joints with actuatorgravcomp goes to qfrc_actuator instead
    actg = np.array([bool(m.jnt_actgravcomp[int(m.dof_jntid[i])]) for i in range(nv)])
    total = fs + fd + np.where(actg, 0.0, fg)
    close('passive-sum', fp, total, 1 + np.abs(fs) + np.abs(fd) + np.abs(fg), 8 * EPS, 'qfrc_passive vs spring+damper+gravcomp', 'passive-sum')
    if np.any(actg) and np.any(fg[actg] != 0):
      labels.append('actgravcomp-active')
      # actuator part: qfrc_actuator - moment' * actuator_force == gravcomp on those dofs (joint force clamping not generated)
      if int(m.nactuator) > 0 and ac_on:
        nout = len(np.array(d.actuator_force))
        Mom = np.zeros((nout, nv))
        rn, ra, ci, mv = (np.array(getattr(d, n)) for n in ('moment_rownnz', 'moment_rowadr', 'moment_colind', 'actuator_moment'))
        for r in range(nout):
          Mom[r, ci[ra[r]:ra[r] + rn[r]]] = mv[ra[r]:ra[r] + rn[r]]
        fa = np.array(d.qfrc_actuator) - Mom.T @ np.array(d.actuator_force)
        asc = gscale + np.abs(Mom.T) @ np.abs(np.array(d.actuator_force))
        close('actuator-gravcomp', fa[actg], fg[actg], asc[actg], K_LAW * EPS, 'gravcomp routed through qfrc_actuator', 'actuator-gravcomp')
      elif int(m.nactuator) == 0:
        stats['actgravcomp_without_actuator'] += 1
        labels.append('carved:actgravcomp-no-actuator')

    # ---- spring force is minus the gradient of the reported potential (gravity disabled)
    if sp_on:
      dg = lib.make_data(m)

      def potential(q):
        dg.qpos[:] = q
        flags = int(m.opt.disableflags)
        m.opt.disableflags = flags | E.mjDSBL_GRAVITY
        try:
          lib.mj_fwdPosition(m, dg)
          lib.mj_energyPos(m, dg)
        finally:
          m.opt.disableflags = flags
        return float(dg.energy[0])
      grad = np.zeros(nv)
      for i in range(nv):
        e = np.zeros(nv)
        e[i] = 1
        qp, qm = q0.copy(), q0.copy()
        lib.mj_integratePos(m, qp, e, H_FD)
        lib.mj_integratePos(m, qm, e, -H_FD)
        grad[i] = (potential(qp) - potential(qm)) / (2 * H_FD)
      close('spring-grad', fs, -grad, 1 + np.abs(fs).max() + abs(potential(q0)), TOL_GRAD, 'qfrc_spring vs -grad energy[0]', 'spring-gradient')
      close('potential-law', potential(q0), dyn.spring_energy(S, k), 1 + abs(dyn.spring_energy(S, k)), K_LAW * EPS, 'spring potential vs reference', 'potential-law')

    # ---- metamorphic: gravcomp = 1 everywhere cancels gravity exactly like disabling gravity
    if gr_on and not all_off and np.linalg.norm(g) > 0:
      m1 = lib.copy_model(m)
      m1.body_gravcomp[1:] = 1.0
      m1.flg_gravcomp = 1
      m1.jnt_actgravcomp[:] = 0
      d1 = lib.make_data(m1)
      d1.qpos[:] = q0
      d1.qvel[:] = v0
      lib.mj_fwdPosition(m1, d1)
      lib.mj_fwdVelocity(m1, d1)
      m0 = lib.copy_model(m)
      m0.body_gravcomp[:] = 0.0
      m0.opt.disableflags = int(m0.opt.disableflags) | E.mjDSBL_GRAVITY
      d0 = lib.make_data(m0)
      d0.qpos[:] = q0
      d0.qvel[:] = v0
      lib.mj_fwdPosition(m0, d0)
      lib.mj_fwdVelocity(m0, d0)
      net1 = np.array(d1.qfrc_passive) - np.array(d1.qfrc_bias)
      net0 = np.array(d0.qfrc_passive) - np.array(d0.qfrc_bias)
      wscale = 1 + np.abs(np.array(d1.qfrc_bias)).max() + np.abs(np.array(d1.qfrc_gravcomp)).max() + np.abs(np.array(d1.qfrc_passive)).max()
      close('gravcomp-cancels-gravity', net1, net0, wscale * (1 + 2 * np.abs(k.xpos).max()), K_LAW * EPS,
            'passive-bias with gravcomp=1 vs gravity disabled', 'gravcomp-metamorphic')

    # ---- rest state: at the spring reference, zero velocity, gravity off -> no passive force at all
    mr = lib.copy_model(m)
    mr.opt.disableflags = int(mr.opt.disableflags) | E.mjDSBL_GRAVITY
    dr = lib.make_data(mr)
    dr.qpos[:] = np.array(m.qpos_spring)
    lib.mj_fwdPosition(mr, dr)
    lib.mj_fwdVelocity(mr, dr)
    Lr = np.array(dr.ten_length)
    ls = np.array(m.tendon_lengthspring) if m.ntendon else np.zeros((0, 2))
    inband = np.all((Lr >= ls[:, 0]) & (Lr <= ls[:, 1])) if m.ntendon else True
    fpr = np.array(dr.qfrc_passive)
    if inband:
      # exact zero up to the re-normalisation of the reference quaternions (a few eps of angle times the stiffness)
      kmax = 1 + float(np.abs(np.array(m.jnt_stiffness)).max() if m.njnt else 0) + float(np.abs(np.array(m.jnt_stiffnesspoly)).max() if m.njnt else 0)
      track('rest-zero', np.abs(fpr).max() / (64 * EPS * kmax))
      if np.any(np.abs(fpr) > 64 * EPS * kmax):
        raise Violation('rest state (qpos_spring, qvel=0, no gravity, tendons inside their spring bands) has qfrc_passive %s' % fpr, bucket='rest-zero')
      labels.append('rest-zero')
    else:
      kr = kin.fk(S, np.array(m.qpos_spring))
      close('rest-law', fpr, dyn.spring_force(S, kr) if sp_on else np.zeros(nv), 1 + np.abs(fpr).max(), K_LAW * EPS,
            'rest-state passive force vs tendon-spring reference', 'rest-law')

    # ---- non-triviality
    quat_defl = False
    for j in range(m.njnt):
      t = int(m.jnt_type[j])
      if t in (E.mjJNT_BALL, E.mjJNT_FREE) and (float(m.jnt_stiffness[j]) != 0 or np.any(np.array(m.jnt_stiffnesspoly[j]) != 0)):
        pa = int(m.jnt_qposadr[j]) + (3 if t == E.mjJNT_FREE else 0)
        if kin.quat_dist(q0[pa:pa + 4], np.array(m.qpos_spring[pa:pa + 4])) > 1e-3:
          quat_defl = True
    ten_out = False
    for t in range(m.ntendon):
      if (float(m.tendon_stiffness[t]) != 0 or np.any(np.array(m.tendon_stiffnesspoly[t]) != 0)) and not (ls[t, 0] <= L[t] <= ls[t, 1]):
        ten_out = True
    if quat_defl:
      labels.append('nt:quat-spring')
    if ten_out:
      labels.append('nt:tendon-outside-band')
    nt = sp_on and (quat_defl or ten_out)
    ck.case(nontrivial=nt, key=(gm.xml, seed),
            sample=dict(xml=gm.xml, seed=seed, flags=fl, spring_norm=float(np.abs(fs).max()), damper_power=power,
                        gravcomp_norm=float(np.abs(fg).max())), labels=labels)

  ck.run_hypothesis(test, st.tuples(model_strategy(ck.quick), mg.state_seed()), ck.budget(800, 8000), name="main")
  ck.extra['worst_ratio_of_tolerance'] = {k_: float('%.3g' % v) for k_, v in worst.items()}
  ck.extra['tolerances'] = dict(K_LAW=K_LAW, TOL_GRAD=TOL_GRAD, H_FD=H_FD)
  ck.extra.update(stats)


replay = gs.make_replay(main)

LEVEL = 'exploration'
TECHNIQUE = ('property-based testing against numpy re-implementations of the documented spring/damper/gravity-compensation '
             'laws, finite-difference gradient of the reported potential, a dissipation invariant and metamorphic '
             'relations (gravcomp=1 == no gravity, rest state == 0, flag semantics)')
LEVEL_TEXT = '''Random models x random states: every passive force array is compared with the documented law (eps-scaled tolerance),
springs with the manifold gradient of the engine's own potential, damping power must be non-positive, gravity
compensation must cancel gravity, the rest state must be force-free. Sampled, not exhaustive.'''
LEVEL_NOTE = '''Trusted: numpy, ctypes reflection, verification build; the oracle's tendon model covers fixed and site/pulley tendons
(no wrapping geometry). Not covered: fluid forces (C25 differentiates them), flex elasticity, adhesion, passive
contact forces, user callbacks/plugins.'''
