"""C30 - Numerical blow-ups are contained.

Domain : (inject) generated models x generated states x 1-3 injections of nan, +-inf, +-1e300, +-2*mjMAXVAL,
         +-nextafter(mjMAXVAL), +-mjMAXVAL (not bad: strict inequality), +-0.5*mjMAXVAL at a generated index (first / last /
         middle / random) of qpos, qvel, act, ctrl, qfrc_applied, xfrc_applied; autoreset flag on/off; mj_step or
         mj_step1 + inputs + mj_step2; 0-3 settling steps before.  (unstable) honestly unstable models: timestep
         0.02-0.2, velocities x up to 1e5, controls x up to 1e6, stepped 60-200 times.  (fd) mjd_transitionFD - which steps
         the model internally - on a state holding a bad value.  (forward) mj_forward / mj_inverse / mj_fwdPosition /
         mj_step1+mj_step2 (autoreset off) called directly on a state with nan/inf/huge qpos, qvel, act or mocap_pos,
         on models extended with site+refsite, slider-crank and body transmissions: no checks run before these calls.
Oracle : documented semantics (computation "Stages" 1/24, programming/simulation "checking functions reset the simulation
         automatically", mj_resetData, mjtWarning, option/flag autoreset, mju_isBad "nan or abs(x) > mjMAXVAL"):
         * autoreset on: qpos/qvel/act/time finite after the step; a bad pre-step qpos (else qvel) => BADQPOS (BADQVEL)
           counter >= 1 with lastinfo = first bad index, and the data is bit-identical to a freshly reset mjData stepped
           once; BADQACC => same reference; nan/inf applied force on a movable dof => BADQACC; no bad pos/vel => no
           BADQPOS/BADQVEL; bad ctrl on an unclamped actuator => BADCTRL and the step is bit-identical to the same step
           with ctrl = 0, without reset.
         * autoreset off: counters increase, never decrease, time keeps running (no reset).
         * unstable family: every step leaves a finite state; whenever time jumps back a BADQ* warning is set and the data
           equals (reset state stepped once).
         * forward family: the call returns (or raises a catchable mju_error) with pstack unchanged - never a sanitizer
           report, a dead or a stalled worker.
         * never a sanitizer report / process death (ASan build in supervised workers), engine stack pointers unchanged.
"""
import re
import threading

from vf import asanproc

KNOWN_FD = 'C30:mjd_stepFD-autoreset-inside-open-stack-frame'
KNOWN_TRN = 'C30:mj_transmission-moment-overrun-on-nonfinite-state'


def main(ck):
  ck.rule = ('inject: Hypothesis (model, state seed, 1-3 injections (target, index class, value kind), autoreset flag, step '
             'mode, settling steps) on the release and ASan builds; non-trivial = the injected value reached the check it '
             'targets (BADQPOS/BADQVEL/BADQACC/BADCTRL observed and its law asserted). unstable: non-trivial = at least '
             'one automatic reset happened. fd: every case (bad state handed to mjd_transitionFD). distinct by full case')
  ck.assumptions = [
      'an injected bad activation that never produces a force (actuation disabled, clamped force, ...) may stay '
      'non-finite: act is not in the statement\'s injection list; qpos/qvel/time finiteness is asserted regardless',
      'nan ctrl on a clamped actuator: either clamped or flagged (mju_clip of nan is unspecified); only unclamped bad '
      'ctrl must raise BADCTRL', 'sleeping disabled (mj_checkVel documents that it skips sleeping dofs)',
      '+-2*mjMAXVAL / 0.5*mjMAXVAL forces need not produce a bad acceleration; only non-finite forces must (a finite 1e300 force can be cancelled by an equal constraint force)']
  q = ck.quick
  jobs_rel, jobs_asan = [], []
  n_rel, n_asan = ck.budget(1200, 40000), ck.budget(60, 2000)
  sh_rel, sh_asan = (3, 1) if q else (8, 6)
  for s in range(sh_rel):
    jobs_rel.append(dict(family='inject', variant='rel', tier=ck.tier, seed=ck.seed, shard=s, n=n_rel // sh_rel))
  for s in range(sh_asan):
    jobs_asan.append(dict(family='inject', variant='asan', tier=ck.tier, seed=ck.seed, shard=s, n=n_asan // sh_asan))
  jobs_rel.append(dict(family='unstable', variant='rel', tier=ck.tier, seed=ck.seed, shard=0, n=ck.budget(40, 1500),
                       nsteps=200))
  jobs_asan.append(dict(family='unstable', variant='asan', tier=ck.tier, seed=ck.seed, shard=0, n=ck.budget(6, 300),
                        nsteps=40))
  jobs_rel.append(dict(family='forward', variant='rel', tier=ck.tier, seed=ck.seed, shard=0, n=ck.budget(150, 6000)))
  for s_ in range(1 if q else 4):
    jobs_asan.append(dict(family='forward', variant='asan', tier=ck.tier, seed=ck.seed, shard=s_, n=ck.budget(40, 2400) // (1 if q else 4)))
  jobs_rel.append(dict(family='fd', variant='rel', tier=ck.tier, seed=ck.seed, shard=0, n=ck.budget(12, 300)))
  jobs_asan.append(dict(family='fd', variant='asan', tier=ck.tier, seed=ck.seed, shard=0, n=ck.budget(6, 100)))
  from vf import build as vb
  for v in ('rel', 'asan'):
    vb.build(v)
  def go(key, jobs, asan, out):
    out[key] = asanproc.run_jobs('checks.c30_worker', jobs, nproc=(5 if q else 8), asan=asan, tag='C30' + key,
                                 timeout=(400 if q else 3600), stall=(150 if q else 400))

  for rnd in range(4):
    if not jobs_rel and not jobs_asan:
      break
    out = {}
    ths = [threading.Thread(target=go, args=('rel', jobs_rel, False, out)),
           threading.Thread(target=go, args=('asan', jobs_asan, True, out))]
    for t in ths:
      t.start()
    for t in ths:
      t.join()
    retry = []
    for key, jobs in (('rel', jobs_rel), ('asan', jobs_asan)):
      for job, res in zip(jobs, out[key]):
        fp = KNOWN_FD if job['family'] == 'fd' else None
        if res['ok']:
          r = res['result']
          if fp:
            for v in r['violations']:
              v['fingerprint'] = fp
          asanproc.merge(ck, r)
          for k, v in r.get('extra', {}).items():
            ck.extra[k] = v
        elif res.get('harness'):
          raise RuntimeError('worker setup failed (%s): %s' % (job, res['stderr'][-1500:]))
        elif asanproc.is_asan_compile_loop(res):
          # ASan-build-only endless loop in mjCModel::Compile (instrumentation artefact): new shard seed, not judged
          ck.discard('shard aborted: ASan-build compile loop (instrumentation artefact)')
          ck.extra['asan_compile_loop_model'] = ((res.get('journal') or {}).get('xml') or '')[:2000]
          if job.get('retries', 0) < 2:
            retry.append(dict(job, shard=job['shard'] + 100 * (job.get('retries', 0) + 1), retries=job.get('retries', 0) + 1,
                              n=max(10, job['n'] // 2)))
        else:
          if fp and not (res['frame'] and 'engine_derivative_fd' in (res['report'] or '')):
            fp = None
          if re.search(r'in mj_transmission ', res['report'] or '') and \
              res['kind'] in ('use-after-poison', 'heap-buffer-overflow'):
            fp = KNOWN_TRN
          ck.violation('worker process died (%s, rc=%s) in family %s @ %s\n%s' % (
              res['kind'], res['rc'], job['family'], res['frame'], (res['report'] or res['stderr'])[:3000]),
              dict(job=job, journal=res.get('journal'), report=res['report'][:6000]),
              bucket='%s:%s:%s' % (job['family'], res['kind'], res['frame']), fingerprint=fp)
          if fp:
            # known finding: count the journaled case as an executed, non-trivial one
            j = dict(res.get('journal') or {})
            j['xml'] = (j.get('xml') or '')[:300]
            ck.case(nontrivial=True, key=('crash', job['family'], job['variant'], res.get('journal')), sample=j,
                    labels=[job['family'], job['family'] + ':sanitizer-report'])
            # the worker died with the rest of its shard: run part of the remaining budget in a fresh worker
            if job['family'] != 'fd' and job.get('retries', 0) < (1 if q else 3):
              retry.append(dict(job, shard=job['shard'] + 100 * (job.get('retries', 0) + 1),
                                retries=job.get('retries', 0) + 1, n=max(10, job['n'] // 2)))
    jobs_rel = [j for j in retry if j['variant'] == 'rel']
    jobs_asan = [j for j in retry if j['variant'] == 'asan']


LEVEL = 'exploration'
TECHNIQUE = ('property-based fault injection: nan/inf/huge values at generated indices of the state and input vectors of '
             'generated models, judged against the documented check/reset/warning semantics with bit-exact reference runs; '
             'release build + ASan build in supervised workers')
LEVEL_TEXT = '''Generated models and states with injected non-finite / over-limit values (incl. the exact limit and its floating-point
successor, first/last index) are stepped with autoreset on and off, via mj_step and mj_step1/mj_step2; warning counters,
lastinfo, the reset-then-step reference (bit-exact), the "bad ctrl = zero ctrl" law and finiteness are asserted. Honestly unstable
models are stepped up to 200 times. Sampled, not exhaustive.'''
LEVEL_NOTE = '''Trusted: verification build, reflection layer. Not covered: sleeping models (mj_checkVel/Acc skip sleeping dofs by
design), plugins, delayed actuators (history buffers), mocap. Known findings (known_findings.json, reproducers under replays/C30): mjd_stepFD runs the
auto-reset inside its own open stack frame; Newton/sparse raises a fatal mju_error on huge-but-accepted values; RK4 sub-stages are
unchecked (non-finite state after mj_step); mj_transmission overruns actuator_moment on a non-finite state; the actuator derivative of
the implicit integrators reads the raw (unclamped, un-zeroed) ctrl. Minor, reported only: with autoreset disabled every detection is
counted twice (extra: autoreset_off_BADQPOS_increment_per_detection).'''
