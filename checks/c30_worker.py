"""C30 worker: one shard (family x build variant) of the blow-up containment check. See checks/c30.py."""
import ctypes as C
import math

import numpy as np
from hypothesis import strategies as st

from vf import asanproc
from vf import mj
from vf import modelgen as mg
from vf.runner import Violation

TARGETS = ('qpos', 'qvel', 'act', 'ctrl', 'qfrc_applied', 'xfrc_applied')
# value kinds: (name, factory(MAXVAL) -> float, bad for mju_isBad per the documented rule "nan or abs(x) > mjMAXVAL")
VALUES = [
    ('nan', lambda M: float('nan'), True),
    ('+inf', lambda M: float('inf'), True),
    ('-inf', lambda M: float('-inf'), True),
    ('+1e300', lambda M: 1e300, True),
    ('-1e300', lambda M: -1e300, True),
    ('+2max', lambda M: 2 * M, True),
    ('-2max', lambda M: -2 * M, True),
    ('+max_next', lambda M: float(np.nextafter(M, np.inf)), True),
    ('-max_next', lambda M: -float(np.nextafter(M, np.inf)), True),
    ('+max', lambda M: M, False),            # exactly the limit: documented as not bad (strict inequality)
    ('-max', lambda M: -M, False),
    ('+half', lambda M: 0.5 * M, False),
    ('-half', lambda M: -0.5 * M, False),
]
VAL = {v[0]: v for v in VALUES}
SURELY_HUGE_FORCE = {'nan', '+inf', '-inf', '+1e300', '-1e300'}
STATE = ('qpos', 'qvel', 'act')
KNOWN_RANK = 'C30:newton-rank-deficient-mju_error-on-huge-finite-state'
KNOWN_RK4 = 'C30:rk4-substages-unchecked-nonfinite-state-after-step'
KNOWN_CTRLD = 'C30:implicit-derivative-uses-raw-ctrl'


def warn_view(lib, d):
  off = lib.layout['mjData']['fields']['warning']['off']
  n = lib.enums.mjNWARNING
  buf = (C.c_char * (8 * n)).from_address(d.ptr + off)
  return np.frombuffer(buf, dtype=np.int32).reshape(n, 2)      # [:,0]=lastinfo  [:,1]=number


def is_bad(x, M):
  return x != x or x > M or x < -M


def first_bad(a, M):
  for i, x in enumerate(np.asarray(a).ravel()):
    if is_bad(float(x), M):
      return i
  return -1


def body_has_dof(m, b):
  par = m.body_parentid
  while b > 0:
    if int(m.body_dofnum[b]) > 0:
      return True
    b = int(par[b])
  return False


def body_below_free_joint(m, b):
  par = m.body_parentid
  while b > 0:
    for j in range(int(m.body_jntadr[b]), int(m.body_jntadr[b]) + int(m.body_jntnum[b])):
      if int(m.jnt_type[j]) == 0:
        return True
    b = int(par[b])
  return False


def delete(lib, d):
  try:
    lib.mj_deleteData(d)
  except mj.MjError:
    pass
  object.__setattr__(d, '_own', False)


def state_bits(d):
  return [np.asarray(getattr(d, f), dtype=np.float64).copy() for f in STATE] + [np.array([d.time])]


def same_bits(a, b):
  return all(x.shape == y.shape and np.array_equal(x.view(np.uint64), y.view(np.uint64)) for x, y in zip(a, b))


def do_step(lib, m, d, mode, between=None):
  if mode == 'step':
    if between:
      between()
    lib.mj_step(m, d)
  else:
    lib.mj_step1(m, d)
    if between:
      between()
    lib.mj_step2(m, d)


@st.composite
def injections(draw):
  n = draw(st.sampled_from([1, 1, 1, 2, 3]))
  out = []
  for _ in range(n):
    out.append([draw(st.sampled_from(TARGETS)), draw(st.sampled_from(['first', 'last', 'mid', 'rand'])),
                draw(st.integers(0, 10 ** 6)), draw(st.sampled_from([v[0] for v in VALUES]))])
  return out


def case_strategy():
  models = mg.models(max_bodies=4, sensors=True, actuators=True, stateful_actuators=True, tendons=True, equalities=True,
                     opt_kwargs=dict(sleep=False))
  return st.tuples(models, mg.state_seed(), injections(), st.booleans(), st.sampled_from(['step', 'step', 'step12']),
                   st.integers(0, 3))


def run_injection(lib, variant, ck, case):
  """Outer wrapper: an mju_error raised by any mj_step of the case (settling steps, the judged step, the reference or
  twin steps) that belongs to a known finding is recorded as such; everything else propagates."""
  gm, seed, inj, noreset, mode, presteps = case
  try:
    _run_injection(lib, variant, ck, case)
  except mj.MjError as e:
    if 'rank-deficient' in str(e):
      ck.violation('mj_step raised mju_error instead of warning+reset: %s' % str(e)[:200],
                   dict(xml=gm.xml, seed=seed, inj=inj, noreset=noreset, mode=mode, presteps=presteps),
                   bucket='mju_error-rank-deficient', fingerprint=KNOWN_RANK)
      ck.case(nontrivial=True, key=('rank', gm.xml, seed, tuple(map(tuple, inj)), noreset, mode, presteps, variant),
              labels=['variant=' + variant, 'mju_error:rank-deficient'])
      return
    raise


def _run_injection(lib, variant, ck, case):
  gm, seed, inj, noreset, mode, presteps = case
  E = lib.enums
  M = float(E.mjMAXVAL)
  W = dict(pos=E.mjWARN_BADQPOS, vel=E.mjWARN_BADQVEL, acc=E.mjWARN_BADQACC, ctrl=E.mjWARN_BADCTRL)
  asanproc.journal(dict(family='inject', phase='compile', variant=variant, xml=gm.xml))
  try:
    m = lib.model_from_xml(gm.xml)
  except mj.MjError:
    ck.discard('compile')
    return
  if noreset:
    m.opt.disableflags = int(m.opt.disableflags) | E.mjDSBL_AUTORESET
  d = lib.make_data(m)
  ref = None
  zc = None
  try:
    mg.apply_state(lib, m, d, seed)
    try:
      for _ in range(presteps):
        lib.mj_step(m, d)
    except mj.MjError as e:
      # degenerate model (e.g. two coincident joints without armature): the engine refuses the regular state already
      ck.discard('model raises mju_error on a regular state (%s)' % str(e)[:40])
      return
    w = warn_view(lib, d)
    if np.any(w[[W['pos'], W['vel'], W['acc']], 1]):
      ck.discard('unstable-before-injection')
      return
    # ---- resolve and apply the injections
    applied = []
    step_inputs = []      # (field, flat index, value) applied between step1 and step2 in 'step12' mode

    def put(field, idx, val):
      a = getattr(d, field)
      a.reshape(-1)[idx] = val
    for target, where, r, vk in inj:
      a = getattr(d, target)
      n = a.size
      if target == 'xfrc_applied':
        if m.nbody < 2:
          continue
        lo = 6
      else:
        lo = 0
      if n - lo <= 0:
        continue
      idx = dict(first=lo, last=n - 1, mid=lo + (n - lo) // 2, rand=lo + r % (n - lo))[where]
      val = VAL[vk][1](M)
      applied.append((target, idx, vk, n))
      if mode == 'step12' and target in ('ctrl', 'qfrc_applied', 'xfrc_applied'):
        step_inputs.append((target, idx, val))
      else:
        put(target, idx, val)
    if not applied:
      ck.discard('nothing-to-inject')
      return
    asanproc.journal(dict(family='inject', variant=variant, xml=gm.xml, seed=seed, inj=inj, noreset=noreset, mode=mode,
                          presteps=presteps))

    def between():
      for f, i, v in step_inputs:
        put(f, i, v)

    # ---- expectations from the pre-step data (documented rule: nan or |x| > mjMAXVAL)
    bp = first_bad(d.qpos, M)
    bv = first_bad(d.qvel, M)
    t0 = float(d.time)
    dt = float(m.opt.timestep)
    w0 = w.copy()
    ctrl_eff = np.asarray(d.ctrl, dtype=np.float64).copy()
    for f, i, v in step_inputs:
      if f == 'ctrl':
        ctrl_eff[i] = v
    clamp_on = not (int(m.opt.disableflags) & E.mjDSBL_CLAMPCTRL)
    act_on = m.nu > 0 and not (int(m.opt.disableflags) & E.mjDSBL_ACTUATION)
    sure_badctrl = False
    for i in range(m.nu):
      if is_bad(float(ctrl_eff[i]), M) and not (clamp_on and int(m.actuator_ctrllimited[i])):
        sure_badctrl = True
    # forces that must produce a bad acceleration, judged on the values finally in place (a later injection may have
    # overwritten an earlier one): nan/inf propagate through J'f to every dof of the chain; a finite 1e300 only where the
    # Jacobian is certainly non-zero (generalized force on a dof; any wrench on a body below a free joint)
    def final_val(f, i):
      for ff, ii, v in reversed(step_inputs):      # the last write wins
        if ff == f and ii == i:
          return v
      return float(getattr(d, f).reshape(-1)[i])
    sure_force = False
    for target, idx, vk, n in applied:
      if target not in ('qfrc_applied', 'xfrc_applied'):
        continue
      v = final_val(target, idx)
      nonfin = v != v or abs(v) == float('inf')
      # a finite huge force (1e300) can be cancelled by a constraint force of the same size (observed: hinge + connect),
      # so only non-finite forces are required to end in BADQACC
      huge = False
      if target == 'qfrc_applied' and (nonfin or huge):
        sure_force = True
      if target == 'xfrc_applied':
        b = idx // 6
        if nonfin and body_has_dof(m, b):
          sure_force = True
        if huge and body_below_free_joint(m, b):
          sure_force = True
    # known finding: the implicit integrators' actuator-velocity derivative reads d->ctrl directly (neither clamped nor
    # zeroed when bad) for actuators whose gain depends on velocity (e.g. <damper>)
    raw_ctrl_deriv = False
    if m.nu and int(m.opt.integrator) in (E.mjINT_IMPLICIT, E.mjINT_IMPLICITFAST) and act_on:
      gp = np.asarray(m.actuator_gainprm).reshape(m.nu, -1)
      raw_ctrl_deriv = bool(np.any(gp[:, 2] != 0)) and any(is_bad(float(x), M) for x in ctrl_eff)
    # twin for the BADCTRL law: same data, ctrl zeroed ("set all to 0 if any are bad")
    if sure_badctrl and act_on and bp < 0 and bv < 0 and not m.nhistory:
      zc = lib.copy_data(m, d)
    try:
      do_step(lib, m, d, mode, between)
    except mj.MjError as e:
      if noreset and (bp >= 0 or bv >= 0 or sure_force or any(t == 'act' for t, i, vk, n in applied)):
        # autoreset disabled by the user and a bad value in the state: the engine may refuse the garbage with a
        # catchable error (e.g. the implicit integrator's LU factorisation); only crashes would be violations
        ck.case(nontrivial=True, key=('noreset-error', gm.xml, seed, tuple(map(tuple, inj)), mode, presteps, variant),
                labels=['variant=' + variant, 'autoreset=off', 'noreset:mju_error:' + str(e)[:30]])
        return
      if 'rank-deficient' in str(e):
        # known finding: the Newton solver raises a fatal mju_error on huge-but-accepted values before mj_checkAcc runs
        ck.violation('mj_step raised mju_error instead of warning+reset: %s' % str(e)[:200],
                     dict(xml=gm.xml, seed=seed, inj=inj, noreset=noreset, mode=mode, presteps=presteps),
                     bucket='mju_error-rank-deficient', fingerprint=KNOWN_RANK)
        ck.case(nontrivial=True, key=('rank', gm.xml, seed, tuple(map(tuple, inj)), noreset, mode, presteps, variant),
                labels=['variant=' + variant, 'mju_error:rank-deficient'])
        return
      raise
    w = warn_view(lib, d)
    dnum = w[:, 1] - w0[:, 1]
    st1 = state_bits(d)
    labels = ['variant=' + variant, 'mode=' + mode, 'autoreset=' + ('off' if noreset else 'on')]
    labels += ['inject:%s:%s' % (t, vk) for t, i, vk, n in applied]
    labels += ['inject@last:' + t for t, i, vk, n in applied if i == n - 1]
    fired = [k for k in W if (w[W[k], 1] > 0 if not noreset else dnum[W[k]] > 0)]
    labels += ['warn:' + k for k in fired]
    reached = False

    def finite_state(what):
      for f, a in zip(STATE + ('time',), st1):
        if f == 'act' and any(t == 'act' for t, i, vk, n in applied) and not did_reset:
          continue      # an injected bad activation that never reaches a force is outside the statement's quantifier
        if not np.all(np.isfinite(a)):
          msg = '%s: %s not finite after mj_step (%s) [variant=%s]' % (what, f, a[~np.isfinite(a)][:3], variant)
          if int(m.opt.integrator) == E.mjINT_RK4:
            # known finding: the Runge-Kutta sub-stages are not covered by mj_checkPos/Vel/Acc
            ck.violation(msg, dict(xml=gm.xml, seed=seed, inj=inj, noreset=noreset, mode=mode, presteps=presteps),
                         bucket='nonfinite-rk4', fingerprint=KNOWN_RK4)
            labels.append('nonfinite-after-step:RK4')
            return
          if raw_ctrl_deriv:
            ck.violation(msg, dict(xml=gm.xml, seed=seed, inj=inj, noreset=noreset, mode=mode, presteps=presteps),
                         bucket='nonfinite-implicit-raw-ctrl', fingerprint=KNOWN_CTRLD)
            labels.append('nonfinite-after-step:implicit-raw-ctrl')
            return
          raise Violation(msg, bucket='nonfinite-' + f)

    if not noreset:
      acc_d = bool(w[W['acc'], 1])
      did_reset = bool(w[W['pos'], 1] or w[W['vel'], 1] or acc_d) and float(d.time) <= dt * (1 + 1e-12)
      late_force = bool(step_inputs)      # inputs (ctrl or forces) written after a reset in mj_step1
      ref_acc = False
      # reference: a freshly reset mjData stepped once (reset clears state, ctrl, applied forces, warm start, time).
      # Inputs written between mj_step1 and mj_step2 survive a reset that happened in mj_step1 (bad qpos/qvel); a reset
      # in mj_step2 (BADQACC) wipes them and the step continues from the reset state without inputs.
      if bp >= 0 or bv >= 0 or acc_d:
        ref = lib.make_data(m)

        def between_ref():
          for f, i, v in step_inputs:
            getattr(ref, f).reshape(-1)[i] = v
        do_step(lib, m, ref, mode, None if acc_d else between_ref)
        refbits = state_bits(ref)
        ref_acc = bool(warn_view(lib, ref)[W['acc'], 1])
      first = 'pos' if bp >= 0 else ('vel' if bv >= 0 else None)
      if first:
        reached = True
        name = 'BADQ' + first.upper()
        bad_idx = bp if first == 'pos' else bv
        if acc_d:
          # a second reset (mj_checkAcc) cleared the counter of the first one; legitimate only if the reset state itself
          # diverges (fresh mjData also raises BADQACC) or inputs were written after the mj_step1 reset
          labels.append('reset-twice')
          if not (ref_acc or late_force):
            raise Violation('%s reset, then BADQACC although a fresh mjData steps cleanly [variant=%s]' % (name, variant),
                            bucket='unexplained-BADQACC-after-reset')
        else:
          if w[W[first], 1] < 1:
            raise Violation('q%s[%d] was bad before the step but %s was not raised [variant=%s]' % (
                first, bad_idx, name, variant), bucket='missing-' + name)
          if w[W[first], 0] != bad_idx:
            raise Violation('%s lastinfo=%d, first bad index is %d' % (name, w[W[first], 0], bad_idx),
                            bucket='lastinfo-' + name)
        if not same_bits(st1, refbits):
          raise Violation('after %s the data is not (reset state stepped once) [variant=%s]' % (name, variant),
                          bucket='reset-' + name)
      else:
        if w[W['pos'], 1] or w[W['vel'], 1]:
          raise Violation('BADQPOS/BADQVEL raised although no position/velocity was nan or beyond mjMAXVAL '
                          '[variant=%s]' % variant, bucket='spurious-warning')
        if acc_d:
          reached = True
          if not same_bits(st1, refbits):
            raise Violation('after BADQACC the data is not (reset state, forward, stepped) [variant=%s]' % variant,
                            bucket='reset-BADQACC')
        else:
          if sure_force:
            raise Violation('nan/inf applied force on a movable dof but BADQACC was not raised [variant=%s]' % variant,
                            bucket='missing-BADQACC')
          if abs(float(d.time) - (t0 + dt)) > 1e-9 * (1 + abs(t0)):
            raise Violation('no warning but time went %r -> %r' % (t0, float(d.time)), bucket='time')
          if zc is not None:
            reached = True
            if w[W['ctrl'], 1] < 1:
              raise Violation('bad ctrl on an unclamped actuator but BADCTRL was not raised [variant=%s]' % variant,
                              bucket='missing-BADCTRL')
            zc.ctrl[:] = 0

            def between_zero():
              for f, i, v in step_inputs:
                if f != 'ctrl':
                  a = getattr(zc, f)
                  a.reshape(-1)[i] = v
            do_step(lib, m, zc, mode, between_zero)
            if not same_bits(st1, state_bits(zc)):
              msg = 'bad ctrl: result differs from the same step with ctrl = 0 [variant=%s]' % variant
              if raw_ctrl_deriv:
                ck.violation(msg, dict(xml=gm.xml, seed=seed, inj=inj, noreset=noreset, mode=mode, presteps=presteps),
                             bucket='badctrl-zero-implicit', fingerprint=KNOWN_CTRLD)
                labels.append('badctrl:implicit-derivative-raw-ctrl')
              else:
                raise Violation(msg, bucket='badctrl-zero')
      if ref_acc:
        # the model is ill-posed at its own reset state (a fresh mjData stepped once already raises BADQACC, e.g. a
        # singular inertia matrix): resetting cannot produce finite values; counted, not judged for finiteness
        labels.append('reset-state-diverges')
      else:
        finite_state('autoreset on')
    else:
      did_reset = False
      if bp >= 0:
        reached = True
        if dnum[W['pos']] < 1:
          raise Violation('autoreset off: bad qpos[%d] but BADQPOS did not increase' % bp, bucket='missing-BADQPOS')
        ck.extra['autoreset_off_BADQPOS_increment_per_detection'] = int(dnum[W['pos']])
      if bv >= 0:
        reached = True
        if dnum[W['vel']] < 1:
          raise Violation('autoreset off: bad qvel[%d] but BADQVEL did not increase' % bv, bucket='missing-BADQVEL')
      if bp < 0 and bv < 0 and (dnum[W['pos']] or dnum[W['vel']]):
        raise Violation('autoreset off: spurious BADQPOS/BADQVEL', bucket='spurious-warning')
      if sure_force and bp < 0 and bv < 0 and dnum[W['acc']] < 1:
        raise Violation('autoreset off: nan/inf force but BADQACC did not increase', bucket='missing-BADQACC')
      if dnum[W['acc']]:
        reached = True
      # documented: the flag disables the automatic reset -> time keeps running, warnings are not cleared
      if abs(float(d.time) - (t0 + dt)) > 1e-9 * (1 + abs(t0)):
        raise Violation('autoreset disabled but time went %r -> %r (reset?)' % (t0, float(d.time)), bucket='reset-when-disabled')
      if np.any(w[:, 1] < w0[:, 1]):
        raise Violation('autoreset disabled but warning counters decreased', bucket='reset-when-disabled')
    key = (gm.xml, seed, tuple(map(tuple, inj)), noreset, mode, presteps, variant)
    ck.case(nontrivial=reached, key=key,
            sample=dict(variant=variant, inject=[(t, i, vk) for t, i, vk, n in applied], autoreset=not noreset, mode=mode,
                        warnings=fired, nq=int(m.nq), nv=int(m.nv), nu=int(m.nu), na=int(m.na)) if reached else None,
            labels=labels)
  finally:
    for x in (d, ref, zc):
      if x is not None:
        delete(lib, x)


# ------------------------------------------------------------------------------------------- unstable models

def unstable_strategy():
  models = mg.models(max_bodies=4, actuators=True, tendons=False, equalities=True, plane=True,
                     opt_kwargs=dict(sleep=False, timestep=(0.02, 0.2)))
  return st.tuples(models, mg.state_seed(), st.sampled_from([1.0, 30.0, 1000.0, 1e5]), st.sampled_from([1.0, 1e3, 1e6]))


def run_unstable(lib, variant, ck, case, nsteps):
  gm, seed, vscale, cscale = case
  E = lib.enums
  W = [E.mjWARN_BADQPOS, E.mjWARN_BADQVEL, E.mjWARN_BADQACC]
  try:
    m = lib.model_from_xml(gm.xml)
  except mj.MjError:
    ck.discard('compile')
    return
  d = lib.make_data(m)
  ref = lib.make_data(m)
  try:
    asanproc.journal(dict(family='unstable', variant=variant, xml=gm.xml, seed=seed, vscale=vscale, cscale=cscale))
    mg.apply_state(lib, m, d, seed, vel_scale=vscale)
    if m.nu:
      d.ctrl[:] = np.asarray(d.ctrl) * cscale
    ctrl0 = np.asarray(d.ctrl, dtype=np.float64).copy()
    lib.mj_step(m, ref)
    if np.any(warn_view(lib, ref)[W, 1]):
      ck.discard('unstable:ill-posed-reset-state')
      return
    refbits = state_bits(ref)
    dt = float(m.opt.timestep)
    resets = 0
    kinds = set()
    for k in range(nsteps):
      t0 = float(d.time)
      try:
        lib.mj_step(m, d)
      except mj.MjError as e:
        if 'rank-deficient' in str(e):
          ck.violation('unstable model: mj_step raised mju_error instead of warning+reset: %s' % str(e)[:200],
                       dict(xml=gm.xml, seed=seed, vscale=vscale, cscale=cscale, step=k), bucket='mju_error-rank-deficient',
                       fingerprint=KNOWN_RANK)
          ck.case(nontrivial=True, key=('unstable-rank', gm.xml, seed, vscale, cscale, variant),
                  labels=['unstable', 'mju_error:rank-deficient'])
          return
        raise
      bits = state_bits(d)
      nonfin = [f for f, a in zip(STATE + ('time',), bits) if not np.all(np.isfinite(a))]
      if nonfin:
        msg = 'unstable model: %s not finite after step %d [variant=%s]' % (nonfin, k, variant)
        if int(m.opt.integrator) == E.mjINT_RK4:
          ck.violation(msg, dict(xml=gm.xml, seed=seed, vscale=vscale, cscale=cscale), bucket='nonfinite-rk4',
                       fingerprint=KNOWN_RK4)
          ck.case(nontrivial=True, key=('unstable-rk4', gm.xml, seed, vscale, cscale, variant),
                  labels=['unstable', 'nonfinite-after-step:RK4'])
          return
        raise Violation(msg, bucket='nonfinite-' + nonfin[0])
      w = warn_view(lib, d)
      if float(d.time) < t0 + 0.5 * dt:
        # time went backwards: a reset happened; it must be announced and leave (reset state stepped once)
        resets += 1
        which = [i for i in W if w[i, 1] > 0]
        if not which:
          raise Violation('time reset at step %d without BADQPOS/BADQVEL/BADQACC [variant=%s]' % (k, variant),
                          bucket='silent-reset')
        kinds.update(which)
        if not same_bits(bits, refbits):
          raise Violation('after an automatic reset the data is not (reset state stepped once) [variant=%s]' % variant,
                          bucket='reset-unstable')
        if m.nu:
          d.ctrl[:] = ctrl0        # drive it again
        mg.apply_state(lib, m, d, seed + resets, vel_scale=vscale)
        d.time = 0.0
    names = {E.mjWARN_BADQPOS: 'pos', E.mjWARN_BADQVEL: 'vel', E.mjWARN_BADQACC: 'acc'}
    ck.case(nontrivial=resets > 0, key=('unstable', gm.xml, seed, vscale, cscale, variant),
            sample=dict(family='unstable', variant=variant, resets=resets, warnings=[names[i] for i in sorted(kinds)],
                        vscale=vscale, cscale=cscale, timestep=dt) if resets else None,
            labels=['unstable', 'unstable:resets>0' if resets else 'unstable:stable'] +
                   ['unstable:warn:' + names[i] for i in kinds])
  finally:
    delete(lib, d)
    delete(lib, ref)


# ------------------------------------------------------------------------------------------- finite differences

def fd_strategy():
  models = mg.models(max_bodies=3, actuators=True, tendons=False, equalities=False, sensors=False,
                     opt_kwargs=dict(sleep=False, integrators=('Euler', 'implicit', 'implicitfast')))
  return st.tuples(models, mg.state_seed(), st.sampled_from(['qpos', 'qvel']), st.integers(0, 10 ** 6),
                   st.sampled_from(['nan', '+inf', '+2max', '-1e300']), st.booleans())


def run_fd(lib, variant, ck, case):
  """mjd_transitionFD steps the model internally: a state that trips the automatic reset must not corrupt memory."""
  gm, seed, target, r, vk, centered = case
  E = lib.enums
  M = float(E.mjMAXVAL)
  try:
    m = lib.model_from_xml(gm.xml)
  except mj.MjError:
    ck.discard('compile')
    return
  if not m.nv or m.nhistory:
    ck.discard('fd:no-dof')
    return
  d = lib.make_data(m)
  try:
    mg.apply_state(lib, m, d, seed)
    lib.mj_forward(m, d)
    a = getattr(d, target)
    idx = r % a.size
    a[idx] = VAL[vk][1](M)
    before = [np.asarray(d.qpos).copy(), np.asarray(d.qvel).copy(), np.asarray(d.act).copy()]
    ps0, pb0 = int(d.pstack), int(d.pbase)
    nv, na, nu = m.nv, m.na, m.nu
    ndx = 2 * nv + na
    A = np.zeros((ndx, ndx))
    B = np.zeros((ndx, max(nu, 1)))
    asanproc.journal(dict(family='fd', variant=variant, xml=gm.xml, seed=seed, target=target, idx=idx, value=vk,
                          centered=centered))
    lib.mjd_transitionFD(m, d, 1e-6, int(centered), A, B if nu else None, None, None)
    if (int(d.pstack), int(d.pbase)) != (ps0, pb0):
      raise Violation('mjd_transitionFD on a state with %s[%d]=%s returned with pstack=%d pbase=%#x (entered with %d, %#x)'
                      % (target, idx, vk, d.pstack, d.pbase, ps0, pb0), bucket='fd-stack')
    after = [np.asarray(d.qpos), np.asarray(d.qvel), np.asarray(d.act)]
    same = all(np.array_equal(x.view(np.uint64), y.view(np.uint64)) for x, y in zip(before, after))
    w = warn_view(lib, d)
    ck.case(nontrivial=True, key=('fd', gm.xml, seed, target, idx, vk, centered, variant),
            sample=dict(family='fd', variant=variant, target=target, idx=idx, value=vk, state_restored=bool(same)),
            labels=['fd', 'fd:variant=' + variant, 'fd:state-restored' if same else 'fd:state-NOT-restored'])
    if not same:
      raise Violation('mjd_transitionFD on a state with %s[%d]=%s did not restore the input state (it saves and restores '
                      'the state around every internal step): qpos %s -> %s' % (target, idx, vk, before[0][:4], after[0][:4]),
                      bucket='fd-restore')
  finally:
    delete(lib, d)


# ------------------------------------------------------------------------------------------- direct pipeline calls

def add_transmissions(gm, pick):
  """Append site+refsite, slider-crank and body (adhesion) transmissions to a generated model (text level)."""
  sites = [x for x in gm.info['sites'] if x != 's0']
  bodies = gm.info['bodies']
  extra = ''
  if len(sites) >= 1:
    extra += '<motor name="xs" site="%s" refsite="s0" gear="0.5 -0.4 0.3 0.2 -0.7 0.6"/>' % sites[pick % len(sites)]
  if len(sites) >= 2:
    extra += '<general name="xc" cranksite="%s" slidersite="%s" cranklength="0.3"/>' % (sites[0], sites[-1])
  if bodies:
    extra += '<adhesion name="xa" body="%s" ctrlrange="0 1"/>' % bodies[pick % len(bodies)]
  if not extra:
    return gm.xml
  if '<actuator>' in gm.xml:
    return gm.xml.replace('</actuator>', extra + '</actuator>')
  return gm.xml.replace('</mujoco>', '<actuator>%s</actuator></mujoco>' % extra)


def forward_strategy():
  models = mg.models(max_bodies=4, sensors=True, actuators=True, stateful_actuators=True, tendons=True, equalities=True,
                     opt_kwargs=dict(sleep=False))
  return st.tuples(models, mg.state_seed(), st.sampled_from(['qpos', 'qpos', 'qvel', 'act', 'mocap_pos', 'all-qpos']),
                   st.integers(0, 10 ** 6), st.sampled_from(['nan', '+inf', '-inf', '+1e300', '+2max', '+half']),
                   st.sampled_from(['mj_forward', 'mj_forward', 'mj_inverse', 'mj_step1+mj_step2-noreset', 'mj_fwdPosition']))


def run_forward(lib, variant, ck, case):
  """The pipeline functions below mj_step have no input checks: a non-finite state must not make them write outside
  their arrays or hang (the values they compute are of course garbage)."""
  gm, seed, target, r, vk, fn = case
  E = lib.enums
  M = float(E.mjMAXVAL)
  xml = add_transmissions(gm, r)
  try:
    m = lib.model_from_xml(xml)
  except mj.MjError:
    try:
      m = lib.model_from_xml(gm.xml)
      xml = gm.xml
    except mj.MjError:
      ck.discard('compile')
      return
  d = lib.make_data(m)
  try:
    mg.apply_state(lib, m, d, seed)
    try:
      lib.mj_forward(m, d)
    except mj.MjError as e:
      ck.discard('model raises mju_error on a regular state (%s)' % str(e)[:40])
      return
    val = VAL[vk][1](M)
    if target == 'all-qpos':
      d.qpos[:] = val
      idx = -1
    else:
      a = getattr(d, target)
      if not a.size:
        ck.discard('forward:empty-target')
        return
      idx = r % a.size
      a.reshape(-1)[idx] = val
    trn = sorted(set(int(x) for x in np.asarray(m.actuator_trntype))) if m.nu else []
    asanproc.journal(dict(family='forward', variant=variant, xml=xml, seed=seed, target=target, idx=idx, value=vk, call=fn))
    ps0 = int(d.pstack)
    outcome = 'returned'
    try:
      if fn == 'mj_step1+mj_step2-noreset':
        m.opt.disableflags = int(m.opt.disableflags) | E.mjDSBL_AUTORESET
        lib.mj_step1(m, d)
        lib.mj_step2(m, d)
      else:
        getattr(lib, fn)(m, d)
    except mj.MjError as e:
      outcome = 'mju_error'          # a catchable error is an acceptable way to refuse garbage
      ck.label('forward:mju_error:' + str(e)[:40].split(':')[0])
    if outcome == 'returned' and int(d.pstack) != ps0:
      raise Violation('%s on a state with bad %s returned with pstack=%d' % (fn, target, d.pstack), bucket='forward-stack')
    ck.case(nontrivial=VAL[vk][2] or target == 'all-qpos', key=('forward', xml, seed, target, idx, vk, fn, variant),
            sample=dict(family='forward', variant=variant, call=fn, target=target, idx=idx, value=vk, trntypes=trn,
                        outcome=outcome),
            labels=['forward', 'forward:' + fn, 'forward:target=' + target, 'forward:variant=' + variant] +
                   ['forward:trntype=%d' % t for t in trn])
  finally:
    delete(lib, d)


def handler(job):
  import time
  t0 = time.time()
  variant = job['variant']
  lib = mj.load(variant)
  ck = asanproc.WorkerCheck('C30', job['tier'], job['seed'])
  name = '%s-%s-%d' % (job['family'], variant, job['shard'])
  shrink = variant != 'asan'       # shrinking under ASan costs minutes; the release shards shrink
  if job['family'] == 'inject':
    ck.run_hypothesis(lambda case: run_injection(lib, variant, ck, case), case_strategy(), job['n'], name=name,
                      shrink=shrink)
  elif job['family'] == 'forward':
    ck.run_hypothesis(lambda case: run_forward(lib, variant, ck, case), forward_strategy(), job['n'], name=name, shrink=shrink)
  elif job['family'] == 'fd':
    ck.run_hypothesis(lambda case: run_fd(lib, variant, ck, case), fd_strategy(), job['n'], name=name, shrink=shrink)
  else:
    ck.run_hypothesis(lambda case: run_unstable(lib, variant, ck, case, job['nsteps']), unstable_strategy(), job['n'],
                      name=name, shrink=shrink)
  out = ck.export()
  out['extra']['wall_' + name] = round(time.time() - t0, 1)
  return out


if __name__ == '__main__':
  asanproc.worker_main(handler)
