"""C31 - Binary model files (MJB) round-trip exactly; corrupt files are rejected.

Domain : (a) generated rich models (assets, defaults, frames, tendons, actuators, sensors, custom, keyframes ...) and
             shipped corpus models: save to buffer / file / VFS, load.
         (b) truncations of the serialized buffer (all header/size/struct/array boundaries +-1, random lengths;
             every prefix of small models in the thorough tier).
         (c) structured corruption decoded with the tree's own X-macro order (reflection): every index relation of the
             reference table x out-of-range values (systematic), size fields (with and without a consistent file
             length), header ints, any int array element, byte flips, splices.
         (d) libFuzzer target fuzz_mjb (ASan) seeded with (a).
Oracle : (a) measured serialized length == mj_sizeModel; load(save(m)) equals m bit-exactly in every size, array,
             opt/vis/stat member and flag; save(load(save(m))) is byte-identical; stepping both gives identical states.
         (b,c,d) NULL + warning, OR a model that passes the independent reference checker vf/oracle/modelref.py
             (written from mjmodel.h comments) and survives mj_makeData + mj_forward under ASan; the input buffer is an
             exact-size malloc block so that ASan red zones catch any read outside the buffer.
Every corruption case runs in a forked child (vf/isolate.py): a crash is attributed to its case and the run goes on.
"""
import ctypes
import os
import re
import subprocess

import numpy as np
from hypothesis import strategies as st

from vf import build as vb
from vf import corpus
from vf import gen_io
from vf import isolate
from vf import modelcmp
from vf import modelgen as mg
from vf.oracle import modelref
from vf.runner import Violation, WORK

ASAN = True

INT_MAX = 2 ** 31 - 1
INT_MIN = -2 ** 31
WORKDIR = os.path.join(WORK, 'C31')
ASAN_LOG = os.path.join(WORK, 'asan', 'C31')
CAP = 1 << 28     # allocation cap (bytes) while loading corrupted files


# --------------------------------------------------------------------------------------------- helpers

class Libc:
  def __init__(self):
    c = ctypes.CDLL(None)
    c.malloc.restype = ctypes.c_void_p
    c.malloc.argtypes = [ctypes.c_size_t]
    c.free.argtypes = [ctypes.c_void_p]
    self.c = c

  def block(self, data):
    """Exact-size heap block holding `data` (ASan red zones directly after its end). Returns (address, size)."""
    n = len(data)
    p = self.c.malloc(max(n, 1))
    if n:
      ctypes.memmove(p, bytes(data), n)
    return p

  def free(self, p):
    self.c.free(p)


def install_cap(lib):
  """mju_user_malloc -> capped allocator (native/C31/capmalloc.c)."""
  src = os.path.join(vb.NATIVE, 'C31', 'capmalloc.c')
  key = vb._sha(vb._read(src))[:16]
  so = os.path.join(vb.CACHE, 'lib', 'c31_capmalloc_%s.so' % key)
  if not os.path.exists(so):
    os.makedirs(os.path.dirname(so), exist_ok=True)
    tmp = so + '.tmp%d' % os.getpid()
    p = subprocess.run([vb.CLANG, '-O1', '-shared', '-fPIC', '-o', tmp, src], capture_output=True, text=True)
    if p.returncode:
      raise RuntimeError('capmalloc build failed: ' + p.stderr[-500:])
    os.replace(tmp, so)
  h = ctypes.CDLL(so)
  h.c31_setcap.argtypes = [ctypes.c_size_t]
  h.c31_refused_count.restype = ctypes.c_long
  h.c31_setcap(CAP)
  um = ctypes.c_void_p.in_dll(lib.raw, 'mju_user_malloc')
  uf = ctypes.c_void_p.in_dll(lib.raw, 'mju_user_free')

  def on():
    um.value = ctypes.cast(h.c31_malloc, ctypes.c_void_p).value
    uf.value = ctypes.cast(h.c31_free, ctypes.c_void_p).value

  def off():
    um.value = None
    uf.value = None
  return on, off, h


def save_bytes(lib, libc, m):
  """Serialize m into an exact-size heap block (ASan checks the writer's bounds). Returns bytes."""
  sz = int(lib.mj_sizeModel(m))
  p = libc.c.malloc(sz)
  try:
    lib.mj_saveModel(m, None, p, sz)
    return ctypes.string_at(p, sz)
  finally:
    libc.free(p)


def measured_length(lib, m, sz):
  """Number of bytes mj_saveModel really writes, measured with two different fill patterns (independent of sz)."""
  out = []
  for fill in (0xA5, 0x5A):
    buf = np.full(sz + 96, fill, dtype=np.uint8)
    lib.mj_saveModel(m, None, buf, sz + 96)
    out.append(buf)
  touched = (out[0] != 0xA5) | (out[1] != 0x5A)
  idx = np.flatnonzero(touched)
  return (int(idx[-1]) + 1 if idx.size else 0), out[0]


def load_block(lib, libc, data):
  """mj_loadModelBuffer on an exact-size block. Returns (Model or None, warnings)."""
  from vf import mj
  p = libc.block(data)
  try:
    lib.warnings()
    ptr = lib.mj_loadModelBuffer(p, len(data))
    w = lib.warnings()
  finally:
    libc.free(p)
  return (mj.Model(lib, ptr) if ptr else None), w


class Layout:
  """Byte offsets of the MJB sections, from the X-macro order exposed by reflection (decoder for corruption targeting)."""

  def __init__(self, lib, m, total):
    self.nsz = len(lib.model_sizes)
    self.sizes = {s: 20 + 8 * i for i, s in enumerate(lib.model_sizes)}
    self.opt = 20 + 8 * self.nsz
    self.vis = self.opt + lib.layout['mjOption']['size']
    self.stat = self.vis + lib.layout['mjVisual']['size']
    self.flags = self.stat + lib.layout['mjStatistic']['size']
    arr = []
    n = 0
    for f in lib.model_fields:
      a = getattr(m, f)
      arr.append((f, a.dtype, a.shape, a.nbytes))
      n += a.nbytes
    self.arrays_start = total - n        # whatever sits between the structs and the arrays are the scalar flags
    self.arrays = {}
    off = self.arrays_start
    for f, dt, sh, nb in arr:
      self.arrays[f] = (off, dt, sh, nb)
      off += nb
    self.total = total
    self.boundaries = sorted(set([0, 4, 8, 12, 16, 20, self.opt, self.vis, self.stat, self.flags, self.arrays_start, total]
                                 + [20 + 8 * i for i in range(self.nsz)]
                                 + [v[0] for v in self.arrays.values()]))

  def verify(self, lib, m, data):
    for f, (off, dt, sh, nb) in self.arrays.items():
      if nb and bytes(data[off:off + nb]) != np.ascontiguousarray(getattr(m, f)).tobytes():
        return f
    return None


def apply_ops(base, ops):
  b = bytearray(base)
  for op in ops:
    k = op[0]
    if k == 'set':
      off, hx = op[1], bytes.fromhex(op[2])
      b[off:off + len(hx)] = hx
    elif k == 'trunc':
      del b[op[1]:]
    elif k == 'resize':
      n = op[1]
      if n < len(b):
        del b[n:]
      else:
        b.extend(bytes([op[2] & 255]) * (n - len(b)))
    elif k == 'insert':
      b[op[1]:op[1]] = bytes.fromhex(op[2])
    elif k == 'delete':
      del b[op[1]:op[1] + op[2]]
    elif k == 'xor':
      b[op[1]] ^= op[2]
  return bytes(b)


def i32(v):
  return int(v & 0xFFFFFFFF).to_bytes(4, 'little').hex()


def i64(v):
  return int(v & 0xFFFFFFFFFFFFFFFF).to_bytes(8, 'little').hex()


# --------------------------------------------------------------------------------------------- classification

# sizes "set after mjModel construction" (mjmodel.h): mj_makeModel does not take them; the loader copies them from the file
DERIVED_AFTER = 'nnames_map'


def derived_sizes(lib):
  i = lib.model_sizes.index(DERIVED_AFTER)
  return set(lib.model_sizes[i:]) - {'nbuffer'}


# enumerations select how other fields are interpreted but are not cross-references: reported as labels, not judged
TYPE_FIELDS = ('geom_type', 'geom_condim', 'wrap_type', 'actuator_trntype', 'eq_type', 'eq_objtype', 'sensor_objtype',
               'sensor_reftype', 'tuple_objtype')


def problem_fingerprint(p):
  """Root-cause family of an out-of-range reference found in an accepted model. p = [field, index, value, why, kind, num]."""
  field, _, value, _, kind, num = p
  if value == -1:
    return 'mjb-accepts-minus1', 'the value -1 is accepted in a reference field that has no "none" value'
  if kind == 'adr' and value + num > INT_MAX:
    return 'mjb-adr-plus-num-int-overflow', 'adr+num overflows int in the range check'
  if str(kind).startswith('branch:'):
    # the validity of this field depends on a type field: one fingerprint per (field, branch), so that a known gap in one
    # branch can never absorb a defect in a branch the tree does validate
    return 'mjb-unvalidated:%s[%s]' % (field, kind[7:]), 'this branch of the field is not range-checked'
  return 'mjb-unvalidated:' + field, 'field is not range-checked'


def boundary_value(lib, m, field, i):
  """Smallest out-of-range value for element i of a 'special' relation field (None if not applicable)."""
  E = lib.enums
  I = lambda f: np.asarray(getattr(m, f)).ravel()
  try:
    if field == 'jnt_qposadr':
      return int(m.nq) - [7, 4, 1, 1][int(I('jnt_type')[i])] + 1
    if field == 'jnt_dofadr':
      return int(m.nv) - [6, 3, 1, 1][int(I('jnt_type')[i])] + 1
    if field == 'sensor_adr':
      return int(m.nsensordata) - int(I('sensor_dim')[i]) + 1
    if field == 'hfield_adr':
      return int(m.nhfielddata) - int(I('hfield_nrow')[i]) * int(I('hfield_ncol')[i]) + 1
    if field == 'tex_adr':
      return int(m.ntexdata) - int(I('tex_height')[i]) * int(I('tex_width')[i]) * int(I('tex_nchannel')[i]) + 1
    if field == 'dof_simplenum':
      return int(m.nv) - i + 1
    if field == 'D_diag':
      return int(m.nD)
    if field in ('actuator_historyadr', 'sensor_historyadr'):
      return int(m.nhistory)
    if field == 'geom_dataid':
      t = int(I('geom_type')[i])
      return int(m.nhfield) if t == E.mjGEOM_HFIELD else int(m.nmesh)
    if field in ('pair_signature', 'exclude_signature'):
      return (int(m.nbody) << 16) + 0
    if field in ('eq_obj1id', 'eq_obj2id'):
      t = int(I('eq_type')[i])
      if t in (E.mjEQ_CONNECT, E.mjEQ_WELD):
        return modelref.objcount(lib, m, int(I('eq_objtype')[i]))
      return {E.mjEQ_JOINT: int(m.njnt), E.mjEQ_TENDON: int(m.ntendon)}.get(t, int(m.nflex))
    if field == 'wrap_objid':
      t = int(I('wrap_type')[i])
      return {E.mjWRAP_JOINT: int(m.njnt), E.mjWRAP_SITE: int(m.nsite), E.mjWRAP_SPHERE: int(m.ngeom),
              E.mjWRAP_CYLINDER: int(m.ngeom)}.get(t)
    if field == 'actuator_trnid':
      t = int(I('actuator_trntype')[i // 2])
      return {E.mjTRN_JOINT: int(m.njnt), E.mjTRN_JOINTINPARENT: int(m.njnt), E.mjTRN_TENDON: int(m.ntendon),
              E.mjTRN_SITE: int(m.nsite), E.mjTRN_SLIDERCRANK: int(m.nsite), E.mjTRN_BODY: int(m.nbody)}.get(t)
    if field == 'sensor_objid':
      return modelref.objcount(lib, m, int(I('sensor_objtype')[i]))
    if field == 'sensor_refid':
      return modelref.objcount(lib, m, int(I('sensor_reftype')[i]))
    if field == 'tuple_objid':
      return modelref.objcount(lib, m, int(I('tuple_objtype')[i]))
    if field == 'mesh_face':
      return int(I('mesh_vertnum').max()) if m.nmesh else None
  except Exception:
    return None
  return None


# --------------------------------------------------------------------------------------------- the check

class C31:
  def __init__(self, ck):
    self.ck = ck
    self.lib = ck.lib('asan')
    self.libc = Libc()
    self.cap_on, self.cap_off, self.caph = install_cap(self.lib)
    self.models = []     # dict(name, m, data, lay)
    self.outcomes = {}
    os.makedirs(WORKDIR, exist_ok=True)
    os.makedirs(os.path.dirname(ASAN_LOG), exist_ok=True)

  # ---- (a) round trip
  def roundtrip(self, name, m, xml=None, seed=0, steps=True):
    lib, libc, ck = self.lib, self.libc, self.ck
    sz = int(lib.mj_sizeModel(m))
    wrote, buf = measured_length(lib, m, sz)
    if wrote != sz:
      raise Violation('%s: mj_sizeModel=%d but mj_saveModel wrote %d bytes' % (name, sz, wrote), bucket='sizeModel')
    data = save_bytes(lib, libc, m)
    if data != buf[:sz].tobytes():
      raise Violation('%s: two saves of the same model differ' % name, bucket='save-deterministic')
    lay = Layout(lib, m, sz)
    bad = lay.verify(lib, m, data)
    if bad:
      raise RuntimeError('harness: MJB layout decoder disagrees with the file at array %s' % bad)
    m2, warn = load_block(lib, libc, data)
    if m2 is None:
      raise Violation('%s: freshly saved model is rejected: %s' % (name, warn[:2]), bucket='load-rejects-valid')
    diffs = modelcmp.compare(lib, m, m2, mode='exact', skip=('signature',))
    only_adh = diffs and all(d.field == 'flg_adhesion' for d in diffs)
    if diffs:
      msg = '%s: load(save(m)) differs from m: %s' % (name, modelcmp.fmt(diffs))
      if only_adh:
        ck.violation(msg + ' (flg_adhesion is not serialized; the loaded model silently loses adhesion)',
                     dict(model=name, xml=xml), bucket='roundtrip-flg_adhesion', fingerprint='mjb-flg_adhesion-not-saved')
      else:
        raise Violation(msg, bucket='roundtrip-differs')
    data2 = save_bytes(lib, libc, m2)
    if data2 != data:
      i = next(i for i in range(min(len(data), len(data2))) if data[i] != data2[i]) if len(data) == len(data2) else -1
      raise Violation('%s: save(load(save(m))) is not byte-identical (len %d vs %d, first diff %d)' % (
          name, len(data), len(data2), i), bucket='resave-differs')
    # file and VFS routes
    path = os.path.join(WORKDIR, 'rt_%d.mjb' % os.getpid())
    lib.mj_saveModel(m, path, None, 0)
    try:
      fdata = open(path, 'rb').read()
    except OSError:
      raise Violation('%s: mj_saveModel(filename) wrote no file' % name, bucket='file-route')
    if fdata != data:
      raise Violation('%s: file written by mj_saveModel (%d bytes) differs from buffer save (%d bytes)' % (
          name, len(fdata), len(data)), bucket='file-route')
    from vf import mj
    p = lib.mj_loadModel(path, None)
    os.unlink(path)
    if not p:
      raise Violation('%s: mj_loadModel(file) returned NULL: %s' % (name, lib.warnings()[:2]), bucket='file-route')
    m3 = mj.Model(lib, p)
    d3 = modelcmp.compare(lib, m2, m3, mode='exact')
    if d3:
      raise Violation('%s: mj_loadModel(file) != mj_loadModelBuffer: %s' % (name, modelcmp.fmt(d3)), bucket='file-route')
    vfs = ctypes.create_string_buffer(64)      # mjVFS is a struct holding one pointer
    lib.mj_defaultVFS(vfs)
    try:
      rc = lib.mj_addBufferVFS(vfs, 'model.mjb', data, len(data))
      if rc != 0:
        raise Violation('%s: mj_addBufferVFS rc=%d' % (name, rc), bucket='vfs-route')
      p = lib.mj_loadModel('model.mjb', vfs)
      if not p:
        raise Violation('%s: mj_loadModel(vfs) returned NULL: %s' % (name, lib.warnings()[:2]), bucket='vfs-route')
      m4 = mj.Model(lib, p)
      d4 = modelcmp.compare(lib, m2, m4, mode='exact')
      if d4:
        raise Violation('%s: mj_loadModel(vfs) != mj_loadModelBuffer: %s' % (name, modelcmp.fmt(d4)), bucket='vfs-route')
    finally:
      lib.mj_deleteVFS(vfs)
    # reference checker must accept every compiler-produced model (soundness of the oracle itself)
    pr = modelref.check(lib, m2)
    if pr:
      raise RuntimeError('harness: reference checker rejects an uncorrupted model %s: %s' % (name, pr[:3]))
    # behaviour: same trajectories
    stepped = False
    if steps and m.nbody < 200:
      da, db = lib.make_data(m), lib.make_data(m2)
      mg.apply_state(lib, m, da, seed, vel_scale=0.5, pos_scale=0.3)
      for f in ('qpos', 'qvel', 'act', 'ctrl', 'qfrc_applied', 'xfrc_applied', 'mocap_pos', 'mocap_quat'):
        getattr(db, f)[...] = getattr(da, f)
      try:
        for _ in range(3):
          lib.mj_step(m, da)
          lib.mj_step(m2, db)
        stepped = True
      except Exception as e:
        # unwound mjData objects must not be deleted (ASan build checks mark/free pairing in mj_deleteData): leak them
        object.__setattr__(da, '_own', False)
        object.__setattr__(db, '_own', False)
        ck.label('step-error: ' + str(e)[:80])
      if stepped:
        for f in ('qpos', 'qvel', 'act', 'sensordata', 'qacc'):
          if getattr(da, f).tobytes() != getattr(db, f).tobytes():
            msg = '%s: 3 steps of the loaded model give different %s than the original' % (name, f)
            if only_adh:
              ck.violation(msg + ' (consequence of flg_adhesion=0 after load)', dict(model=name, xml=xml),
                           bucket='roundtrip-flg_adhesion', fingerprint='mjb-flg_adhesion-not-saved')
              break
            raise Violation(msg, bucket='roundtrip-dynamics')
    return dict(name=name, m=m, data=data, lay=lay, xml=xml, nbytes=sz, stepped=stepped)

  # ---- (b) truncation
  def truncation_lengths(self, rec, rng, n_random, every=False):
    lay = rec['lay']
    if every:
      return list(range(lay.total))
    s = set()
    bs = lay.boundaries
    if len(bs) > n_random:      # all header/size/struct boundaries, a sample of the array boundaries
      head = [b for b in bs if b <= lay.arrays_start]
      tail = [b for b in bs if b > lay.arrays_start]
      bs = head + [tail[i] for i in rng.permutation(len(tail))[:n_random]] + [lay.total]
    for b in bs:
      for d in (-1, 0, 1):
        if 0 <= b + d < lay.total:
          s.add(b + d)
    s.update(int(x) for x in rng.randint(0, lay.total, size=n_random))
    s.update(range(0, min(lay.total, 24)))
    return sorted(s)

  def run_truncations(self, rec, lengths):
    ck = self.ck
    base = rec['data']
    items = [dict(model=rec['name'], what='truncate', cls='truncate', ops=[['trunc', L]], L=L) for L in lengths]
    self.run_cases(rec, items, expect_reject=True)

  # ---- execution of corruption cases (in forked children)
  def child_case(self, rec, case, note):
    lib, libc = self.lib, self.libc
    from vf import mj
    data = apply_ops(rec['data'], case['ops'])
    note('load')
    self.cap_on()
    res = dict(n=len(data))
    try:
      try:
        m2, warn = load_block(lib, libc, data)
      except mj.MjError as e:
        res.update(outcome='mjerror', msg=str(e)[:200])
        return res
      res['warn'] = warn[:2]
      if m2 is None:
        res['outcome'] = 'rejected'
        return res
      res['outcome'] = 'accepted'
      res['same'] = (data == rec['data'])
      note('refcheck')
      pr = modelref.check(lib, m2, limit=4, fields=case.get('checkfields'))
      res['problems'] = [[p.field, p.index, p.value, p.why, p.kind, p.num] for p in pr]
      if pr:
        return res
      diffs = modelcmp.compare(lib, rec['m'], m2, mode='exact', skip=('signature', 'flg_adhesion'))
      res['ndiff'] = len(diffs)
      res['difffields'] = [d.field for d in diffs[:4]]
      if not diffs:
        return res
      note('makedata')
      try:
        d = lib.make_data(m2)
      except mj.MjError as e:
        res['post'] = 'makeData-mjerror: ' + str(e)[:120]
        return res
      note('forward')
      try:
        lib.mj_forward(m2, d)
        res['post'] = 'ok'
      except mj.MjError as e:
        object.__setattr__(d, '_own', False)
        res['post'] = 'forward-mjerror: ' + str(e)[:120]
      note('done')
      return res
    finally:
      self.cap_off()

  def run_cases(self, rec, items, expect_reject=False):
    ck = self.ck
    dsz = derived_sizes(self.lib)
    for case, status, payload in isolate.run(lambda c, note: self.child_case(rec, c, note), items, timeout=25,
                                             asan_log=ASAN_LOG):
      cls = case['cls']
      field = case.get('field', cls)
      key = (rec['name'], case['what'], str(case['ops']))
      replay = dict(model=rec['name'], xml=rec.get('xml'), what=case['what'], ops=case['ops'])
      nontrivial = cls in ('index', 'size', 'header', 'truncate', 'intarray', 'resize')
      sample = dict(model=rec['name'], nbytes=rec['nbytes'], corruption=case['what'])
      derived = cls in ('size', 'resize') and field in dsz
      if status == 'exc':
        raise RuntimeError('harness: exception in child: ' + payload)
      if status == 'timeout':
        ck.case(nontrivial=False, key=key, labels=['class:' + cls, 'outcome:timeout(inconclusive)'])
        continue
      if status == 'crash':
        stage = payload.get('note') or '?'
        kind, fn, loc = isolate.innermost_frame(payload.get('report') or '')
        if '/shims/' in loc or '/verif/native' in loc:
          raise RuntimeError('harness: crash inside the harness/shims: %s %s' % (fn, loc))
        msg = '%s: process died [%s in %s %s] during %s; rc=%s signal=%s\n%s' % (
            case['what'], kind, fn, loc, stage, payload.get('rc'), payload.get('signal'),
            (payload.get('report') or '')[:1500])
        if stage == 'refcheck':
          raise RuntimeError('harness: crash inside the reference checker: ' + msg[:800])
        if derived:
          ck.violation(msg + '\n(derived size %s is copied from the file without validation)' % field, replay,
                       bucket='derived-size-trusted', fingerprint='mjb-derived-size-trusted')
          self.note_family('mjb-derived-size-trusted', '%s -> crash in %s during %s' % (field, fn, stage))
        elif stage == 'load' and fn == 'bufread':
          # the destination of bufread can only be overrun when the size used for reading differs from the size used for
          # allocating, i.e. when a size that mj_makeModel derives (nnames_map ...) is overwritten from the file
          ck.violation(msg + '\n(array size read from the file differs from the size the model was allocated with)', replay,
                       bucket='derived-size-trusted', fingerprint='mjb-derived-size-trusted')
          self.note_family('mjb-derived-size-trusted', '%s -> %s in bufread during load' % (case['what'][:60], kind))
        elif stage == 'load':
          ck.violation(msg, replay, bucket='load-crash:%s:%s' % (kind, fn), fingerprint='mjb-load-crash:%s:%s' % (kind, fn))
        elif case.get('reference'):
          fp = 'mjb-postload-crash:%s' % field
          mi = re.search(r'geom_dataid\[(\d+)\]', case['what']) if field == 'geom_dataid' else None
          if mi is not None:
            # input rule: an out-of-range geom_dataid written on a geom that is not mesh/sdf/hfield IS the input class of the
            # listed finding mjb-unvalidated:geom_dataid[primitive] (accepted unchecked, then followed by the collision code);
            # the crash is that finding met before the reference checker could report it
            E_ = self.lib.enums
            gt = int(rec['m'].geom_type[int(mi.group(1))])
            if gt not in (E_.mjGEOM_MESH, E_.mjGEOM_SDF, E_.mjGEOM_HFIELD):
              fp = 'mjb-unvalidated:geom_dataid[primitive]'
          ck.violation(msg, replay, bucket='postload-crash:%s' % field, fingerprint=fp)
        else:
          ck.label('postload-crash-after-nonreference-corruption')
          self.note_family('not-judged:postload-crash-after-nonreference-corruption', '%s -> %s in %s' % (field, kind, fn))
        sample['outcome'] = 'crash:%s:%s:%s' % (stage, kind, fn)
        ck.case(nontrivial=nontrivial, key=key, sample=sample, labels=['class:' + cls, 'outcome:crash-' + stage])
        continue
      r = payload
      out = r['outcome']
      sample['outcome'] = out
      labels = ['class:' + cls]
      if out == 'mjerror':
        if 'ould not allocate' in r['msg']:
          labels.append('outcome:alloc-cap(inconclusive)')
        else:
          tag = ' '.join(r['msg'].replace(':', ' ').split()[:6])
          ck.violation('%s: mj_loadModelBuffer raised mju_error (terminates the process by default) instead of '
                       'warning+NULL: %s' % (case['what'], r['msg']), replay, bucket='load-mju_error:' + tag,
                       fingerprint='mjb-load-mju_error:' + tag)
          labels.append('outcome:mju_error')
      elif out == 'rejected':
        if not r['warn']:
          ck.violation('%s: rejected (NULL) without any warning' % case['what'], replay, bucket='reject-nowarn')
        labels.append('outcome:rejected')
        sample['warning'] = (r['warn'] or [''])[0][:80]
      else:
        if r.get('same'):
          labels.append('outcome:accepted-noop')
        elif r['problems'] and all(q[0] in TYPE_FIELDS for q in r['problems']):
          labels.append('outcome:accepted-bad-enum(not judged)')
          self.note_family('not-judged:enum-value-out-of-range-accepted', r['problems'][0][0])
        elif r['problems']:
          p = [q for q in r['problems'] if q[0] not in TYPE_FIELDS][0]
          labels.append('outcome:accepted-INVALID')
          if derived:
            fp, why = 'mjb-derived-size-trusted', 'derived size %s is copied from the file without validation' % field
            self.note_family(fp, '%s -> %s out of range' % (field, p[0]))
          else:
            fp, why = problem_fingerprint(p)
            self.note_family(fp, p[0])
          ck.violation('%s: corrupted file accepted, but %s[%d]=%d: %s (%s; warnings: %s)' % (
              case['what'], p[0], p[1], p[2], p[3], why, r['warn']), replay, bucket=fp, fingerprint=fp)
          sample['invalid'] = p[0]
        else:
          if expect_reject:
            ck.violation('%s: truncated file accepted (%d of %d bytes)' % (case['what'], r['n'], rec['nbytes']), replay,
                         bucket='truncated-accepted')
          labels.append('outcome:accepted-valid' if r.get('ndiff') else 'outcome:accepted-identical')
          if r.get('post') and r['post'] != 'ok':
            labels.append('post:' + r['post'].split(':')[0])
      ck.case(nontrivial=nontrivial, key=key, sample=sample, labels=labels)

  def note_family(self, fp, detail):
    fam = self.ck.extra.setdefault('finding_families', {})
    lst = fam.setdefault(fp, [])
    if detail not in lst and len(lst) < 200:
      lst.append(detail)

  # ---- (c1) systematic enumeration over the reference table
  def index_cases(self, rec, per_field=2, other=False, quick=False):
    lib, m, lay = self.lib, rec['m'], rec['lay']
    out = []
    Q = (lambda full, q: q) if quick else (lambda full, q: full)

    TYPED = dict(eq_obj1id=('eq_type', 'eq_objtype'), eq_obj2id=('eq_type', 'eq_objtype'), wrap_objid=('wrap_type',),
                 sensor_objid=('sensor_objtype',), sensor_refid=('sensor_reftype',), tuple_objid=('tuple_objtype',),
                 geom_dataid=('geom_type',))

    def branch_key(field, i):
      if field in TYPED:
        return str([int(np.asarray(getattr(m, t)).ravel()[i]) for t in TYPED[field]])
      if field == 'actuator_trnid':
        return str([int(np.asarray(m.actuator_trntype).ravel()[i // 2]), i % 2])
      return ''

    def elem_cases(field, idxs, vals, why, checkfields=None):
      off, dt, sh, nb = lay.arrays[field]
      isz = dt.itemsize
      flat = np.asarray(getattr(m, field)).ravel()
      for i in idxs:
        for v in vals:
          if isz == 4 and not INT_MIN <= v <= INT_MAX:
            continue
          if int(flat[i]) == v:
            continue
          hx = i32(v) if isz == 4 else i64(v)
          out.append(dict(model=rec['name'], cls='index', field=field, what='%s[%d]: %d -> %d (%s)' % (
              field, i, int(flat[i]), v, why), ops=[['set', off + i * isz, hx]], checkfields=checkfields, cover=field + branch_key(field, i),
                          reference=(checkfields is not None or why == 'special relation') and field not in TYPE_FIELDS))
    for r in modelref.relations(lib):
      f = r.field
      a = np.asarray(getattr(m, f)).ravel()
      if a.size == 0 or a.dtype.kind not in 'iu':
        continue
      idxs = sorted(set([a.size - 1, 0, a.size // 2]), reverse=True)[:per_field]
      if f in TYPED:        # one element per branch of the type field(s) the validity depends on
        keys = list(zip(*[np.asarray(getattr(m, t)).ravel().tolist() for t in TYPED[f]]))
        seen = {}
        for i, k in enumerate(keys):
          seen[k] = i
        idxs = sorted(set(idxs) | set(seen.values()))
      elif f == 'actuator_trnid':
        tt = np.asarray(m.actuator_trntype).ravel().tolist()
        seen = {}
        for i, k in enumerate(tt):
          seen[k] = i
        idxs = sorted(set(idxs) | set(2 * i for i in seen.values()) | set(2 * i + 1 for i in seen.values()))
      if r.kind == 'id':
        n = int(getattr(m, r.target))
        # addresses into packed NUL-separated text (plugin attributes, paths) are only probed outside the array: a value
        # inside it moves the start into the middle of the text, which is not a range question
        packed = f in ('plugin_attradr', 'mesh_pathadr', 'hfield_pathadr', 'skin_pathadr', 'tex_pathadr')
        elem_cases(f, idxs, [v for v in Q([n, n - 1, n + 7, r.lo - 1, -9, INT_MAX, INT_MIN], [n, n - 1, r.lo - 1])
                             if not (packed and v == n - 1)],
                   'id >= %s or < %d' % (r.target, r.lo), [f])
      elif r.kind == 'name':
        n = int(m.nnames)
        elem_cases(f, idxs, Q([n, n + 9, -1, INT_MIN, INT_MAX], [n]), 'name address outside names', [f])
      elif r.kind == 'adrnum':
        n = int(getattr(m, r.target))
        k = np.asarray(getattr(m, r.num)).ravel()
        pos = np.flatnonzero(k > 0)
        i = int(pos[-1]) if pos.size else 0
        ki, ai = int(k[i]), int(a[i])
        elem_cases(f, [i], Q([n - ki + 1, n + 3, -2, INT_MAX, INT_MAX - ki + 1], [n - ki + 1]),
                   'adr+num > %s' % r.target, [f, r.num])
        elem_cases(r.num, [i], Q([n - ai + 1, n + 5, -1, INT_MAX, INT_MIN], [n - ai + 1]),
                   'num too large / negative', [f, r.num])
      else:
        elem_cases(f, idxs, Q([1 << 20, -2, INT_MAX, INT_MIN, 7], [1 << 20]), 'special relation')
        for i in idxs:      # the value just past the legal range of this element
          bv = boundary_value(lib, m, f, i)
          if bv is not None and bv >= 0:
            # first invalid value and last valid value: the two values a slipped bound shows on
            elem_cases(f, [i], [bv] + ([bv - 1] if bv >= 1 else []), 'special relation')
    if other:
      # int arrays outside the reference table (types, flags, counts, bvh/graph payload ...): judged by the full
      # reference check and by surviving mj_makeData + mj_forward
      intable = set(r.field for r in modelref.relations(lib)) | set(r.num for r in modelref.relations(lib) if r.num)
      for f, (off, dt, sh, nb) in lay.arrays.items():
        if nb and dt.kind in 'iu' and dt.itemsize == 4 and f not in intable:
          a = np.asarray(getattr(m, f)).ravel()
          elem_cases(f, sorted(set([0, a.size - 1]))[-per_field:], Q([-2, 1 << 20, INT_MAX, INT_MIN], [-2]),
                     'int field outside the table')
    return out

  # ---- (c2) size fields
  def size_cases(self, rec, names=None, quick=False):
    lib, m, lay = self.lib, rec['m'], rec['lay']
    out = []
    for s in (names or lib.model_sizes):
      v = int(getattr(m, s))
      vals = [v - 1, v + 1, -1] if quick else [0, v - 1, v + 1, v + 16, 2 * v + 1, -1, INT_MAX,
                                                                INT_MAX + 1, 1 << 40, -(1 << 40)]
      for nv in sorted(set(vals)):
        if nv == v:
          continue
        ops = [['set', lay.sizes[s], i64(nv)]]
        out.append(dict(model=rec['name'], cls='size', field=s, what='size %s: %d -> %d' % (s, v, nv), ops=ops))
        if 0 <= nv <= v + 4096 and s != 'nbuffer':
          # consistent file length: ask mj_sizeModel what a model with that size would occupy and pad/cut the file
          L = self.length_with_size(m, s, nv)
          if L is not None and L != lay.total and 0 < L < lay.total + (1 << 22):
            out.append(dict(model=rec['name'], cls='resize', field=s,
                            what='size %s: %d -> %d with file length adjusted %d -> %d' % (s, v, nv, lay.total, L),
                            ops=ops + [['resize', L, 0]]))
    return out

  def length_with_size(self, m, s, nv):
    """Serialized length of a model whose size field s is nv (generator helper; not part of the oracle)."""
    lib = self.lib
    f = lib.layout['mjModel']['fields'][s]
    c = lib.copy_model(m)
    old = getattr(c, s)
    try:
      setattr(c, s, nv)
      return int(lib.mj_sizeModel(c))
    except Exception:
      return None
    finally:
      setattr(c, s, old)

  def header_cases(self, rec):
    out = []
    hdr = np.frombuffer(rec['data'][:20], dtype=np.int32)
    for i in range(5):
      for v in (0, int(hdr[i]) + 1, int(hdr[i]) - 1, -1, INT_MAX):
        if v != int(hdr[i]):
          out.append(dict(model=rec['name'], cls='header', field='header%d' % i,
                          what='header[%d]: %d -> %d' % (i, int(hdr[i]), v), ops=[['set', 4 * i, i32(v)]]))
    return out


@st.composite
def random_corruptions(draw, lay_info, n):
  """n random corruption descriptors for a model with the given layout info (drawn by Hypothesis)."""
  total, int_arrays, sizes, structs = lay_info
  out = []
  for _ in range(n):
    kind = draw(st.sampled_from(['byte', 'byte-head', 'intarray', 'intarray', 'splice', 'struct', 'trunc', 'size2']))
    if kind == 'byte':
      off = draw(st.integers(0, total - 1))
      out.append(dict(cls='byte', what='xor byte @%d' % off, ops=[['xor', off, draw(st.integers(1, 255))]]))
    elif kind == 'byte-head':
      off = draw(st.integers(0, min(total, structs[0]) - 1))
      out.append(dict(cls='size', field='sizes', what='xor header/size byte @%d' % off,
                      ops=[['xor', off, draw(st.integers(1, 255))]]))
    elif kind == 'intarray' and int_arrays:
      f, off, cnt, isz = draw(st.sampled_from(int_arrays))
      i = draw(st.integers(0, cnt - 1))
      v = draw(st.one_of(st.sampled_from([-1, -2, 0, 1, 2, 255, 256, 65535, 65536, INT_MAX, INT_MIN, 1 << 20]),
                         st.integers(-40, 400)))
      out.append(dict(cls='intarray', field=f, what='%s[%d] := %d' % (f, i, v),
                      ops=[['set', off + isz * i, i32(v) if isz == 4 else i64(v)]]))
    elif kind == 'splice':
      off = draw(st.integers(0, total - 1))
      n2 = draw(st.integers(1, 64))
      if draw(st.booleans()):
        out.append(dict(cls='splice', what='insert %d bytes @%d' % (n2, off),
                        ops=[['insert', off, (bytes([draw(st.integers(0, 255))]) * n2).hex()]]))
      else:
        out.append(dict(cls='splice', what='delete %d bytes @%d' % (n2, off), ops=[['delete', off, n2]]))
    elif kind == 'struct':
      off = draw(st.integers(structs[0], structs[1] - 4))
      v = draw(st.sampled_from([-1, 0, 1, 7, 1000, INT_MAX, INT_MIN]))
      out.append(dict(cls='struct', what='opt/vis/stat int32 @%d := %d' % (off, v), ops=[['set', off - off % 4, i32(v)]]))
    elif kind == 'trunc':
      L = draw(st.integers(0, total - 1))
      out.append(dict(cls='truncate', what='truncate', ops=[['trunc', L]]))
    else:
      s, off = draw(st.sampled_from(sizes))
      v = draw(st.one_of(st.integers(0, 300), st.sampled_from([-1, INT_MAX, INT_MAX + 1, 1 << 33])))
      out.append(dict(cls='size', field=s, what='size %s := %d' % (s, v), ops=[['set', off, i64(v)]]))
  return out


def lay_info(lib, rec):
  lay = rec['lay']
  ints = []
  for f, (off, dt, sh, nb) in lay.arrays.items():
    if nb and dt.kind in 'iu' and dt.itemsize in (4, 8):
      ints.append((f, off, nb // dt.itemsize, dt.itemsize))
  return (lay.total, ints, sorted(lay.sizes.items()), (lay.opt, lay.flags))


def pick_cover(c, recs, rels):
  """Greedy choice of models so that every relation field has a non-empty array in some chosen model."""
  need = set()
  have = {}
  for r in recs:
    fs = set()
    for rel in rels:
      if np.asarray(getattr(r['m'], rel.field)).size:
        fs.add(rel.field)
    mm = r['m']
    for a, b in zip(np.asarray(mm.eq_type).ravel().tolist(), np.asarray(mm.eq_objtype).ravel().tolist()):
      fs.add('eq:%d:%d' % (a, b))
    for t in set(np.asarray(mm.actuator_trntype).ravel().tolist()):
      fs.add('trn:%d' % t)
    for t in set(np.asarray(mm.wrap_type).ravel().tolist()):
      fs.add('wrap:%d' % t)
    for t in set(np.asarray(mm.sensor_objtype).ravel().tolist()):
      fs.add('sensobj:%d' % t)
    have[r['name']] = fs
    need |= fs
  chosen = []
  rest = sorted(recs, key=lambda r: r['nbytes'])
  while need and rest:
    best = max(rest, key=lambda r: (len(have[r['name']] & need), -r['nbytes']))
    if not have[best['name']] & need:
      break
    chosen.append(best)
    need -= have[best['name']]
    rest.remove(best)
  return chosen


def regressions(ck):
  """Committed reproducers (replays/C31/index.json): each is re-run through the same oracle; a defect that is still
  present reports under its fingerprint (KNOWN-FINDING once listed), a repaired one simply passes."""
  import json
  from vf import mj
  path = os.path.join(os.path.dirname(WORK), 'replays', 'C31', 'index.json')
  if not os.path.exists(path):
    return
  c = C31(ck)
  lib = c.lib
  for r in json.load(open(path)):
    m = lib.model_from_xml(r['xml'])
    try:
      rec = c.roundtrip('replay:' + r['id'], m, xml=r['xml'], seed=1)
    except Violation as e:
      ck.violation('Violation: %s' % e, dict(replay=r['id']), bucket=e.bucket)
      continue
    ck.label('replay:' + r['id'])
    if r['kind'] == 'roundtrip':
      continue
    lay = rec['lay']
    if r['kind'] == 'size':
      v = int(getattr(m, r['field']))
      nv = r['value'] if 'value' in r else v + r['delta']
      case = dict(model=rec['name'], cls='size', field=r['field'], what='replay %s: size %s: %d -> %d' % (r['id'], r['field'], v, nv),
                  ops=[['set', lay.sizes[r['field']], i64(nv)]])
    else:
      off, dt, sh, nb = lay.arrays[r['field']]
      old = int(np.asarray(getattr(m, r['field'])).ravel()[r['index']])
      case = dict(model=rec['name'], cls='index', field=r['field'], reference=r['field'] not in TYPE_FIELDS,
                  what='replay %s: %s[%d]: %d -> %d' % (r['id'], r['field'], r['index'], old, r['value']),
                  ops=[['set', off + r['index'] * dt.itemsize, i32(r['value']) if dt.itemsize == 4 else i64(r['value'])]])
    c.run_cases(rec, [case])


def main(ck):
  from vf import mj
  import time
  t0 = [time.time()]

  def _tick(name):
    ck.extra.setdefault('phase_seconds', {})[name] = round(time.time() - t0[0], 1)
    t0[0] = time.time()
  c = C31(ck)
  lib = c.lib
  rng = np.random.RandomState(ck.seed)
  ck.rule = ('models: Hypothesis rich models + corpus files (enumerated at run time); cases: one corruption of the '
             'serialized MJB each (systematic out-of-range values for every relation of the reference table and for every '
             'other int array, size fields with/without adjusted file length, header ints, truncations at all section '
             'boundaries, random int-array elements, bytes, splices); non-trivial = the corruption hits a header/size/'
             'index field or truncates (not float payload); distinct by (model, ops)')
  ck.assumptions = ['generated documents do not use <compiler fusestatic> (compiling a fused static body with a framed camera is a heap-use-after-free in this tree, which would end the ASan process; reported under C33/C37)',
                    'mjModel.signature is not compared after a binary round trip (mjmodel.h: compilation signature held by '
                    'the mjSpec; a loaded binary has no spec)',
                    'allocation requests above 256 MB caused by a corrupted size field are refused by a capped '
                    'mju_user_malloc and counted as inconclusive (alloc-cap), not as rejections',
                    'post-load crashes after corrupting non-reference payload (opt/vis/stat members, floats) are counted, '
                    'not judged (outside the statement)']
  rels = modelref.relations(lib)
  quick = ck.quick

  # ---------- (a) round trips: generated + corpus
  recs = []

  def rt_test(case):
    gm, seed = case
    # The compiler is not the subject here, and under the ASan build an engine error inside mj_compile can loop forever
    # (mj_deleteData in the catch block raises the mark/free pairing error again and longjmps back into Compile; the
    # process grew to 59 GB): compile once in a forked child with a time limit first.
    def probe(x, note):
      try:
        lib.model_from_xml(x)
        return 'ok'
      except mj.MjError:
        return 'error'
    st_, pay = [(s_, p_) for _, s_, p_ in isolate.run(probe, [gm.xml], timeout=40, asan_log=ASAN_LOG)][0]
    if st_ != 'ok' or pay != 'ok':
      ck.discard('compile' if st_ == 'ok' else 'compile-%s-under-asan' % st_)
      return
    try:
      m = lib.model_from_xml(gm.xml)
    except mj.MjError:
      ck.discard('compile')
      return
    rec = c.roundtrip('gen%d' % len(recs), m, xml=gm.xml, seed=seed)
    recs.append(rec)
    ck.case(nontrivial=True, key=('rt', gm.xml), sample=dict(roundtrip='generated', nbytes=rec['nbytes'],
                                                             labels=gm.labels()[:12]),
            labels=['roundtrip:generated'] + [l for l in gm.labels() if l.split(':')[0] in (
                'mesh', 'hfield', 'texture', 'material', 'default-class', 'frame', 'replicate', 'keyframe', 'tuple',
                'geom-adhesion', 'pair-adhesion', 'gravcomp', 'surfacevel', 'numeric', 'text', 'pair', 'exclude')])
  ck.run_hypothesis(rt_test, st.tuples(gen_io.rich_models(max_bodies=4, memory='2M', fusestatic=False, muscles=False,
                                                           base_kwargs=dict(opt_kwargs=dict(sleep=False, flags=False))), mg.state_seed()), ck.budget(5, 120),
                    name='roundtrip', shrink=False)
  _tick('roundtrip-generated')
  files = [f for f in corpus.xml_files(lib.repo) if os.path.getsize(f) < (4000 if quick else 40000)]
  files = [files[i] for i in rng.permutation(len(files))][:ck.budget(5, 60)]
  crecs = []
  for f, m in corpus.iter_models(lib, files):
    if int(lib.mj_sizeModel(m)) > (1 << 20 if quick else 64 << 20):
      ck.label('corpus-skipped-large')
      continue
    try:
      rec = c.roundtrip(corpus.rel(f), m, seed=int(rng.randint(1 << 30)), steps=m.nbody < 60 and m.narena <= (4 << 20))
    except Violation as e:
      ck.violation('Violation: %s' % e, dict(model=corpus.rel(f)), bucket=e.bucket)
      continue
    crecs.append(rec)
    ck.case(nontrivial=True, key=('rt', rec['name']), sample=dict(roundtrip='corpus', model=rec['name'],
                                                                  nbytes=rec['nbytes']), labels=['roundtrip:corpus'])
  _tick('roundtrip-corpus')
  ck.extra['corpus_files_tried'] = len(files)
  ck.extra['corpus_roundtrips'] = len(crecs)
  if not recs and not crecs:
    return

  # ---------- a fixed cover document (replays/C31/cover.xml) is part of every run: it contains every branch the validator
  # distinguishes (connect/weld through bodies AND through sites, joint/tendon equalities with and without a second
  # object, all transmission types incl. refsite and slider-crank, all wrap types, sensors/tuples over many object types)
  cover_rec = None
  cpath = os.path.join(os.path.dirname(WORK), 'replays', 'C31', 'cover.xml')
  if os.path.exists(cpath):
    cxml = open(cpath).read()
    cover_rec = c.roundtrip('cover-doc', lib.model_from_xml(cxml), xml=cxml, seed=ck.seed)
    ck.case(nontrivial=True, key=('rt', 'cover-doc'), sample=dict(roundtrip='cover-doc', nbytes=cover_rec['nbytes']),
            labels=['roundtrip:cover-doc'])
  # ---------- choose models for corruption: the richest small generated models + a greedy cover of the relation table
  small = sorted([r for r in recs if r['nbytes'] < 150000], key=lambda r: -len(r['xml']))
  gen_pick = small[:ck.budget(2, 10)]
  cpool = [r for r in crecs if r['nbytes'] < (150000 if quick else 1 << 20)]
  cov = pick_cover(c, gen_pick + cpool, rels)
  targets = ([cover_rec] if cover_rec else []) + list(gen_pick) + [r for r in cov if r not in gen_pick]
  if not quick:      # second and third cover from the remaining corpus models
    for _ in range(2):
      rest = [r for r in cpool if r not in targets]
      targets += pick_cover(c, rest, rels)
  covered = set()
  for r in targets:
    for rel in rels:
      if np.asarray(getattr(r['m'], rel.field)).size:
        covered.add(rel.field)
  ck.extra['relation_fields'] = len(rels)
  ck.extra['relation_fields_covered'] = len(covered)
  ck.extra['relation_fields_uncovered'] = sorted(set(r.field for r in rels) - covered)
  ck.extra['corruption_models'] = [dict(name=r['name'], nbytes=r['nbytes']) for r in targets]

  # ---------- (c1) systematic index corruption: each field once (first model that has it), all fields on gen_pick[0]
  import collections
  done_fields = collections.Counter()
  reps = 1 if quick else 3
  for k, r in enumerate(targets):
    cases = [x for x in c.index_cases(r, per_field=1 if quick else 2, other=not quick, quick=quick)
             if done_fields[x.get('cover', x['field'])] < reps]
    for f in set(x.get('cover', x['field']) for x in cases):
      done_fields[f] += 1
    c.run_cases(r, cases)
  _tick('index-enumeration')
  ck.extra['int_fields_enumerated'] = len(done_fields)
  # ---------- (c2) sizes + header, (b) truncations
  for r in gen_pick[:ck.budget(1, 5)]:
    names = None
    if quick:
      ds = derived_sizes(lib)
      cons = [x for x in lib.model_sizes if x not in ds]
      names = sorted(ds) + [cons[i] for i in rng.permutation(len(cons))[:10]]
    c.run_cases(r, c.size_cases(r, names=names, quick=quick))
    c.run_cases(r, c.header_cases(r))
  _tick('sizes-header')
  for r in targets[:ck.budget(1, 4)]:
    every = (not quick) and r['nbytes'] < 15000
    c.run_truncations(r, c.truncation_lengths(r, rng, ck.budget(20, 1500), every=every))

  _tick('truncation')
  # ---------- (c3) random corruptions drawn by Hypothesis
  pool = targets[:ck.budget(4, 16)]

  def rnd_test(case):
    idx, cors = case
    r = pool[idx % len(pool)]
    for x in cors:
      x['model'] = r['name']
    c.run_cases(r, cors)
  infos = [lay_info(lib, r) for r in pool]
  strat = st.integers(0, len(pool) - 1).flatmap(
      lambda i: st.tuples(st.just(i), random_corruptions(infos[i], 40)))
  ck.run_hypothesis(rnd_test, strat, ck.budget(2, 120), name='random-corruption', shrink=False)

  _tick('random')
  # ---------- (d) libFuzzer
  fuzz(ck, c, recs + crecs)
  _tick('fuzz')


def fuzz(ck, c, recs):
  """libFuzzer target fuzz_mjb (ASan): oracle inside the target = no sanitizer report, no mju_error, accepted models
  survive mj_makeData (+ mj_forward when small).  Crashes are bucketed by innermost frame."""
  src = os.path.join(vb.NATIVE, 'C31', 'fuzz_mjb.cc')
  exe = vb.build_exe('fuzz_mjb', [src], variant='fuzz', extra_ldflags=['-fsanitize=fuzzer'])
  cdir = os.path.join(WORKDIR, 'corpus_%d' % ck.seed)
  adir = os.path.join(WORKDIR, 'artifacts_%d' % ck.seed)
  import shutil
  for d in (cdir, adir):
    shutil.rmtree(d, ignore_errors=True)
    os.makedirs(d)
  n = 0
  for r in sorted(recs, key=lambda r: r['nbytes'])[:40]:
    if r['nbytes'] > 300000:
      continue
    with open(os.path.join(cdir, 'seed%03d.mjb' % n), 'wb') as f:
      f.write(r['data'])
    n += 1
  secs = ck.budget(8, 240)
  jobs = 1 if ck.quick else 4
  cmd = [exe, cdir, '-max_total_time=%d' % secs, '-artifact_prefix=' + adir + '/', '-max_len=400000', '-timeout=20',
         '-rss_limit_mb=3000', '-malloc_limit_mb=512', '-seed=%d' % ck.seed, '-print_final_stats=1', '-len_control=0']
  # fork mode also in the quick tier: the run continues after the first (known) crash
  cmd += ['-fork=%d' % jobs, '-ignore_crashes=1', '-ignore_timeouts=1', '-ignore_ooms=1']
  env = dict(os.environ)
  env['LD_PRELOAD'] = vb.ASAN_RT
  env['ASAN_OPTIONS'] = 'detect_leaks=0:allocator_may_return_null=1:abort_on_error=0:exitcode=77:max_allocation_size_mb=512'
  import signal
  import tempfile
  logf = tempfile.TemporaryFile(mode='w+', errors='replace')
  pr = subprocess.Popen(cmd, stdout=subprocess.DEVNULL, stderr=logf, env=env, start_new_session=True)
  try:
    pr.wait(timeout=secs + 20)
  except subprocess.TimeoutExpired:      # fork mode overshoots -max_total_time on a loaded machine: stop the whole group
    try:
      os.killpg(pr.pid, signal.SIGKILL)
    except OSError:
      pass
    pr.wait()
    ck.label('fuzz:stopped-by-harness-timeout')

  class P:
    returncode = pr.returncode
  p = P()
  logf.seek(0)
  log = logf.read()
  import re
  execs = re.findall(r'#(\d+): cov:', log)
  ck.extra['fuzz_execs'] = max(int(x) for x in execs) if execs else None
  ck.extra['fuzz_seconds'] = secs
  ck.extra['fuzz_seed_inputs'] = n
  arts = sorted(os.listdir(adir))
  stats_path = os.path.join(WORKDIR, 'fuzz_stats.txt')
  nrerun = 0
  for a in arts:
    path = os.path.join(adir, a)
    if a.startswith(('timeout-', 'oom-', 'slow-unit-')):
      ck.label('fuzz:' + a.split('-')[0] + '(inconclusive)')
      continue
    nrerun += 1
    if nrerun > ck.budget(4, 40):      # bounded by count: every further artifact is only counted
      ck.extra['fuzz_artifacts_not_rerun'] = ck.extra.get('fuzz_artifacts_not_rerun', 0) + 1
      continue
    # re-run the single input to obtain its report
    q = subprocess.run([exe, path], stdin=subprocess.DEVNULL, capture_output=True, text=True, env=dict(env, ASAN_OPTIONS=env['ASAN_OPTIONS'] + ':symbolize=1'), timeout=120, errors='replace')
    rep = q.stderr
    kind, fn, loc = isolate.innermost_frame(rep)
    m = re.search(r'VF-ORACLE: ([^\n]*)', rep)
    if m:
      kind, fn = 'oracle', m.group(1)[:60]
    if '/shims/' in loc:
      raise RuntimeError('harness: fuzz crash inside shims: %s %s' % (fn, loc))
    data = open(path, 'rb').read()
    if kind == 'unknown' and fn == '?':
      ck.label('fuzz:artifact-not-reproduced(inconclusive)')
      continue
    seen = ck.extra.setdefault('fuzz_crash_buckets', {})
    seen['%s:%s' % (kind, fn)] = seen.get('%s:%s' % (kind, fn), 0) + 1
    if seen['%s:%s' % (kind, fn)] > 1:
      continue
    fp = 'mjb-derived-size-trusted' if fn == 'bufread' else 'mjb-fuzz:%s:%s' % (kind, fn)
    ck.violation('fuzz_mjb: %s in %s %s on a %d-byte input\n%s' % (kind, fn, loc, len(data), rep[-1500:]),
                 dict(input_hex=data[:200000].hex(), artifact=a), bucket=fp if fn == 'bufread' else 'fuzz:%s:%s' % (kind, fn),
                 fingerprint=fp)
  if p.returncode not in (0,) and not arts:
    ck.extra['fuzz_rc'] = p.returncode
    ck.extra['fuzz_tail'] = log[-600:]
  ck.label('fuzz-run')


LEVEL = 'exploration'
TECHNIQUE = ('round-trip PBT (Hypothesis rich models + shipped corpus) with bit-exact reflection compare; systematic '
             'fault enumeration of every index relation x out-of-range values, size/header/truncation corruptions and '
             'random byte/int/splice corruptions under ASan in forked children with an independent reference checker; '
             'libFuzzer target fuzz_mjb')
LEVEL_TEXT = '''Round trips are compared bit-exactly over every size, array, opt/vis/stat member and flag; the serialized length
is measured independently of mj_sizeModel. Corrupted and truncated buffers are loaded from exact-size heap blocks under
AddressSanitizer; an accepted model must pass an independent checker of ~150 index relations written from the mjmodel.h field
comments and survive mj_makeData + mj_forward. The relation table is enumerated systematically (every relation field that is
non-empty in some chosen model x 5-6 out-of-range values); sizes, header, truncation points and random corruptions are sampled.'''
LEVEL_NOTE = '''Trusted: clang record layouts + X-macro reflection, ASan, the verification build with third-party shims.
mjModel.signature is excluded from the round-trip comparison (documented as belonging to the compiling mjSpec). Allocation
requests > 256 MB provoked by corrupted sizes are refused by a capped allocator and counted as inconclusive. The reference
checker is lenient where the header comments leave room (addresses with zero counts, -1 sentinels), so some semantic
inconsistencies of accepted models (e.g. orderings body_parentid[i] < i, sparse structure contents beyond bounds) are not judged.
Corpus models larger than a few MB are skipped in the quick tier.'''
