"""C32 - Saved MJCF recompiles to the same model.

Domain : (a) Hypothesis rich models (vf/gen_io.py: nested default classes, class/childclass, frames (nested, with
             childclass), replicate, assets, keyframes with full state vectors, compiler/size/visual/statistic settings),
         (b) the shipped corpus models that load in this build (enumerated at run time),
         (c) models built through the mjSpec C API (vf/gen_specapi.py: mjs_add*, mjs_addDefault, mjs_setFrame).
Oracle : round trip.  spec --mj_saveXMLString (precision 17)--> text --parse+compile--> model', compared with the
         original compiled model under the maintainers' own rule of test/compare_model.cc (sizes and integer arrays
         equal, floats within 200 eps absolute for |x|<=1 / relative otherwise, skipping the bvh_/mesh_poly/flex_
         families upstream skips).  Second trip: save(parse(text)) == text.  mj_saveLastXML route (file) for models
         loaded with mj_loadXML.  At the default precision (6 digits): sizes and integer arrays equal and the float
         arrays that are direct copies of printed attributes within 2e-5 relative.
"""
import ctypes
import os
import xml.etree.ElementTree as ET

import numpy as np
from hypothesis import strategies as st

from vf import corpus
from vf import gen_io
from vf import gen_specapi
from vf import modelcmp
from vf import modelgen as mg
from vf.mj import Struct
from vf.runner import Violation, WORK

WORKDIR = os.path.join(WORK, 'C32')
KNOWN_FP = 'replicate-frame-geom-order'

# float arrays that are direct copies (or normalisations) of attributes printed in the XML; used at 6-digit precision.
# Derived quantities (inertia frames, invweight0, lengths, statistics, bounding volumes) are conditioned by the model and
# are compared only at full precision.
PRINTED = ('body_pos', 'body_quat', 'body_gravcomp', 'jnt_pos', 'jnt_axis', 'jnt_range', 'jnt_stiffness', 'jnt_margin',
           'dof_armature', 'dof_damping', 'dof_frictionloss', 'geom_size', 'geom_friction', 'geom_margin', 'geom_gap',
           'geom_solref', 'geom_solimp', 'geom_solmix', 'geom_rgba', 'site_pos', 'site_quat', 'site_size', 'site_rgba',
           'cam_pos', 'cam_quat', 'cam_fovy', 'light_pos', 'light_dir', 'mat_rgba', 'mat_specular', 'mat_shininess',
           'tendon_stiffness', 'tendon_damping', 'tendon_frictionloss', 'tendon_range', 'actuator_gear',
           'actuator_ctrlrange', 'actuator_forcerange', 'actuator_gainprm', 'actuator_biasprm', 'key_time', 'key_qvel',
           'key_act', 'key_ctrl', 'numeric_data', 'pair_friction', 'pair_margin', 'eq_solref')
OPT6 = ('opt.timestep', 'opt.gravity', 'opt.impratio', 'opt.wind', 'opt.density', 'opt.viscosity')
# sizes / integer arrays that depend on exact-zero tests of derived floats (is the inertia frame aligned with the body
# frame, is a body "simple", sparsity of M): rounding the printed numbers to 6 digits may legitimately flip them
STRUCTURE6 = ('nM', 'nB', 'nC', 'nD', 'body_simple', 'body_sameframe', 'geom_sameframe', 'site_sameframe', 'dof_simplenum',
              'dof_Madr', 'M_rownnz', 'M_rowadr', 'M_colind', 'mapM2M', 'D_rownnz', 'D_rowadr', 'D_diag', 'D_colind',
              'mapM2D', 'mapD2M', 'B_rownnz', 'B_rowadr', 'B_colind', 'names_map', 'mesh_extrema', 'mesh_graph')
MESH_F32_TOL = 2e-5     # ~100 x float32 epsilon (1.2e-7), applies only to models with meshes
RTOL6 = 2e-5       # 6 significant digits: relative rounding error <= 5e-6 per printed number; x4 for normalisations


# arrays that change when all masses/inertias are rescaled (settotalmass) ...
MASS_SCALE_FIELDS = {'body_mass', 'body_subtreemass', 'body_inertia', 'body_invweight0', 'dof_invweight0', 'dof_M0',
                     'tendon_invweight0', 'actuator_acc0', 'stat.meanmass', 'stat.meaninertia', 'eq_data'} - {'eq_data'}
# ... and additionally when the set of geoms that contribute to body inertia changes (inertiagrouprange)
MASS_FRAME_FIELDS = {'body_ipos', 'body_iquat', 'body_sameframe', 'body_simple', 'geom_sameframe', 'stat.center',
                     'stat.extent', 'stat.meansize', 'dof_simplenum', 'body_gravcomp'} - {'body_gravcomp'}


# Outputs of mj_setConst that go through the inverse inertia matrix at qpos0 (and its aggregates): their relative error
# is cond(M) * eps * k, not 200 eps.  The saved text reproduces positions/orientations only up to re-normalisation of
# quaternions (a few eps), which these fields amplify.  COND_RTOL = 1e-8 ~ cond(M) <= 1e6 x 2e-16 x 50; worst observed on
# the unchanged tree is recorded in the evidence (worst_conditioned_error).
COND_FIELDS = {'body_invweight0', 'dof_invweight0', 'tendon_invweight0', 'actuator_acc0', 'stat.meaninertia',
               'body_iquat'}     # body_iquat: eigenvectors of the inertia tensor, conditioned by the eigenvalue gaps
COND_RTOL = 1e-8
_worst_cond = [0.0]
_worst_mesh = [0.0, 0]
# arrays that can depend on mesh geometry (fitted/mesh geom frames and sizes, mass properties and what follows from them)
MESH_DERIVED = ('geom_', 'mesh_', 'body_', 'dof_', 'stat.', 'tendon_', 'actuator_acc0', 'qpos0', 'qpos_spring', 'key_')


def compare17(lib, m1, m2, **kw):
  ds = modelcmp.compare(lib, m1, m2, mode='upstream', skip=('signature',), **kw)
  out = []
  for d in ds:
    if d.field in COND_FIELDS and d.kind == 'float':
      a = np.atleast_1d(np.asarray(modelcmp._member(m1, d.field), dtype=float))
      b = np.atleast_1d(np.asarray(modelcmp._member(m2, d.field), dtype=float))
      with np.errstate(all='ignore'):
        scale = 1.0 if d.field == 'body_iquat' else 0.0     # unit quaternions: error relative to the norm
        rel = np.abs(a - b) / np.maximum(np.maximum(np.maximum(np.abs(a), np.abs(b)), scale), 1e-300)
      rel = np.where(np.isfinite(rel), rel, 0.0)
      w = float(rel.max()) if rel.size else 0.0
      if w <= COND_RTOL:
        _worst_cond[0] = max(_worst_cond[0], w)
        continue
    out.append(d)
  # mesh vertices/normals are stored and saved as 32-bit floats: quantities derived from a mesh that was first processed
  # in double precision (file or inline input) reproduce only to float32 accuracy.  Applied on every route (spec save,
  # second trip, repairs, mj_saveLastXML) and for generated as well as corpus models.
  if out and (m1.nmesh or m2.nmesh):
    small = [d for d in out if d.kind == 'float' and d.err < MESH_F32_TOL and d.field.startswith(MESH_DERIVED)]
    if small:
      _worst_mesh[0] = max(_worst_mesh[0], max(d.err for d in small))
      _worst_mesh[1] += 1
      out = [d for d in out if d not in small]
  return out


def order_unsafe(xml):
  """Does the document contain the shape of the known writer finding: inside one body, an element of kind K that sits in
  a <frame>/<replicate> is followed by a direct sibling of the same kind K (the writer emits direct children first)."""
  try:
    root = ET.fromstring(xml)
  except ET.ParseError:
    return False
  kinds = ('geom', 'site', 'camera', 'light', 'joint')

  def kinds_inside(fr):
    out = set()
    for c in fr:
      if c.tag in kinds:
        out.add(c.tag)
      elif c.tag in ('frame', 'replicate'):
        out |= kinds_inside(c)
    return out

  def scan(container):
    seen = set()
    bad = False
    for c in container:
      if c.tag in ('frame', 'replicate'):
        seen |= kinds_inside(c)
        bad = scan(c) or bad
      elif c.tag in kinds and c.tag in seen:
        bad = True
      elif c.tag == 'body':
        bad = scan(c) or bad
    return bad
  w = root.find('worldbody')
  if w is None:
    return False
  # bodies: a direct child body between two frames that contain bodies is written after both frames
  return bool(scan(w)) or any(True for _ in w.iter('frame')) or any(True for _ in w.iter('replicate'))


def name_orders(lib, m):
  E = lib.enums
  out = {}
  for kind, ot, n in (('body', E.mjOBJ_BODY, m.nbody), ('joint', E.mjOBJ_JOINT, m.njnt), ('geom', E.mjOBJ_GEOM, m.ngeom),
                      ('site', E.mjOBJ_SITE, m.nsite), ('camera', E.mjOBJ_CAMERA, m.ncam),
                      ('light', E.mjOBJ_LIGHT, m.nlight)):
    out[kind] = [lib.mj_id2name(m, ot, i) for i in range(n)]
  return out


def is_permutation_only(lib, m1, m2):
  """True when both models have the same named objects per kind but in a different order for some kind
  (unnamed objects are matched by type+size rows)."""
  a, b = name_orders(lib, m1), name_orders(lib, m2)
  differs = False
  for k in a:
    if len(a[k]) != len(b[k]):
      return False
    if sorted(x or '' for x in a[k]) != sorted(x or '' for x in b[k]):
      return False
    if a[k] != b[k]:
      differs = True
  if not differs and m1.ngeom == m2.ngeom and m1.ngeom:
    r1 = np.hstack([np.asarray(m1.geom_type).reshape(-1, 1), np.asarray(m1.geom_size)])
    r2 = np.hstack([np.asarray(m2.geom_type).reshape(-1, 1), np.asarray(m2.geom_size)])
    if not np.array_equal(r1, r2) and np.array_equal(r1[np.lexsort(r1.T)], r2[np.lexsort(r2.T)]):
      differs = True
  if not differs and m1.nsite == m2.nsite and m1.nsite:
    r1, r2 = np.asarray(m1.site_pos), np.asarray(m2.site_pos)
    if not np.allclose(r1, r2) and np.allclose(r1[np.lexsort(r1.T)], r2[np.lexsort(r2.T)]):
      differs = True
  return differs


def upstream_failing_patterns(repo):
  """File-name patterns that the maintainers' own write/read test excludes because they "fail the comparison test"
  (read at run time from test/xml/xml_write_read_test.cc)."""
  import re
  try:
    t = open(os.path.join(repo, 'test', 'xml', 'xml_write_read_test.cc')).read()
  except OSError:
    return []
  i = t.find('exclude files that fail the comparison test')
  if i < 0:
    return []
  j = t.find('continue;', i)
  block = t[i:j]
  k = block.find('exclude conflict tests')
  if k > 0:
    block = block[:k]
  return re.findall(r'StrContains\(xml, "([^"]+)"\)', block)


class C32:
  def __init__(self, ck):
    self.ck = ck
    self.lib = ck.lib('rel')
    self.upstream_fail = upstream_failing_patterns(self.lib.repo)
    os.makedirs(WORKDIR, exist_ok=True)
    self.worst6 = {}

  def save(self, spec, precision):
    lib = self.lib
    try:
      return lib.save_xml(spec, precision=precision, size=1 << 20)
    except Exception:
      return lib.save_xml(spec, precision=precision, size=64 << 20)
    finally:
      lib.raw._mjPRIVATE__set_xml_precision(6)

  def reload(self, text, filedir=None):
    """parse + compile saved text; returns (model, spec)."""
    lib = self.lib
    s = lib.parse_xml(text)
    if filedir:
      lib.mjs_setString(Struct(lib, 'mjSpec', s).modelfiledir, filedir)
    try:
      return lib.compile_spec(s), s
    except Exception:
      lib.mj_deleteSpec(s)
      raise

  def check_spec(self, name, m, spec, src_xml=None, unsafe=False, filedir=None, replay=None, precision6=True):
    """The round-trip oracle for one compiled (model, spec). Returns a dict of facts for evidence."""
    from vf import mj
    lib, ck = self.lib, self.ck
    replay = replay or dict(model=name, xml=src_xml)
    facts = dict(known=False)
    text = self.save(spec, 17)
    try:
      m2, s2 = self.reload(text, filedir)
    except mj.MjError as e:
      lost = self.fusestatic_lost_names(m, spec, text)
      if lost:
        ck.violation('%s: saved XML does not load again (%s)  [with fusestatic, %s that sit inside a <frame> of a static body '
                     'that was fused into its parent are missing from the saved XML]' % (name, str(e)[:160], ', '.join(lost[:6])),
                     replay, bucket='fusestatic-framed-children-not-saved', fingerprint='fusestatic-framed-children-not-saved')
        facts['known'] = True
        facts['fps'] = ['fusestatic-framed-children-not-saved']
        return facts
      raise Violation('%s: saved XML does not load again: %s' % (name, str(e)[:300]), bucket='saved-xml-rejected')
    try:
      diffs = compare17(lib, m, m2)
      if diffs:
        msg = '%s: save/reload at full precision changes the model: %s' % (name, modelcmp.fmt(diffs))
        if m.nmesh and all(d.kind == 'float' and d.err < MESH_F32_TOL for d in diffs):
          # mesh vertices/normals are stored and saved as 32-bit floats: quantities derived from a mesh that was first
          # processed in double precision (file or inline input) reproduce only to float32 accuracy
          ck.label('mesh-float32-accuracy')
          facts['meshf32'] = max(d.err for d in diffs)
          self.worst_meshf32 = max(getattr(self, 'worst_meshf32', 0.0), facts['meshf32'])
        else:
          fps = self.classify(m, m2, spec, text, filedir, diffs, unsafe)
          if not fps:
            raise Violation(msg, bucket='roundtrip17:' + diffs[0].field)
          for fp, why in fps:
            ck.violation(msg + '  [' + why + ']', replay, bucket=fp, fingerprint=fp)
          facts['known'] = True
          facts['fps'] = [fp for fp, _ in fps]
      # second trip: saving the reloaded spec must give text that compiles to the same model again (normally the very
      # same text; a pure re-ordering of lines, e.g. a geom written after a child body, is cosmetic)
      text2 = text if facts['known'] else self.save(s2, 17)
      if text2 != text:
        ck.label('second-trip-text-differs')
        try:
          m3, s3 = self.reload(text2, filedir)
        except mj.MjError as e:
          raise Violation('%s: second-trip XML does not load: %s' % (name, str(e)[:300]), bucket='second-trip-rejected')
        lib.mj_deleteSpec(s3)
        d3 = compare17(lib, m2, m3)
        if d3 and unsafe and is_permutation_only(lib, m2, m3):
          ck.violation('%s: the second save/reload permutes elements (first trip was order-preserving): %s  [frames are kept '
                       'in the saved text and elements inside them are written after their direct siblings]' % (
                           name, modelcmp.fmt(d3)), replay, bucket=KNOWN_FP, fingerprint=KNOWN_FP)
          facts['known'] = True
          facts['fps'] = [KNOWN_FP]
        elif d3:
          a, b = text.split('\n'), text2.split('\n')
          i = next((i for i in range(min(len(a), len(b))) if a[i] != b[i]), min(len(a), len(b)))
          raise Violation('%s: second save/reload changes the model again: %s (texts differ first at line %d: %r vs %r)' % (
              name, modelcmp.fmt(d3), i + 1, a[i][:120] if i < len(a) else None, b[i][:120] if i < len(b) else None),
              bucket='second-trip:' + d3[0].field)
    finally:
      lib.mj_deleteSpec(s2)
    # default precision
    if precision6 and not facts['known']:
      text6 = self.save(spec, 6)
      try:
        m6, s6 = self.reload(text6, filedir)
      except mj.MjError as e:
        raise Violation('%s: XML saved at default precision does not load: %s' % (name, str(e)[:300]),
                        bucket='saved-xml6-rejected')
      lib.mj_deleteSpec(s6)
      d6 = modelcmp.compare(lib, m, m6, mode='rel', rtol=1e300, skip=('signature',) + STRUCTURE6, structs=False,
                            scalars=False, skip_fn=modelcmp.upstream_skips, skip_sizes=('nbuffer',) + STRUCTURE6)
      d6 = [d for d in d6 if d.kind != 'float']
      if d6:
        raise Violation('%s: save/reload at default precision changes sizes/integer arrays: %s' % (
            name, modelcmp.fmt(d6)), bucket='roundtrip6-int:' + d6[0].field)
      for f in PRINTED:
        if f not in lib.model_fields:
          continue
        a, b = np.asarray(getattr(m, f), dtype=float), np.asarray(getattr(m6, f), dtype=float)
        if a.size == 0:
          continue
        a2, b2 = a.reshape(a.shape[0], -1), b.reshape(b.shape[0], -1)
        if f == 'geom_size':
          # the size of a geom that references a mesh is not a printed attribute: it is the half-extent of the mesh in its
          # principal frame (or the fitted primitive), whose axis order is decided by eigenvalue gaps - rounding refquat /
          # vertices to 6 digits may legitimately permute it (seen: tetrahedron with equal moments, sqrt(4/3) ratio)
          keep = np.asarray(m.geom_dataid) < 0
          a2, b2 = a2[keep], b2[keep]
          if a2.size == 0:
            continue
        scale = np.maximum(np.abs(a2).max(axis=1, keepdims=True), 1e-30)     # per row: vectors are printed together
        with np.errstate(invalid='ignore'):
          err = np.abs(a2 - b2) / scale
        err = np.where(np.isfinite(err), err, 0.0)
        w = float(err.max())
        self.worst6[f] = max(self.worst6.get(f, 0.0), w)
        if w > RTOL6:
          i = np.unravel_index(int(np.argmax(err)), err.shape)
          raise Violation('%s: at default precision %s row %d differs by %.3g relative (%r vs %r)' % (
              name, f, i[0], w, float(a2[i]), float(b2[i])), bucket='roundtrip6-float:' + f)
    return facts

  def fusestatic_lost_names(self, m, spec, text):
    """Named objects of the compiled model that do not occur in the saved text, when the spec uses fusestatic."""
    lib = self.lib
    if not Struct(lib, 'mjSpec', spec).compiler.fusestatic:
      return []
    out = []
    for kind, names in name_orders(lib, m).items():
      for n in names:
        if n and n != 'world' and ('name="%s"' % n) not in text:
          out.append('%s %s' % (kind, n))
    return out

  def classify(self, m, m2, spec, text, filedir, diffs, unsafe):
    """Known writer findings.  Returns [(fingerprint, explanation)] that together explain the mismatch, or [] (= violation).
    Attributes the writer does not save are re-inserted into the saved text ("repairs"); the smallest set of repairs after
    which the reloaded model is identical (or differs only by the other known shapes) names the findings."""
    import itertools
    import re
    from vf import mj
    lib = self.lib
    E = lib.enums
    comp = Struct(lib, 'mjSpec', spec).compiler
    repairs = {}
    if comp.settotalmass > 0:
      repairs['settotalmass'] = lambda t: re.sub(r'<compiler ', '<compiler settotalmass="%r" ' % float(comp.settotalmass), t, 1)
    igr = [int(x) for x in comp.inertiagrouprange]
    if igr != [0, 5]:
      repairs['inertiagrouprange'] = lambda t: re.sub(r'<compiler ', '<compiler inertiagrouprange="%d %d" ' % tuple(igr), t, 1)
    nch = [(lib.mj_id2name(m, E.mjOBJ_TEXTURE, i), int(m.tex_nchannel[i])) for i in range(m.ntex) if int(m.tex_nchannel[i]) != 3]
    if nch and all(n for n, _ in nch):
      def fix_nch(t):
        for n, k in nch:
          t = re.sub(r'(<texture [^>]*name="%s")' % re.escape(n), r'\1 nchannel="%d"' % k, t, 1)
        return t
      repairs['nchannel'] = fix_nch
    WHY = dict(settotalmass='the writer does not save <compiler settotalmass>',
               inertiagrouprange='the writer does not save <compiler inertiagrouprange>',
               nchannel='the writer does not save <texture nchannel>')

    def residual(ds, ma, mb):
      """Explain remaining differences by the shape-based findings; returns list of (fp, why) or None."""
      if not ds:
        return []
      fields = set(d.field for d in ds)
      if fields <= {'geom_dataid', 'geom_surfacevel'} and ma.ngeom == mb.ngeom:
        out = []
        t = np.asarray(ma.geom_type)
        did = np.asarray(ma.geom_dataid)
        ok = True
        if 'geom_dataid' in fields:
          idx = np.flatnonzero(did != np.asarray(mb.geom_dataid))
          ok = ok and all(int(t[i]) not in (E.mjGEOM_MESH, E.mjGEOM_SDF, E.mjGEOM_HFIELD) for i in idx)
          out.append(('meshfit-geom-dataid', 'a primitive geom fitted to a mesh keeps geom_dataid=mesh id in the compiled '
                      'model, but the saved XML drops the mesh reference (geom_dataid=-1 after reload)'))
        if 'geom_surfacevel' in fields:
          rows = np.flatnonzero(np.any(np.asarray(ma.geom_surfacevel) != np.asarray(mb.geom_surfacevel), axis=1))
          ok = ok and all(int(did[i]) >= 0 and int(t[i]) != E.mjGEOM_HFIELD for i in rows)
          out.append(('mesh-geom-surfacevel-not-restored', 'compilation re-expresses surfacevel of a geom that references a '
                      'mesh in the mesh-corrected frame; the writer restores pos/quat but saves the transformed surfacevel, '
                      'which is transformed again on reload'))
        if ok:
          return out
      if comp.fusestatic and all((d.kind == 'size' and (d.field.startswith('nbvh') or d.field == 'nJmom')) or
                                 (d.kind == 'int' and d.field.endswith(('id', 'trnid', 'objid', 'refid'))) for d in ds):
        return [('fusestatic-stale-ids', 'with fusestatic the ORIGINAL compile keeps ids/BVH nodes computed before the static '
                 'body was fused (same root cause as C36 fusestatic-stale-geom-site-ids); the reloaded model, in which '
                 'the bodies are already fused, has the correct ids')]
      if comp.fusestatic and (comp.boundmass > 0 or comp.boundinertia > 0) and \
          set(d.field for d in ds) <= (MASS_SCALE_FIELDS | MASS_FRAME_FIELDS):
        return [('fusestatic-bound-order', 'with fusestatic and boundmass/boundinertia the first compile bounds every body and '
                 'then fuses (sum of bounded values), while the saved, already fused model is bounded once: mass properties of '
                 'the fused body differ after reload')]
      if comp.fusestatic and all(d.kind == 'size' for d in ds):
        na, nb = name_orders(lib, ma), name_orders(lib, mb)
        lost = [k for k in ('body', 'joint', 'geom', 'site', 'camera', 'light') if len(nb[k]) < len(na[k])]
        if lost and all(set(x for x in nb[k] if x) <= set(x for x in na[k] if x) and len(nb[k]) <= len(na[k]) for k in na):
          return [('fusestatic-framed-children-not-saved', 'with fusestatic, %s that sit inside a <frame> of a static body '
                   'that was fused into its parent are missing from the saved XML' % '/'.join(lost))]
      if unsafe and is_permutation_only(lib, ma, mb):
        return [(KNOWN_FP, 'elements inside a <frame>/<replicate> are written after their direct siblings: the reloaded '
                 'model has the same objects in a different id order')]
      if comp.fusestatic and name_orders(lib, ma)['body'] == name_orders(lib, mb)['body']:
        # fusestatic rewrites the spec during the first compile; quantities decided before fusing (alignfree/simple-body
        # tests, bounds, ids, BVH) are decided again on the fused model after reload.  Same root-cause family as the
        # specific fusestatic findings above and as C36's fusestatic findings; judged only for "same bodies".
        return [('fusestatic-roundtrip-other', 'with fusestatic the first compile takes decisions (alignfree / simple body, '
                 'bounds, ids) on the unfused tree that the reload takes on the already fused tree')]
      return None
    keys = sorted(repairs)
    for r in range(0, len(keys) + 1):
      for sub in itertools.combinations(keys, r):
        if not sub:
          ds, mb = diffs, m2
        else:
          t2 = text
          for k in sub:
            t2 = repairs[k](t2)
          try:
            mb, sx = self.reload(t2, filedir)
          except mj.MjError:
            continue
          lib.mj_deleteSpec(sx)
          ds = compare17(lib, m, mb)
        res = residual(ds, m, mb)
        if res is None and sub:
          fields = set(d.field for d in ds)
          # not exactly reproduced by re-insertion (with saveinertial / boundinertia the saved explicit inertials are
          # pre-scaling values): same finding when only mass-property arrays differ
          if 'settotalmass' in sub and fields <= MASS_SCALE_FIELDS:
            res = []
          elif 'inertiagrouprange' in sub and fields <= (MASS_SCALE_FIELDS | MASS_FRAME_FIELDS):
            res = []
        if res is not None:
          return [('compiler-%s-not-saved' % k if k != 'nchannel' else 'texture-nchannel-not-saved', WHY[k] +
                   '; with the attribute re-inserted into the saved text the mismatch disappears') for k in sub] + res
    return []

  def lastxml_route(self, name, path):
    """mj_loadXML(path) -> mj_saveLastXML(file) -> compile: same model."""
    from vf import mj
    lib = self.lib
    m = lib.model_from_file(path)
    out = os.path.join(WORKDIR, 'last_%d.xml' % os.getpid())
    err = ctypes.create_string_buffer(1000)
    lib.raw._mjPRIVATE__set_xml_precision(17)
    try:
      rc = lib.mj_saveLastXML(out, m, err, 1000)
    finally:
      lib.raw._mjPRIVATE__set_xml_precision(6)
    if rc != 1 and rc != 0:
      raise Violation('%s: mj_saveLastXML rc=%d %s' % (name, rc, err.value[:200]), bucket='savelast-rc')
    if not os.path.exists(out):
      raise Violation('%s: mj_saveLastXML wrote no file (rc=%d, %s)' % (name, rc, err.value[:200]), bucket='savelast-nofile')
    text = open(out).read()
    os.unlink(out)
    try:
      m2, s2 = self.reload(text, os.path.dirname(path) + '/')
    except mj.MjError as e:
      raise Violation('%s: XML written by mj_saveLastXML does not load: %s' % (name, str(e)[:300]), bucket='savelast-rejected')
    lib.mj_deleteSpec(s2)
    return m, m2, text


def regressions(ck):
  """Committed reproducers (replays/C32/index.json) through the same oracle: a defect that is still present reports under
  its fingerprint (KNOWN-FINDING once listed); a repaired one passes."""
  import json
  from vf import mj
  path = os.path.join(os.path.dirname(WORK), 'replays', 'C32', 'index.json')
  if not os.path.exists(path):
    return
  c = C32(ck)
  lib = c.lib
  for r in json.load(open(path)):
    m, s = lib.model_from_xml(r['xml'], keep_spec=True)
    try:
      facts = c.check_spec('replay:' + r['id'], m, s, src_xml=r['xml'], unsafe=order_unsafe(r['xml']), replay=dict(replay=r['id']))
      ck.label('replay:%s:%s' % (r['id'], 'still-present' if facts['known'] else 'passes'))
    except Violation as e:
      ck.violation('Violation: %s' % e, dict(replay=r['id'], xml=r['xml']), bucket=e.bucket)
    finally:
      lib.mj_deleteSpec(s)


def main(ck):
  from vf import mj
  c = C32(ck)
  lib = c.lib
  rng = np.random.RandomState(ck.seed)
  ck.rule = ('models from vf/gen_io.rich_models (+ a keyframe with full state vectors), corpus files, and mjSpec C-API '
             'programs; each case = one model through save(17 digits)/reload/compare + second-trip text stability + '
             'default-precision save; non-trivial = the model uses a default class with inheritance, or a frame, or a '
             'non-default compiler setting; distinct by model text / program')
  ck.assumptions = ['comparison rule and skipped array families are those of test/compare_model.cc',
                    'mjModel.signature is not compared (it hashes the spec, not the compiled arrays)',
                    'at default precision only sizes, integer arrays and directly printed float attributes are compared '
                    '(derived quantities are conditioned by the model)']
  NT = ('default-class', 'default-nested', 'childclass', 'frame', 'frame-nested', 'frame-childclass', 'replicate')
  known_hits = [0]

  # ---------- (a) generated XML models
  def gen_test(case):
    gm, seed = case
    xml = gm.xml
    try:
      m, s = lib.model_from_xml(xml, keep_spec=True)
    except mj.MjError:
      ck.discard('compile')
      return
    labels = list(gm.labels())
    try:
      if seed % 2 == 0:
        # second phase: a keyframe with full qpos/qvel/act/ctrl/mocap vectors of the right sizes
        xml2 = gen_io.add_full_key(lib, m, xml, seed)
        try:
          m_k, s_k = lib.model_from_xml(xml2, keep_spec=True)
        except mj.MjError:
          ck.discard('compile-fullkey')
        else:
          lib.mj_deleteSpec(s)
          m, s, xml = m_k, s_k, xml2
          labels.append('fullkey')
      unsafe = order_unsafe(xml)
      if unsafe:
        labels.append('frame-order-unsafe')
      facts = c.check_spec('generated', m, s, src_xml=xml, unsafe=unsafe, replay=dict(xml=xml))
      if facts['known']:
        known_hits[0] += 1
        labels.append('known-finding-hit')
        labels += ['finding:' + a for a in facts.get('fps', [])]
    finally:
      lib.mj_deleteSpec(s)
    nt = any(l in NT or l.startswith('compiler:') for l in labels)
    keep = [l for l in labels if l in NT or l.startswith(('compiler:', 'replicate:', 'finding:')) or l in (
        'mesh', 'hfield', 'texture', 'material', 'keyframe', 'fullkey', 'frame-order-unsafe', 'known-finding-hit', 'pair',
        'exclude', 'numeric', 'text', 'tuple', 'nuser', 'visual', 'statistic', 'meshfit', 'mocap', 'tendon:spatial',
        'tendon:fixed')]
    ck.case(nontrivial=nt, key=xml, sample=dict(route='xml', labels=keep[:14], xml=xml[:600]), labels=['route:xml'] + keep)
  ck.run_hypothesis(gen_test, st.tuples(gen_io.rich_models(max_bodies=4, memory='4M'), mg.state_seed()),
                    ck.budget(110, 6000), name='generated')

  # ---------- (c) spec C-API programs
  def api_test(prog):
    s = gen_specapi.build(lib, prog)
    try:
      try:
        m = lib.compile_spec(s)
      except mj.MjError:
        ck.discard('compile-api')
        return
      facts = c.check_spec('specapi', m, s, unsafe=prog['unsafe'], replay=dict(program=prog))
    finally:
      lib.mj_deleteSpec(s)
    labels = list(prog['labels']) + (['known-finding-hit'] if facts['known'] else [])
    nt = any(l in ('specapi:default-nested', 'specapi:frame', 'specapi:childclass') for l in labels)
    ck.case(nontrivial=nt, key=prog, sample=dict(route='specapi', labels=labels, nbodies=len(prog['bodies'])),
            labels=['route:specapi'] + labels)
  ck.run_hypothesis(api_test, gen_specapi.spec_programs(), ck.budget(60, 3000), name='specapi')

  # ---------- (b) corpus
  files = corpus.xml_files(lib.repo)
  files = [files[i] for i in rng.permutation(len(files))]
  if ck.quick:
    files = [f for f in files if os.path.getsize(f) < 30000][:70]
  ncorpus = 0
  for f in files:
    rel = corpus.rel(f)
    try:
      s = lib.mj_parseXML(f, None, None, 0)
    except mj.MjError:
      s = None
    if not s:
      continue
    try:
      try:
        m = lib.compile_spec(s)
      except mj.MjError:
        continue
      lib.warnings()
      if m.nbody > 400 or lib.mj_sizeModel(m) > (8 << 20):
        ck.label('corpus-skipped-large')
        continue
      try:
        src = open(f, errors='replace').read()
      except OSError:
        src = ''
      unsafe = order_unsafe(src) or '<include' in src or '<attach' in src or '<composite' in src
      try:
        facts = c.check_spec(rel, m, s, unsafe=unsafe, filedir=os.path.dirname(f) + '/', replay=dict(file=rel),
                             precision6=m.nbody < 120)
      except Violation as e:
        pat = [p for p in c.upstream_fail if p in f]
        if pat:
          ck.violation('Violation: %s  [file matches "%s" in the maintainers\' own list of models that fail the save/load '
                       'comparison, test/xml/xml_write_read_test.cc]' % (e, pat[0]), dict(file=rel),
                       bucket='upstream-acknowledged:' + pat[0], fingerprint='upstream-acknowledged:' + pat[0])
        else:
          ck.violation('Violation: %s' % e, dict(file=rel), bucket=e.bucket)
        continue
      ncorpus += 1
      nt = any(t in src for t in ('<frame', 'childclass', '<replicate', '<default class'))
      labels = ['route:corpus'] + (['known-finding-hit'] if facts['known'] else [])
      if ncorpus % 6 == 0 and '<include' not in src:
        try:
          m1, m2, text = c.lastxml_route(rel, f)
          d = compare17(lib, m1, m2)
          pat = [p for p in c.upstream_fail if p in f]
          if d and pat:
            ck.violation('%s: mj_saveLastXML round trip changes the model: %s  [file matches "%s" in the maintainers\' own '
                         'list of models that fail the save/load comparison]' % (rel, modelcmp.fmt(d), pat[0]), dict(file=rel),
                         bucket='upstream-acknowledged:' + pat[0], fingerprint='upstream-acknowledged:' + pat[0])
          elif d and not (unsafe and is_permutation_only(lib, m1, m2)):
            ck.violation('%s: mj_saveLastXML round trip changes the model: %s' % (rel, modelcmp.fmt(d)), dict(file=rel),
                         bucket='savelast:' + d[0].field)
          labels.append('route:saveLastXML')
        except Violation as e:
          ck.violation('Violation: %s' % e, dict(file=rel), bucket=e.bucket)
      ck.case(nontrivial=nt, key=rel, sample=dict(route='corpus', file=rel), labels=labels)
    finally:
      lib.mj_deleteSpec(s)
  ck.extra['corpus_models_checked'] = ncorpus
  ck.extra['known_finding_hits_generated'] = known_hits[0]
  ck.extra['worst_relative_error_default_precision'] = {k: float('%.3g' % v) for k, v in sorted(
      c.worst6.items(), key=lambda kv: -kv[1])[:8]}
  ck.extra['rtol_default_precision'] = RTOL6
  ck.extra['worst_conditioned_error'] = _worst_cond[0]
  ck.extra['conditioned_rtol'] = COND_RTOL
  ck.extra['worst_mesh_float32_error'] = max(getattr(c, 'worst_meshf32', 0.0), _worst_mesh[0])
  ck.extra['mesh_float32_tolerance_applied'] = _worst_mesh[1]
  ck.extra['mesh_float32_tolerance'] = MESH_F32_TOL
  ck.extra['upstream_acknowledged_patterns'] = c.upstream_fail


LEVEL = 'exploration'
TECHNIQUE = ('round-trip property-based testing: Hypothesis MJCF documents, mjSpec C-API programs and the shipped corpus are '
             'saved, re-parsed, recompiled and compared with the upstream comparator rule over all arrays via reflection; '
             'second-trip text stability; default-precision variant')
LEVEL_TEXT = '''Every generated document, C-API program and loadable corpus model is saved at 17 digits, reloaded and compared
with the maintainers' own definition of identical (test/compare_model.cc restated over reflection: all sizes and integer arrays
equal, floats within 200 eps), the second save must be textually identical, and at the default precision sizes, integer arrays
and directly printed attributes are compared. Sampled in the model dimension.'''
LEVEL_NOTE = '''Trusted: the tinyxml2-compatible shim on expat (lexical layer only), reflection, the verification build.
Not covered: models that need OBJ/PNG decoders or SDF/sensor plugins (do not load in this build), flex/bvh/mesh_poly arrays
(skipped exactly as upstream does), derived float arrays at default precision. Outputs of the inverse inertia matrix and
body_iquat are compared at 1e-8 relative (conditioned quantities), models with meshes at float32 accuracy. With fusestatic a
mismatch that matches no specific fusestatic finding is reported under the family fingerprint fusestatic-roundtrip-other
(only when both models have the same body list), which reduces sensitivity for the ~8% of documents that use fusestatic. Documents that contain the shape of the
known writer finding (element in a frame followed by a direct sibling of the same kind) are judged only for "same objects,
different order" and reported under the fingerprint replicate-frame-geom-order; every other mismatch is a violation.'''
