"""C33 - Compilation is deterministic and copy-invariant; mj_recompile preserves the simulation state.

Domain : Hypothesis rich MJCF documents with several inline meshes and builtin textures (so that the asset thread pool
         has work), mjSpec C-API programs, corpus models; routes: compile the same spec twice, compile mj_copySpec(spec)
         (copied before and after the first compile), parse the same text again, mj_copyModel, spec compiler usethread
         on/off; mj_recompile after a no-op, after a real-parameter edit, after adding and after deleting a body.
Oracle : bit-exact equality (reflection over all sizes, arrays, opt/vis/stat members, flags and the signature) between
         the routes ("same code path / determinism" relations).  mj_recompile: the model equals a fresh compile of the same
         spec, and the components of mjSTATE_INTEGRATION of the mjData are bit-identical before/after (no-op, real-parameter
         edit); after a structural edit the state of every surviving joint / actuator / mocap body (matched by name) is
         preserved and new joints start at qpos0.
"""
import numpy as np
from hypothesis import strategies as st

from vf import corpus
from vf import gen_io
from vf import gen_specapi
from vf import modelcmp
from vf import modelgen as mg
from vf.mj import Struct
from vf.runner import Violation

# components of the documented integration state (mjtState), name -> (bit name, mjData field)
STATE = [('TIME', 'time'), ('QPOS', 'qpos'), ('QVEL', 'qvel'), ('ACT', 'act'), ('HISTORY', 'history'),
         ('WARMSTART', 'qacc_warmstart'), ('CTRL', 'ctrl'), ('QFRC_APPLIED', 'qfrc_applied'),
         ('XFRC_APPLIED', 'xfrc_applied'), ('EQ_ACTIVE', 'eq_active'), ('MOCAP_POS', 'mocap_pos'),
         ('MOCAP_QUAT', 'mocap_quat'), ('USERDATA', 'userdata'), ('PLUGIN', 'plugin_state')]


def state_components(lib, m, d):
  """dict component -> bytes, through mj_getState one component at a time (documented serialisation)."""
  E = lib.enums
  out = {}
  for bit, _ in STATE:
    sig = getattr(E, 'mjSTATE_' + bit)
    if not sig & E.mjSTATE_INTEGRATION:
      continue
    n = lib.mj_stateSize(m, sig)
    buf = np.zeros(max(n, 1))
    if n:
      lib.mj_getState(m, d, buf, sig)
    out[bit] = buf[:n].copy()
  return out


def randomize_state(lib, m, d, seed):
  rng = mg.apply_state(lib, m, d, seed, vel_scale=0.5, pos_scale=0.4)
  d.time = float(rng.uniform(0.1, 5))
  if m.nv:
    d.qfrc_applied[:] = rng.uniform(-1, 1, m.nv)
    d.qacc_warmstart[:] = rng.uniform(-1, 1, m.nv)
  d.xfrc_applied[1:] = rng.uniform(-1, 1, (m.nbody - 1, 6))
  if m.neq:
    d.eq_active[:] = rng.randint(0, 2, m.neq)
  if m.nuserdata:
    d.userdata[:] = rng.uniform(-1, 1, m.nuserdata)
  if m.nu:
    d.ctrl[:] = rng.uniform(-1, 1, m.nu)
  if m.na:
    d.act[:] = rng.uniform(-0.5, 0.5, m.na)
  if m.nhistory:
    pass     # history buffers have internal structure (cursor); leave them as initialised
  return rng


def by_name(lib, m, d):
  """State per named element: joint -> (qpos, qvel), actuator -> (act, ctrl), mocap body -> (pos, quat)."""
  E = lib.enums
  out = dict(joint={}, act={}, mocap={})
  npos = {0: 7, 1: 4, 2: 1, 3: 1}
  nvel = {0: 6, 1: 3, 2: 1, 3: 1}
  for j in range(m.njnt):
    n = lib.mj_id2name(m, E.mjOBJ_JOINT, j)
    t = int(m.jnt_type[j])
    qa, da = int(m.jnt_qposadr[j]), int(m.jnt_dofadr[j])
    out['joint'][n or '#%d' % j] = (d.qpos[qa:qa + npos[t]].copy(), d.qvel[da:da + nvel[t]].copy())
  for a in range(m.nactuator):
    n = lib.mj_id2name(m, E.mjOBJ_ACTUATOR, a)
    aa, an = int(m.actuator_actadr[a]), int(m.actuator_actnum[a])
    ca, cn = int(m.actuator_ctrladr[a]), int(m.actuator_ctrlnum[a])
    out['act'][n or '#%d' % a] = (d.act[aa:aa + an].copy() if aa >= 0 else np.zeros(0), d.ctrl[ca:ca + cn].copy())
  for b in range(m.nbody):
    k = int(m.body_mocapid[b])
    if k >= 0:
      out['mocap'][lib.mj_id2name(m, E.mjOBJ_BODY, b) or '#%d' % b] = (d.mocap_pos[k].copy(), d.mocap_quat[k].copy())
  return out


def same_bits(a, b):
  a, b = np.ascontiguousarray(a), np.ascontiguousarray(b)
  return a.shape == b.shape and a.tobytes() == b.tobytes()


class C33:
  def __init__(self, ck):
    self.ck = ck
    self.lib = ck.lib('rel')

  def expect_equal(self, what, m1, m2, replay, skip=(), spec=None):
    d = modelcmp.compare(self.lib, m1, m2, mode='exact', skip=skip)
    if d and spec and Struct(self.lib, 'mjSpec', spec).compiler.fusestatic and what in ('compile-twice', 'copyspec-after-compile'):
      # known: the first compile with fusestatic keeps ids / BVH nodes computed before fusing (C36 fusestatic-stale-geom-site-ids);
      # a second compile of the same (now fused) spec is clean, so the two differ
      self.ck.violation('%s: models differ: %s  [fusestatic: the first compile of a spec keeps stale ids/BVH nodes of the fused '
                        'bodies, the next compile of the same spec does not]' % (what, modelcmp.fmt(d)), replay,
                        bucket='fusestatic-stale-ids', fingerprint='fusestatic-stale-ids')
      return
    if d:
      raise Violation('%s: models differ: %s' % (what, modelcmp.fmt(d)), bucket=what.split(':')[0] + ':' + d[0].field)

  # ---- determinism / copy routes for one spec-producing recipe
  def routes(self, make_spec, replay, labels, xml_thread=None):
    """make_spec() -> fresh spec pointer (same recipe every call)."""
    from vf import mj
    lib, ck = self.lib, self.ck
    done = []
    ck.journal(dict(stage='routes', replay=replay))
    s = make_spec()
    s_copy_before = lib.mj_copySpec(s)
    specs = [s, s_copy_before]
    try:
      try:
        m1 = lib.compile_spec(s)
      except mj.MjError:
        ck.discard('compile')
        return None
      lib.warnings()
      # same spec twice
      m2 = lib.compile_spec(s)
      self.expect_equal('compile-twice', m1, m2, replay, spec=s)
      done.append('twice')
      # copy made before the first compile
      if not s_copy_before:
        raise Violation('mj_copySpec returned NULL', bucket='copyspec-null')
      m3 = lib.compile_spec(s_copy_before)
      self.expect_equal('copyspec-before-compile', m1, m3, replay)
      # copy made after compile
      s_copy_after = lib.mj_copySpec(s)
      specs.append(s_copy_after)
      m4 = lib.compile_spec(s_copy_after)
      self.expect_equal('copyspec-after-compile', m1, m4, replay, spec=s)
      done.append('copyspec')
      # same recipe again
      s5 = make_spec()
      specs.append(s5)
      m5 = lib.compile_spec(s5)
      self.expect_equal('rebuild-same-recipe', m1, m5, replay)
      done.append('rebuild')
      # mj_copyModel
      m6 = lib.copy_model(m1)
      self.expect_equal('copyModel', m1, m6, replay)
      done.append('copyModel')
      # threaded vs unthreaded asset compilation
      s7 = make_spec()
      specs.append(s7)
      c7 = Struct(lib, 'mjSpec', s7).compiler
      was = int(c7.usethread)
      c7.usethread = 0 if was else 1
      m7 = lib.compile_spec(s7)
      # the signature hashes the spec (incl. the usethread flag): compare everything else
      self.expect_equal('usethread-on-vs-off', m1, m7, replay, skip=('signature',))
      done.append('usethread')
      threaded_assets = int(m1.nmesh) + int(m1.ntex)
      nt = True       # every case exercises copy routes other than "compile twice"
      ck.case(nontrivial=nt, key=replay, sample=dict(routes=done, nmesh=int(m1.nmesh), ntex=int(m1.ntex),
                                                     labels=labels[:10]),
              labels=['routes'] + labels + (['assets>=2(threadpool)'] if threaded_assets >= 2 else []) +
              (['assets>=6'] if threaded_assets >= 6 else []))
      return m1
    finally:
      for x in specs:
        if x:
          lib.mj_deleteSpec(x)

  # ---- mj_recompile
  def recompile(self, make_spec, seed, replay, labels):
    from vf import mj
    lib, ck = self.lib, self.ck
    E = lib.enums
    ck.journal(dict(stage='recompile', seed=seed, replay=replay))
    s = make_spec()
    try:
      try:
        m = lib.compile_spec(s)
      except mj.MjError:
        ck.discard('compile')
        return
      d = lib.make_data(m)
      randomize_state(lib, m, d, seed)
      ref_model = lib.copy_model(m)
      before = state_components(lib, m, d)
      names_before = by_name(lib, m, d)
      # ---------- no-op recompile
      rc = lib.mj_recompile(s, None, m, d)
      if rc != 0:
        object.__setattr__(m, '_own', False)
        object.__setattr__(d, '_own', False)
        raise Violation('mj_recompile (no edit) failed rc=%d: %s' % (rc, lib.mjs_getError(s)), bucket='recompile-rc')
      self.expect_equal('recompile-noop-model', ref_model, m, replay)
      after = state_components(lib, m, d)
      self.compare_state('no-op', before, after, replay)
      # ---------- real-parameter edit: scale a body position and a geom size, change a joint damping
      rng = np.random.RandomState(seed)
      el = lib.mjs_firstElement(s, E.mjOBJ_GEOM)
      if el:
        g = Struct(lib, 'mjsGeom', lib.mjs_asGeom(el))
        g.size = [float(x) * 1.25 for x in g.size]
        g.friction = [0.77, 0.004, 0.0002]
      el = lib.mjs_firstElement(s, E.mjOBJ_JOINT)
      if el:
        j = Struct(lib, 'mjsJoint', lib.mjs_asJoint(el))
        j.armature = 0.123
      el = lib.mjs_firstElement(s, E.mjOBJ_BODY)
      el = lib.mjs_nextElement(s, el) if el else None     # first non-world body
      if el:
        b = Struct(lib, 'mjsBody', lib.mjs_asBody(el))
        b.pos = [float(x) + 0.01 for x in b.pos]
      randomize_state(lib, m, d, seed + 1)
      before = state_components(lib, m, d)
      rc = lib.mj_recompile(s, None, m, d)
      if rc != 0:
        object.__setattr__(m, '_own', False)
        object.__setattr__(d, '_own', False)
        ck.discard('recompile-edit-failed')
        return
      fresh = lib.compile_spec(s)
      self.expect_equal('recompile-edit-model', fresh, m, replay)
      after = state_components(lib, m, d)
      self.compare_state('real-parameter edit', before, after, replay)
      # ---------- structural edit: add a body with a joint, then delete it again
      world = lib.mjs_findBody(s, 'world')
      nb = Struct(lib, 'mjsBody', lib.mjs_addBody(world, None))
      lib.mjs_setName(nb.element, 'c33_new_body')
      nb.pos = [0.3, 0.3, 2.0]
      nj = Struct(lib, 'mjsJoint', lib.mjs_addJoint(nb.ptr, None))
      lib.mjs_setName(nj.element, 'c33_new_joint')
      nj.type = E.mjJNT_SLIDE
      nj.ref = 0.25
      ng = Struct(lib, 'mjsGeom', lib.mjs_addGeom(nb.ptr, None))
      ng.type = E.mjGEOM_SPHERE
      ng.size = [0.05, 0.05, 0.05]
      ng.contype = 0
      ng.conaffinity = 0
      randomize_state(lib, m, d, seed + 2)
      t_before = d.time
      names_before = by_name(lib, m, d)
      rc = lib.mj_recompile(s, None, m, d)
      if rc != 0:
        object.__setattr__(m, '_own', False)
        object.__setattr__(d, '_own', False)
        raise Violation('mj_recompile after adding a body failed: %s' % lib.mjs_getError(s), bucket='recompile-add-rc')
      names_after = by_name(lib, m, d)
      self.compare_named('add body', names_before, names_after, m, d, t_before, replay)
      if 'c33_new_joint' not in names_after['joint']:
        raise Violation('added joint missing after mj_recompile', bucket='recompile-add-missing')
      jid = lib.mj_name2id(m, E.mjOBJ_JOINT, 'c33_new_joint')
      q0 = float(m.qpos0[int(m.jnt_qposadr[jid])])
      if names_after['joint']['c33_new_joint'][0][0] != q0:
        raise Violation('new joint starts at %r, qpos0 is %r' % (float(names_after['joint']['c33_new_joint'][0][0]), q0),
                        bucket='recompile-add-qpos0')
      # delete it again
      randomize_state(lib, m, d, seed + 3)
      t_before = d.time
      names_before = by_name(lib, m, d)
      if lib.mjs_delete(s, nb.element) != 0:
        raise Violation('mjs_delete failed: %s' % lib.mjs_getError(s), bucket='delete-rc')
      rc = lib.mj_recompile(s, None, m, d)
      if rc != 0:
        object.__setattr__(m, '_own', False)
        object.__setattr__(d, '_own', False)
        raise Violation('mj_recompile after deleting a body failed: %s' % lib.mjs_getError(s), bucket='recompile-del-rc')
      names_after = by_name(lib, m, d)
      names_before['joint'].pop('c33_new_joint', None)
      self.compare_named('delete body', names_before, names_after, m, d, t_before, replay)
      # the data must be usable (an engine error here is not a C33 matter: labelled only)
      try:
        lib.mj_forward(m, d)
      except mj.MjError as e:
        object.__setattr__(d, '_own', False)
        ck.label('forward-error-after-recompile: ' + str(e)[:60])
      ck.case(nontrivial=True, key=('recompile', replay, seed), sample=dict(route='recompile', nq=int(m.nq), nu=int(m.nu),
                                                                            na=int(m.na), nmocap=int(m.nmocap)),
              labels=['recompile'] + (['recompile:act'] if m.na else []) + (['recompile:mocap'] if m.nmocap else []) +
              (['recompile:eq'] if m.neq else []) + (['recompile:userdata'] if m.nuserdata else []))
    finally:
      lib.mj_deleteSpec(s)

  def compare_state(self, what, before, after, replay):
    ck = self.ck
    for comp in before:
      if not same_bits(before[comp], after[comp]):
        a, b = before[comp], after[comp]
        if a.shape == b.shape and a.size:
          i = int(np.flatnonzero(a.view(np.uint64) != b.view(np.uint64))[0])
          det = 'element %d: %r -> %r' % (i, float(a[i]), float(b[i]))
        else:
          det = 'size %d -> %d' % (a.size, b.size)
        fp = 'recompile-resets:' + comp
        ck.violation('mj_recompile (%s) does not preserve the %s component of the integration state (%s); the documentation '
                     'says the integration state given in the mjData is preserved' % (what, comp, det), replay,
                     bucket=fp, fingerprint=fp)

  def compare_named(self, what, nb, na, m, d, t_before, replay):
    if d.time != t_before:
      raise Violation('mj_recompile (%s) changed time %r -> %r' % (what, t_before, d.time), bucket='recompile-named:time')
    for kind in ('joint', 'act', 'mocap'):
      for n, val in nb[kind].items():
        if n.startswith('#'):
          continue
        if n not in na[kind]:
          raise Violation('mj_recompile (%s): %s %s disappeared' % (what, kind, n), bucket='recompile-named:lost')
        for k, (x, y) in enumerate(zip(val, na[kind][n])):
          if not same_bits(x, y):
            part = (('qpos', 'qvel'), ('act', 'ctrl'), ('pos', 'quat'))[('joint', 'act', 'mocap').index(kind)][k]
            raise Violation('mj_recompile (%s): %s of %s %s changed: %s -> %s' % (what, part, kind, n, x, y),
                            bucket='recompile-named:%s-%s' % (kind, part))


def main(ck):
  from vf import mj
  c = C33(ck)
  lib = c.lib
  rng = np.random.RandomState(ck.seed)
  ck.rule = ('each case = one spec recipe (MJCF text with 0-6 inline meshes and 0-4 builtin textures, or a mjSpec C-API '
             'program, or a corpus file) through all determinism/copy routes, or through the mj_recompile scenario; '
             'non-trivial = a copy route other than "compile twice" ran (always) - cases with >=2 assets are labelled '
             'assets>=2(threadpool); distinct by recipe')
  ck.assumptions = ['generated documents do not use <compiler fusestatic>: fusing leaves dangling pointers in the spec of this tree (heap-use-after-free in mjCCamera::Compile, std::length_error/SEGV on a second compile or mj_recompile; reported, replays/C33) so outcomes are not reproducible; corpus files that use it are still run',
                    'mjModel.signature is excluded only for the usethread on/off comparison (it hashes the spec, which '
                    'contains the flag)', 'thread schedules of the asset pool are those the OS produces (no controlled '
                    'scheduler for the compiler pool); TSan run not included']

  def xml_test(case):
    gm, seed = case
    labels = [l for l in gm.labels() if l in ('mesh', 'texture', 'material', 'hfield', 'default-class', 'frame', 'replicate',
                                              'keyframe', 'meshfit', 'mocap') or l.startswith('compiler:')]
    m1 = c.routes(lambda: lib.parse_xml(gm.xml), dict(xml=gm.xml), labels)
    if m1 is not None and seed % 2 == 0:
      c.recompile(lambda: lib.parse_xml(gm.xml), seed, dict(xml=gm.xml), labels)
  ck.run_hypothesis(xml_test, st.tuples(gen_io.rich_models(max_bodies=4, memory='4M', min_meshes=0, min_textures=0, muscles=True, fusestatic=False),
                                        mg.state_seed()), ck.budget(40, 2500), name='xml')
  ck.run_hypothesis(xml_test, st.tuples(gen_io.rich_models(max_bodies=3, memory='4M', min_meshes=6, min_textures=4,
                                                           frames=False, replicate=False, muscles=True, fusestatic=False), mg.state_seed()),
                    ck.budget(20, 1500), name='xml-many-assets')

  def api_test(case):
    prog, seed = case
    m1 = c.routes(lambda: gen_specapi.build(lib, prog), dict(program=prog), list(prog['labels']))
    if m1 is not None and seed % 2 == 0:
      c.recompile(lambda: gen_specapi.build(lib, prog), seed, dict(program=prog), list(prog['labels']))
  ck.run_hypothesis(api_test, st.tuples(gen_specapi.spec_programs(), mg.state_seed()), ck.budget(30, 2000), name='specapi')

  # corpus
  files = corpus.xml_files(lib.repo)
  files = [files[i] for i in rng.permutation(len(files))]
  if ck.quick:
    files = [f for f in files if __import__('os').path.getsize(f) < 20000][:35]
  n = 0
  for f in files:
    def mk(f=f):
      s = lib.mj_parseXML(f, None, None, 0)
      if not s:
        raise mj.MjError('parse')
      return s
    try:
      s0 = mk()
    except mj.MjError:
      continue
    lib.mj_deleteSpec(s0)
    try:
      m1 = c.routes(mk, dict(file=corpus.rel(f)), ['corpus'])
      if m1 is not None:
        n += 1
        if n % 5 == 0 and m1.nbody < 100:
          c.recompile(mk, int(rng.randint(1 << 30)), dict(file=corpus.rel(f)), ['corpus'])
    except Violation as e:
      ck.violation('Violation: %s [%s]' % (e, corpus.rel(f)), dict(file=corpus.rel(f)), bucket=e.bucket)
  ck.extra['corpus_models'] = n


LEVEL = 'exploration'
TECHNIQUE = ('differential / metamorphic PBT: the same spec recipe is compiled through six routes (twice, mj_copySpec before '
             'and after compile, rebuild, mj_copyModel, usethread on/off) and compared bit-exactly over all arrays by '
             'reflection; mj_recompile scenarios compare the documented integration-state components bit-exactly')
LEVEL_TEXT = '''Generated MJCF documents (up to 6 meshes + 4 textures so that the asset thread pool runs), mjSpec C-API programs and
corpus files are compiled through every copy/determinism route and compared bit for bit; mj_recompile is exercised with no-op,
real-parameter and structural edits and the integration state is compared component by component. Sampled in the model
dimension; thread schedules are whatever the OS produces.'''
LEVEL_NOTE = '''Not covered: a controlled scheduler or TSan run for the compiler's thread pool (schedule coverage is only what
repeated real runs give), textures/meshes loaded through PNG/OBJ decoders (not in this build). The signature field is excluded
for the usethread comparison only.'''
