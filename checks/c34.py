"""C34 - Name lookup inverts naming for every object type.

Domain : generated models holding named and unnamed objects of every nameable mjtObj type that can be written in MJCF
         without external assets (body/xbody, joint, geom, site, camera, light, mesh, hfield, texture, material, pair,
         exclude, equality, tendon, actuator, sensor, numeric, text, tuple, key; not flex, skin, plugin).  Per type a
         naming scheme is drawn: plain, prefix chains (a, ab, abc...), suffix chains, case/space variants, UTF-8, long
         names (255..3000 bytes, long common prefixes), names that collide in the engine's hash modulo the type's table
         size (found by search with the exported mj_hashString), names hashing to the last bucket (probe wrap-around),
         and the same name list shared with another type.
         Queries: every id in -5..n+5 for every type value in -2..30 and 100..103; every name of the model against every
         type, near misses (one char appended / removed, case flipped, space padded), the empty string.
Oracle : dict model kept by the generator: per type the set of names it wrote, the number of unnamed objects and a numeric
         tag stored in a type-specific model field of each named object.
         id2name: non-NULL results for ids 0..n-1 are exactly the generated names, NULL count == unnamed count, NULL
         outside 0..n-1 and for non-nameable types; name2id(type, id2name(type, i)) == i; name2id(type, name) is the object
         carrying that name's tag; -1 for every string that is not a name of that type.  Same after mj_copyModel.
Non-trivial : >= 2 object types share a name, or two names of one type share a hash bucket.
"""
import ctypes

import numpy as np
from hypothesis import strategies as st

from vf.runner import Violation

UTF8 = ['ü', 'üü', 'é', 'ñandú', '名前', '名', '前名', 'Ω', 'ωΩ', '日本語のなまえ', '😀', 'a😀', 'äa', 'aä']
CASE = ['Name', 'name', 'NAME', 'na me', ' name', 'name ', 'name.1', 'name/1', '0', '-1', '1e3', 'nAme', 'name  ']
PREFIX = ['a', 'ab', 'abc', 'abcd', 'abcde', 'abcdef', 'abcdefg', 'abcdefgh', 'abcdefghi', 'abcdefghij']
SUFFIX = ['z', 'yz', 'xyz', 'wxyz', 'vwxyz', 'uvwxyz', 'tuvwxyz', 'stuvwxyz', 'rstuvwxyz', 'qrstuvwxyz']
LONG = ['L' * 255, 'L' * 256, 'L' * 257, 'L' * 1000, 'L' * 1001, 'L' * 3000, 'L' * 999 + 'a', 'L' * 999 + 'b', 'M' * 512, 'M' * 511 + 'N']
SCHEMES = ['plain', 'prefix', 'suffix', 'case', 'utf8', 'long', 'collide', 'wrap', 'shared', 'shared']

# (type key, enum name, may be unnamed, max count)
TYPES = [('body', 'mjOBJ_BODY', True), ('joint', 'mjOBJ_JOINT', True), ('geom', 'mjOBJ_GEOM', True), ('site', 'mjOBJ_SITE', True),
         ('camera', 'mjOBJ_CAMERA', True), ('light', 'mjOBJ_LIGHT', True), ('mesh', 'mjOBJ_MESH', False),
         ('hfield', 'mjOBJ_HFIELD', False), ('texture', 'mjOBJ_TEXTURE', False), ('material', 'mjOBJ_MATERIAL', False),
         ('pair', 'mjOBJ_PAIR', True), ('exclude', 'mjOBJ_EXCLUDE', True), ('equality', 'mjOBJ_EQUALITY', True),
         ('tendon', 'mjOBJ_TENDON', True), ('actuator', 'mjOBJ_ACTUATOR', True), ('sensor', 'mjOBJ_SENSOR', True),
         ('numeric', 'mjOBJ_NUMERIC', False), ('text', 'mjOBJ_TEXT', False), ('tuple', 'mjOBJ_TUPLE', False), ('key', 'mjOBJ_KEY', True)]


def tag(k):
  return 0.25 + 0.125 * k      # exactly representable in float32 and float64, distinct per object of a type


class Hasher:
  """The engine's hash is used by the generator only to *find* colliding names (never as an oracle)."""

  def __init__(self, lib):
    try:
      f = lib.raw.mj_hashString
      f.argtypes = [ctypes.c_char_p, ctypes.c_uint64]
      f.restype = ctypes.c_uint64
      self.f = f
    except AttributeError:
      self.f = None

  def __call__(self, s, n):
    b = s.encode()
    if self.f is not None:
      return int(self.f(b, n))
    h = 5381                          # documented: http://www.cse.yorku.ca/~oz/hash.html (xor variant), signed chars
    for c in b:
      c = c - 256 if c > 127 else c
      h = (((h << 5) + h) ^ (c & 0xFFFFFFFFFFFFFFFF)) & 0xFFFFFFFFFFFFFFFF
    return h % n

  def find(self, size, bucket, count, stem):
    out = []
    i = 0
    while len(out) < count and i < 200000:
      s = '%s%d' % (stem, i)
      if self(s, size) == bucket:
        out.append(s)
      i += 1
    return out


def make_names(draw, hasher, scheme, k, total, shared_pool, stem):
  """k distinct names for a type whose hash table has 2*total slots."""
  size = 2 * total
  if scheme == 'shared' and shared_pool:
    pool = list(dict.fromkeys(shared_pool))
    names = pool[:k]
  elif scheme == 'prefix':
    names = PREFIX[:k]
  elif scheme == 'suffix':
    names = SUFFIX[:k]
  elif scheme == 'case':
    names = draw(st.permutations(CASE))[:k]
  elif scheme == 'utf8':
    names = draw(st.permutations(UTF8))[:k]
  elif scheme == 'long':
    names = draw(st.permutations(LONG))[:k]
  elif scheme == 'collide':
    names = hasher.find(size, draw(st.integers(0, size - 1)), k, stem)
  elif scheme == 'wrap':
    # fill the last bucket(s) so that linear probing must wrap around to slot 0
    names = hasher.find(size, size - 1, (k + 1) // 2, stem) + hasher.find(size, max(size - 2, 0), k // 2, stem + 'w')
    names = list(dict.fromkeys(names))
  else:
    names = []
  i = 0
  while len(names) < k:              # top up with plain names
    s = '%s_%d' % (stem, i)
    if s not in names:
      names.append(s)
    i += 1
  return names[:k]


@st.composite
def name_models(draw, hasher, maxn=6):
  counts = {}
  for key, _, _ in TYPES:
    counts[key] = draw(st.integers(0, maxn))
  counts['body'] = max(counts['body'], 2)       # reference targets
  counts['joint'] = max(counts['joint'], 1)
  counts['geom'] = max(counts['geom'], 2)
  objs = {}          # key -> list of dict(name or None, tag)
  all_pool = []
  schemes = {}
  for key, _, unnamed_ok in TYPES:
    n = counts[key]
    total = n + (1 if key == 'body' else 0)     # the world body sits in the body table too
    scheme = draw(st.sampled_from(SCHEMES))
    schemes[key] = scheme
    named = [True] * n
    if unnamed_ok:
      named = [draw(st.integers(0, 3)) != 0 for _ in range(n)]
      if key in ('body', 'geom') and n:
        named[0] = named[1] = True
      if key == 'joint' and n:
        named[0] = True
    k = sum(named)
    names = make_names(draw, hasher, scheme, k, max(total, 1), all_pool, key[:2]) if k else []
    if key == 'body':
      names = [('W' + x if x == 'world' else x) for x in names]
    if key in ('body', 'geom', 'joint'):
      # these names are also written into references (objname=, joint=, geom1=...), which MJCF reads as space-separated /
      # trimmed tokens: keep blanks out of reference targets (blank-carrying names are exercised on the other 17 types)
      names = list(dict.fromkeys(x.replace(' ', '_') for x in names))
      while len(names) < k:
        names.append('%s_fill%d' % (key[:2], len(names)))
    it = iter(names)
    objs[key] = [dict(name=(next(it) if named[i] else None), tag=tag(i)) for i in range(n)]
    all_pool = names + all_pool
  # ---------------- render
  def nm(o):
    return ' name="%s"' % o['name'] if o['name'] is not None else ''
  nb = counts['body']
  # distribute joints / geoms / sites / cameras / lights over bodies (index 0..nb-1; -1 = world for non-joints)
  where = {}
  for key in ('joint', 'geom', 'site', 'camera', 'light'):
    lo = 0 if key == 'joint' else -1
    where[key] = [draw(st.integers(lo, nb - 1)) for _ in range(counts[key])]
  parents = [-1] + [draw(st.integers(-1, i - 1)) for i in range(1, nb)]

  def inner(b):
    s = ''
    for key, tagattr in (('joint', 'stiffness'), ('geom', None), ('site', None), ('camera', 'fovy'), ('light', 'cutoff')):
      for i, o in enumerate(objs[key]):
        if where[key][i] == b:
          if key == 'joint':
            s += '<joint%s type="hinge" axis="%d 1 %d" stiffness="%r"/>' % (nm(o), i % 3, i, o['tag'])
          elif key == 'geom':
            s += '<geom%s size="%r" pos="0 0 %d"/>' % (nm(o), o['tag'], i)
          elif key == 'site':
            s += '<site%s size="%r"/>' % (nm(o), o['tag'])
          elif key == 'camera':
            s += '<camera%s fovy="%r"/>' % (nm(o), o['tag'])
          else:
            s += '<light%s cutoff="%r"/>' % (nm(o), o['tag'])
    return s

  def body(i):
    o = objs['body'][i]
    kids = ''.join(body(j) for j in range(nb) if parents[j] == i)
    return '<body%s pos="%r 0 0"><inertial pos="0 0 0" mass="1" diaginertia="1 1 1"/>%s%s</body>' % (nm(o), o['tag'], inner(i), kids)
  world = inner(-1) + ''.join(body(i) for i in range(nb) if parents[i] == -1)
  bnames = [o['name'] for o in objs['body'] if o['name'] is not None]
  gnames = [o['name'] for o in objs['geom'] if o['name'] is not None]
  jname = objs['joint'][0]['name']
  asset = ''
  for i, o in enumerate(objs['mesh']):
    asset += '<mesh%s vertex="0 0 0 1 0 0 0 1 0 0 0 %d"/>' % (nm(o), i + 1)
  for o in objs['hfield']:
    asset += '<hfield%s nrow="2" ncol="2" size="%r 1 1 1"/>' % (nm(o), o['tag'])
  for i, o in enumerate(objs['texture']):
    asset += '<texture%s type="2d" builtin="flat" width="%d" height="2"/>' % (nm(o), i + 2)
    o['tag'] = i + 2
  for o in objs['material']:
    asset += '<material%s shininess="%r"/>' % (nm(o), o['tag'])
  contact = ''
  for i, o in enumerate(objs['pair']):
    contact += '<pair%s geom1="%s" geom2="%s" margin="%r"/>' % (nm(o), gnames[0], gnames[1], o['tag'])
  for i, o in enumerate(objs['exclude']):
    contact += '<exclude%s body1="%s" body2="%s"/>' % (nm(o), bnames[0], bnames[1])
  eq = ''.join('<joint%s joint1="%s" polycoef="%r 1 0 0 0"/>' % (nm(o), jname, o['tag']) for o in objs['equality'])
  tendon = ''.join('<fixed%s stiffness="%r"><joint joint="%s" coef="1"/></fixed>' % (nm(o), o['tag'], jname) for o in objs['tendon'])
  act = ''.join('<motor%s joint="%s" gear="%r"/>' % (nm(o), jname, o['tag']) for o in objs['actuator'])
  sens = ''.join('<jointpos%s joint="%s" cutoff="%r"/>' % (nm(o), jname, o['tag']) for o in objs['sensor'])
  custom = ''.join('<numeric%s data="%r"/>' % (nm(o), o['tag']) for o in objs['numeric'])
  for i, o in enumerate(objs['text']):
    o['tag'] = 'text-%d' % i
    custom += '<text%s data="%s"/>' % (nm(o), o['tag'])
  for i, o in enumerate(objs['tuple']):
    o['tag'] = i % 3 + 1
    custom += '<tuple%s>%s</tuple>' % (nm(o), '<element objtype="body" objname="%s"/>' % bnames[0] * o['tag'])
  keys = ''.join('<key%s time="%r"/>' % (nm(o), o['tag']) for o in objs['key'])
  xml = '<mujoco model="m">'
  if asset:
    xml += '<asset>%s</asset>' % asset
  xml += '<worldbody>%s</worldbody>' % world
  for tagname, body_ in (('contact', contact), ('equality', eq), ('tendon', tendon), ('actuator', act), ('sensor', sens),
                         ('custom', custom), ('keyframe', keys)):
    if body_:
      xml += '<%s>%s</%s>' % (tagname, body_, tagname)
  xml += '</mujoco>'
  return dict(xml=xml, objs=objs, schemes=schemes)


def tag_of(m, key, i):
  if key == 'body':
    return float(m.body_pos[i][0])
  if key == 'joint':
    return float(m.jnt_stiffness[i])
  if key == 'geom':
    return float(m.geom_size[i][0])
  if key == 'site':
    return float(m.site_size[i][0])
  if key == 'camera':
    return float(m.cam_fovy[i])
  if key == 'light':
    return float(m.light_cutoff[i])
  if key == 'hfield':
    return float(m.hfield_size[i][0])
  if key == 'texture':
    return int(m.tex_width[i])
  if key == 'material':
    return float(m.mat_shininess[i])
  if key == 'pair':
    return float(m.pair_margin[i])
  if key == 'equality':
    return float(m.eq_data[i][0])
  if key == 'tendon':
    return float(m.tendon_stiffness[i])
  if key == 'actuator':
    return float(m.actuator_gear[i][0])
  if key == 'sensor':
    return float(m.sensor_cutoff[i])
  if key == 'numeric':
    return float(m.numeric_data[int(m.numeric_adr[i])])
  if key == 'text':
    a, n = int(m.text_adr[i]), int(m.text_size[i])
    return bytes(m.text_data[a:a + n]).rstrip(b'\0').decode()
  if key == 'tuple':
    return int(m.tuple_size[i])
  if key == 'key':
    return float(m.key_time[i])
  return None          # mesh, exclude: no per-object tag


def near_misses(name):
  out = [name + 'x', name + ' ', ' ' + name, name[:-1], name[1:], name.swapcase(), name + name]
  if len(name) > 2:
    out.append(name[:len(name) // 2] + '#' + name[len(name) // 2 + 1:])
  return out


def check_model(ck, lib, hasher, case, m, what):
  E = lib.enums
  objs = case['objs']
  all_names = sorted({o['name'] for lst in objs.values() for o in lst if o['name'] is not None} | {'world'})
  queries = list(dict.fromkeys(all_names + [q for n in all_names[:40] for q in near_misses(n)] + ['', ' ', 'world', 'World', 'm']))
  typevals = {getattr(E, en): key for key, en, _ in TYPES}
  typevals[E.mjOBJ_XBODY] = 'body'
  shared_names = 0
  bucket_share = 0
  nq = 0
  for t in list(range(-2, 31)) + [100, 101, 102, 103]:
    key = typevals.get(t)
    lst = objs.get(key, []) if key else []
    if key == 'body':
      lst = [dict(name='world', tag=0.0)] + lst
    n = len(lst)
    # ---- id2name over and beyond the valid range
    got = {}
    for i in range(-5, n + 6):
      s = lib.mj_id2name(m, t, i)
      if s is not None:
        if not (0 <= i < n):
          raise Violation('%s: mj_id2name(type=%d, id=%d) = %r for an id outside 0..%d' % (what, t, i, s[:50], n - 1), bucket='id2name-range')
        got[i] = s
    want_names = sorted(o['name'] for o in lst if o['name'] is not None)
    if sorted(got.values()) != want_names:
      raise Violation('%s: type %d (%s): mj_id2name yields names %s, the model was written with %s (%d unnamed)' % (
          what, t, key, [x[:30] for x in sorted(got.values())], [x[:30] for x in want_names], n - len(want_names)), bucket='id2name-names')
    # ---- forward: every named object is found under its own name, and it is the object carrying that name's tag
    bytag = {o['name']: o['tag'] for o in lst if o['name'] is not None}
    for i, s in got.items():
      j = lib.mj_name2id(m, t, s)
      if j != i:
        raise Violation('%s: mj_name2id(type=%d, mj_id2name(%d)=%r) = %d' % (what, t, i, s[:60], j), bucket='roundtrip')
      if key and key not in ('mesh', 'exclude'):
        tv = tag_of(m, key, i)
        if tv != bytag[s]:
          raise Violation('%s: %s named %r is object %d whose tag field holds %r, generator gave that name the tag %r' % (
              what, key, s[:60], i, tv, bytag[s]), bucket='identity')
    # ---- every query string
    inv = {s: i for i, s in got.items()}
    for q in queries:
      j = lib.mj_name2id(m, t, q)
      nq += 1
      if j != inv.get(q, -1):
        raise Violation('%s: mj_name2id(type=%d (%s), %r) = %d, expected %d' % (what, t, key, q[:80], j, inv.get(q, -1)), bucket='name2id')
    # ---- evidence: bucket sharing inside this type
    if key and t != E.mjOBJ_XBODY and len(want_names) >= 2:
      hs = [hasher(s, 2 * n) for s in want_names]
      if len(set(hs)) < len(hs):
        bucket_share += 1
  per_type = [set(o['name'] for o in lst if o['name'] is not None) for lst in objs.values()]
  seen = set()
  for s_ in per_type:
    shared_names += len(seen & s_)
    seen |= s_
  return shared_names, bucket_share, nq


def main(ck):
  from vf import mj
  lib = ck.lib('rel')
  hasher = Hasher(lib)
  ck.extra['hash_source'] = 'engine mj_hashString (used only to find colliding names)' if hasher.f is not None else 'python reimplementation'
  ck.rule = ('Hypothesis draws per nameable type a count (0..6), which objects are named, and a naming scheme (plain / prefix / suffix / case+space / '
             'UTF-8 / long / same-bucket collisions / last-bucket wrap-around / shared with another type); every (type value, id) in (-2..30,100..103) x '
             '(-5..n+5) and every (type, string) for all names of the model, near misses and "" is queried. non-trivial = >= 2 types share a name or '
             'two names of one type share a hash bucket; distinct by xml')
  ck.assumptions = ['flex, skin and plugin objects are not generated (need flexcomp / skin assets / plugin registration)',
                    'names avoid XML-special characters (the XML reader is a verification shim, not under test)']

  def test(case):
    try:
      m = lib.model_from_xml(case['xml'])
    except mj.MjError as e:
      ck.discard('compile: ' + str(e)[:60])
      return
    sh, bs, nq = check_model(ck, lib, hasher, case, m, 'compiled')
    m2 = lib.copy_model(m)
    check_model(ck, lib, hasher, case, m2, 'mj_copyModel')
    sch = sorted(set(case['schemes'].values()))
    ck.case(nontrivial=sh > 0 or bs > 0, key=case['xml'],
            sample=dict(xml=case['xml'][:1500], schemes=case['schemes'], shared_names=sh, types_with_bucket_sharing=bs, queries=nq),
            labels=['scheme:' + s for s in sch] + (['shared-name-across-types'] if sh else []) + (['bucket-sharing'] if bs else []))

  ck.run_hypothesis(test, name_models(hasher, maxn=6 if ck.quick else 12), ck.budget(120, 5000), name='names')


LEVEL = 'exploration'
TECHNIQUE = 'property-based testing (Hypothesis model generator with engineered name sets) against a dict model kept by the generator'
LEVEL_TEXT = '''Generated models with named/unnamed objects of 20 nameable object types (+ the xbody alias) and name sets engineered for trouble (prefix chains,
names shared between types, UTF-8, names of 255..3000 bytes, hash-bucket collisions and probe wrap-around found by search). For every type value (valid, alias,
non-nameable, out of range) and every id in -5..n+5, mj_id2name is compared with the generator's dict; every name of the model, near misses and the empty string
are looked up under every type and must return the object whose tag field identifies it, or -1. Repeated on an mj_copyModel copy.'''
LEVEL_NOTE = '''Not generated: flex, skin, plugin objects (their name tables are therefore always empty here; an address mix-up that only involves those three
empty tables is invisible). Mesh and exclude objects carry no identity tag (round trip and name-set equality only). XML-special characters in names are not used.'''
